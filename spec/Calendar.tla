------------------------------ MODULE Calendar ------------------------------
(* Property C05: business-day arithmetic of pyg_base.Calendar and the registry calendar(...).  *)
(*                                                                                             *)
(* Days are proleptic ordinals (Civil.tla); a calendar configuration is a record               *)
(*     c = [hol |-> set of holiday ordinals, wk |-> set of weekend weekdays (Mon = 0),         *)
(*          adj |-> "f" | "p" | "m", lo |-> first day, hi |-> last day of the range]           *)
(* with hol \subseteq lo..hi.                                                                  *)
(*                                                                                             *)
(* Part 1  LAW LEVEL: written from the property statement, by unit steps on ordinals.          *)
(* Part 2  MECHANISM LEVEL: what the code does (guarded adjust loops, the lazily built table   *)
(*         int2dt/dt2int of _populate, loop path for |n| <= 1, table path for |n| > 1).        *)
(*         It is compared with part 1 only inside TLC (MC_Calendar).                           *)
(* Part 3  QUERIES: the vocabulary shared by the generators, the registry machine and the      *)
(*         trace specification: Answer(c, q) / InDomain(c, q) / MechAnswer(c, tab, q).         *)
(* Part 4  REGISTRY: the pure transition functions of the registry state machine               *)
(*         (the machine itself, with variables, is MC_CalendarReg.tla).                        *)
EXTENDS Civil, Sequences, FiniteSets, SequencesExt

\* =============================================================================================
\* Part 1 - law level
\* =============================================================================================
InRange(c, d) == c.lo <= d /\ d <= c.hi
IsBday(c, d)  == Weekday(d) \notin c.wk /\ d \notin c.hol

\* nearest business day on-or-after / on-or-before d, by unit steps (terminates: hol is finite and
\* the weekend never covers the week)
RECURSIVE AdjF(_, _), AdjP(_, _)
AdjF(c, d) == IF IsBday(c, d) THEN d ELSE AdjF(c, d + 1)
AdjP(c, d) == IF IsBday(c, d) THEN d ELSE AdjP(c, d - 1)
\* month of an ordinal from the day of the year (same function as Civil!MonthOf, without the search;
\* MC_Calendar and Trace_Calendar check MonthNo = MonthOf on the days they are asked about)
MonthNo(o) == LET y == YearOf(o)  k == o - DaysBeforeYear(y)  L == IF IsLeap(y) THEN 1 ELSE 0 IN
              IF k <= 31 THEN 1 ELSE IF k <= 59 + L THEN 2 ELSE IF k <= 90 + L THEN 3 ELSE IF k <= 120 + L THEN 4
              ELSE IF k <= 151 + L THEN 5 ELSE IF k <= 181 + L THEN 6 ELSE IF k <= 212 + L THEN 7 ELSE IF k <= 243 + L THEN 8
              ELSE IF k <= 273 + L THEN 9 ELSE IF k <= 304 + L THEN 10 ELSE IF k <= 334 + L THEN 11 ELSE 12
SameMonth(a, b) == YearOf(a) = YearOf(b) /\ MonthNo(a) = MonthNo(b)
\* modified following: 'f' unless that leaves d's month, then 'p'
AdjM(c, d) == IF SameMonth(AdjF(c, d), d) THEN AdjF(c, d) ELSE AdjP(c, d)
Adjust(c, d, a) == CASE a = "f" -> AdjF(c, d) [] a = "p" -> AdjP(c, d) [] a = "m" -> AdjM(c, d)

\* the n-th business day counted from business day b (n < 0: backwards), one business day at a time
\* (defined for a business day b; testing b at every step also keeps TLC from suspending 40 nested steps)
NotABday == -9
RECURSIVE Nth(_, _, _)
Nth(c, b, n) == IF ~IsBday(c, b) THEN NotABday
                ELSE IF n = 0 THEN b
                ELSE IF n > 0 THEN Nth(c, AdjF(c, b + 1), n - 1)
                ELSE Nth(c, AdjP(c, b - 1), n + 1)
AddCount(c, t, n, a) == Nth(c, Adjust(c, t, a), n)

\* signed number of business-day steps from business day x to business day y, by counting days
CountB(c, x, y) == IF x <= y THEN Cardinality({d \in (x + 1)..y : IsBday(c, d)})
                   ELSE 0 - Cardinality({d \in (y + 1)..x : IsBday(c, d)})
Bdays(c, t, u, a) == CountB(c, Adjust(c, t, a), Adjust(c, u, a))

\* the business days x <= d <= y in increasing order (halving keeps the recursion shallow)
RECURSIVE BdaysFromTo(_, _, _)
BdaysFromTo(c, x, y) == IF x > y THEN <<>>
                        ELSE IF x = y THEN (IF IsBday(c, x) THEN <<x>> ELSE <<>>)
                        ELSE LET m == (x + y) \div 2 IN BdaysFromTo(c, x, m) \o BdaysFromTo(c, m + 1, y)
\* the business days between the adjusted endpoints, increasing
DrangeB(c, t, u) == BdaysFromTo(c, Adjust(c, t, c.adj), Adjust(c, u, c.adj))

\* =============================================================================================
\* Part 2 - mechanism level (the code of today, _drange.py)
\* =============================================================================================
KeyErr  == -1          \* dict lookup failed
Diverge == -2          \* the loop would not terminate
MIsHol(c, d) == Weekday(d) \in c.wk \/ d \in c.hol                    \* is_holiday
\* adjust 'f': while is_holiday(t) and t <= t1: t += DAY ; while t > t1 and weekend(t): t += DAY
RECURSIVE MF1(_, _), MF2(_, _), MP1(_, _), MP2(_, _)
MF1(c, t) == IF MIsHol(c, t) /\ t <= c.hi THEN MF1(c, t + 1) ELSE t
MF2(c, t) == IF t > c.hi /\ Weekday(t) \in c.wk THEN MF2(c, t + 1) ELSE t
MP1(c, t) == IF MIsHol(c, t) /\ t >= c.lo THEN MP1(c, t - 1) ELSE t
MP2(c, t) == IF t < c.lo /\ Weekday(t) \in c.wk THEN MP2(c, t - 1) ELSE t
MAdjF(c, d) == MF2(c, MF1(c, d))
MAdjP(c, d) == MP2(c, MP1(c, d))
\* 'm' compares the month *number* only
MAdjM(c, d) == IF MonthNo(MAdjF(c, d)) # MonthNo(d) THEN MAdjP(c, d) ELSE MAdjF(c, d)
MAdjust(c, d, a) == CASE a = "f" -> MAdjF(c, d) [] a = "p" -> MAdjP(c, d) [] a = "m" -> MAdjM(c, d)

\* _populate: int2dt as a sequence (position i here = clock i - 1 there); dt2int = PosIn
BTable(c) == BdaysFromTo(c, c.lo, c.hi)
PosIn(tab, d) == LET S == {i \in 1..Len(tab) : tab[i] = d} IN IF S = {} THEN 0 ELSE CHOOSE i \in S : TRUE
At(tab, i) == IF i \in 1..Len(tab) THEN tab[i] ELSE KeyErr

\* add, |n| <= 1: res = t + n*DAY; while is_holiday(res): res += n*DAY
RECURSIVE MLoop(_, _, _)
MLoop(c, r, s) == IF MIsHol(c, r) THEN MLoop(c, r + s, s) ELSE r
AddLoop(c, t, n, a) == LET b == MAdjust(c, t, a) IN
                       IF n = 0 THEN (IF MIsHol(c, b) THEN Diverge ELSE b) ELSE MLoop(c, b + n, n)
\* add, |n| > 1: int2dt[dt2int[t] + n]
AddTable(c, tab, t, n, a) == LET p == PosIn(tab, MAdjust(c, t, a)) IN IF p = 0 THEN KeyErr ELSE At(tab, p + n)
MAdd(c, tab, t, n, a) == IF n > 1 \/ n < -1 THEN AddTable(c, tab, t, n, a) ELSE AddLoop(c, t, n, a)
MBdays(c, tab, t, u, a) == LET p == PosIn(tab, MAdjust(c, t, a))  r == PosIn(tab, MAdjust(c, u, a))
                           IN IF p = 0 \/ r = 0 THEN <<KeyErr>> ELSE <<r - p>>
MDrange(c, tab, t, u) == LET p == PosIn(tab, MAdjust(c, t, c.adj))  r == PosIn(tab, MAdjust(c, u, c.adj))
                         IN IF p = 0 \/ r = 0 THEN <<KeyErr>> ELSE [i \in 1..(r - p + 1) |-> tab[p + i - 1]]
\* clock: dt2int.get(date, dt2int[adjust(date)])
MClock(c, tab, t) == IF PosIn(tab, t) # 0 THEN PosIn(tab, t) - 1 ELSE PosIn(tab, MAdjust(c, t, c.adj)) - 1

\* =============================================================================================
\* Part 3 - queries
\* =============================================================================================
\* A query is a record [op, t, n, u, a]: t, u days, n an int, a \in {"", "f", "p", "m"} ("" = the
\* calendar's own convention, anything else = the convention passed with the call, which then
\* replaces the calendar's own); fields a query does not use are 0 / "".  Answers are sequences of
\* integers (days as ordinals, booleans as 0/1).
\*   is_bday(t)  is_holiday(t)  adjust(t, a)  add(t, n, a)  dt_bump(t, 'nb', a)  bump0(t, n, a) = dt_bump(t, '+0b' | '-0b', a)
\*   bdays(t, u, a)  drange(t, u, '1b') (u < t: the empty list unless both adjust to one day)  clock_diff = clock(u) - clock(t)
\*   add_inv = add(add(t, n), -n)   bdays_add = bdays(t, add(t, n))   add_twice = add(add(t, n), n), n = +-1
\*   add_split = add(add(t, n - s), s), s = sign(n)  (the indexed path against the single step on top of it)
\* REALISATION of the day(s) of a query (field r, optional): the statement speaks of days; the object that carries a day
\* into the call is the caller's business.  Law: every answer is a function of the DAY of t (and u) - Answer never reads
\* q.r - and does not depend on what the calendar was asked before.
\*   "dt" midnight datetime   "tod" datetime with a time of day   "ts" pandas Timestamp at midnight
\*   "tstod" pandas Timestamp one microsecond before the next day   "date" datetime.date
Reals == {"dt", "tod", "ts", "tstod", "date"}
Adj(c, q) == IF q.a = "" THEN c.adj ELSE q.a
B(b) == IF b THEN 1 ELSE 0
Sgn(n) == IF n > 0 THEN 1 ELSE IF n < 0 THEN -1 ELSE 0

Answer(c, q) ==
    CASE q.op = "is_bday"    -> <<B(IsBday(c, q.t))>>
      [] q.op = "is_holiday" -> <<B(~IsBday(c, q.t))>>
      [] q.op = "adjust"     -> <<Adjust(c, q.t, Adj(c, q))>>
      [] q.op = "add"        -> <<AddCount(c, q.t, q.n, Adj(c, q))>>
      [] q.op = "dt_bump"    -> <<AddCount(c, q.t, q.n, Adj(c, q))>>
      [] q.op = "bump0"      -> <<IF q.n >= 0 THEN AdjF(c, q.t) ELSE AdjP(c, q.t)>>
      [] q.op = "bdays"      -> <<Bdays(c, q.t, q.u, Adj(c, q))>>
      [] q.op = "drange"     -> DrangeB(c, q.t, q.u)
      [] q.op = "clock_diff" -> <<Bdays(c, q.t, q.u, c.adj)>>
      [] q.op = "add_inv"    -> <<AddCount(c, AddCount(c, q.t, q.n, Adj(c, q)), 0 - q.n, Adj(c, q))>>
      [] q.op = "bdays_add"  -> <<Bdays(c, q.t, AddCount(c, q.t, q.n, Adj(c, q)), Adj(c, q))>>
      [] q.op = "add_twice"  -> <<AddCount(c, AddCount(c, q.t, q.n, Adj(c, q)), q.n, Adj(c, q))>>
      [] q.op = "add_split"  -> <<AddCount(c, AddCount(c, q.t, q.n - Sgn(q.n), Adj(c, q)), Sgn(q.n), Adj(c, q))>>

\* Named deviation IsHolidayUnpinned: the statement defines is_bday only.  is_holiday is accepted
\* both as "not a business day" (today's code) and as "a listed holiday".
AcceptedAnswers(c, q) == IF q.op = "is_holiday" THEN {Answer(c, q), <<B(q.t \in c.hol)>>} ELSE {Answer(c, q)}

\* Named deviation BdaysOpenEnd: the statement pins bdays(t, u) only where u is a business day
\* (u = add(t, n)); for other u (and for clock differences from/to non-business days) any answer
\* is accepted.
Pinned(c, q) == CASE q.op = "bdays"      -> IsBday(c, q.u)
                  [] q.op = "clock_diff" -> IsBday(c, q.u) /\ IsBday(c, q.t)
                  [] OTHER -> TRUE

\* The claimed domain: the date(s) asked about, every intermediate day and the result lie in the
\* calendar's range (results that leave [lo, hi] are outside the claim).
AllIn(c, S) == \A d \in S : InRange(c, d)
InDomain(c, q) ==
    LET a == Adj(c, q) IN
    CASE q.op \in {"is_bday", "is_holiday"} -> InRange(c, q.t)
      [] q.op = "adjust"  -> AllIn(c, {q.t, Adjust(c, q.t, a)})
      [] q.op = "bump0"   -> AllIn(c, {q.t, AdjF(c, q.t), AdjP(c, q.t)})
      [] q.op \in {"add", "dt_bump", "add_inv", "bdays_add", "add_twice", "add_split"} ->
            /\ AllIn(c, {q.t, Adjust(c, q.t, a), AddCount(c, q.t, q.n, a)})
            /\ q.op = "add_twice" => q.n \in {-1, 1} /\ InRange(c, AddCount(c, q.t, 2 * q.n, a))
            /\ q.op = "add_split" => q.n # 0
      [] q.op \in {"bdays", "clock_diff"} -> AllIn(c, {q.t, q.u, Adjust(c, q.t, a), Adjust(c, q.u, a)})
      [] q.op = "drange"  -> AllIn(c, {q.t, q.u, Adjust(c, q.t, c.adj), Adjust(c, q.u, c.adj)})

\* BEYOND THE RANGE.  A question can be POSED when it is well formed and the day(s) it names lie in the calendar's range
\* (the quantifier: "every day t in the calendar's range and every n in [-40, 40]").  When an adjusted day, an
\* intermediate day or the result leaves [lo, hi] the calendar cannot look the day up:
\* Named deviation RefusalBeyondRange: there the call may REFUSE (raise one of Refusals) - but an answer, if one is given,
\* is still the day that day-by-day counting gives (holidays lie inside the range, outside it only weekends are skipped);
\* never another date.
WellQ(q) == /\ q.op = "add_twice" => q.n \in {-1, 1}
            /\ q.op = "add_split" => q.n # 0
TwoDays(q) == q.op \in {"bdays", "drange", "clock_diff"}
Posed(c, q) == WellQ(q) /\ InRange(c, q.t) /\ (TwoDays(q) => InRange(c, q.u))
Refusals == {"KeyError", "IndexError", "ValueError"}
RefusalsFor(c, q) == IF InDomain(c, q) THEN {} ELSE Refusals
\* the outcome out = [kind |-> "val", v |-> answer] | [kind |-> "exc", cls |-> class name] of a posed, pinned question is explained
Explained(c, q, out) == \/ out.kind = "val" /\ out.v \in AcceptedAnswers(c, q)
                        \/ out.kind = "exc" /\ out.cls \in RefusalsFor(c, q)

\* does the code build the table for this query?  (mechanism; used by the registry machine)
Populates(q) == \/ q.op \in {"bdays", "drange", "clock_diff", "bdays_add"}
                \/ q.op \in {"add", "dt_bump", "add_inv"} /\ (q.n > 1 \/ q.n < -1)
                \/ q.op = "add_split" /\ (q.n > 2 \/ q.n < -2)

\* (a refusal of the inner call is the refusal of the composed question)
MAddE(c, tab, t, n, a) == IF t < 0 THEN t ELSE MAdd(c, tab, t, n, a)
MBdaysE(c, tab, t, u, a) == IF u < 0 THEN <<u>> ELSE MBdays(c, tab, t, u, a)
MRefused(ans) == \E i \in 1..Len(ans) : ans[i] = KeyErr
\* what the code of today computes for q, given the table object `tab` it holds or builds
MechAnswer(c, tab, q) ==
    LET a == Adj(c, q) IN
    CASE q.op = "is_bday"    -> <<B(~MIsHol(c, q.t))>>
      [] q.op = "is_holiday" -> <<B(MIsHol(c, q.t))>>
      [] q.op = "adjust"     -> <<MAdjust(c, q.t, a)>>
      [] q.op = "add"        -> <<MAdd(c, tab, q.t, q.n, a)>>
      [] q.op = "dt_bump"    -> <<MAdd(c, tab, q.t, q.n, a)>>
      [] q.op = "bump0"      -> <<MAdd(c, tab, IF q.n >= 0 THEN MAdjF(c, q.t) ELSE MAdjP(c, q.t), 0, a)>>
      [] q.op = "bdays"      -> MBdays(c, tab, q.t, q.u, a)
      [] q.op = "drange"     -> MDrange(c, tab, q.t, q.u)
      [] q.op = "clock_diff" -> <<MClock(c, tab, q.u) - MClock(c, tab, q.t)>>
      [] q.op = "add_inv"    -> <<MAddE(c, tab, MAdd(c, tab, q.t, q.n, a), 0 - q.n, a)>>
      [] q.op = "bdays_add"  -> MBdaysE(c, tab, q.t, MAdd(c, tab, q.t, q.n, a), a)
      [] q.op = "add_twice"  -> <<MAddE(c, tab, MAdd(c, tab, q.t, q.n, a), q.n, a)>>
      [] q.op = "add_split"  -> <<MAddE(c, tab, MAdd(c, tab, q.t, q.n - Sgn(q.n), a), Sgn(q.n), a)>>

\* =============================================================================================
\* Part 4 - the registry  calendar(key, ...)  as pure transition functions
\* =============================================================================================
\* ---- the parameters of a registration (law level) ---------------------------------------------
\* calendar(key | cal, holidays, weekend, t0, t1): every parameter is either NOT GIVEN or GIVEN, and a
\* given holiday list / weekend may be EMPTY.  A parameter is a sequence: <<>> = not given, <<v>> =
\* given with value v; P = [hol, wk, lo, hi].  "Registered with" (the statement) is read literally:
\*   by key     the calendar described by the call: what is given, and for what is not given the
\*              documented defaults (no holidays, Sat-Sun, 1900-01-01 .. 2300-01-01)
\*   by object  calendar(cal, ...) derives from cal: what is given replaces, what is not given is cal's
\* A call that gives nothing registers nothing new (by key: a fetch; by object: cal itself).
TMin == Ord(1900, 1, 1)
TMax == Ord(2300, 1, 1)
Given(p) == p # <<>>
ParamOr(p, dflt) == IF p = <<>> THEN dflt ELSE p[1]
AnyGiven(P) == Given(P.hol) \/ Given(P.wk) \/ Given(P.lo) \/ Given(P.hi)
NoParams == [hol |-> <<>>, wk |-> <<>>, lo |-> <<>>, hi |-> <<>>]
RegisteredCfg(P) == [hol |-> ParamOr(P.hol, {}), wk |-> ParamOr(P.wk, {5, 6}), adj |-> "m",
                     lo |-> ParamOr(P.lo, TMin), hi |-> ParamOr(P.hi, TMax)]
\* (the convention of a derived calendar is not pinned by the statement: "?")
DerivedCfg(c, P) == [hol |-> ParamOr(P.hol, c.hol), wk |-> ParamOr(P.wk, c.wk), adj |-> "?",
                     lo |-> ParamOr(P.lo, c.lo), hi |-> ParamOr(P.hi, c.hi)]
\* the configurations the statement speaks about: holidays inside a non-empty range
WellCfg(c) == c.lo <= c.hi /\ \A d \in c.hol : InRange(c, d)
\* a range short enough for its table to be written down (the default range has 146 098 days: its
\* calendars are asked loop-path questions only)
Bounded(c) == c.hi - c.lo <= 400

\* ---- the mechanism: a heap of calendar objects and the module-level map key -> object ---------
\* state  st = [heap |-> sequence of calendar objects, reg |-> [key -> position in heap, 0 = none]]
\* object    = [key, cfg, status, pop, tab]
\*    status "loose" (constructed with Calendar(...), never registered), "live" (what reg[key]
\*    points to), "dead" (displaced from the registry; the statement says nothing about old handles
\*    until they are registered again with calendar(handle))
\*    pop / tab: the lazily built table (mechanism): built from cfg at the first populating query
NewObj(k, cfg, status) == [key |-> k, cfg |-> cfg, status |-> status, pop |-> FALSE, tab |-> <<>>]
Displace(heap, k, keep) == [i \in DOMAIN heap |-> IF heap[i].key = k /\ heap[i].status = "live" /\ i # keep
                                                  THEN [heap[i] EXCEPT !.status = "dead"] ELSE heap[i]]
\* a new object with configuration cfg takes over key k
DoRegister(st, k, cfg) ==
    LET h == Append(Displace(st.heap, k, 0), NewObj(k, cfg, "live"))
    IN  [heap |-> h, reg |-> [st.reg EXCEPT ![k] = Len(h)]]
\* calendar(k, ...) with at least one parameter given, or on a key that is not registered: always a new
\* object (modified following); with nothing given on a registered key: no change
DoRegisterKey(st, k, P) == IF st.reg[k] # 0 /\ ~AnyGiven(P) THEN st ELSE DoRegister(st, k, RegisteredCfg(P))
\* Calendar(k, holidays, weekend, t0, t1, adj): an object outside the registry
DoConstruct(st, k, cfg) == [st EXCEPT !.heap = Append(st.heap, NewObj(k, cfg, "loose"))]
\* calendar(cal): the object itself is registered under its own key
DoRegisterObject(st, o) ==
    LET k == st.heap[o].key
        h == [Displace(st.heap, k, o) EXCEPT ![o].status = "live"]
    IN  [heap |-> h, reg |-> [st.reg EXCEPT ![k] = o]]
\* calendar(cal, ...) with at least one parameter given: a new calendar under cal's key derived from cal
DoRegisterObjectWith(st, o, P) ==
    IF ~AnyGiven(P) THEN DoRegisterObject(st, o)
    ELSE LET old == st.heap[o] IN DoRegister(st, old.key, DerivedCfg(old.cfg, P))
\* ---- the caller's own actions on a handle it holds (a loose object: made with Calendar(...), a copy) --------------
\* obj.adj = a / obj['adj'] = a: the convention is an attribute of the calendar object; from now on the object IS the
\* configuration with adj = a (law: every later answer "by the calendar's own convention" is by a - no answer given
\* under the old convention may survive).  Nothing else of the object changes (mechanism: the table stays).
DoSetAdj(st, o, a) == [st EXCEPT !.heap[o].cfg.adj = a]
\* Calendar(obj) / obj.copy(): another calendar object with the configuration obj has NOW; from then on the two are
\* independent (mechanism: a shallow copy - the copy holds the very table of the original, if that was built)
DoCopy(st, o) == [st EXCEPT !.heap = Append(st.heap, [st.heap[o] EXCEPT !.status = "loose"])]
\* obj(adj = a): a copy with the convention a; obj keeps its own
DoCopyWith(st, o, a) == LET s2 == DoCopy(st, o) IN DoSetAdj(s2, Len(s2.heap), a)
\* calendar(k) on a registered key: what the fetched calendar says about itself
View(st, k) == LET c == st.heap[st.reg[k]].cfg IN [hol |-> SetToSortSeq(c.hol, <), wk |-> SetToSortSeq(c.wk, <), adj |-> c.adj]
\* a query on object o (through calendar(k) or, for a loose object, through its handle)
Populate(ob) == IF ob.pop THEN ob ELSE [ob EXCEPT !.pop = TRUE, !.tab = BTable(ob.cfg)]
DoQuery(st, o, q) == IF Populates(q) THEN [st EXCEPT !.heap[o] = Populate(st.heap[o])] ELSE st
\* the table the mechanism would use for q on object ob
TabFor(ob) == IF ob.pop THEN ob.tab ELSE BTable(ob.cfg)
=============================================================================
