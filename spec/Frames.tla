------------------------------- MODULE Frames -------------------------------
(* Extension X06: the timeseries helpers of _pandas.py that assemble frames and take them apart *)
(* (df_concat, as_series, df_column, df_recolumn, df_columns, np_reindex,                        *)
(* df_drop_index_duplicates) and the cell-wise helpers (mask2v, df_apply, sf).                   *)
(*                                                                                             *)
(* Time is a positive integer, cells are those of Series.tla: NaN (a tag), an exact rational    *)
(* VFlt(p, q) in lowest terms, a boolean.  The objects of this module keep what Series.tla      *)
(* forgets - the ORDER of rows and of columns and the header of every column - because that is  *)
(* what concatenation, column access and the removal of duplicates are about:                   *)
(*   [k |-> "s",  t |-> <<k1, k2, ..>>, v |-> <<cell, ..>>]        a Series, rows in index order   *)
(*                                                 (any order, stamps may repeat)               *)
(*   [k |-> "pf", t |-> rows, h |-> <<header, ..>>, v |-> <<col, ..>>]   a DataFrame; a header is  *)
(*                                                 <<"s", name>> (a string) or <<"i", n>> (int)  *)
(*   [k |-> "a", n |-> length, v |-> <<cell, ..>>]  a 1-d array                                   *)
(*   [k |-> "m", rows |-> number of rows, v |-> <<col, ..>>]  a 2-d array, column by column       *)
(*   (no two kinds have the same set of fields: TLC compares records field by field)             *)
(*   [k |-> "c", v |-> cell]  a number   [k |-> "x", id |-> n]  any other object, known by identity *)
(*   [k |-> "l", items |-> <<..>>]   [k |-> "d", keys |-> <<..>>, items |-> <<..>>]   containers   *)
(*   [k |-> "bycol", h |-> headers, v |-> cells]   a Series with one value per column            *)
(* A series whose stamps increase strictly is also an object of Series.tla; its operators       *)
(* (ReindexS, Recolumn, CommonCols, AddC ...) are used where the two views meet.  Filling is the  *)
(* law of Fill.tla (C12) and cutting the law of Slice.tla (C13), both reached through an         *)
(* encoding of cells as position codes.                                                          *)
EXTENDS Series, FiniteSetsExt
Fl == INSTANCE Fill
Sl == INSTANCE Slice

\* ---------------------------------------------------------------------------------------------
\* objects
\* ---------------------------------------------------------------------------------------------
HS(name) == <<"s", name>>
HI(n)    == <<"i", n>>
NoName   == <<"n", 0>>                      \* "no name": a Series has no header, `col = None`
Ser(t, v)     == [k |-> "s", t |-> t, v |-> v]
Frm(t, h, v)  == [k |-> "pf", t |-> t, h |-> h, v |-> v]
Scal(c)       == [k |-> "c", v |-> c]
Arr1(v)       == [k |-> "a", n |-> Len(v), v |-> v]
Arr2(cols, n) == [k |-> "m", rows |-> n, v |-> cols]
IsSer(o)    == o.k = "s"
IsFrm(o)    == o.k = "pf"
IsPd(o)     == o.k \in {"s", "pf"}
IsPseudo(o) == IsFrm(o) /\ Len(o.h) = 1            \* a "pseudo-series": one column and a name
IsWide(o)   == IsFrm(o) /\ Len(o.h) > 1            \* a "proper" frame
IsArr1(o)   == o.k = "a"
IsArr2(o)   == o.k = "m"
IsNumO(o)    == o.k = "c"
Width(o)    == IF IsFrm(o) THEN Len(o.h) ELSE IF IsArr2(o) THEN Len(o.v) ELSE 1
ColOf(o, j) == IF IsFrm(o) \/ IsArr2(o) THEN o.v[j] ELSE o.v
Stamps(o)   == Range(o.t)
Increasing(ts) == \A i \in 1..(Len(ts) - 1) : ts[i] < ts[i + 1]
UniqueHeaders(o) == \A i, j \in 1..Len(o.h) : o.h[i] = o.h[j] => i = j
RowOf(o, x) == CHOOSE i \in 1..Len(o.t) : o.t[i] = x
PosIn(ts, x) == CHOOSE i \in 1..Len(ts) : ts[i] = x
NaNs(n) == [i \in 1..n |-> NaNC]
\* the rows at the positions of P (a set), in their order
KeepPos(o, P) ==
    LET ix == SelectSeq([i \in 1..Len(o.t) |-> i], LAMBDA i : i \in P)
        pick(s) == [r \in 1..Len(ix) |-> s[ix[r]]]
    IN  IF IsSer(o) THEN Ser(pick(o.t), pick(o.v))
        ELSE Frm(pick(o.t), o.h, [j \in 1..Len(o.h) |-> pick(o.v[j])])
\* the two views of a series / of a frame with string headers in listing order
ToS(o) == [k |-> "s", t |-> o.t, v |-> o.v]
ColNames(o) == [j \in 1..Len(o.h) |-> o.h[j][2]]
PF(f) == Frm(f.t, [j \in 1..Len(f.c) |-> HS(f.c[j])], f.v)                 \* Series.tla frame -> frame
ToF(o) == MkF(Stamps(o), Range(ColNames(o)), LAMBDA c, x : o.v[PosIn(ColNames(o), c)][RowOf(o, x)])

\* outcomes of a call
Val(x)  == [kind |-> "val", v |-> x]
Exc(cls) == [kind |-> "exc", cls |-> cls]

\* ---------------------------------------------------------------------------------------------
\* filling along time = Fill.tla's law on position codes (the cell in row i is coded i, NaN is -1)
\* ---------------------------------------------------------------------------------------------
Encode(col) == [i \in 1..Len(col) |-> IF IsNaN(col[i]) THEN Fl!NaN ELSE i]
Decode(col, enc) == [i \in 1..Len(enc) |-> IF enc[i] = Fl!NaN THEN NaNC ELSE col[enc[i]]]
\* a method: <<"ffill", 0>> <<"bfill", 0>> <<"const", cell>>; lim = 0 stands for limit = None.
\* A constant is written where the column is NaN (with a limit the statement of C12 admits two
\* readings, ConstLimit: the constant methods of this module are used without a limit).
FillCol(col, m, lim) ==
    CASE m[1] = "ffill" -> Decode(col, Fl!Ffill(Encode(col), lim))
      [] m[1] = "bfill" -> Decode(col, Fl!Bfill(Encode(col), lim))
      [] m[1] = "const" -> [i \in 1..Len(col) |-> IF IsNaN(col[i]) THEN m[2] ELSE col[i]]
RECURSIVE FillColAll(_, _, _)
FillColAll(col, ms, lim) == IF ms = <<>> THEN col ELSE FillColAll(FillCol(col, Head(ms), lim), Tail(ms), lim)
FillRows(o, ms, lim) == IF IsSer(o) THEN [o EXCEPT !.v = FillColAll(o.v, ms, lim)]
                        ELSE [o EXCEPT !.v = [j \in 1..Len(o.h) |-> FillColAll(o.v[j], ms, lim)]]

\* ---------------------------------------------------------------------------------------------
\* df_concat, side by side (axis = 1)
\* operands: series and frames on strictly increasing stamps, numbers (a constant column), 1-d
\* arrays as long as the joint index (a column given by position)
\* ---------------------------------------------------------------------------------------------
PdOf(xs) == SelectSeq(xs, IsPd)
JointStamps(xs, join) ==
    LET p == PdOf(xs)  sets == [i \in 1..Len(p) |-> Stamps(p[i])]
    IN  IF join = "outer" THEN UnionAll(sets) ELSE InterAll(sets)
\* the cell of column j of operand o at time x, T being the joint index
CellAt(o, j, x, T) ==
    CASE IsNumO(o)  -> o.v
      [] IsArr1(o) -> o.v[PosIn(T, x)]
      [] OTHER     -> IF x \in Stamps(o) THEN ColOf(o, j)[RowOf(o, x)] ELSE NaNC
FlatCols(xs) == FlattenSeq([i \in 1..Len(xs) |-> [j \in 1..Width(xs[i]) |-> <<i, j>>]])
\* one column per input column, in input order.  Without names the headers are not pinned
\* (named deviation DefaultHeaders): a frame keeps its own, the others are written as NoName and
\* the drivers compare headers only where `pinned` says so.
OwnHeader(o, j) == IF IsFrm(o) THEN o.h[j] ELSE NoName
SideBySide(xs, join) ==
    LET T == Asc(JointStamps(xs, join))  fc == FlatCols(xs) IN
    Frm(T, [n \in 1..Len(fc) |-> OwnHeader(xs[fc[n][1]], fc[n][2])],
        [n \in 1..Len(fc) |-> [r \in 1..Len(T) |-> CellAt(xs[fc[n][1]], fc[n][2], T[r], T)]])
\* names: [k |-> "none"] | [k |-> "list", v |-> <<name, ..>>] (also the keys of a dict of inputs, and a
\*        single string for a single column) | [k |-> "map", from |-> <<..>>, to |-> <<..>>] (a renaming)
Renamed(h, names) ==
    CASE names.k = "none" -> h
      [] names.k = "list" -> [n \in 1..Len(h) |-> HS(names.v[n])]
      [] names.k = "map"  -> [n \in 1..Len(h) |-> IF \E q \in 1..Len(names.from) : HS(names.from[q]) = h[n]
                                                  THEN HS(names.to[CHOOSE q \in 1..Len(names.from) : HS(names.from[q]) = h[n]]) ELSE h[n]]
HeadersPinned(xs, names) == names.k # "none" \/ \A i \in 1..Len(xs) : IsFrm(xs[i])
ConcatDomain(xs, names, join) ==
    /\ PdOf(xs) # <<>>
    /\ \A i \in 1..Len(xs) : IsPd(xs[i]) => Increasing(xs[i].t)
    /\ \A i \in 1..Len(xs) : IsArr1(xs[i]) => Len(xs[i].v) = Cardinality(JointStamps(xs, join))
    /\ names.k = "list" => Len(names.v) = Len(FlatCols(xs))
    /\ names.k = "map" => \A i \in 1..Len(xs) : IsFrm(xs[i])
Concat1(xs, names, join, ms, lim) ==
    LET raw == SideBySide(xs, join) IN FillRows([raw EXCEPT !.h = Renamed(raw.h, names)], ms, lim)

\* ---------------------------------------------------------------------------------------------
\* df_concat, stacked (axis = 0): the rows of the inputs one after the other, in input order
\*   single-column inputs (series, pseudo-series): a pseudo-series with the name asked for; without
\*   a name, with the header all inputs share if they are all pseudo-series with one header; a
\*   series otherwise.   Proper frames (string headers): the columns are the union (outer) or the
\*   intersection (inner) of the inputs' columns, listed in the order of ColU (their order is not
\*   part of the statement); a column an input lacks is NaN on its rows.
\* ---------------------------------------------------------------------------------------------
StackHeader(xs, name) ==
    IF name # NoName THEN name
    ELSE LET hs == {IF IsSer(xs[i]) THEN NoName ELSE xs[i].h[1] : i \in 1..Len(xs)}
         IN  IF Cardinality(hs) = 1 THEN CHOOSE h \in hs : TRUE ELSE NoName
StackSingles(xs, name) ==
    LET t == FlattenSeq([i \in 1..Len(xs) |-> xs[i].t])
        v == FlattenSeq([i \in 1..Len(xs) |-> ColOf(xs[i], 1)])
        h == StackHeader(xs, name)
    IN  IF h = NoName THEN Ser(t, v) ELSE Frm(t, <<h>>, <<v>>)
StackWide(xs, join) ==
    LET sets == [i \in 1..Len(xs) |-> Range(ColNames(xs[i]))]
        cs == ColSeq(IF join = "outer" THEN UnionAll(sets) ELSE InterAll(sets))
        col(o, c) == IF c \in Range(ColNames(o)) THEN o.v[PosIn(ColNames(o), c)] ELSE NaNs(Len(o.t))
    IN  Frm(FlattenSeq([i \in 1..Len(xs) |-> xs[i].t]), [j \in 1..Len(cs) |-> HS(cs[j])],
            [j \in 1..Len(cs) |-> FlattenSeq([i \in 1..Len(xs) |-> col(xs[i], cs[j])])])
StackDomain(xs) == /\ Len(xs) >= 1
                   /\ \/ \A i \in 1..Len(xs) : IsSer(xs[i]) \/ IsPseudo(xs[i])
                      \/ \A i \in 1..Len(xs) : IsWide(xs[i]) /\ UniqueHeaders(xs[i]) /\ \A j \in 1..Len(xs[i].h) : xs[i].h[j][1] = "s"
Concat0(xs, name, join) == IF IsWide(xs[1]) THEN StackWide(xs, join) ELSE StackSingles(xs, name)

\* ---------------------------------------------------------------------------------------------
\* as_series: series <-> pseudo-series
\* ---------------------------------------------------------------------------------------------
AsSer1(x, col) ==
    IF col = NoName THEN (IF IsPseudo(x) THEN Ser(x.t, x.v[1]) ELSE x)
    ELSE IF IsSer(x) THEN Frm(x.t, <<col>>, <<x.v>>)
    ELSE IF IsPseudo(x) THEN [x EXCEPT !.h = <<col>>]
    ELSE x
\* a list: untouched if a proper frame is among its members; otherwise every member is converted
\* with the name asked for - without one, with the header the pseudo-series share when
\* unique_column is set and all timeseries members are pseudo-series with that one header
AsSerList(xs, col, uc) ==
    IF \E i \in 1..Len(xs) : IsWide(xs[i]) THEN xs
    ELSE LET pds == PdOf(xs)
             hs  == {IF IsSer(pds[i]) THEN NoName ELSE pds[i].h[1] : i \in 1..Len(pds)}
             c   == IF col = NoName /\ uc /\ Cardinality(hs) = 1 /\ hs # {NoName} THEN CHOOSE h \in hs : TRUE ELSE col
         IN  [i \in 1..Len(xs) |-> AsSer1(xs[i], c)]

\* ---------------------------------------------------------------------------------------------
\* df_column: a column by name, or by position i (0-based) of n in frames without proper headers and in
\* 2-d arrays; `dflt` (an object) for a column that is not there; -1 stands for i = None / n = None
\* ---------------------------------------------------------------------------------------------
ColAsSer(x, j) == Ser(x.t, x.v[j])
Column1(x, name, i, n, dflt) ==
    IF IsFrm(x) THEN
        IF Len(x.h) = 1 THEN Val(ColAsSer(x, 1))
        ELSE IF name # NoName /\ \E j \in 1..Len(x.h) : x.h[j] = name THEN Val(ColAsSer(x, PosIn(x.h, name)))
        ELSE IF name = NoName /\ i # -1 THEN
             IF UniqueHeaders(x) THEN Exc("ValueError")
             ELSE IF n # -1 /\ Len(x.h) # n THEN Exc("ValueError")
             ELSE IF i < Len(x.h) THEN Val(ColAsSer(x, i + 1)) ELSE Val(dflt)
        ELSE Val(dflt)
    ELSE IF IsArr2(x) THEN
        IF Len(x.v) = 1 THEN Val(Arr1(x.v[1]))
        ELSE IF i # -1 THEN
             IF n # -1 /\ Len(x.v) # n THEN Exc("ValueError")
             ELSE IF i < Len(x.v) THEN Val(Arr1(x.v[i + 1])) ELSE Val(dflt)
        ELSE Val(x)
    ELSE Val(x)
\* by name: frames with unique headers, or the name is not duplicated; by position: i >= 0
ColumnDomain(x, name, i, n) ==
    /\ i >= -1 /\ n >= -1
    /\ IsFrm(x) => (name = NoName \/ Cardinality({j \in 1..Len(x.h) : x.h[j] = name}) <= 1)
\* containers are looped through; the first error is the outcome
RECURSIVE ColumnTree(_, _, _, _, _)
ColumnTree(x, name, i, n, dflt) ==
    IF IsCont(x) THEN
        LET outs == [q \in 1..Len(x.items) |-> ColumnTree(x.items[q], name, i, n, dflt)]
            bad  == SelectSeq(outs, LAMBDA o : o.kind = "exc")
        IN  IF bad # <<>> THEN bad[1] ELSE Val([x EXCEPT !.items = [q \in 1..Len(outs) |-> outs[q].v]])
    ELSE Column1(x, name, i, n, dflt)
RECURSIVE TreeInColumnDomain(_, _, _, _)
TreeInColumnDomain(x, name, i, n) ==
    IF IsCont(x) THEN \A q \in 1..Len(x.items) : TreeInColumnDomain(x.items[q], name, i, n) ELSE ColumnDomain(x, name, i, n)

\* ---------------------------------------------------------------------------------------------
\* df_columns / df_recolumn: the joint columns of the proper frames of a collection
\* ---------------------------------------------------------------------------------------------
IsProper(o) == IsWide(o) /\ UniqueHeaders(o)           \* what the two functions call a multi-column frame
ProperLeaves(tree) == SelectSeq(Leaves(tree), IsProper)
ColPolicies == {"ij", "oj", "lj", "rj"}
JointCols(tree, pol) ==
    LET fs == ProperLeaves(tree)  sets == [i \in 1..Len(fs) |-> Range(ColNames(fs[i]))]
    IN  IF pol \in {"ij", "oj"} THEN CommonCols(pol, sets) ELSE Joint(pol, sets)
\* the answer of df_columns as a set of names (order unpinned), nothing without a proper frame
ColumnsLaw(tree, pol) == IF ProperLeaves(tree) = <<>> THEN [k |-> "none"] ELSE [k |-> "cols", c |-> ColSeq(JointCols(tree, pol))]
\* df_recolumn(x, names): a proper frame shows exactly the named columns, in that order: its own where it
\* has them, NaN where it does not; everything else is left alone
Recolumn1(x, names) ==
    IF IsProper(x) THEN Frm(x.t, [j \in 1..Len(names) |-> HS(names[j])],
                            [j \in 1..Len(names) |-> IF HS(names[j]) \in Range(x.h) THEN x.v[PosIn(x.h, HS(names[j]))] ELSE NaNs(Len(x.t))])
    ELSE x
RECURSIVE RecolumnTree(_, _)
RecolumnTree(x, names) ==
    IF IsCont(x) THEN [x EXCEPT !.items = [q \in 1..Len(x.items) |-> RecolumnTree(x.items[q], names)]] ELSE Recolumn1(x, names)

\* ---------------------------------------------------------------------------------------------
\* np_reindex: an array of results goes back onto the END of an index (the array may have lost
\* leading rows, or the index may be shorter than the history the array was computed from)
\* ---------------------------------------------------------------------------------------------
TailOf(s, n) == SubSeq(s, Len(s) - n + 1, Len(s))
NpReindex(a, T, names) ==
    LET rows == IF IsArr2(a) THEN a.rows ELSE Len(a.v)
        n    == IF rows < Len(T) THEN rows ELSE Len(T)
    IN  IF IsArr2(a) THEN Frm(TailOf(T, n), IF names = <<>> THEN [j \in 1..Len(a.v) |-> HI(j - 1)] ELSE [j \in 1..Len(a.v) |-> HS(names[j])],
                              [j \in 1..Len(a.v) |-> TailOf(a.v[j], n)])
        ELSE Ser(TailOf(T, n), TailOf(a.v, n))

\* ---------------------------------------------------------------------------------------------
\* df_drop_index_duplicates: of the rows that carry one stamp the first / the last stays, the rows that
\* stay keep their order and their cells
\* ---------------------------------------------------------------------------------------------
DropDup(o, keep) ==
    KeepPos(o, {i \in 1..Len(o.t) : ~\E j \in 1..Len(o.t) : o.t[j] = o.t[i] /\ (IF keep = "first" THEN j < i ELSE j > i)})

\* ---------------------------------------------------------------------------------------------
\* mask2v: the cells that equal one of the mask values (NaN equals NaN here) are replaced
\* ---------------------------------------------------------------------------------------------
CellMatches(c, m) == IF IsNaN(m) THEN IsNaN(c) ELSE IsV(c) /\ RatEq(Pay(c), Pay(m))
Masked(c, ms) == \E q \in 1..Len(ms) : CellMatches(c, ms[q])
MapCells(o, F(_)) ==
    CASE IsNumO(o) -> Scal(F(o.v))
      [] IsSer(o) \/ IsArr1(o) -> [o EXCEPT !.v = [i \in 1..Len(o.v) |-> F(o.v[i])]]
      [] OTHER -> [o EXCEPT !.v = [j \in 1..Len(o.v) |-> [i \in 1..Len(o.v[j]) |-> F(o.v[j][i])]]]
Mask2v(o, ms, value) == MapCells(o, LAMBDA c : IF Masked(c, ms) THEN value ELSE c)

\* ---------------------------------------------------------------------------------------------
\* df_apply: a reducing function over every column (axis 0) / every row (axis 1) of a frame, skipping
\* NaN as pandas does, and NaN where the column / row has no entry at all: every cell is one of the
\* excluded values `exc` (default: NaN); with no excluded value the plain pandas result stands
\* ---------------------------------------------------------------------------------------------
ApplyFuncs == {"sum", "count", "max", "min", "mean"}
RECURSIVE FoldCells(_, _, _)
FoldCells(F(_, _), acc, cells) == IF cells = <<>> THEN acc ELSE FoldCells(F, F(acc, Head(cells)), Tail(cells))
PandasAgg(func, cells) ==
    LET ok == SelectSeq(cells, IsV)  n == Len(ok) IN
    CASE func = "sum"   -> FoldCells(AddC, Zero, ok)
      [] func = "count" -> VFlt(n, 1)
      [] func = "max"   -> IF n = 0 THEN NaNC ELSE FoldCells(MaxC, ok[1], ok)
      [] func = "min"   -> IF n = 0 THEN NaNC ELSE FoldCells(MinC, ok[1], ok)
      [] func = "mean"  -> IF n = 0 THEN NaNC ELSE DivC(FoldCells(AddC, Zero, ok), VFlt(n, 1))
ApplyCell(func, cells, exc) ==
    IF exc # <<>> /\ \A q \in 1..Len(cells) : Masked(cells[q], exc) THEN NaNC ELSE PandasAgg(func, cells)
ApplyLaw(o, func, axis, exc) ==
    IF axis = 0 THEN [k |-> "bycol", h |-> o.h, v |-> [j \in 1..Len(o.h) |-> ApplyCell(func, o.v[j], exc)]]
    ELSE Ser(o.t, [r \in 1..Len(o.t) |-> ApplyCell(func, [j \in 1..Len(o.h) |-> o.v[j][r]], exc)])

\* ---------------------------------------------------------------------------------------------
\* sf: "x rounded to n significant figures".  The docstring's own examples keep n + 1 figures
\* (sf(2.3455, 1) = 2.3); the statement admits both (named deviation SfDigits): the result is a
\* multiple of u, half a unit or less away from x, for u = the n-th or the (n+1)-th decimal place
\* counted from the leading digit of x.  Zero stays zero, NaN stays NaN, the sign is kept.
\* ---------------------------------------------------------------------------------------------
Pow10(d) == IF d >= 0 THEN <<10 ^ d, 1>> ELSE <<1, 10 ^ (-d)>>           \* as a rational
RatLe(a, b) == ~RatLt(b, a)
\* the place of the leading digit of the positive rational x: 10^e <= x < 10^(e+1)
LeadPlace(x) == CHOOSE e \in -3..5 : RatLe(Pow10(e), x) /\ RatLt(x, Pow10(e + 1))
\* multiples k u (as cells) with |k u - x| <= u / 2, x > 0
NearMultiples(x, u) ==
    LET fl == (x[1] * u[2]) \div (x[2] * u[1])                       \* floor(x / u)
        cand(kk) == <<kk * u[1], u[2]>>
        near(kk) == LET d == <<Abs(cand(kk)[1] * x[2] - x[1] * cand(kk)[2]), cand(kk)[2] * x[2]>>       \* |k u - x|
                    IN  RatLe(<<2 * d[1], d[2]>>, u)
    IN  {Num(cand(kk)[1], cand(kk)[2]) : kk \in {q \in {fl, fl + 1} : near(q)}}
NegC(c) == IF IsV(c) THEN Num(-Nm(c), Dn(c)) ELSE c
SfOutcomes(c, n) ==
    IF ~IsV(c) THEN {NaNC}
    ELSE IF Nm(c) = 0 THEN {Zero}
    ELSE LET x == <<Abs(Nm(c)), Dn(c)>>
             e == LeadPlace(x)
             pos == NearMultiples(x, Pow10(e - n)) \cup NearMultiples(x, Pow10(e - n + 1))
         IN  IF Nm(c) > 0 THEN pos ELSE {NegC(y) : y \in pos}
\* the numbers the check speaks of: 1/1000 <= |x| < 100000 with a denominator up to 8 (exact in binary and
\* within TLC's 32-bit integers), n = 1, 2, 3
SfDomain(c, n) == /\ n \in 1..3
                  /\ IsV(c) => /\ Dn(c) <= 8 /\ Abs(Nm(c)) < 100000 * Dn(c)
                               /\ Nm(c) = 0 \/ 1000 * Abs(Nm(c)) >= Dn(c)

\* ---------------------------------------------------------------------------------------------
\* one public call as a record c = [op |-> .., arguments ..] (MC_Frames enumerates such records, the
\* drivers record them): the outcome the laws above expect of it
\*   [kind "val", v] | [kind "exc", cls] | [kind "oneof", vs];  heads: the headers of the result are pinned
\* ---------------------------------------------------------------------------------------------
Expect(c) ==
    CASE c.op = "concat1"    -> [kind |-> "val", v |-> Concat1(c.xs, c.names, c.join, c.ms, c.lim), heads |-> HeadersPinned(c.xs, c.names)]
      [] c.op = "concat0"    -> Val(Concat0(c.xs, c.name, c.join))
      [] c.op = "as_series"  -> Val(IF c.form = "one" THEN AsSer1(c.x, c.col) ELSE [k |-> "l", items |-> AsSerList(c.x.items, c.col, c.uc)])
      [] c.op = "column"     -> ColumnTree(c.x, c.name, c.i, c.n, c.dflt)
      [] c.op = "columns"    -> Val(ColumnsLaw(c.tree, c.pol))
      [] c.op = "recolumn"   -> Val(RecolumnTree(c.tree, c.names))
      [] c.op = "np_reindex" -> Val(NpReindex(c.a, c.T, c.names))
      [] c.op = "drop_dup"   -> Val(DropDup(c.x, c.keep))
      [] c.op = "mask2v"     -> Val(Mask2v(c.x, c.ms, c.value))
      [] c.op = "apply"      -> Val(ApplyLaw(c.x, c.func, c.axis, c.exc))
      [] c.op = "sf"         -> [kind |-> "oneof", vs |-> SetToSeq(SfOutcomes(c.c, c.n))]
FrameOps == {"concat1", "concat0", "as_series", "column", "columns", "recolumn", "np_reindex", "drop_dup", "mask2v", "apply", "sf"}
\* well-formed objects
RECURSIVE WellFormedO(_)
WellFormedO(o) ==
    CASE IsSer(o)  -> Len(o.v) = Len(o.t)
      [] IsFrm(o)  -> Len(o.v) = Len(o.h) /\ \A j \in 1..Len(o.v) : Len(o.v[j]) = Len(o.t)
      [] IsArr1(o) -> o.n = Len(o.v)
      [] IsArr2(o) -> \A j \in 1..Len(o.v) : Len(o.v[j]) = o.rows
      [] IsCont(o) -> \A q \in 1..Len(o.items) : WellFormedO(o.items[q])
      [] OTHER     -> TRUE
StringHeaders(o) == \A j \in 1..Len(o.h) : o.h[j][1] = "s" /\ o.h[j][2] \in Range(ColU)
\* the calls the statement speaks of
CallDomain(c) ==
    CASE c.op = "concat1"    -> (\A i \in 1..Len(c.xs) : WellFormedO(c.xs[i])) /\ ConcatDomain(c.xs, c.names, c.join)
      [] c.op = "concat0"    -> (\A i \in 1..Len(c.xs) : WellFormedO(c.xs[i])) /\ StackDomain(c.xs)
                                /\ (IsWide(c.xs[1]) => c.name = NoName /\ \A i \in 1..Len(c.xs) : StringHeaders(c.xs[i]))
      [] c.op = "as_series"  -> WellFormedO(c.x) /\ (c.form = "one" => ~IsCont(c.x)) /\ (c.form = "list" => c.x.k = "l")
      [] c.op = "column"     -> WellFormedO(c.x) /\ TreeInColumnDomain(c.x, c.name, c.i, c.n) /\ (c.n # -1 => c.i # -1) /\ (c.name # NoName => c.i = -1)
      [] c.op = "columns"    -> WellFormedO(c.tree) /\ c.pol \in ColPolicies /\ \A i \in 1..Len(ProperLeaves(c.tree)) : StringHeaders(ProperLeaves(c.tree)[i])
      [] c.op = "recolumn"   -> WellFormedO(c.tree)
      [] c.op = "np_reindex" -> WellFormedO(c.a) /\ (c.names # <<>> => IsArr2(c.a) /\ Len(c.names) = Len(c.a.v))
      [] c.op = "drop_dup"   -> WellFormedO(c.x) /\ IsPd(c.x) /\ c.keep \in {"first", "last"}
      [] c.op = "mask2v"     -> WellFormedO(c.x)
      [] c.op = "apply"      -> WellFormedO(c.x) /\ IsFrm(c.x) /\ Len(c.x.h) >= 1 /\ Len(c.x.t) >= 1 /\ c.func \in ApplyFuncs /\ c.axis \in {0, 1}
      [] c.op = "sf"         -> SfDomain(c.c, c.n)
      [] OTHER -> FALSE
=============================================================================
