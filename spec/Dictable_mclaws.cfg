CONSTANTS MaxDepth = 2
          MaxRowsC = 4
INIT Init
NEXT Next
VIEW View
CONSTRAINT Bound
INVARIANT ConcatNLaw
INVARIANT ScaleLaws
