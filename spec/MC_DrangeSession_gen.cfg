\* S2C generator (quick): pair, edit and realisation scripts, each call with the outcomes the law accepts
CONSTANTS Variant = "code"
          MaxCalls = 2
          Scope = "quick"
          Family = "all"
INIT InitScript
NEXT NextScript
