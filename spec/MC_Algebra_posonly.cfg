CONSTANTS MaxLen = 3
          MaxLenX = 3
          Kinds2 = {"req", "opt", "kwreq", "kwopt"}
          Kinds3 = {"req", "opt"}
          Kinds4 = {"req"}
          PathPolicy = "alongpath"
          MaxE4 = 0
INIT InitGenCall
NEXT NextCall
INVARIANT PositionalIsLaw
