--------------------------- MODULE MC_AccessItems ---------------------------
(* X07-b on the specification.  One behaviour  (area, c) --Eval--> done  per enumerated call; the invariants are the  *)
(* algebraic laws the helpers owe their users (a default is used only when the lookup fails; every accepted spelling   *)
(* of "no arguments" is the same call; a chain is its steps one after the other; getattrs = base then attributes;      *)
(* relabel keeps what it does not rename; dict_invert is a partition of the keys; first / last / unique read as_list;  *)
(* today's 80-column rule of tree_repr is one of the admitted renderings and every rendering shows every leaf).        *)
(* The generator configuration prints every call with the admitted outcomes (S2C).                                     *)
EXTENDS AccessItems, Json
CONSTANTS Wide

VARIABLES area, c, done
vars == <<area, c, done>>

SeqsUpTo(S, n) == UNION {[1..k -> S] : k \in 0..n}
I(k) == VInt(k)
Sx(s) == VStr(s)
M(items) == <<"m", items>>

\* ---- getitem -----------------------------------------------------------------------------------------
GI_Containers == {M(<< <<"a", I(1)>>, <<"b", None>> >>), M(<<>>), VLst(<<I(1), Sx("x")>>), VLst(<<>>), VTup(<<I(1), I(2), I(3)>>),
                  Sx("abc"), Sx(""), I(5), None}
GI_Keys == {Sx("a"), Sx("b"), Sx("zz"), I(0), I(1), I(-1), I(3), I(-4), VBool(TRUE), None, VLst(<<I(1)>>), VTup(<<I(1)>>),
            VTup(<<VLst(<<>>)>>)}
GI_Defaults == {<<>>, <<I(9)>>, <<None>>, <<I(9), I(8)>>}
GI_Cases == [c : GI_Containers, k : GI_Keys, d : GI_Defaults]

\* ---- callitem / callattr -----------------------------------------------------------------------------
Ks(sp, k) == [sp |-> sp, k |-> k]
CH_Keys == {Ks("one", <<"push">>), Ks("one", <<"need">>), Ks("one", <<"peek">>), Ks("one", <<"nope">>), Ks("many", <<"push">>),
            Ks("many", <<"push", "need">>), Ks("many", <<"push", "peek">>), Ks("many", <<"peek", "push">>), Ks("many", <<"need", "push">>),
            Ks("many", <<"push", "nope", "push">>), Ks("many", <<"push", "push", "push">>)}
As(sp, a) == [sp |-> sp, a |-> a]
CH_Args == {As("none", <<>>), As("tuple", <<>>), As("tuple", <<I(1)>>), As("tuple", <<I(1), I(2)>>), As("list", << <<I(1)>> >>),
            As("list", << <<I(1)>>, <<>> >>), As("list", << <<>>, <<I(2)>> >>), As("list", << <<I(1)>>, <<I(2)>>, <<I(3), I(4)>> >>)}
Kw(sp, k) == [sp |-> sp, k |-> k]
X1 == << <<"x", I(1)>> >>
Y2 == << <<"y", I(2)>> >>
CH_Kwargs == {Kw("none", <<>>), Kw("dict", <<>>), Kw("dict", X1), Kw("dict", << <<"x", I(1)>>, <<"y", I(2)>> >>), Kw("list", << <<"d", X1>> >>),
              Kw("list", << <<"n", <<>>>>, <<"d", X1>> >>), Kw("list", << <<"d", <<>>>>, <<"d", Y2>> >>),
              Kw("list", << <<"d", X1>>, <<"n", <<>>>>, <<"d", Y2>> >>)}
CH_Cases == [fn : {"callitem", "callattr"}, keys : CH_Keys, args : CH_Args, kwargs : CH_Kwargs]

\* ---- getattrs ----------------------------------------------------------------------------------------
GA_Objs  == {<< <<"a", I(1)>>, <<"_h", I(2)>>, <<"__p", I(3)>> >>, <<>>, << <<"b", Sx("s")>>, <<"a", I(1)>> >>}
Wt(sp, a) == [sp |-> sp, a |-> a]
GA_Wants == {Wt("none", <<>>), Wt("one", <<"a">>), Wt("one", <<"kind">>), Wt("one", <<"zz">>), Wt("many", <<"a", "kind">>),
             Wt("many", <<"_h", "a">>), Wt("many", <<"a", "zz">>), Wt("many", <<"zz", "a">>), Wt("many", <<>>)}
Bs(sp, cls, items) == [sp |-> sp, cls |-> cls, items |-> items]
GA_Bases == {Bs("none", "", <<>>), Bs("true", "", <<>>), Bs("_", "", <<>>), Bs("__", "", <<>>), Bs("inst", "dict", <<>>),
             Bs("inst", "dict", << <<"a", I(9)>>, <<"q", I(8)>> >>), Bs("inst", "dictattr", << <<"q", I(8)>> >>),
             Bs("type", "dict", <<>>), Bs("type", "dictattr", <<>>), Bs("type", "Dict", <<>>)}
GA_Cases == [obj : GA_Objs, want : GA_Wants, base : GA_Bases, d : {<<>>, <<None>>, <<I(7)>>}]

\* ---- relabel -----------------------------------------------------------------------------------------
Fm(sp, s, items, names) == [sp |-> sp, s |-> s, items |-> items, names |-> names]
RL_KeySets == {<<"a">>, <<"a", "b">>, <<"a", "b", "c">>}
RL_Forms(keys) ==
    {Fm("none", "", <<>>, <<>>)}
    \cup {Fm("affix", s, <<>>, <<>>) : s \in {"x_", "_x", "_", "_x_"}}
    \cup (IF Len(keys) = 1 THEN {Fm("affix", "A", <<>>, <<>>)} ELSE {})
    \cup {Fm("fn", f, <<>>, <<>>) : f \in {"upper", "dbl", "const"}}
    \cup {Fm("dict", "", m, <<>>) : m \in {<<>>, << <<"a", "A">> >>, << <<"a", "b">>, <<"q", "Q">> >>}}
    \cup {Fm(sp, "", <<>>, [i \in 1..Len(keys) |-> UpperOf[keys[i]]]) : sp \in {"names", "pos"}}
    \cup {Fm(sp, "", <<>>, [i \in 1..Len(keys) |-> "x_"]) : sp \in {"names", "pos"}}
RL_Kws == {<<>>, << <<"a", "Z">> >>, << <<"b", "a">> >>, << <<"q", "Q">> >>}
RL_Cases == UNION {{[keys |-> ks, one |-> FALSE, form |-> f, kw |-> kw] : f \in RL_Forms(ks), kw \in RL_Kws} : ks \in RL_KeySets}
RLF_Cases == {x \in RL_Cases : RelabelInDomain(x.keys, x.form)}
                \cup {[keys |-> <<"a">>, one |-> TRUE, form |-> f, kw |-> kw] : f \in RL_Forms(<<"a">>), kw \in {<<>>, << <<"a", "Z">> >>}}
RLM_Items == {<<>>, << <<"a", I(1)>> >>, << <<"a", I(1)>>, <<"b", I(2)>> >>, << <<"a", I(1)>>, <<"b", I(2)>>, <<"c", I(1)>> >>}
RLM_Cases == UNION {{[cls |-> cl, items |-> it, form |-> f, kw |-> kw] : cl \in (IF Wide THEN {"dictattr", "Dict"} ELSE {"dictattr"}),
                                                                            f \in {g \in RL_Forms(Keys(it)) : RelabelInDomain(Keys(it), g)}, kw \in RL_Kws}
                    : it \in RLM_Items \ {<<>>}}
             \cup {[cls |-> "dictattr", items |-> <<>>, form |-> Fm("affix", "x_", <<>>, <<>>), kw |-> <<>>]}

\* ---- dict_invert ---------------------------------------------------------------------------------------
DI_Vals == {I(1), I(2), VFlt(1, 1), VBool(TRUE), Sx("x"), None, VNaN(1), VNaN(2), VTup(<<I(1), I(2)>>), VLst(<<I(1)>>)}
DI_Names == <<"a", "b", "c">>
DI_Cases == {[items |-> [i \in 1..Len(vs) |-> <<DI_Names[i], vs[i]>>]] : vs \in SeqsUpTo(DI_Vals, 3)}

\* ---- as_list family --------------------------------------------------------------------------------------
In(sp, xs) == [sp |-> sp, xs |-> xs]
AL_Elts   == {I(1), I(2), VFlt(1, 1), Sx("a"), None, VNaN(1), VLst(<<I(1)>>), VLst(<<I(2)>>)}
AL_Hash   == {I(1), I(2), Sx("a"), None}
NotOneList(xs) == ~(Len(xs) = 1 /\ Tag(xs[1]) = "l")
AL_Inputs ==
    {In("none", <<>>), In("scalar", <<I(1)>>), In("scalar", <<VFlt(1, 2)>>), In("str", <<Sx("ab")>>), In("str", <<Sx("")>>),
     In("set", <<I(1)>>), In("set", <<>>), In("dict", <<I(1)>>), In("dict", <<>>), In("gen", <<I(1), I(2)>>), In("array", <<I(1), I(2)>>)}
    \cup {In("list", xs) : xs \in SeqsUpTo(AL_Elts, 3)}
    \cup {In("tuple", xs) : xs \in {ys \in SeqsUpTo(AL_Elts, IF Wide THEN 3 ELSE 2) : NotOneList(ys)}}
    \cup {In("tuple1list", xs) : xs \in SeqsUpTo(AL_Elts, 2)}
    \cup {In("range", xs) : xs \in {<<>>, <<I(0)>>, <<I(2), I(3), I(4)>>}}
    \cup {In("keys", xs) : xs \in {<<>>, <<I(1)>>, <<Sx("a"), I(1)>>, <<None, I(2), I(1)>>}}
    \cup {In("values", xs) : xs \in SeqsUpTo(AL_Elts, 2)}
    \cup {In("zip", xs) : xs \in {<<>>, <<VTup(<<I(1), Sx("a")>>)>>, <<VTup(<<I(1), I(2)>>), VTup(<<I(1), I(2)>>)>>}}
AL_Cases == [inp : AL_Inputs, none : BOOLEAN]

\* ---- tree_repr -------------------------------------------------------------------------------------------
Short == Leaf("x")
Mid   == Leaf(Rep("m", 30))
Long  == Leaf(Rep("w", 90))
TR_Leaves == {Short, Mid, Long, LeafI(5)}
D(kids) == DictN("dict", kids)
TR_Flat == {D(<<>>)} \cup {D(<< <<"a", x>> >>) : x \in TR_Leaves} \cup {D(<< <<"a", x>>, <<"bb", y>> >>) : x, y \in TR_Leaves}
           \cup {D(<< <<"a", x>>, <<"bb", y>>, <<"c", z>> >>) : x, y, z \in {Short, Mid}}
TR_Small == {D(<< <<"a", x>> >>) : x \in TR_Leaves} \cup {D(<< <<"a", x>>, <<"bb", y>> >>) : x \in {Short, Mid}, y \in {Mid, Long}} \cup {D(<<>>)}
TR_Lists == {ListN(<<>>), ListN(<<Short, Mid>>), ListN(<<Mid, Mid, Mid>>), ListN(<<Long>>)} \cup {ListN(<<x, y>>) : x \in TR_Small, y \in {Short, Long}}
TR_Deep == {D(<< <<"p", x>>, <<"q", y>> >>) : x \in TR_Small, y \in TR_Small \cup {Short, Long} \cup {ListN(<<Mid, Mid, Mid>>), ListN(<<Short>>)}}
           \cup {D(<< <<"p", D(<< <<"r", x>> >>)>> >>) : x \in TR_Small}
           \cup {DictN(cl, << <<"p", x>> >>) : cl \in {"Dict", "dictattr"}, x \in TR_Small \cup {Long}}
           \cup {D(<< <<"p", DictN("Dict", << <<"a", x>>, <<"bb", y>> >>)>> >>) : x \in {Short, Long}, y \in {Mid, Long}}
TR_Trees == TR_Leaves \cup TR_Flat \cup TR_Lists \cup (IF Wide THEN TR_Deep ELSE {t \in TR_Deep : Len(t.kids) = 1 \/ t.kids[2][2].t # "d" \/ Len(t.kids[1][2].kids) < 2})
TR_Cases == [tree : TR_Trees, offset : {0, 4}]

\* ---------------------------------------------------------------------------------------------------------
Init == /\ done = FALSE
        /\ \/ area = "getitem"  /\ c \in GI_Cases
           \/ area = "chain"    /\ c \in CH_Cases
           \/ area = "getattrs" /\ c \in GA_Cases
           \/ area = "relabel"  /\ c \in RLF_Cases
           \/ area = "relabel_dict" /\ c \in RLM_Cases
           \/ area = "dict_invert"  /\ c \in DI_Cases
           \/ area = "as_list"  /\ c \in AL_Cases
           \/ area = "tree_repr" /\ c \in TR_Cases
Eval == done = FALSE /\ done' = TRUE /\ UNCHANGED <<area, c>>

SetSeq(S) == SetToSeq(S)
Want ==
    CASE area = "getitem"  -> [out |-> GetItem(c.c, c.k, c.d)]
      [] area = "chain"    -> [out |-> ChainOutcome(c)]
      [] area = "getattrs" -> [out |-> GetAttrs(c)]
      [] area = "relabel"  -> [maps |-> SetSeq({SetSeq(m) : m \in RelabelMaps(c.keys, c.form, c.kw)})]
      [] area = "relabel_dict" -> [dicts |-> SetSeq(RelabelDicts(c.items, c.form, c.kw))]
      [] area = "dict_invert"  -> [out |-> Invert(c.items)]
      [] area = "as_list"  -> [items |-> AsList(c.inp, c.none), first |-> First(c.inp), last |-> LastOf(c.inp),
                               unique |-> SetSeq(UniqueOutcomes(c.inp))]
      [] area = "tree_repr" -> [lines |-> SetSeq(Renderings(c.tree, c.offset))]
EvalGen == Eval /\ PrintT(ToJson([area |-> area, c |-> c, want |-> Want]))

\* ---- invariants ----------------------------------------------------------------------------------------------
IsA(a) == area = a
\* getitem
DefaultOnlyOnFailure == IsA("getitem") => LET r == Lookup(c.c, c.k) IN
                            /\ ~IsExc(r) => GetItem(c.c, c.k, c.d) = r
                            /\ (IsExc(r) /\ Len(c.d) > 0) => GetItem(c.c, c.k, c.d) = c.d[1]
                            /\ Len(c.d) > 0 => ~IsExc(GetItem(c.c, c.k, c.d))
                            /\ Len(c.d) > 1 => GetItem(c.c, c.k, c.d) = GetItem(c.c, c.k, <<c.d[1]>>)
\* chains: all spellings of "no arguments" are one call; a tuple is a one-element list; item and attribute access differ in
\* the exception class only; a chain is its prefix followed by its last step
NoArgsSpellings == IsA("chain") =>
    /\ c.args.sp = "none" => ChainOutcome(c) = ChainOutcome([c EXCEPT !.args = As("tuple", <<>>)])
    /\ c.args.sp = "tuple" => ChainOutcome(c) = ChainOutcome([c EXCEPT !.args = As("list", <<c.args.a>>)])
    /\ c.kwargs.sp = "none" => ChainOutcome(c) = ChainOutcome([c EXCEPT !.kwargs = Kw("dict", <<>>)])
    /\ c.kwargs.sp = "dict" => ChainOutcome(c) = ChainOutcome([c EXCEPT !.kwargs = Kw("list", << <<"d", c.kwargs.k>> >>)])
    /\ c.keys.sp = "one" => ChainOutcome(c) = ChainOutcome([c EXCEPT !.keys = Ks("many", c.keys.k)])
ItemIsAttr == IsA("chain") => LET o == ChainOutcome(c)  p == ChainOutcome([c EXCEPT !.fn = IF c.fn = "callitem" THEN "callattr" ELSE "callitem"]) IN
                                 IF IsExc(o) THEN IsExc(p) ELSE o = p
ChainIsStepwise == (IsA("chain") /\ Cardinality(Lens(c)) <= 1 /\ NSteps(c) = Len(c.keys.k) /\ NSteps(c) > 1) =>
    LET n == NSteps(c)
        pre == RunFrom(c, <<"node", <<>>>>, 1) IN
    \* every call the final object remembers is, in order, the step that was asked for
    ~IsExc(pre) => \A i \in 1..Len(pre[2]) : pre[2][i].m = c.keys.k[i]
\* getattrs: the base's items come first and keep their values unless an attribute of that name is asked for
BaseThenAttrs == IsA("getattrs") => LET rr == GetAttrs(c)  r == rr[2]  b == Start(c.obj, c.base) IN
    IsExc(rr) \/ (/\ r.cls = b.cls
                  /\ \A i \in 1..Len(b.items) : r.items[i][1] = b.items[i][1]
                  /\ \A i \in 1..Len(b.items) : ((c.want.sp = "none" \/ ~\E j \in 1..Len(c.want.a) : c.want.a[j] = b.items[i][1]) => (r.items[i] = b.items[i]))
                  /\ (c.want.sp # "none" => \A j \in 1..Len(c.want.a) : HasKey(r.items, c.want.a[j])))
DefaultMeansNoError == (IsA("getattrs") /\ Len(c.d) > 0) => ~IsExc(GetAttrs(c))
\* relabel: a mapping is a function; keyword relabels always win; the renamed dict has as many items as distinct new names
RelabelIsFunction == IsA("relabel") => \A m \in RelabelMaps(c.keys, c.form, c.kw) :
                        /\ \A p, q \in m : p[1] = q[1] => p = q
                        /\ \A i \in 1..Len(c.kw) : (\A j \in (i + 1)..Len(c.kw) : c.kw[j][1] # c.kw[i][1]) => c.kw[i] \in m
RelabelNonEmpty == (IsA("relabel") => RelabelMaps(c.keys, c.form, c.kw) # {}) /\ (IsA("relabel_dict") => RelabelDicts(c.items, c.form, c.kw) # {})
RelabelKeepsValues == IsA("relabel_dict") => \A r \in RelabelDicts(c.items, c.form, c.kw) :
                        /\ \A i \in 1..Len(r) : \E j \in 1..Len(c.items) : r[i][2] = c.items[j][2]
                        /\ \A i, j \in 1..Len(r) : r[i][1] = r[j][1] => i = j
                        /\ (c.form.sp = "none" /\ c.kw = <<>>) => r = c.items
\* dict_invert: every key exactly once, under its value, in order
InvertIsPartition == IsA("dict_invert") => LET rr == Invert(c.items)  r == rr[2] IN
    IsExc(rr) \/
       /\ \A i \in 1..Len(c.items) : Cardinality({qj \in (1..Len(r)) \X (1..3) : qj[2] <= Len(r[qj[1]][2]) /\ r[qj[1]][2][qj[2]] = c.items[i][1]}) = 1
       /\ \A q \in 1..Len(r) : \A j \in 1..Len(r[q][2]) : SameForSet(Get(c.items, r[q][2][j]), r[q][1])
       /\ \A q, p \in 1..Len(r) : q # p => ~SameForSet(r[q][1], r[p][1])
\* as_list family
FirstLastUnique == IsA("as_list") => LET s == AsList(c.inp, FALSE) IN
    /\ s # <<>> => First(c.inp) = s[1] /\ LastOf(c.inp) = s[Len(s)]
    /\ s = <<>> => First(c.inp) = None /\ LastOf(c.inp) = None /\ UniqueOutcomes(c.inp) = {None}
    /\ UniqueOutcomes(c.inp) # {}
    /\ \A u \in UniqueOutcomes(c.inp) : IsExc(u) \/ u = First(c.inp)
    /\ Raises("ValueError") \in UniqueOutcomes(c.inp) => Len(s) >= 2
    /\ (c.inp.sp = "none" => AsList(c.inp, TRUE) = <<None>> /\ AsList(c.inp, FALSE) = <<>>)
    /\ (c.inp.sp # "none" => AsList(c.inp, TRUE) = AsList(c.inp, FALSE))
\* tree_repr
MechIsAdmitted == IsA("tree_repr") => MechRender(c.tree, c.offset) \in Renderings(c.tree, c.offset)
RECURSIVE PlainOnly(_)
PlainOnly(nd) == nd.cls \in {"", "dict", "list"} /\ \A i \in 1..Len(nd.kids) : PlainOnly(nd.kids[i][2])
RECURSIVE LeafPaths(_, _)
LeafPaths(nd, path) == IF nd.kids = <<>> THEN << <<path, Str(nd)>> >>
                       ELSE Concat([i \in 1..Len(nd.kids) |-> LeafPaths(nd.kids[i][2], IF nd.t = "d" THEN Append(path, nd.kids[i][1] \o ":") ELSE path)])
\* every rendering shows, in order, a cut through the tree: nothing lost, nothing invented, keys in order
RECURSIVE Covers(_, _)
Covers(shown, leaves) ==      \* the shown entries, in order, each stand for a run of consecutive leaves below their path
    IF shown = <<>> THEN leaves = <<>>
    ELSE \E k \in 1..Len(leaves) : /\ \A j \in 1..k : IsPrefix(shown[1][1], leaves[j][1])
                                   /\ Covers(Tail(shown), SubSeq(leaves, k + 1, Len(leaves)))
RECURSIVE OpenRender(_, _)
OpenRender(nd, ind) ==
    IF nd.t = "d" /\ nd.kids # <<>>
    THEN (IF nd.cls = "dict" THEN <<>> ELSE <<Line(ind, nd.cls)>>)
         \o Concat([i \in 1..Len(nd.kids) |-> <<Line(ind, nd.kids[i][1] \o ":")>> \o OpenRender(nd.kids[i][2], ind + 4)])
    ELSE IF nd.t = "l" /\ nd.kids # <<>> THEN Concat([i \in 1..Len(nd.kids) |-> OpenRender(nd.kids[i][2], ind)])
    ELSE <<Line(ind, Str(nd))>>
\* opened all the way, a rendering is exactly the leaves with their keys: one line per leaf
OpenShowsLeaves == (IsA("tree_repr") /\ PlainOnly(c.tree)) =>
    /\ OpenRender(c.tree, c.offset) \in Renderings(c.tree, c.offset)
    /\ Shown(OpenRender(c.tree, c.offset), 1, <<>>) = LeafPaths(c.tree, <<>>)
NothingLost == (IsA("tree_repr") /\ PlainOnly(c.tree) /\ c.tree.kids # <<>>) =>
    \A r \in Renderings(c.tree, c.offset) : Covers(Shown(r, 1, <<>>), LeafPaths(c.tree, <<>>))
=============================================================================
