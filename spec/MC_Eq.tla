------------------------------- MODULE MC_Eq -------------------------------
(* Property C14 on the specification: EqSpec is an equivalence on the abstract universe (all   *)
(* pairs are initial states, the third value is quantified in the invariant), it is type- and  *)
(* shape-strict, it agrees with Python's == on NaN-free plain values, and what the statement   *)
(* pins (Pin) is consistent with it - so the oracle the code is compared with is not           *)
(* self-contradictory.  The same state space, one behaviour (x, y) --Eval--> done, is the       *)
(* source of the S2C replay: MC_Eq_gen*.cfg print every pair with what the statement pins.     *)
EXTENDS Eq, TLC, Json, SequencesExt
CONSTANTS Wide, Nest

VARIABLES x, y, s, done
vars == <<x, y, s, done>>

I(k) == VInt(k)
F(p, q) == VFlt(p, q)
D1 == <<737425, 0, 0>>          \* 2020-01-01
D2 == <<737426, 3600, 0>>       \* 2020-01-02 01:00
D3 == <<737427, 0, 0>>          \* 2020-01-03: the np.datetime64 instant, kept apart from D1, D2
RI2 == <<I(0), I(1)>>           \* RangeIndex(2)

Scalars ==
    {None, VBool(TRUE), I(1), F(1, 1), I(2), F(5, 2), VNaN(1), VNaN(2), VInf(1), VStr("a"), VStr("1"),
     NpS("int64", I(1)), NpS("float64", F(1, 1)), NpS("float32", F(5, 2)), NpS("float64", VNaN(3)), NpS("float32", VNaN(4)),
     NpS("bool_", VBool(TRUE)), NpS("str_", VStr("a")),
     VDt(D1[1], D1[2], D1[3]), VTs(D1[1], D1[2], D1[3]), VTs(D2[1], D2[2], D2[3]), VD64(D3[1], D3[2], D3[3]), VDate(D1[1])}
ScalarsW == {I(0), VBool(FALSE), VStr(""), VInf(-1), NpS("int32", I(2)), NpS("float64", VInf(1)), VD64(D1[1], D1[2], D1[3]),
             VDt(D2[1], D2[2], D2[3]), NpS("int64", I(0))}

Plains ==
    {VLst(<<>>), VTup(<<>>), VDict(<<>>), VLst(<<I(1)>>), VTup(<<I(1)>>), VLst(<<F(1, 1)>>), VLst(<<VNaN(1)>>), VLst(<<VNaN(2)>>),
     VLst(<<I(1), I(2)>>), VTup(<<I(1), I(2)>>), VLst(<<I(1), VNaN(1)>>), VLst(<<NpS("float32", VNaN(4)), I(1)>>),
     VDict(<<<<"a", I(1)>>>>), VDict(<<<<"a", F(1, 1)>>>>), VDict(<<<<"b", I(1)>>>>), VDict(<<<<"a", VNaN(1)>>>>),
     VDict(<<<<"a", VLst(<<I(1), I(2)>>)>>, <<"b", VLst(<<I(1), I(2)>>)>>>>),
     VDict(<<<<"a", VTup(<<I(1), I(2)>>)>>, <<"b", VTup(<<I(1), I(2)>>)>>>>),
     VLst(<<VLst(<<I(1), I(2)>>)>>), VLst(<<VTup(<<I(1), I(2)>>)>>), VLst(<<VNaN(1), VLst(<<VNaN(2)>>)>>),
     VLst(<<NpS("int64", I(1))>>), VLst(<<VStr("a")>>), VLst(<<None>>)}
PlainsW ==
    {VTup(<<VNaN(1)>>), VLst(<<I(2), I(1)>>), VLst(<<VBool(TRUE)>>), VDict(<<<<"a", I(1)>>, <<"b", I(2)>>>>),
     VDict(<<<<"a", VDict(<<<<"a", VNaN(2)>>>>)>>>>), VTup(<<VLst(<<>>)>>), VLst(<<VTup(<<>>)>>), VLst(<<VDict(<<>>)>>),
     VLst(<<VTs(D1[1], D1[2], D1[3])>>), VLst(<<VDt(D1[1], D1[2], D1[3])>>), VDict(<<<<"a", VLst(<<I(1)>>)>>, <<"b", VLst(<<I(1), I(2)>>)>>>>)}

Arr12 == VArr("int64", <<2>>, <<I(1), I(2)>>)
Others ==
    {VSub("Dict", <<>>), VSub("Dict", <<<<"a", I(1)>>>>), VSub("dictattr", <<<<"a", I(1)>>>>),
     VArr("int64", <<>>, <<I(1)>>), VArr("float64", <<>>, <<VNaN(0)>>), VArr("int64", <<1>>, <<I(1)>>),
     Arr12, VArr("float64", <<2>>, <<F(1, 1), F(2, 1)>>), VArr("float64", <<2>>, <<F(1, 1), VNaN(0)>>),
     VArr("int64", <<2>>, <<I(1), I(1)>>),
     VArr("object", <<2>>, <<I(1), VStr("a")>>), VArr("object", <<1>>, <<None>>), VArr("object", <<1>>, <<VNaN(5)>>),
     VArr("int64", <<1, 2>>, <<I(1), I(2)>>), VArr("int64", <<2, 1>>, <<I(1), I(2)>>),
     VArr("int64", <<2, 2>>, <<I(1), I(2), I(1), I(2)>>), VArr("float64", <<2, 2>>, <<F(0, 1), F(0, 1), F(0, 1), F(0, 1)>>),
     VArr("float64", <<2, 3>>, <<F(0, 1), F(0, 1), F(0, 1), F(0, 1), F(0, 1), F(0, 1)>>),
     VArr("float64", <<2, 0>>, <<>>), VArr("float64", <<0>>, <<>>), VArr("float64", <<0, 2>>, <<>>),
     VArr("object", <<1>>, <<VLst(<<I(1), I(2)>>)>>), VArr("str", <<1>>, <<VStr("a")>>),
     VSer("int64", RI2, <<I(1), I(2)>>), VSer("float64", RI2, <<F(1, 1), F(2, 1)>>), VSer("float64", RI2, <<F(1, 1), VNaN(0)>>),
     VSer("int64", <<I(1), I(2)>>, <<I(1), I(2)>>), VSer("int64", <<I(0)>>, <<I(1)>>), VSer("float64", <<>>, <<>>),
     VSer("int64", <<VTs(D1[1], D1[2], D1[3]), VTs(D2[1], D2[2], D2[3])>>, <<I(1), I(2)>>),
     VFrm("int64", RI2, <<VStr("a")>>, <<I(1), I(2)>>), VFrm("int64", RI2, <<VStr("b")>>, <<I(1), I(2)>>),
     VFrm("float64", RI2, <<VStr("a")>>, <<F(1, 1), VNaN(0)>>), VFrm("int64", RI2, <<I(0)>>, <<I(1), I(2)>>),
     VFrm("int64", RI2, <<VStr("a"), VStr("b")>>, <<I(1), I(1), I(2), I(2)>>), VFrm("object", <<>>, <<>>, <<>>),
     VLst(<<Arr12>>), VTup(<<Arr12>>), VDict(<<<<"a", Arr12>>>>), VDict(<<<<"a", VArr("float64", <<2>>, <<F(1, 1), VNaN(0)>>)>>>>),
     VLst(<<VSer("int64", RI2, <<I(1), I(2)>>)>>), VArr("object", <<2>>, <<Arr12, I(2)>>)}
OthersW ==
    {VSub("Dict", <<<<"a", VNaN(1)>>>>), VArr("float64", <<>>, <<F(1, 1)>>), VArr("bool", <<2>>, <<VBool(TRUE), VBool(TRUE)>>),
     VArr("float64", <<1>>, <<VNaN(0)>>), VArr("float64", <<1, 1>>, <<VNaN(0)>>), VArr("int64", <<2>>, <<I(2), I(1)>>),
     VArr("float64", <<1, 0>>, <<>>), VArr("float64", <<2, 5>>, <<F(0, 1), F(0, 1), F(0, 1), F(0, 1), F(0, 1), F(0, 1), F(0, 1), F(0, 1), F(0, 1), F(0, 1)>>),
     VArr("object", <<1>>, <<VTup(<<I(1), I(2)>>)>>), VArr("datetime64[ns]", <<1>>, <<VD64(D3[1], D3[2], D3[3])>>),
     VSer("object", RI2, <<I(1), VStr("a")>>), VSer("object", RI2, <<VLst(<<I(1)>>), None>>), VSer("int64", RI2, <<I(1), I(1)>>),
     VSer("float64", <<F(0, 1), F(1, 1)>>, <<F(1, 1), F(2, 1)>>), VSer("int64", <<VStr("a"), VStr("b")>>, <<I(1), I(2)>>),
     VFrm("int64", <<I(1), I(2)>>, <<VStr("a")>>, <<I(1), I(2)>>), VFrm("float64", RI2, <<VStr("a")>>, <<F(1, 1), F(2, 1)>>),
     VFrm("object", <<>>, <<VStr("a")>>, <<>>), VFrm("object", <<>>, <<VStr("b")>>, <<>>), VFrm("object", RI2, <<>>, <<>>),
     VFrm("int64", RI2, <<VStr("b"), VStr("a")>>, <<I(1), I(1), I(2), I(2)>>), VFrm("int64", <<I(0)>>, <<VStr("a")>>, <<I(1)>>),
     VDict(<<<<"a", VSer("float64", RI2, <<F(1, 1), VNaN(0)>>)>>>>), VSub("Dict", <<<<"a", Arr12>>>>),
     VLst(<<VArr("int64", <<>>, <<I(1)>>)>>), VDict(<<<<"a", VFrm("int64", RI2, <<VStr("a")>>, <<I(1), I(2)>>)>>>>)}

U0 == Scalars \cup Plains \cup Others \cup (IF Wide THEN ScalarsW \cup PlainsW \cup OthersW ELSE {})
\* Nest: every value once more inside a list (one more level of nesting for everything)
U == U0 \cup (IF Nest THEN {VLst(<<u>>) : u \in U0} ELSE {})

Init == x \in U /\ y \in U /\ s = <<>> /\ done = FALSE
Eval == done = FALSE /\ done' = TRUE /\ UNCHANGED <<x, y, s>>
\* S2C generator: the pair and what the statement pins for it - ifT / ifF name the clause the
\* code violates if it answers True / False ("" = that answer is admitted)
EvalGen == Eval /\ PrintT(ToJson([x |-> x, y |-> y, ifT |-> ClauseIfT(x, y), ifF |-> ClauseIfF(x, y), at |-> At(x, y)]))

\* S2C generator for in_: x against a few sequences over the universe
SeqU == {<<>>, <<None>>, <<I(1), I(2)>>, <<VNaN(2), VStr("a")>>, <<VLst(<<I(1)>>), VTup(<<I(1)>>), Arr12>>,
         <<VLst(<<VNaN(2)>>), VDict(<<<<"a", F(1, 1)>>>>)>>, <<VArr("float64", <<2>>, <<F(1, 1), VNaN(0)>>), VSer("float64", RI2, <<F(1, 1), VNaN(0)>>)>>,
         <<VSub("Dict", <<<<"a", I(1)>>>>), VFrm("int64", RI2, <<VStr("a")>>, <<I(1), I(2)>>), NpS("float32", VNaN(9))>>}
InitIn == x \in U /\ y = None /\ s \in SeqU /\ done = FALSE
EvalIn == done = FALSE /\ done' = TRUE /\ UNCHANGED <<x, y, s>>
PinIn(u, q) == IF \E i \in 1..Len(q) : Pin(u, q[i]) = "T" /\ \A j \in 1..(i - 1) : Pin(u, q[j]) = "F" THEN "T"
               ELSE IF \A i \in 1..Len(q) : Pin(u, q[i]) = "F" THEN "F" ELSE "free"
EvalInGen == EvalIn /\ PrintT(ToJson([x |-> x, seq |-> s, want |-> IF PinIn(x, s) = "free" THEN <<"T", "F">> ELSE <<PinIn(x, s)>>]))
P_InLaws ==
    /\ InSpec(x, <<>>) = FALSE
    /\ \A i \in 1..Len(s) : InSpec(x, SubSeq(s, 1, i)) = (InSpec(x, SubSeq(s, 1, i - 1)) \/ EqSpec(x, s[i]))
    /\ (PinIn(x, s) = "T" => InSpec(x, s))
    /\ (PinIn(x, s) = "F" => ~InSpec(x, s))

\* ---- the clauses of the statement, on the specification -------------------------------------
P_Reflexive   == EqSpec(x, x) /\ EqSpec(x, Fresh(x)) /\ EqSpec(Fresh(x), x) /\ StructCopy(x, Fresh(x))
P_Symmetric   == EqSpec(x, y) = EqSpec(y, x)
P_Transitive  == \A z \in U : (EqSpec(x, y) /\ EqSpec(y, z)) => EqSpec(x, z)
P_TypeStrict  == Kind(x) # Kind(y) => ~EqSpec(x, y)
P_ShapeStrict == (Tag(x) = "a" /\ Tag(y) = "a" /\ Pay(x)[2] # Pay(y)[2]) => ~EqSpec(x, y)
P_AgreesWithPy == (Plain(x) /\ Plain(y) /\ NaNFree(x) /\ NaNFree(y)) => (EqSpec(x, y) = PyEqX(x, y))
P_PinSound ==
    /\ (Pin(x, y) = "T" => EqSpec(x, y))
    /\ (Pin(x, y) = "F" => ~EqSpec(x, y))
    /\ Pin(x, y) = Pin(y, x)
    /\ (StructCopy(x, y) => Pin(x, y) = "T")
\* the pinned entries alone can never force a contradiction with the axioms
P_PinClosed   == \A z \in U : (Pin(x, y) = "T" /\ Pin(y, z) = "T") => Pin(x, z) # "F"
P_WhyTotal    == ~EqSpec(x, y) => Why(x, y) \in {"type", "shape", "cell"}
\* each clause is evaluated once per pair, in the state after Eval (initial states are computed by one thread, successors by all workers)
Reflexive == ~done \/ P_Reflexive
Symmetric == ~done \/ P_Symmetric
Transitive == ~done \/ P_Transitive
TypeStrict == ~done \/ P_TypeStrict
ShapeStrict == ~done \/ P_ShapeStrict
AgreesWithPy == ~done \/ P_AgreesWithPy
PinSound == ~done \/ P_PinSound
PinClosed == ~done \/ P_PinClosed
WhyTotal == ~done \/ P_WhyTotal
InLaws == ~done \/ P_InLaws
=============================================================================
