------------------------------- MODULE MC_Eq -------------------------------
(* Property C14 on the specification: EqSpec is an equivalence on the abstract universe (all   *)
(* pairs are initial states, the third value is quantified in the invariant), it is type- and  *)
(* shape-strict, it agrees with Python's == on NaN-free plain values, and what the statement   *)
(* pins (Pin) is consistent with it - so the oracle the code is compared with is not           *)
(* self-contradictory.  The same state space, one behaviour (x, y) --Eval--> done, is the       *)
(* source of the S2C replay: MC_Eq_gen*.cfg print every pair with what the statement pins.     *)
(*                                                                                             *)
(* Two blocks of pairs: U x U (values, each realised the plain way) and UV x UV - REALISATION   *)
(* VARIANTS: every insertion order of the dicts of a value at every depth (Reals), arrays /     *)
(* Series / frames that are views into one shared buffer at every offset / stride (ViewsOf)    *)
(* next to arrays that own the same cells, and the look-alikes of a value in which a missing-   *)
(* value marker None / NaN / NaT is replaced by another one (Miss).  x and y are concrete       *)
(* descriptors; the clauses speak about the values Norm(x), Norm(y).  A third block UX x UX:     *)
(* look-alikes that Python's own == / numpy's tolerant comparisons would let through - container *)
(* type mismatches at depth (Wraps), numbers that are close but not equal (Nudge).               *)
EXTENDS Eq, TLC, Json, SequencesExt
CONSTANTS Wide, Nest

VARIABLES x, y, s, done
vars == <<x, y, s, done>>

I(k) == VInt(k)
F(p, q) == VFlt(p, q)
D1 == <<737425, 0, 0>>          \* 2020-01-01
D2 == <<737426, 3600, 0>>       \* 2020-01-02 01:00
D3 == <<737427, 0, 0>>          \* 2020-01-03: the np.datetime64 instant, kept apart from D1, D2
RI2 == <<I(0), I(1)>>           \* RangeIndex(2)

Scalars ==
    {None, VBool(TRUE), I(1), F(1, 1), I(2), F(5, 2), VNaN(1), VNaN(2), VInf(1), VStr("a"), VStr("1"),
     NpS("int64", I(1)), NpS("float64", F(1, 1)), NpS("float32", F(5, 2)), NpS("float64", VNaN(3)), NpS("float32", VNaN(4)),
     NpS("bool_", VBool(TRUE)), NpS("str_", VStr("a")),
     VDt(D1[1], D1[2], D1[3]), VTs(D1[1], D1[2], D1[3]), VTs(D2[1], D2[2], D2[3]), VD64(D3[1], D3[2], D3[3]), VDate(D1[1])}
ScalarsW == {I(0), VBool(FALSE), VStr(""), VInf(-1), NpS("int32", I(2)), NpS("float64", VInf(1)), VD64(D1[1], D1[2], D1[3]),
             VDt(D2[1], D2[2], D2[3]), NpS("int64", I(0))}

Plains ==
    {VLst(<<>>), VTup(<<>>), VDict(<<>>), VLst(<<I(1)>>), VTup(<<I(1)>>), VLst(<<F(1, 1)>>), VLst(<<VNaN(1)>>), VLst(<<VNaN(2)>>),
     VLst(<<I(1), I(2)>>), VTup(<<I(1), I(2)>>), VLst(<<I(1), VNaN(1)>>), VLst(<<NpS("float32", VNaN(4)), I(1)>>),
     VDict(<<<<"a", I(1)>>>>), VDict(<<<<"a", F(1, 1)>>>>), VDict(<<<<"b", I(1)>>>>), VDict(<<<<"a", VNaN(1)>>>>),
     VDict(<<<<"a", VLst(<<I(1), I(2)>>)>>, <<"b", VLst(<<I(1), I(2)>>)>>>>),
     VDict(<<<<"a", VTup(<<I(1), I(2)>>)>>, <<"b", VTup(<<I(1), I(2)>>)>>>>),
     VLst(<<VLst(<<I(1), I(2)>>)>>), VLst(<<VTup(<<I(1), I(2)>>)>>), VLst(<<VNaN(1), VLst(<<VNaN(2)>>)>>),
     VLst(<<NpS("int64", I(1))>>), VLst(<<VStr("a")>>), VLst(<<None>>)}
PlainsW ==
    {VTup(<<VNaN(1)>>), VLst(<<I(2), I(1)>>), VLst(<<VBool(TRUE)>>), VDict(<<<<"a", I(1)>>, <<"b", I(2)>>>>),
     VDict(<<<<"a", VDict(<<<<"a", VNaN(2)>>>>)>>>>), VTup(<<VLst(<<>>)>>), VLst(<<VTup(<<>>)>>), VLst(<<VDict(<<>>)>>),
     VLst(<<VTs(D1[1], D1[2], D1[3])>>), VLst(<<VDt(D1[1], D1[2], D1[3])>>), VDict(<<<<"a", VLst(<<I(1)>>)>>, <<"b", VLst(<<I(1), I(2)>>)>>>>)}

Arr12 == VArr("int64", <<2>>, <<I(1), I(2)>>)
Others ==
    {VSub("Dict", <<>>), VSub("Dict", <<<<"a", I(1)>>>>), VSub("dictattr", <<<<"a", I(1)>>>>),
     VArr("int64", <<>>, <<I(1)>>), VArr("float64", <<>>, <<VNaN(0)>>), VArr("int64", <<1>>, <<I(1)>>),
     Arr12, VArr("float64", <<2>>, <<F(1, 1), F(2, 1)>>), VArr("float64", <<2>>, <<F(1, 1), VNaN(0)>>),
     VArr("int64", <<2>>, <<I(1), I(1)>>),
     VArr("object", <<2>>, <<I(1), VStr("a")>>), VArr("object", <<1>>, <<None>>), VArr("object", <<1>>, <<VNaN(5)>>),
     VArr("int64", <<1, 2>>, <<I(1), I(2)>>), VArr("int64", <<2, 1>>, <<I(1), I(2)>>),
     VArr("int64", <<2, 2>>, <<I(1), I(2), I(1), I(2)>>), VArr("float64", <<2, 2>>, <<F(0, 1), F(0, 1), F(0, 1), F(0, 1)>>),
     VArr("float64", <<2, 3>>, <<F(0, 1), F(0, 1), F(0, 1), F(0, 1), F(0, 1), F(0, 1)>>),
     VArr("float64", <<2, 0>>, <<>>), VArr("float64", <<0>>, <<>>), VArr("float64", <<0, 2>>, <<>>),
     VArr("object", <<1>>, <<VLst(<<I(1), I(2)>>)>>), VArr("str", <<1>>, <<VStr("a")>>),
     VSer("int64", RI2, <<I(1), I(2)>>), VSer("float64", RI2, <<F(1, 1), F(2, 1)>>), VSer("float64", RI2, <<F(1, 1), VNaN(0)>>),
     VSer("int64", <<I(1), I(2)>>, <<I(1), I(2)>>), VSer("int64", <<I(0)>>, <<I(1)>>), VSer("float64", <<>>, <<>>),
     VSer("int64", <<VTs(D1[1], D1[2], D1[3]), VTs(D2[1], D2[2], D2[3])>>, <<I(1), I(2)>>),
     VFrm("int64", RI2, <<VStr("a")>>, <<I(1), I(2)>>), VFrm("int64", RI2, <<VStr("b")>>, <<I(1), I(2)>>),
     VFrm("float64", RI2, <<VStr("a")>>, <<F(1, 1), VNaN(0)>>), VFrm("int64", RI2, <<I(0)>>, <<I(1), I(2)>>),
     VFrm("int64", RI2, <<VStr("a"), VStr("b")>>, <<I(1), I(1), I(2), I(2)>>), VFrm("object", <<>>, <<>>, <<>>),
     VLst(<<Arr12>>), VTup(<<Arr12>>), VDict(<<<<"a", Arr12>>>>), VDict(<<<<"a", VArr("float64", <<2>>, <<F(1, 1), VNaN(0)>>)>>>>),
     VLst(<<VSer("int64", RI2, <<I(1), I(2)>>)>>), VArr("object", <<2>>, <<Arr12, I(2)>>)}
OthersW ==
    {VSub("Dict", <<<<"a", VNaN(1)>>>>), VArr("float64", <<>>, <<F(1, 1)>>), VArr("bool", <<2>>, <<VBool(TRUE), VBool(TRUE)>>),
     VArr("float64", <<1>>, <<VNaN(0)>>), VArr("float64", <<1, 1>>, <<VNaN(0)>>), VArr("int64", <<2>>, <<I(2), I(1)>>),
     VArr("float64", <<1, 0>>, <<>>), VArr("float64", <<2, 5>>, <<F(0, 1), F(0, 1), F(0, 1), F(0, 1), F(0, 1), F(0, 1), F(0, 1), F(0, 1), F(0, 1), F(0, 1)>>),
     VArr("object", <<1>>, <<VTup(<<I(1), I(2)>>)>>), VArr("datetime64[ns]", <<1>>, <<VD64(D3[1], D3[2], D3[3])>>),
     VSer("object", RI2, <<I(1), VStr("a")>>), VSer("object", RI2, <<VLst(<<I(1)>>), None>>), VSer("int64", RI2, <<I(1), I(1)>>),
     VSer("float64", <<F(0, 1), F(1, 1)>>, <<F(1, 1), F(2, 1)>>), VSer("int64", <<VStr("a"), VStr("b")>>, <<I(1), I(2)>>),
     VFrm("int64", <<I(1), I(2)>>, <<VStr("a")>>, <<I(1), I(2)>>), VFrm("float64", RI2, <<VStr("a")>>, <<F(1, 1), F(2, 1)>>),
     VFrm("object", <<>>, <<VStr("a")>>, <<>>), VFrm("object", <<>>, <<VStr("b")>>, <<>>), VFrm("object", RI2, <<>>, <<>>),
     VFrm("int64", RI2, <<VStr("b"), VStr("a")>>, <<I(1), I(1), I(2), I(2)>>), VFrm("int64", <<I(0)>>, <<VStr("a")>>, <<I(1)>>),
     VDict(<<<<"a", VSer("float64", RI2, <<F(1, 1), VNaN(0)>>)>>>>), VSub("Dict", <<<<"a", Arr12>>>>),
     VLst(<<VArr("int64", <<>>, <<I(1)>>)>>), VDict(<<<<"a", VFrm("int64", RI2, <<VStr("a")>>, <<I(1), I(2)>>)>>>>)}

U0 == Scalars \cup Plains \cup Others \cup (IF Wide THEN ScalarsW \cup PlainsW \cup OthersW ELSE {})
\* Nest: every value once more inside a list (one more level of nesting for everything)
U == U0 \cup (IF Nest THEN {VLst(<<u>>) : u \in U0} ELSE {})

\* ---- realisation variants --------------------------------------------------------------------
RECURSIVE SeqsOver(_)          \* the sequences q with q[i] \in S[i]
SeqsOver(S) == IF S = <<>> THEN {<<>>} ELSE {<<h>> \o t : h \in S[1], t \in SeqsOver(Tail(S))}
Ident(n)   == [i \in 1..n |-> i]
PermsOf(n) == {p \in [1..n -> 1..n] : IsPerm(p, n)}
\* every realisation of value v that differs in the insertion order of a dict, at any depth
RECURSIVE Reals(_)
SeqReals(q) == SeqsOver([i \in 1..Len(q) |-> Reals(q[i])])
KvsReals(kvs) == {[i \in 1..Len(kvs) |-> <<kvs[i][1], q[i]>>] : q \in SeqsOver([i \in 1..Len(kvs) |-> Reals(kvs[i][2])])}
Reals(v) ==
    CASE Tag(v) \in {"t", "l"} -> {<<Tag(v), q>> : q \in SeqReals(Pay(v))}
      [] Tag(v) = "m" -> {IF p = Ident(Len(k)) THEN VDict(k) ELSE VDictO(p, k) : p \in PermsOf(Len(Pay(v))), k \in KvsReals(Pay(v))}
      [] Tag(v) = "M" -> {IF p = Ident(Len(k)) THEN VSub(Pay(v)[1], k) ELSE VSubO(Pay(v)[1], p, k) : p \in PermsOf(Len(Pay(v)[2])), k \in KvsReals(Pay(v)[2])}
      [] Tag(v) = "a" /\ Pay(v)[1] = "object" -> {VArr(Pay(v)[1], Pay(v)[2], q) : q \in SeqReals(Pay(v)[3])}
      [] Tag(v) = "S" /\ Pay(v)[1] = "object" -> {VSer(Pay(v)[1], Pay(v)[2], q) : q \in SeqReals(Pay(v)[3])}
      [] OTHER -> {v}
\* every look-alike of v in which the missing-value markers held as objects (cells of lists, tuples,
\* dicts, object arrays / Series / frames) are None, a NaN or NaT
RECURSIVE Miss(_)
SeqMiss(q) == SeqsOver([i \in 1..Len(q) |-> Miss(q[i])])
Miss(v) ==
    CASE Tag(v) \in {"n", "nan", "nat"} -> {None, VNaN(7), VNaT}
      [] Tag(v) \in {"t", "l"} -> {<<Tag(v), q>> : q \in SeqMiss(Pay(v))}
      [] Tag(v) = "m" -> {VDict([i \in 1..Len(q) |-> <<Pay(v)[i][1], q[i]>>]) : q \in SeqMiss([i \in 1..Len(Pay(v)) |-> Pay(v)[i][2]])}
      [] Tag(v) = "a" /\ Pay(v)[1] = "object" -> {VArr(Pay(v)[1], Pay(v)[2], q) : q \in SeqMiss(Pay(v)[3])}
      [] Tag(v) = "S" /\ Pay(v)[1] = "object" -> {VSer(Pay(v)[1], Pay(v)[2], q) : q \in SeqMiss(Pay(v)[3])}
      [] Tag(v) = "F" /\ Pay(v)[1] = "object" -> {VFrm(Pay(v)[1], Pay(v)[2], Pay(v)[3], q) : q \in SeqMiss(Pay(v)[4])}
      [] OTHER -> {v}
\* the views of the given shapes and strides into buffer id (cells bc) at every offset
ViewsOf(dt, id, bc, shapes, strides) ==
    {w \in {VView(dt, id, bc, off, sh, st) : off \in 0..(Len(bc) - 1), sh \in shapes, st \in strides} : ViewOK(w)}

Dab  == VDict(<<<<"a", I(1)>>, <<"b", I(2)>>>>)
Dab2 == VDict(<<<<"a", I(2)>>, <<"b", I(1)>>>>)            \* the values of Dab in the other order: NOT Dab re-ordered
OrdBase  == {Dab, VLst(<<Dab>>), VDict(<<<<"a", Dab>>, <<"b", I(1)>>>>), VSub("Dict", <<<<"a", I(1)>>, <<"b", I(2)>>>>),
             VDict(<<<<"a", VNaN(1)>>, <<"b", Arr12>>>>)}
OrdBaseW == {VDict(<<<<"a", I(1)>>, <<"b", VNaN(2)>>, <<"c", VLst(<<I(1)>>)>>>>), VDict(<<<<"k", VTup(<<Dab>>)>>>>), VTup(<<Dab, Dab>>),
             VArr("object", <<1>>, <<Dab>>), VSer("object", <<I(0)>>, <<Dab>>), VSub("dictattr", <<<<"a", I(1)>>, <<"b", I(2)>>>>),
             VDict(<<<<"a", VSer("float64", RI2, <<F(1, 1), VNaN(0)>>)>>, <<"b", VDict(<<<<"a", VNaN(3)>>, <<"b", None>>>>)>>>>)}
OrdVar == {Dab2} \cup UNION {Reals(u) : u \in OrdBase \cup (IF Wide THEN OrdBaseW ELSE {})}

Buf1 == <<I(1), I(2), I(1), I(2), I(1), I(3)>>                         \* int64, buffer 1
Buf2 == <<VNaN(0), F(1, 1), VNaN(0), F(1, 1), F(7, 1)>>                \* float64, buffer 2
Buf3 == <<None, I(1), VNaN(6), I(1), VStr("a"), None>>                 \* object, buffer 3
Views1 == ViewsOf("int64", 1, Buf1, {<<2>>, <<2, 2>>}, {<<1>>, <<3>>, <<3, 1>>})
          \cup (IF Wide THEN ViewsOf("int64", 1, Buf1, {<<2>>, <<3>>, <<2, 2>>, <<2, 3>>, <<>>},
                                     {<<1>>, <<-1>>, <<2>>, <<3>>, <<3, 1>>, <<1, 3>>, <<1, 1>>, <<-3, 1>>, <<>>}) ELSE {})
Views2 == ViewsOf("float64", 2, Buf2, {<<3>>}, {<<1>>})
          \cup (IF Wide THEN ViewsOf("float64", 2, Buf2, {<<3>>, <<2, 2>>}, {<<1>>, <<-1>>, <<2>>, <<2, 1>>, <<1, 1>>}) ELSE {})
Views3 == IF Wide THEN ViewsOf("object", 3, Buf3, {<<2>>, <<3>>}, {<<1>>, <<2>>, <<-1>>}) ELSE {}
W(off, sh, st) == VView("int64", 1, Buf1, off, sh, st)
AB == <<VStr("a"), VStr("b")>>
ViewCarriers ==
    {VSerV(RI2, W(0, <<2>>, <<1>>)), VSerV(RI2, W(1, <<2>>, <<1>>)), VFrmV(RI2, AB, W(0, <<2, 2>>, <<3, 1>>)), VFrmV(RI2, AB, W(1, <<2, 2>>, <<3, 1>>)),
     VLst(<<W(0, <<2>>, <<1>>)>>), VLst(<<W(1, <<2>>, <<1>>)>>), VDict(<<<<"a", W(2, <<2>>, <<1>>)>>>>)}
    \cup (IF Wide THEN {VSerV(RI2, W(2, <<2>>, <<1>>)), VSerV(RI2, W(0, <<2>>, <<3>>)), VSerV(<<I(1), I(2)>>, W(0, <<2>>, <<1>>)),
                        VFrmV(RI2, AB, W(0, <<2, 2>>, <<1, 3>>)), VFrmV(RI2, <<VStr("a")>>, W(0, <<2, 1>>, <<1, 1>>)), VFrmV(RI2, <<VStr("a")>>, W(1, <<2, 1>>, <<1, 1>>)),
                        VSerV(<<I(0), I(1), I(2)>>, VView("float64", 2, Buf2, 0, <<3>>, <<1>>)), VSerV(<<I(0), I(1), I(2)>>, VView("float64", 2, Buf2, 2, <<3>>, <<1>>)),
                        VTup(<<W(0, <<2>>, <<1>>), W(1, <<2>>, <<1>>)>>), VTup(<<W(1, <<2>>, <<1>>), W(0, <<2>>, <<1>>)>>),
                        VArr("object", <<1>>, <<W(0, <<2>>, <<1>>)>>), VArr("object", <<1>>, <<W(1, <<2>>, <<1>>)>>)} ELSE {})
Views  == Views1 \cup Views2 \cup Views3
\* ... and, next to the views, arrays that own the same cells
ViewVar == Views \cup ViewCarriers \cup {Norm(w) : w \in Views} \cup (IF Wide THEN {Norm(w) : w \in ViewCarriers} ELSE {})

MissBase  == {VSer("object", <<I(0), I(1), I(2)>>, <<None, F(1, 1), VStr("a")>>), VFrm("object", RI2, <<VStr("a")>>, <<None, F(2, 1)>>),
              VArr("object", <<2>>, <<None, I(1)>>)}
MissBaseW == {VLst(<<None, I(1)>>), VTup(<<None>>), VDict(<<<<"a", None>>>>), VSer("object", RI2, <<None, None>>),
              VFrm("object", RI2, AB, <<None, I(1), None, VStr("a")>>), VArr("object", <<1, 2>>, <<None, I(1)>>), VDict(<<<<"k", VSer("object", <<I(0)>>, <<None>>)>>>>)}
MissVar == UNION {Miss(u) : u \in MissBase \cup (IF Wide THEN MissBaseW ELSE {})}

\* ---- a third block: look-alikes that Python's / numpy's own comparisons would let through ---------
\* (a) values that Python's == calls equal although the container types differ (a dict and a dict subclass, a
\*     scalar and a 0-d / one-cell array), put at depth 1 and 2 inside lists, dict values and tuples: "False
\*     whenever container types differ" holds at every depth, where list == list would not see it;
\* (b) numbers that are close but not equal (1000000 / 1000001, 1 / 1 + 2^-17, 0 / 2^-27: inside the default
\*     tolerances of np.allclose / np.isclose / pandas.testing) in every carrier of floats.
Wraps(v) == {VLst(<<v>>), VDict(<<<<"a", v>>>>), VTup(<<I(0), VLst(<<v>>)>>)}
           \cup (IF Wide THEN {VTup(<<v>>), VLst(<<v, v>>), VSub("Dict", <<<<"a", v>>>>), VArr("object", <<1>>, <<v>>), VDict(<<<<"a", VDict(<<<<"a", v>>>>)>>>>)} ELSE {})
LenientBase  == {I(1), VArr("int64", <<>>, <<I(1)>>), VArr("int64", <<1>>, <<I(1)>>), VDict(<<<<"a", I(1)>>>>), VSub("Dict", <<<<"a", I(1)>>>>)}
LenientBaseW == {NpS("int64", I(1)), VArr("float64", <<1, 1>>, <<F(1, 1)>>), VSub("dictattr", <<<<"a", I(1)>>>>), VLst(<<I(1)>>), VTup(<<I(1)>>),
                 VSer("int64", <<I(0)>>, <<I(1)>>), VBool(TRUE), VArr("bool", <<1>>, <<VBool(TRUE)>>)}
DeepVar == UNION {Wraps(v) : v \in LenientBase \cup (IF Wide THEN LenientBaseW ELSE {})}
\* the float leaves of v nudged, one by one or together
NearOf(f) == CASE f = F(1000000, 1) -> F(1000001, 1) [] f = F(1, 1) -> F(131073, 131072) [] f = F(0, 1) -> F(1, 134217728) [] OTHER -> f
RECURSIVE Nudge(_)
SeqNudge(q) == SeqsOver([i \in 1..Len(q) |-> Nudge(q[i])])
Nudge(v) ==
    CASE Tag(v) = "f"  -> {v, NearOf(v)}
      [] Tag(v) = "np" -> {NpS(Pay(v)[1], w) : w \in Nudge(Pay(v)[2])}
      [] Tag(v) \in {"t", "l"} -> {<<Tag(v), q>> : q \in SeqNudge(Pay(v))}
      [] Tag(v) = "m" -> {VDict([i \in 1..Len(q) |-> <<Pay(v)[i][1], q[i]>>]) : q \in SeqNudge([i \in 1..Len(Pay(v)) |-> Pay(v)[i][2]])}
      [] Tag(v) = "a" -> {VArr(Pay(v)[1], Pay(v)[2], q) : q \in SeqNudge(Pay(v)[3])}
      [] Tag(v) = "S" -> {VSer(Pay(v)[1], ix, q) : ix \in SeqNudge(Pay(v)[2]), q \in SeqNudge(Pay(v)[3])}
      [] Tag(v) = "F" -> {VFrm(Pay(v)[1], Pay(v)[2], Pay(v)[3], q) : q \in SeqNudge(Pay(v)[4])}
      [] OTHER -> {v}
NearBase  == {F(1000000, 1), VArr("float64", <<1>>, <<F(1000000, 1)>>), VArr("float64", <<2>>, <<F(1, 1), F(0, 1)>>),
              VSer("float64", <<I(0)>>, <<F(1000000, 1)>>), VFrm("float64", <<I(0)>>, <<VStr("a")>>, <<F(1000000, 1)>>)}
NearBaseW == {NpS("float64", F(1000000, 1)), NpS("float32", F(1000000, 1)), VLst(<<F(1000000, 1)>>), VDict(<<<<"a", F(1, 1)>>>>), VArr("float64", <<>>, <<F(1000000, 1)>>),
              VArr("float32", <<1>>, <<F(1000000, 1)>>), VArr("float64", <<1, 2>>, <<F(1000000, 1), F(0, 1)>>), VArr("object", <<1>>, <<F(1000000, 1)>>),
              VSer("int64", <<F(0, 1), F(1000000, 1)>>, <<I(1), I(2)>>), VSer("float64", RI2, <<F(1, 1), VNaN(0)>>), VFrm("float64", RI2, <<VStr("a")>>, <<F(0, 1), F(1000000, 1)>>)}
NearVar == UNION {Nudge(v) : v \in NearBase \cup (IF Wide THEN NearBaseW ELSE {})}
           \cup {VArr("int64", <<1>>, <<I(1000000)>>), VArr("int64", <<1>>, <<I(1000001)>>)} \cup (IF Wide THEN {I(1000000), I(1000001)} ELSE {})
           \* ... and inside the default tolerance of math.isclose (1e-9): 1 and 1 + 2^-30
           \cup {F(1, 1), F(1073741825, 1073741824), VArr("float64", <<1>>, <<F(1, 1)>>), VArr("float64", <<1>>, <<F(1073741825, 1073741824)>>)}
UX   == DeepVar \cup NearVar

UV   == OrdVar \cup ViewVar \cup MissVar
UAll == U \cup UV \cup UX
NU   == {Norm(u) : u \in UAll}             \* the values of both blocks
NX   == Norm(x)
NY   == Norm(y)

Init == ((x \in U /\ y \in U) \/ (x \in UV /\ y \in UV) \/ (x \in UX /\ y \in UX)) /\ s = <<>> /\ done = FALSE
InitVar == x \in UV /\ y \in UV /\ s = <<>> /\ done = FALSE       \* the block of realisation variants alone
InitLook == x \in UX /\ y \in UX /\ s = <<>> /\ done = FALSE      \* the block of look-alikes alone
Eval == done = FALSE /\ done' = TRUE /\ UNCHANGED <<x, y, s>>
\* S2C generator: the pair and what the statement pins for it - ifT / ifF name the clause the
\* code violates if it answers True / False ("" = that answer is admitted)
\* (var: the pair belongs to the block of realisation variants only)
EvalGen == Eval /\ PrintT(ToJson([x |-> x, y |-> y, ifT |-> ClauseIfTC(x, y), ifF |-> ClauseIfFC(x, y), at |-> AtC(x, y), var |-> (x \notin U \/ y \notin U)]))

\* S2C generator for in_: x against a few sequences over the universe (values and realisation variants)
SeqU == {<<>>, <<None>>, <<I(1), I(2)>>, <<VNaN(2), VStr("a")>>, <<VLst(<<I(1)>>), VTup(<<I(1)>>), Arr12>>,
         <<VLst(<<VNaN(2)>>), VDict(<<<<"a", F(1, 1)>>>>)>>, <<VArr("float64", <<2>>, <<F(1, 1), VNaN(0)>>), VSer("float64", RI2, <<F(1, 1), VNaN(0)>>)>>,
         <<VSub("Dict", <<<<"a", I(1)>>>>), VFrm("int64", RI2, <<VStr("a")>>, <<I(1), I(2)>>), NpS("float32", VNaN(9))>>,
         <<None, Dab>>, <<Dab2, VLst(<<Dab>>), VDictO(<<2, 1>>, <<<<"a", I(1)>>, <<"b", I(2)>>>>)>>,
         <<W(1, <<2>>, <<1>>), W(2, <<2>>, <<1>>)>>, <<VSerV(RI2, W(1, <<2>>, <<1>>)), VArr("object", <<2>>, <<VNaN(8), I(1)>>)>>,
         <<VSer("object", <<I(0), I(1), I(2)>>, <<VNaN(8), F(1, 1), VStr("a")>>), VFrm("object", RI2, <<VStr("a")>>, <<VNaT, F(2, 1)>>)>>,
         <<VLst(<<VSub("Dict", <<<<"a", I(1)>>>>)>>), VLst(<<VArr("int64", <<>>, <<I(1)>>)>>), VDict(<<<<"a", VArr("int64", <<1>>, <<I(1)>>)>>>>)>>,
         <<VArr("float64", <<1>>, <<F(1000001, 1)>>), F(1000001, 1), VSer("float64", <<I(0)>>, <<F(1000001, 1)>>)>>}
InitIn == x \in UAll /\ y = None /\ s \in SeqU /\ done = FALSE
EvalIn == done = FALSE /\ done' = TRUE /\ UNCHANGED <<x, y, s>>
PinIn(u, q) == IF \E i \in 1..Len(q) : PinC(u, q[i]) = "T" /\ \A j \in 1..(i - 1) : PinC(u, q[j]) = "F" THEN "T"
               ELSE IF \A i \in 1..Len(q) : PinC(u, q[i]) = "F" THEN "F" ELSE "free"
EvalInGen == EvalIn /\ PrintT(ToJson([x |-> x, seq |-> s, want |-> IF PinIn(x, s) = "free" THEN <<"T", "F">> ELSE <<PinIn(x, s)>>]))
P_InLaws ==
    /\ InSpec(NX, <<>>) = FALSE
    /\ \A i \in 1..Len(s) : InSpec(NX, NormSeq(SubSeq(s, 1, i))) = (InSpec(NX, NormSeq(SubSeq(s, 1, i - 1))) \/ EqC(x, s[i]))
    /\ (PinIn(x, s) = "T" => InSpec(NX, NormSeq(s)))
    /\ (PinIn(x, s) = "F" => ~InSpec(NX, NormSeq(s)))

\* ---- the clauses of the statement, on the specification -------------------------------------
P_Symmetric   == EqSpec(NX, NY) = EqSpec(NY, NX)
P_TypeStrict  == Kind(NX) # Kind(NY) => ~EqSpec(NX, NY)
P_ShapeStrict == (Tag(NX) = "a" /\ Tag(NY) = "a" /\ Pay(NX)[2] # Pay(NY)[2]) => ~EqSpec(NX, NY)
P_AgreesWithPy == (Plain(NX) /\ Plain(NY) /\ NaNFree(NX) /\ NaNFree(NY)) => (EqSpec(NX, NY) = PyEqX(NX, NY))
P_WhyTotal    == ~EqSpec(NX, NY) => Why(NX, NY) \in {"type", "shape", "cell"}
\* realisations: descriptors are well formed; the value of a realisation is a value (Norm is idempotent and
\* leaves no concrete node); every generated re-ordering is a realisation of the value it came from; two
\* realisations of one value are pinned equal, whatever their insertion orders and their memory; a pair of views
\* with the same cells is pinned equal and a pair with different cells unequal whether or not they share memory
P_Realisations == LET nx == Norm(x)  ny == Norm(y) IN
    /\ ConcreteOK(x) /\ ConcreteOK(nx)
    /\ Norm(nx) = nx
    /\ \A r \in Reals(nx) : Norm(r) = nx
    /\ (nx = ny => Pin(nx, ny) = "T" /\ ClauseIfFC(x, y) \in {"copy_unequal", "other_realisation_unequal"})
    /\ (SameRealisation(x, y) => StructCopy(nx, ny))
    /\ (ClauseIfFC(x, y) = "other_realisation_unequal" => ~SameRealisation(x, y) /\ StructCopy(nx, ny))
    /\ ((Tag(x) = "v" /\ Tag(y) = "v") => (Pin(nx, ny) = "T") = (VDt_(x) = VDt_(y) /\ VShp(x) = VShp(y) /\ ViewCells(x) = ViewCells(y)))
    /\ ((Tag(x) = "v" /\ Tag(y) = "v" /\ SharesCells(x, y)) => MayShare(x, y))
\* each clause is evaluated once per pair, in the state after Eval (initial states are computed by one thread, successors by all workers)
\* (the values Norm(x), Norm(y) are bound once per clause: a LET is evaluated at most once)
Reflexive == ~done \/ LET nx == Norm(x) IN EqSpec(nx, nx) /\ EqSpec(nx, Fresh(nx)) /\ EqSpec(Fresh(nx), nx) /\ StructCopy(nx, Fresh(nx))
Symmetric == ~done \/ P_Symmetric
Transitive == ~done \/ LET nx == Norm(x)  ny == Norm(y) IN EqSpec(nx, ny) => \A z \in NU : EqSpec(ny, z) => EqSpec(nx, z)
TypeStrict == ~done \/ P_TypeStrict
ShapeStrict == ~done \/ P_ShapeStrict
AgreesWithPy == ~done \/ P_AgreesWithPy
PinSound == ~done \/ LET nx == Norm(x)  ny == Norm(y) IN
    /\ (Pin(nx, ny) = "T" => EqSpec(nx, ny))
    /\ (Pin(nx, ny) = "F" => ~EqSpec(nx, ny))
    /\ Pin(nx, ny) = Pin(ny, nx)
    /\ (StructCopy(nx, ny) => Pin(nx, ny) = "T")
\* the pinned entries alone can never force a contradiction with the axioms
PinClosed == ~done \/ LET nx == Norm(x)  ny == Norm(y) IN Pin(nx, ny) = "T" => \A z \in NU : Pin(ny, z) = "T" => Pin(nx, z) # "F"
WhyTotal == ~done \/ P_WhyTotal
InLaws == ~done \/ P_InLaws
Realisations == ~done \/ P_Realisations
=============================================================================
