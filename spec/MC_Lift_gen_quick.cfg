CONSTANTS D = 2
          W = 2
          DD = 3
          Part = "all"
          Materialise = TRUE
INIT Init
NEXT EvalGen
