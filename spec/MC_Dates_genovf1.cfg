CONSTANTS DayYears <- QuickYears
          OvfYears <- QuickOvfYears
          OvfD = 400
          GenYears = {2000}
          GenOvfYears = {1900, 2000, 2299}
INIT GenOvfInit
NEXT GenOvfNext
