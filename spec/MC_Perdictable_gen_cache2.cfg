CONSTANT Sizes <- SZ_gen_cache2
INIT Init
NEXT Gen
