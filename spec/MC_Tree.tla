------------------------------ MODULE MC_Tree ------------------------------
(* Property C15 on the specification.  Three families of behaviours share the variables:       *)
(*  "rebuild"  a real history: the items of a tree t are inserted one by one, in EVERY order,   *)
(*             into an initially empty tree acc (items_to_tree / tree_setitem); the invariants *)
(*             say what acc holds after each insertion and that the end is t itself.  The      *)
(*             single-tree laws (flatten/rebuild inverse, keys/values projections, getitem,    *)
(*             merge with itself / with {}) are checked on the initial state of each history.  *)
(*  "merge"    one state per (t, u, ignore list): laws of the recursive merge, and the code's  *)
(*             mechanism (flatten u, insert item by item) against the law.                     *)
(*  "table"    one state per (t, pattern): the recursive matcher against the declarative       *)
(*             ToTable, and both inverse laws.                                                 *)
(* The same state spaces with NEXT Gen* are the source of the S2C replay: every case is        *)
(* printed together with the outcome the specification expects.                                *)
EXTENDS Tree, TLC, Json
CONSTANTS LeafSet,      \* "small" | "std" | "all": leaves of the merge universe
          RebuildWide,  \* TRUE: rebuild histories over all depth-2 trees on 3 keys (one kind of leaf) as well
          Deep,         \* TRUE: add the sampled depth-3 trees to the merge universe
          Wide3,        \* TRUE: add flat and sampled nested trees over 3 keys to the merge universe
          TableWide,    \* TRUE: three kinds of leaves in the pattern universe, else two
          StrangeWide,  \* TRUE: the larger universe of trees over strange keys
          Only          \* "all" | "dot": "dot" keeps only the merge pairs over dotted keys (for the must-fail run of the EAFP lookup)

VARIABLES mode, t, u, ign, pat, acc, todo, go
vars == <<mode, t, u, ign, pat, acc, todo, go>>
args == <<mode, t, u, ign, pat, acc, todo>>

KeyOrder == <<"a", "ab", "c", "a.ab", "", "keys">>
RevOrder == <<"keys", "", "a.ab", "c", "ab", "a">>
\* "a" is a string prefix of "ab": keys that are prefixes of sibling keys are ordinary, independent keys
Key2 == {"a", "ab"}
Key3 == {"a", "ab", "c"}

L1   == VLst(<<VInt(1)>>)
Leaf4 == {None, VInt(1), VStr("s"), L1}
Leaf3 == {None, VInt(1), VStr("s")}
Leaf2 == {None, VInt(1)}
MLeaf == IF LeafSet = "small" THEN Leaf2 ELSE IF LeafSet = "std" THEN Leaf3 ELSE Leaf4

\* --- universes -----------------------------------------------------------------------------
\* depth-3 sample: every root over two keys whose children come from a hand-picked set of
\* subtrees of depth <= 2 (leaf, flat branch, nested branch, mixed)
Pick == {VInt(1), None,
         Branch([k \in {"a"} |-> VInt(1)]),
         Branch([k \in {"a", "ab"} |-> IF k = "a" THEN None ELSE VStr("s")]),
         Branch([k \in {"ab"} |-> Branch([j \in {"a"} |-> VInt(1)])]),
         Branch([k \in {"a", "ab"} |-> IF k = "a" THEN Branch([j \in {"a", "ab"} |-> IF j = "a" THEN L1 ELSE None]) ELSE VInt(1)])}
DeepU == {Branch(f) : f \in UNION {[S -> Pick] : S \in (SUBSET Key2) \ {{}}}}
Wide3U == RootU(Key3, Leaf2, 1) \cup {Branch(f) : f \in [Key3 -> {VInt(1), Branch([k \in {"c"} |-> None]), Branch([k \in {"a", "c"} |-> VStr("s")])}]}
SingleU == RootU(Key2, Leaf4, 2) \cup Wide3U \cup (IF RebuildWide THEN RootU(Key3, {VInt(1)}, 2) ELSE {})
MergeU == RootU(Key2, MLeaf, 2) \cup (IF Deep THEN DeepU ELSE {}) \cup (IF Wide3 THEN Wide3U ELSE {})
IgnU   == {{}, {None}, {None, VInt(1)}}

\* --- the key alphabet --------------------------------------------------------------------------
\* Keys are arbitrary strings and the laws treat them as opaque.  The code does not always: dictattr /
\* Dict read a string that is NOT a key as a dotted path (d['a.ab'] -> d['a']['ab']), expose keys as
\* attributes next to the methods of dict ('keys', 'items'), and tree_getitem/tree_setitem split a
\* string argument at '.'.  The strange universes put such keys where they can be confused:
\*   DotU   over "a", "ab", "a.ab": the key "a.ab" beside a path a -> ab that ends in a leaf or a branch
\*   OddU   over "" (the empty key) and "keys" (a method name of dict)
\* Segs(k): the path a dotted spelling of k would denote; a path has a dotted spelling only when all
\* its keys are dot-free (the driver uses the 'a.b.c' spelling for those paths only).
Segs(k)    == IF k = "a.ab" THEN <<"a", "ab">> ELSE <<k>>
DotFree(k) == Len(Segs(k)) = 1
Spellable(p) == \A i \in 1..Len(p) : DotFree(p[i])
RootsOver(K, P) == {Branch(f) : f \in UNION {[S -> P] : S \in (SUBSET K) \ {{}}}}
PickD == {VInt(1),
          Branch([k \in {"ab"} |-> Branch([j \in {"a"} |-> VInt(1)])]),                     \* a -> ab is a branch
          Branch([k \in {"ab", "a.ab"} |-> IF k = "ab" THEN None ELSE VInt(1)])}             \* a -> ab is a leaf; a nested dotted key
         \cup (IF StrangeWide THEN {Branch([k \in {"ab"} |-> None]),
                                    Branch([k \in {"a", "a.ab"} |-> IF k = "a" THEN VInt(1) ELSE Branch([j \in {"ab"} |-> None])])}
               ELSE {})
DotU  == RootsOver({"a", "ab", "a.ab"}, PickD)
PickO == {VInt(1), Branch([k \in {""} |-> None]), Branch([k \in {"keys"} |-> Branch([j \in {""} |-> VInt(1)])])}
OddU  == RootsOver({"", "keys"}, PickO)
StrangeU == DotU \cup OddU

\* patterns: every sequence of 1..4 parts over {literal a, literal b, wildcard} with at least
\* one wildcard; the wildcards are named x, y, z, w from left to right
VarNames == <<"x", "y", "z", "w">>
Shape == UNION {[1..n -> {"a", "ab", "%"}] : n \in 1..4}
NVarsBefore(s, i) == Cardinality({j \in 1..(i - 1) : s[j] = "%"})
PatOf(s) == [i \in 1..Len(s) |-> IF s[i] = "%" THEN <<"var", VarNames[NVarsBefore(s, i) + 1]>> ELSE <<"lit", s[i]>>]
PatU == {PatOf(s) : s \in {q \in Shape : \E i \in 1..Len(q) : q[i] = "%"}}
TLeaf == IF TableWide THEN {None, VInt(1), VStr("a")} ELSE {VInt(1), VStr("a")}    \* "a": a leaf that is also the name of a key
TableU == RootU(Key2, TLeaf, 2) \cup DeepU

Nil == <<"nil", 0>>

InitRebuild == /\ mode = "rebuild" /\ t \in SingleU \cup StrangeU /\ u = Nil /\ ign = {} /\ pat = <<>>
               /\ acc = EmptyTree /\ todo = TItems(t)
InitMerge   == /\ mode = "merge" /\ ign \in IgnU /\ pat = <<>>
               /\ \/ Only = "all" /\ t \in MergeU /\ u \in MergeU
                  \/ t \in DotU /\ u \in DotU
                  \/ Only = "all" /\ t \in OddU /\ u \in OddU
               /\ acc = Nil /\ todo = {}
InitTable   == /\ mode = "table" /\ t \in TableU \cup StrangeU /\ u = Nil /\ ign = {} /\ pat \in PatU
               /\ acc = Nil /\ todo = {}
\* go: TLC evaluates invariants on initial states in a single thread; every family therefore starts
\* with a step that only raises `go`, and the laws are stated for the states after it
Init == (IF Only = "all" THEN InitRebuild \/ InitMerge \/ InitTable ELSE InitMerge) /\ go = FALSE
Start == mode = "rebuild" /\ ~go /\ go' = TRUE /\ UNCHANGED args

\* one public call tree_setitem(acc, path, leaf) per step, any order
SetItem == /\ mode = "rebuild" /\ go
           /\ \E it \in todo : acc' = Insert(acc, it[1], it[2], {}) /\ todo' = todo \ {it}
           /\ UNCHANGED <<mode, t, u, ign, pat, go>>
\* tree_update / tree_to_table are pure: nothing but `go` changes
CallMerge == mode = "merge" /\ ~go /\ go' = TRUE /\ UNCHANGED args
CallTable == mode = "table" /\ ~go /\ go' = TRUE /\ UNCHANGED args
Next == Start \/ SetItem \/ CallMerge \/ CallTable

\* --- "rebuild" ------------------------------------------------------------------------------
Fresh == mode = "rebuild" /\ go /\ todo = TItems(t)          \* the initial state of a history
RebuildStep     == (mode = "rebuild" /\ go) => TItems(acc) = TItems(t) \ todo
RebuildInverse  == (mode = "rebuild" /\ todo = {}) => acc = t
FlattenInverse  == Fresh => FromItems(TItems(t)) = t
ItemsPrefixFree == Fresh => PrefixFree(TItems(t))
ElemsOf(s) == {s[i] : i \in 1..Len(s)}
WalksAgree == Fresh => \A ord \in {KeyOrder, RevOrder} :
                 LET is == ItemsSeq(t, ord) IN
                 /\ ElemsOf(is) = TItems(t) /\ Len(is) = Cardinality(TItems(t))
                 /\ KeysSeq(t, ord) = [i \in 1..Len(is) |-> is[i][1]]
                 /\ ValuesSeq(t, ord) = [i \in 1..Len(is) |-> is[i][2]]
GetListed  == Fresh => \A it \in TItems(t) : TGet(t, it[1]) = it[2]
MergeSelf  == Fresh => \A g \in IgnU : Merge(t, t, g) = t
MergeEmpty == Fresh => \A g \in IgnU : Merge(t, EmptyTree, g) = t /\ Merge(EmptyTree, t, g) = t
\* one insertion (tree_setitem) is the merge with a one-leaf tree: on a listed path, below it, above it
SingleIsInsert == Fresh => \A it \in TItems(t) : \A g \in IgnU : \A leaf \in {None, VStr("new")} :
                      \A p \in {it[1], it[1] \o <<"a">>} \cup (IF Len(it[1]) > 1 THEN {Front(it[1])} ELSE {}) :
                          Insert(t, p, leaf, g) = Merge(t, Single(p, leaf), g)

\* --- "merge" --------------------------------------------------------------------------------
M == Merge(t, u, ign)
MergeItems      == (mode = "merge" /\ go) => TItems(M) = OverridingUnion(TItems(t), Effective(t, TItems(u), ign))
MergeMechanism  == (mode = "merge" /\ go) => MergeByInsertion(t, u, ign, KeyOrder) = M /\ MergeByInsertion(t, u, ign, RevOrder) = M
MergeWellFormed == (mode = "merge" /\ go) => WellFormed(M)
MergeIdempotent == (mode = "merge" /\ go) => Merge(M, u, ign) = M
MergeOverrides  == (mode = "merge" /\ go /\ ign = {}) => \A jt \in TItems(u) : TGet(M, jt[1]) = jt[2]
MergeKeeps      == (mode = "merge" /\ go) => \A it \in TItems(t) :
                       (\A jt \in TItems(u) : ~Conflicts(it[1], jt[1])) => TGet(M, it[1]) = it[2]

\* the hazard of the key alphabet, as a mechanism: _tree_setitem written with ONE lookup res[key]
\* (try / except KeyError) instead of `key in res` + res[key].  On a dictattr the lookup of a missing
\* key falls back to the dotted path, so the walk continues in the branch at the end of Segs(key).
\* EAFPLookupIsMerge is refuted by TLC (must-fail run, Only = "dot").
RECURSIVE PutAt(_, _, _)
PutAt(tr, p, sub) == IF p = <<>> THEN sub
                         ELSE Branch([j \in KeysOf(tr) |-> IF j = Head(p) THEN PutAt(Kids(tr)[j], Tail(p), sub) ELSE Kids(tr)[j]])
DGet(tr, k) == IF k \in KeysOf(tr) THEN Kids(tr)[k] ELSE TGet(tr, Segs(k))
RECURSIVE InsertE(_, _, _, _)
InsertE(tr, path, leaf, g) ==
    LET k == Head(path) IN
    IF Len(path) = 1 THEN Insert(tr, path, leaf, g)
    ELSE LET found == DGet(tr, k) IN
         IF found # Absent /\ IsBranch(found)
         THEN PutAt(tr, IF k \in KeysOf(tr) THEN <<k>> ELSE Segs(k), InsertE(found, Tail(path), leaf, g))
         ELSE Branch([j \in KeysOf(tr) \cup {k} |-> IF j = k THEN InsertE(EmptyTree, Tail(path), leaf, g) ELSE Kids(tr)[j]])
RECURSIVE InsertAllE(_, _, _)
InsertAllE(tr, items, g) == IF items = <<>> THEN tr ELSE InsertAllE(InsertE(tr, Head(items)[1], Head(items)[2], g), Tail(items), g)
EAFPLookupIsMerge == (mode = "merge" /\ go) => InsertAllE(t, ItemsSeq(u, KeyOrder), ign) = M

\* --- "table" --------------------------------------------------------------------------------
MatchIsLaw      == (mode = "table" /\ go) => Match(t, pat) = ToTable(t, pat) /\ ToTableFast(t, pat) = ToTable(t, pat)
InverseOnTree   == (mode = "table" /\ go /\ Len(pat) >= 2 /\ Shaped(t, pat)) => FromTable(ToTable(t, pat), pat) = t
FromTableSound  == (mode = "table" /\ go /\ Len(pat) >= 2) => TItems(FromTable(ToTableExact(t, pat), pat)) \subseteq TItems(t)
InverseOnRows   == (mode = "table" /\ go /\ Len(pat) >= 2) =>
                       \A R \in SUBSET ToTableExact(t, pat) :
                           /\ UniquePaths(pat, R) /\ \A r \in R : RowOk(pat, r)
                           /\ ToTable(FromTable(R, pat), pat) = R

\* --- S2C generators ---------------------------------------------------------------------------
GenSingle == /\ mode = "rebuild" /\ ~go /\ go' = TRUE
             /\ PrintT(ToJson([op |-> "items", t |-> t, items |-> TItems(t), spellable |-> {p \in TPaths(t) : Spellable(p)}]))
             /\ UNCHANGED args
GenMerge  == /\ mode = "merge" /\ ~go /\ go' = TRUE
             \* an update with a single item is also one tree_setitem(t, path, leaf, ignore) on (a copy of) t: SingleIsInsert
             /\ PrintT(ToJson([op |-> "update", t |-> t, u |-> u, ign |-> ign, out |-> M,
                               single |-> IF Cardinality(TItems(u)) = 1 THEN {[path |-> it[1], leaf |-> it[2], spellable |-> Spellable(it[1])] : it \in TItems(u)} ELSE {}]))
             /\ UNCHANGED args
GenTable  == /\ mode = "table" /\ ~go /\ go' = TRUE
             /\ PrintT(ToJson([op |-> "table", t |-> t, pat |-> pat, rows |-> ToTable(t, pat),
                               exact |-> ToTableExact(t, pat),
                               back |-> IF Len(pat) >= 2 THEN FromTable(ToTableExact(t, pat), pat) ELSE Nil]))
             /\ UNCHANGED args
InitGenSingle == InitRebuild /\ go = FALSE
InitGenMerge  == InitMerge /\ go = FALSE
InitGenTable  == InitTable /\ go = FALSE
NextGen == GenSingle \/ GenMerge \/ GenTable
=============================================================================
