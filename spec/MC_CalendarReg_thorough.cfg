CONSTANTS Keys = {"a"}
          NHol = 2
          NWk = 1
          NLo = 1
          NHi = 1
          ConAdjs = {"p"}
          ConFull = TRUE
          Rich = FALSE
          MaxObj = 3
          Depth = 0
          KeepHist = FALSE
          SetAdjs = {"m"}
          Fan = 0
INIT Init
NEXT Next
INVARIANT WellFormed
INVARIANT FetchReflectsLast
INVARIANT FetchReflectsConfig
INVARIANT WellConfigured
INVARIANT TableFresh
INVARIANT PathsAgree
PROPERTY OneKeyPerStep
