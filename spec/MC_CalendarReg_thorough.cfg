CONSTANTS Keys = {"a", "b"}
          NHol = 2
          NWk = 1
          Rich = FALSE
          MaxObj = 3
          Depth = 0
          KeepHist = FALSE
INIT Init
NEXT Next
INVARIANT WellFormed
INVARIANT FetchReflectsLast
INVARIANT TableFresh
INVARIANT PathsAgree
PROPERTY OneKeyPerStep
