CONSTANTS D = 2
          W = 2
          DD = 4
          Part = "all"
          Materialise = TRUE
INIT Init
NEXT EvalGen
INVARIANT ResIsLift
INVARIANT ShapePreserved
INVARIANT LeafWise
INVARIANT ScalarsBroadcast
INVARIANT SameShapeMatches
INVARIANT DeepMatchConfined
INVARIANT PosEqKw
INVARIANT ZipRaises
INVARIANT ZipRows
INVARIANT LensAgrees
INVARIANT AsListIdempotent
INVARIANT AsTupleIdempotent
INVARIANT NormKeepsElements
