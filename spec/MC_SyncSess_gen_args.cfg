CONSTANTS Family = "args"
 Depth = 2
INIT Init
NEXT NextGen
INVARIANT HeapIsHistory
