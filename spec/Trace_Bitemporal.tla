-------------------------- MODULE Trace_Bitemporal --------------------------
(* Trace validation for property C17.  Every line of the log is ONE recorded history of the     *)
(* real code:  [id, events]  with the events, in the order of the public calls,                 *)
(*   [op |-> "merge", w, z, v]           store = bi_merge(store, Bi(v, stamp))  (a new publication)*)
(*   [op |-> "again", w, z, v, rows]     the same call for a version already in the store; rows  *)
(*                                       = the <<date, cell>> the real store held at that instant*)
(*   [op |-> "read", w, z, what, spelling, ok, res]                                              *)
(*                                       bi_read(store, asof = T, what) and what it returned     *)
(* (v, rows, res: sequences of <<date, cell>>; cell 0 = NaN; <<w, z>> = the stamp / read time as *)
(* it was WRITTEN for the code: wall clock w in the zone with offset z - the instant is what     *)
(* Bitemporal!Instant makes of it, here, not in the driver; spelling = the Python type of T).    *)
(*                                                                                             *)
(* One TLC behaviour per history (c = the line, l = events consumed), the abstract state         *)
(* (pubs, store, out) as variables, stepped by the SAME Merge / Read actions as the model-       *)
(* checked specification.  Every logged read is judged by the LAW over pubs; a rejected read     *)
(* is reported as  bad = 1000 * c + l  and the behaviour goes on, so the rest is still examined. *)
(* A behaviour that stops early (a merge outside the domain: decreasing stamp) leaves states    *)
(* missing, which the harness reports as a machinery failure.                                    *)
EXTENDS Bitemporal, Batch

Ev(h, k) == Obs[h].events[k]

StrictlyByDate(q) == \A i \in 1..(Len(q) - 1) : q[i][1] < q[i + 1][1]

\* the verdict on one logged read: "" or the name of the clause of the property it contradicts
JudgeRead(e) ==
    IF e.ok = 0 THEN (IF e.spelling \in RefusableT THEN "" ELSE "read_raised")      \* named deviation DateRefused
    ELSE IF ~StrictlyByDate(e.res) THEN "read_duplicate_rows"
    ELSE LET f == SeqMap(e.res)
             T == Instant(<<e.w, e.z>>)
             want == PublishedBy(pubs, T)
         IN  IF DOMAIN f \ want # {} THEN "look_ahead_row"          \* a date first published after T
             ELSE IF want \ DOMAIN f # {} THEN "missing_row"
             ELSE IF AdmitsRead(pubs, T, e.what, f) THEN ""
             ELSE IF e.what = -1 THEN "read_latest" ELSE "read_first"

\* the mechanism model is carried along and must keep agreeing with the law on these (longer,
\* wider) histories too; a disagreement is a defect of the specification, not of the code
JudgeModel(e) == IF AdmitsRead(pubs, Instant(<<e.w, e.z>>), e.what, ReadStore(store, <<e.w, e.z>>, e.what)) THEN "" ELSE "spec_mechanism_vs_law"

Report(v) == IF v = "" THEN TRUE ELSE Reject(1000 * c + l + 1, v)

TraceMerge(e) == Merge(<<e.w, e.z>>, SeqMap(e.v))
\* "already in the store" is a precondition on the REAL store: every row of the version is among
\* the rows the real store held at that stamp.  Not a publication: pubs stays.  The mechanism
\* model follows only when the version is in ITS store too (after a misbehaviour of the real
\* store the two differ; the law, which judges, does not look at either).
TraceAgain(e) == /\ Report(IF \A i \in DOMAIN e.v : \E j \in DOMAIN e.rows : e.rows[j] = e.v[i]
                           THEN "" ELSE "again_not_in_store")
                 /\ pubs' = pubs
                 /\ store' = IF InStore(store, <<e.w, e.z>>, SeqMap(e.v)) THEN MergeStore(store, <<e.w, e.z>>, SeqMap(e.v)) ELSE store
                 /\ out' = NoOut
\* [op |-> "replay", s, stamps]: bi_merge(store, the rows of the real store stamped <= s); stamps =
\* the instants the real store held.  Not a publication; the mechanism model follows with its own copy.
TraceReplay(e) == /\ Report(IF \E i \in DOMAIN e.stamps : e.stamps[i] = e.s THEN "" ELSE "again_not_in_store")
                  /\ pubs' = pubs
                  /\ store' = IF e.s \in StoredInstants(store) THEN MergeTable(store, Snapshot(store, e.s)) ELSE store
                  /\ out' = NoOut
TraceRead(e)  == /\ Read(<<e.w, e.z>>, e.what)
                 /\ Report(JudgeRead(e))
                 /\ Report(JudgeModel(e))

Init == c \in 1..N /\ l = 0 /\ BInit
Next == /\ l < Len(Obs[c].events)
        /\ LET e == Ev(c, l + 1) IN
              \/ e.op = "merge" /\ TraceMerge(e)
              \/ e.op = "again" /\ TraceAgain(e)
              \/ e.op = "replay" /\ TraceReplay(e)
              \/ e.op = "read"  /\ TraceRead(e)
        /\ l' = l + 1 /\ c' = c
=============================================================================
