INIT Init
NEXT Next
