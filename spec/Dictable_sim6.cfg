CONSTANTS MaxDepth = 6
          MaxRowsC = 8
INIT Init
NEXT Next
CONSTRAINT SimBound
