CONSTANTS MaxDepth = 6
          MaxRowsC = 8
INIT Init
NEXT NextSim
CONSTRAINT SimBound
