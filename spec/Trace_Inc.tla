------------------------------ MODULE Trace_Inc ------------------------------
(* Trace validation for property C06: each line of the log is one public call                  *)
(*   d.inc(...) / d.exc(...) / d.find_<c>(...) / d.one_or_none(...)                            *)
(* on a real dictable, with the table before and after the call and the encoded outcome.       *)
EXTENDS Table, Batch

IsTable(o) == o.kind = "table"
Verdict(o) ==
    LET t == o.t  cond == o.cond  out == o.out IN
    IF o.after # t THEN "operand_changed"
    ELSE IF o.filter_after # o.filter_before THEN "filter_argument_changed"     \* the caller's dict of conditions is his own
    ELSE CASE o.op = "inc" ->
                IF ~IsTable(out) THEN "inc_not_a_table"
                ELSE IF Range(out.cols) # ColSet(t) THEN "inc_columns"
                ELSE IF out.rows # Inc(t, cond).rows THEN "inc_rows" ELSE ""
           [] o.op = "exc" ->
                IF ~IsTable(out) THEN "exc_not_a_table"
                ELSE IF Range(out.cols) # ColSet(t) THEN "exc_columns"
                ELSE IF out.rows # Exc(t, cond).rows THEN "exc_rows" ELSE ""
           [] o.op = "find" ->
                LET want == FindOutcomes(t, o.col, cond) IN
                IF out.kind = "exc" THEN (IF Raises(out.cls) \in want THEN "" ELSE "find_raised")
                ELSE IF out.kind = "val" /\ out.v \in want THEN "" ELSE "find_value"
           [] o.op = "one" ->
                LET sel == Inc(t, cond).rows IN
                IF Len(sel) = 0 THEN (IF out.kind = "none" THEN "" ELSE "one_or_none_empty")
                ELSE IF Len(sel) = 1 THEN (IF out.kind = "row" /\ out.row = sel[1] THEN "" ELSE "one_or_none_single")
                ELSE IF out.kind = "exc" /\ out.cls = "ValueError" THEN "" ELSE "one_or_none_multiple"
           [] o.op = "one2" ->         \* d.one_or_none(cond, exc = <column conditions or nothing>, find = <column or nothing>)
                LET sel0 == Inc(t, cond)
                    sel == (IF o.excl.kind = "none" THEN sel0 ELSE Exc(sel0, o.excl)).rows IN
                IF Len(sel) = 0 THEN (IF out.kind = "none" THEN "" ELSE "one_or_none_empty")
                ELSE IF Len(sel) > 1 THEN (IF out.kind = "exc" /\ out.cls = "ValueError" THEN "" ELSE "one_or_none_multiple")
                ELSE IF o.find = "" THEN (IF out.kind = "row" /\ out.row = sel[1] THEN "" ELSE "one_or_none_single")
                ELSE IF (out.kind = "val" /\ out.v = sel[1][o.find]) \/ (out.kind = "none" /\ IsNone(sel[1][o.find])) THEN ""   \* a found None is indistinguishable from "no row"
                ELSE "one_or_none_find"
           [] OTHER -> "unknown_op"

Init == BatchInit
Next == BatchNext(Verdict)
=============================================================================
