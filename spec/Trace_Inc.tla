------------------------------ MODULE Trace_Inc ------------------------------
(* Trace validation for property C06: each line of the log is one public call                  *)
(*   d.inc(...) / d.exc(...) / d.find_<c>(...) / d.one_or_none(...)                            *)
(* on a real dictable, with the table before and after the call and the encoded outcome;        *)
(* or (op = "session") one recorded HISTORY of such calls on one table, all taking their filters *)
(* from one pool of caller-owned objects (IncSession.tla), with the pool and the table as the     *)
(* caller sees them after every call.                                                            *)
EXTENDS IncSession, Batch

IsTable(o) == o.kind = "table"

\* one call e = [call, out, pool_after, t_after, opd_after] of a recorded session on table t with the pool p0 as it was
\* BEFORE THE FIRST call: nothing of the caller's may have changed, and the outcome is judged against the
\* ORIGINAL contents of the filters (calls outside the statement's domain are only held to that).
\* opd = the table the call was made on: t, or (call.on = "last") the table the previous call returned, prev = that
\* previous outcome as it was logged then - it must still read the same after this call
CallClause(t, opd, prev, p0, e) ==
    LET cl == e.call  out == e.out  cd == CondOf(p0, cl) IN
    IF e.t_after # t THEN "operand_changed"
    ELSE IF cl.on = "last" /\ e.opd_after # prev THEN "operand_changed"
    ELSE IF e.pool_after # p0 THEN "filter_argument_changed"
    ELSE IF ~InDomain(opd, p0, cl) THEN ""
    ELSE IF out \in MixedRaises(opd, cl, cd) THEN ""          \* named deviation MixedEmptied
    ELSE CASE cl.op = "inc" ->
                IF ~IsTable(out) THEN "inc_not_a_table"
                ELSE IF Range(out.cols) # ColSet(opd) THEN "inc_columns"
                ELSE IF out.rows # IncC(opd, cd).rows THEN "inc_rows" ELSE ""
           [] cl.op = "exc" ->
                IF ~IsTable(out) THEN "exc_not_a_table"
                ELSE IF Range(out.cols) # ColSet(opd) THEN "exc_columns"
                ELSE IF out.rows \notin {x.rows : x \in ExcReadings(opd, cd)} THEN "exc_rows" ELSE ""
           [] cl.op = "find" ->
                LET want == FindC(opd, cl.col, cd) IN
                IF out.kind = "exc" THEN (IF RaisesOut(out.cls) \in want THEN "" ELSE "find_raised")
                ELSE IF out.kind = "val" /\ [kind |-> "val", v |-> out.v] \in want THEN "" ELSE "find_value"
           [] cl.op = "one" ->
                LET sel == OneSel(opd, p0, cl) IN
                IF Len(sel) = 0 THEN (IF out.kind = "none" THEN "" ELSE "one_or_none_empty")
                ELSE IF Len(sel) = 1 THEN (IF out.kind = "row" /\ out.row = sel[1] THEN "" ELSE "one_or_none_single")
                ELSE IF out.kind = "exc" /\ out.cls = "ValueError" THEN "" ELSE "one_or_none_multiple"
           [] OTHER -> "unknown_op"
\* the k-th call of a recorded history; a call on the previous result needs that result to be a table
KthClause(o, k) ==
    LET e == o.calls[k] IN
    IF e.call.on = "last"
    THEN (IF k > 1 /\ IsTable(o.calls[k - 1].out)
          THEN CallClause(o.t, TableOf(o.calls[k - 1].out, o.t.cols), o.calls[k - 1].out, o.pool, e)
          ELSE "chained_on_nothing")
    ELSE CallClause(o.t, o.t, e.out, o.pool, e)
\* the first call of the history the specification does not explain, as "<index>:<clause>"
SessionVerdict(o) ==
    LET bad == {k \in 1..Len(o.calls) : KthClause(o, k) # ""} IN
    IF bad = {} THEN ""
    ELSE LET k == CHOOSE k \in bad : \A j \in bad : k <= j IN ToString(k) \o ":" \o KthClause(o, k)

Verdict(o) ==
    IF o.op = "session" THEN SessionVerdict(o) ELSE
    LET t == o.t  cond == o.cond  out == o.out IN
    IF o.after # t THEN "operand_changed"
    ELSE IF o.filter_after # o.filter_before THEN "filter_argument_changed"     \* the caller's dict of conditions is his own
    ELSE CASE o.op = "inc" ->
                IF ~IsTable(out) THEN "inc_not_a_table"
                ELSE IF Range(out.cols) # ColSet(t) THEN "inc_columns"
                ELSE IF out.rows # Inc(t, cond).rows THEN "inc_rows" ELSE ""
           [] o.op = "exc" ->
                IF ~IsTable(out) THEN "exc_not_a_table"
                ELSE IF Range(out.cols) # ColSet(t) THEN "exc_columns"
                ELSE IF out.rows # Exc(t, cond).rows THEN "exc_rows" ELSE ""
           [] o.op = "find" ->
                LET want == FindOutcomes(t, o.col, cond) IN
                IF out.kind = "exc" THEN (IF Raises(out.cls) \in want THEN "" ELSE "find_raised")
                ELSE IF out.kind = "val" /\ out.v \in want THEN "" ELSE "find_value"
           [] o.op = "one" ->
                LET sel == Inc(t, cond).rows IN
                IF Len(sel) = 0 THEN (IF out.kind = "none" THEN "" ELSE "one_or_none_empty")
                ELSE IF Len(sel) = 1 THEN (IF out.kind = "row" /\ out.row = sel[1] THEN "" ELSE "one_or_none_single")
                ELSE IF out.kind = "exc" /\ out.cls = "ValueError" THEN "" ELSE "one_or_none_multiple"
           [] o.op = "one2" ->         \* d.one_or_none(cond, exc = <column conditions or nothing>, find = <column or nothing>)
                LET sel0 == Inc(t, cond)
                    sel == (IF o.excl.kind = "none" THEN sel0 ELSE Exc(sel0, o.excl)).rows IN
                IF Len(sel) = 0 THEN (IF out.kind = "none" THEN "" ELSE "one_or_none_empty")
                ELSE IF Len(sel) > 1 THEN (IF out.kind = "exc" /\ out.cls = "ValueError" THEN "" ELSE "one_or_none_multiple")
                ELSE IF o.find = "" THEN (IF out.kind = "row" /\ out.row = sel[1] THEN "" ELSE "one_or_none_single")
                ELSE IF (out.kind = "val" /\ out.v = sel[1][o.find]) \/ (out.kind = "none" /\ IsNone(sel[1][o.find])) THEN ""   \* a found None is indistinguishable from "no row"
                ELSE "one_or_none_find"
           [] OTHER -> "unknown_op"

Init == BatchInit
Next == BatchNext(Verdict)
=============================================================================
