------------------------------ MODULE Trace_Inc ------------------------------
(* Trace validation for property C06: each line of the log is one public call                  *)
(*   d.inc(...) / d.exc(...) / d.find_<c>(...) / d.one_or_none(...)                            *)
(* on a real dictable, with the table before and after the call and the encoded outcome;        *)
(* or (op = "session") one recorded HISTORY of such calls on one table, all taking their filters *)
(* from one pool of caller-owned objects (IncSession.tla), with the pool and the table as the     *)
(* caller sees them after every call; between the calls the caller may edit his objects in place, *)
(* calls may take fresh objects holding the old contents, be made on a second table, and the      *)
(* columns of the real table carry the names the session's naming gives them.                     *)
EXTENDS IncSession, Batch

IsTable(o) == o.kind = "table"

\* A recorded session o = [t, u, nm, pool, calls]: t, u (the second table), pool (as the caller built it) and the calls are logged
\* in the law's column names together with the naming nm = [f |-> column -> real name, ident]; what was OBSERVED (out,
\* pool_after, args_after, t_after, u_after, opd_after) carries the real names.  An entry of o.calls is a public call or
\* (call.op = "edit") the caller's own in-place edit of a pool object.
IsEdit(e) == e.call.op = "edit"
RECURSIVE PoolAt(_, _), PrevAt(_, _), LastCallBefore(_, _)
\* what the caller's objects hold before entry k (his edits applied), what they held before his latest edit, the latest call before k
PoolAt(o, k) == IF k = 1 THEN o.pool ELSE IF IsEdit(o.calls[k - 1]) THEN ApplyEdit(PoolAt(o, k - 1), o.calls[k - 1].call) ELSE PoolAt(o, k - 1)
PrevAt(o, k) == IF k = 1 THEN o.pool ELSE IF IsEdit(o.calls[k - 1]) THEN PoolAt(o, k - 1) ELSE PrevAt(o, k - 1)
LastCallBefore(o, k) == IF k = 1 THEN 0 ELSE IF IsEdit(o.calls[k - 1]) THEN LastCallBefore(o, k - 1) ELSE k - 1
UnRenRow(r, f) == [x \in {y \in DOMAIN f : f[y] \in DOMAIN r} |-> r[f[x]]]
UnRenRows(rs, f) == [i \in 1..Len(rs) |-> UnRenRow(rs[i], f)]

\* one call e = [call, out, pool_after, args_after, t_after, u_after, opd_after] of a recorded session: nothing of the caller's may
\* have changed (pnow = what his objects hold by his own doing), and the outcome is judged against the contents the
\* filters had AT THE MOMENT OF THE CALL (pargs: pnow, or for fresh objects with the old contents what the pool held before
\* the latest edit); calls outside the statement's domain are only held to the former.
\* opd = the table the call was made on: t, u, or (call.on = "last") the table the previous call returned, prev = that
\* previous outcome as it was logged then - it must still read the same after this call
CallClause(o, opd, prev, pnow, pargs, e) ==
    LET cl == e.call  out == e.out  cd == CondOf(pargs, cl)  f == o.nm.f  cols == RenCols(o.t.cols, f) IN
    IF e.t_after # RenT(o.t, f) \/ e.u_after # RenT(o.u, f) THEN "operand_changed"
    ELSE IF cl.on = "last" /\ e.opd_after # prev THEN "operand_changed"
    ELSE IF e.pool_after # Canon(RenPool(pnow, f), cols) THEN "filter_argument_changed"
    ELSE IF cl.src = "old" /\ e.args_after # Canon(RenPool(pargs, f), cols) THEN "filter_argument_changed"
    ELSE IF ~(InDomain(opd, pargs, cl) /\ Expressible(o.nm, opd, pargs, cl)) THEN ""
    ELSE IF out \in MixedRaises(opd, cl, cd) THEN ""          \* named deviation MixedEmptied
    ELSE CASE cl.op = "inc" ->
                IF ~IsTable(out) THEN "inc_not_a_table"
                ELSE IF Range(out.cols) # Range(cols) THEN "inc_columns"
                ELSE IF out.rows # RenRows(IncC(opd, cd).rows, f) THEN "inc_rows" ELSE ""
           [] cl.op = "exc" ->
                IF ~IsTable(out) THEN "exc_not_a_table"
                ELSE IF Range(out.cols) # Range(cols) THEN "exc_columns"
                ELSE IF out.rows \notin {RenRows(x.rows, f) : x \in ExcReadings(opd, cd)} THEN "exc_rows" ELSE ""
           [] cl.op = "find" ->
                LET want == FindC(opd, cl.col, cd) IN
                IF out.kind = "exc" THEN (IF RaisesOut(out.cls) \in want THEN "" ELSE "find_raised")
                ELSE IF out.kind = "val" /\ [kind |-> "val", v |-> out.v] \in want THEN "" ELSE "find_value"
           [] cl.op = "one" ->
                LET sel == OneSel(opd, pargs, cl) IN
                IF Len(sel) = 0 THEN (IF out.kind = "none" THEN "" ELSE "one_or_none_empty")
                ELSE IF Len(sel) = 1 THEN (IF out.kind = "row" /\ out.row = RenRow(sel[1], f) THEN "" ELSE "one_or_none_single")
                ELSE IF out.kind = "exc" /\ out.cls = "ValueError" THEN "" ELSE "one_or_none_multiple"
           [] OTHER -> "unknown_op"
\* the k-th entry of a recorded history; a call on the previous result needs that result to be a table
KthClause(o, k) ==
    LET e == o.calls[k]  pnow == PoolAt(o, k)  j == LastCallBefore(o, k) IN
    IF IsEdit(e) THEN (IF e.pool_after = Canon(RenPool(ApplyEdit(pnow, e.call), o.nm.f), RenCols(o.t.cols, o.nm.f)) THEN "" ELSE "edit_not_as_logged")
    ELSE LET pargs == IF e.call.src = "old" THEN PrevAt(o, k) ELSE pnow IN
         IF e.call.on = "last"
         THEN (IF j > 0 /\ IsTable(o.calls[j].out)
               THEN CallClause(o, [cols |-> o.t.cols, rows |-> UnRenRows(o.calls[j].out.rows, o.nm.f)], o.calls[j].out, pnow, pargs, e)
               ELSE "chained_on_nothing")
         ELSE CallClause(o, IF e.call.on = "u" THEN o.u ELSE o.t, e.out, pnow, pargs, e)
\* the first entry of the history the specification does not explain, as "<index>:<clause>" (later entries are not looked
\* at: they may have been made on a result that is no table of the law's columns)
RECURSIVE FirstBad(_, _)
FirstBad(o, k) == IF k > Len(o.calls) THEN ""
                  ELSE LET v == KthClause(o, k) IN IF v # "" THEN ToString(k) \o ":" \o v ELSE FirstBad(o, k + 1)
SessionVerdict(o) == FirstBad(o, 1)

Verdict(o) ==
    IF o.op = "session" THEN SessionVerdict(o) ELSE
    LET t == o.t  cond == o.cond  out == o.out IN
    IF o.after # t THEN "operand_changed"
    ELSE IF o.filter_after # o.filter_before THEN "filter_argument_changed"     \* the caller's dict of conditions is his own
    ELSE CASE o.op = "inc" ->
                IF ~IsTable(out) THEN "inc_not_a_table"
                ELSE IF Range(out.cols) # ColSet(t) THEN "inc_columns"
                ELSE IF out.rows # Inc(t, cond).rows THEN "inc_rows" ELSE ""
           [] o.op = "exc" ->
                IF ~IsTable(out) THEN "exc_not_a_table"
                ELSE IF Range(out.cols) # ColSet(t) THEN "exc_columns"
                ELSE IF out.rows # Exc(t, cond).rows THEN "exc_rows" ELSE ""
           [] o.op = "find" ->
                LET want == FindOutcomes(t, o.col, cond) IN
                IF out.kind = "exc" THEN (IF Raises(out.cls) \in want THEN "" ELSE "find_raised")
                ELSE IF out.kind = "val" /\ out.v \in want THEN "" ELSE "find_value"
           [] o.op = "one" ->
                LET sel == Inc(t, cond).rows IN
                IF Len(sel) = 0 THEN (IF out.kind = "none" THEN "" ELSE "one_or_none_empty")
                ELSE IF Len(sel) = 1 THEN (IF out.kind = "row" /\ out.row = sel[1] THEN "" ELSE "one_or_none_single")
                ELSE IF out.kind = "exc" /\ out.cls = "ValueError" THEN "" ELSE "one_or_none_multiple"
           [] o.op = "one2" ->         \* d.one_or_none(cond, exc = <column conditions or nothing>, find = <column or nothing>)
                LET sel0 == Inc(t, cond)
                    sel == (IF o.excl.kind = "none" THEN sel0 ELSE Exc(sel0, o.excl)).rows IN
                IF Len(sel) = 0 THEN (IF out.kind = "none" THEN "" ELSE "one_or_none_empty")
                ELSE IF Len(sel) > 1 THEN (IF out.kind = "exc" /\ out.cls = "ValueError" THEN "" ELSE "one_or_none_multiple")
                ELSE IF o.find = "" THEN (IF out.kind = "row" /\ out.row = sel[1] THEN "" ELSE "one_or_none_single")
                ELSE IF (out.kind = "val" /\ out.v = sel[1][o.find]) \/ (out.kind = "none" /\ IsNone(sel[1][o.find])) THEN ""   \* a found None is indistinguishable from "no row"
                ELSE "one_or_none_find"
           [] OTHER -> "unknown_op"

Init == BatchInit
Next == BatchNext(Verdict)
=============================================================================
