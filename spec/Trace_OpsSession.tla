--------------------------- MODULE Trace_OpsSession ---------------------------
(* Trace validation for property C08 over HISTORIES: each line of the log is one recorded session *)
(*   [heap  |-> the caller's objects before the first step (OpsSession.tla),                      *)
(*    steps |-> <<[s |-> step, view |-> the heap as the caller sees it after the step (containers  *)
(*                 by the identity of their members, operands by value), out |-> encoded outcome]>>] *)
(* a step being a public call in some calling form or an action of the caller on its own objects. *)
(* The specification threads its own heap through the history: the caller's actions change it, a  *)
(* call never does; every call is judged against the contents the heap has AT THAT TIME.          *)
(* Verdict: "" or "<k>:<clause>" for the first step k the specification does not explain.          *)
EXTENDS OpsSession, Trace_Ops

CallVerdict(h, cl, st) ==
    IF ~SessDomain(h, cl) THEN "outside_domain"
    ELSE IF st.view.lists # h.lists THEN "container_changed"
    ELSE IF st.view.objs # h.objs THEN "operand_changed"
    ELSE IF st.out.kind = "exc" THEN "raised"
    ELSE LET want == SessOutcomes(h, cl)
             got  == st.out.v
         IN  IF \E w \in want : Matches(w, got) THEN ""
             ELSE WhyNotOp(MechCall(h, cl, FALSE).out, got)
Tagged(k, v) == ToString(k) \o ":" \o v
RECURSIVE Judge(_, _, _)
Judge(h, steps, k) ==
    IF k > Len(steps) THEN ""
    ELSE LET st == steps[k] IN
         IF st.s.act = "call"
         THEN LET v == CallVerdict(h, st.s.c, st) IN IF v # "" THEN Tagged(k, v) ELSE Judge(h, steps, k + 1)
         ELSE IF ~CanDo(h, st.s) THEN Tagged(k, "outside_domain")
         ELSE LET h2 == Apply(h, st.s) IN
              IF st.view # h2 THEN Tagged(k, "caller_action") ELSE Judge(h2, steps, k + 1)
SessVerdict(o) == Judge(o.heap, o.steps, 1)

SessInit == BatchInit
SessNext == BatchNext(SessVerdict)
=============================================================================
