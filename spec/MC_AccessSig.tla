---------------------------- MODULE MC_AccessSig ----------------------------
(* X07-c on the specification: over all signatures with 0-3 positional parameters, any number of trailing defaults,    *)
(* with / without *args and **kw and 0-2 keyword-only parameters with / without defaults                                *)
(*   - the declared defaults are exactly what may be left out, the required parameters exactly what may not,            *)
(*   - getargs names what can still be passed by name, argspec_add yields a signature Python would accept,              *)
(*   - every admitted answer of kwargs2args is the same call, and today's mechanism (move every named positional         *)
(*     parameter, gaps or not) is NOT (cfg MC_AccessSig_mech: MechK2ASameCall must be violated),                         *)
(*   - partialize has an outcome for every probe.                                                                        *)
(* One behaviour  (area, c) --Eval--> done  per case; the generator configuration prints the admitted outcomes (S2C).   *)
EXTENDS AccessSig, Json
CONSTANTS Wide

VARIABLES area, c, done
vars == <<area, c, done>>

I(k) == VInt(k)
PosNames == <<"a", "b", "c">>
MaxPos   == IF Wide THEN 3 ELSE 2
KwOnlys  == {[n |-> <<>>, d |-> <<>>]} \cup {[n |-> <<"k">>, d |-> <<b>>] : b \in BOOLEAN}
            \cup {[n |-> <<"k", "m">>, d |-> <<b1, b2>>] : b1, b2 \in BOOLEAN}
Sig(np, nd, va, ko, vk) == [pos |-> SubSeq(PosNames, 1, np), ndef |-> nd, varargs |-> va, kwonly |-> ko.n, kwdef |-> ko.d, varkw |-> vk]
Sigs == {Sig(np, nd, va, ko, vk) : np \in 0..3, nd \in 0..3, va \in BOOLEAN, ko \in KwOnlys, vk \in BOOLEAN}
AllSigs   == {s \in Sigs : s.ndef <= Len(s.pos)}
SmallSigs == {s \in AllSigs : Len(s.pos) <= MaxPos /\ Len(s.kwonly) <= 1}

Call(p, k) == [pos |-> p, kw |-> k]
ValOf == [a |-> I(1), b |-> I(2), c |-> I(3), k |-> I(4), m |-> I(5), z |-> I(6)]
KwOver(names) == LET present == SelectSeq(NameOrder, LAMBDA n : n \in names) IN [i \in 1..Len(present) |-> <<present[i], ValOf[present[i]]>>]

\* ---- cases ----------------------------------------------------------------------------------------------------
Pre(on, p, k) == [on |-> on, pos |-> p, kw |-> k]
NoPre == Pre(FALSE, <<>>, <<>>)
DP_Pres == {Pre(TRUE, p, k) : p \in {<<>>, <<I(50)>>}, k \in {<<>>, << <<"b", I(70)>> >>, << <<"k", I(71)>> >>}}
DP_Cases == {x \in [sig : SmallSigs, pre : DP_Pres] : PreOK(x.sig, x.pre)}

ADD_Updates == {<<>>, << <<"z", I(0)>> >>, << <<"b", I(9)>> >>, << <<"k", I(9)>> >>, << <<"z", I(0)>>, <<"y", None>> >>, << <<"b", I(9)>>, <<"z", I(0)>> >>}
UPD_Fields == {<<"args", <<"a", "b", "c", "q">>>>, <<"defaults", <<I(1)>>>>, <<"defaults", <<>>>>, <<"varargs", "more">>, <<"varkw", "">>, <<"kwonly", <<"k">>>>}

K2A_Calls == {Call(p, KwOver(ns)) : p \in {<<>>, <<I(10)>>}, ns \in SUBSET {"a", "b", "c", "k", "z"}}

PZ_Pres   == {NoPre, Pre(TRUE, <<>>, << <<"c", I(70)>> >>), Pre(TRUE, <<I(50)>>, <<>>), Pre(TRUE, <<I(50)>>, << <<"b", I(70)>> >>)}
PZ_Args   == {<<>>, <<I(10)>>}
PZ_Kwargs == {<<>>, << <<"b", I(20)>> >>, << <<"z", I(30)>> >>, << <<"b", I(20)>>, <<"z", I(30)>> >>, << <<"k", I(40)>> >>}
PZ_Probes == {Call(<<>>, <<>>), Call(<<I(80)>>, <<>>), Call(<<>>, << <<"c", I(90)>> >>), Call(<<I(80)>>, << <<"k", I(60)>> >>),
              Call(<<>>, << <<"a", I(81)>>, <<"b", I(82)>> >>)}

Init == /\ done = FALSE
        /\ \/ area = "defaults" /\ c \in [sig : AllSigs]
           \/ area = "defaults_partial" /\ c \in DP_Cases
           \/ area = "required" /\ c \in [sig : AllSigs]
           \/ area = "getargs"  /\ c \in [sig : AllSigs, n : 0..3]
           \/ area = "add"      /\ c \in [sig : AllSigs, upd : ADD_Updates]
           \/ area = "update"   /\ c \in [sig : {s \in SmallSigs : Len(s.kwonly) = 0}, f : UPD_Fields]
           \/ area = "k2a"      /\ c \in [sig : SmallSigs, call : K2A_Calls]
           \/ area = "partialize" /\ c \in [sig : SmallSigs, pre : PZ_Pres, args : PZ_Args, kwargs : PZ_Kwargs, probe : PZ_Probes]
Eval == done = FALSE /\ done' = TRUE /\ UNCHANGED <<area, c>>

InK2ADomain == Valid(c.sig, c.call)
Want ==
    CASE area = "defaults" -> [out |-> SetToSeq(Defaults(c.sig))]
      [] area = "defaults_partial" -> [out |-> SetToSeq(DefaultsPartial(c.sig, c.pre))]
      [] area = "required" -> [out |-> SetToSeq(RequiredOutcomes(c.sig))]
      [] area = "getargs"  -> [out |-> GetArgs(c.sig, c.n), indomain |-> GetArgsInDomain(c.sig, c.n)]
      [] area = "add"      -> [out |-> AddSpec(SpecOf(c.sig), c.upd), before |-> SpecOf(c.sig)]
      [] area = "update"   -> [out |-> UpdateSpec(SpecOf(c.sig), c.f[1], c.f[2]), before |-> SpecOf(c.sig)]
      [] area = "k2a"      -> [out |-> SetToSeq(K2AOutcomes(c.sig, c.call)), indomain |-> InK2ADomain]
      [] area = "partialize" -> [out |-> SetToSeq(PartializeOutcomes(c.sig, c.pre, c.args, c.kwargs, c.probe)), indomain |-> TRUE]
EvalGen == Eval /\ PrintT(ToJson([area |-> area, c |-> c, want |-> Want]))

\* ---- invariants ----------------------------------------------------------------------------------------------------
IsA(a) == area = a
Given(n) == VStr("v" \o n)
\* the call that names exactly the parameters without default
MinimalCall(sig) == Call(<<>>, LET req == PosRequired(sig) \o KwRequired(sig) IN [i \in 1..Len(req) |-> <<req[i], Given(req[i])>>])
Without(cc, n) == Call(cc.pos, SelectSeq(cc.kw, LAMBDA p : p[1] # n))
BoundTo(sig, cc, n) == LET b == Bind(sig, cc) IN b[CHOOSE i \in 1..Len(b) : b[i][1] = n][2]
DefaultsAreWhatMayBeLeftOut == IsA("defaults") =>
    /\ Valid(c.sig, MinimalCall(c.sig))
    /\ \A p \in Defaults(c.sig) : BoundTo(c.sig, MinimalCall(c.sig), p[1]) = p[2]
    /\ \A n \in AllNames(c.sig) : (\E p \in Defaults(c.sig) : p[1] = n) <=> ~KwHas(MinimalCall(c.sig).kw, n)
RequiredIsNecessaryAndSufficient == (IsA("required") /\ ~c.sig.varargs) =>
    \A r \in RequiredOutcomes(c.sig) :
        LET cc == Call(<<>>, [i \in 1..Len(r[2]) |-> <<r[2][i], Given(r[2][i])>>]) IN
        /\ Valid(c.sig, cc)
        /\ \A i \in 1..Len(r[2]) : ~Valid(c.sig, Without(cc, r[2][i]))
\* after n positional arguments (no *args) every parameter a valid call can still name is listed, none of the first n is
GetArgsIsWhatIsOpen == (IsA("getargs") /\ ~c.sig.varargs /\ c.n <= NPos(c.sig)) =>
    /\ SeqSet(GetArgs(c.sig, c.n)) = AllNames(c.sig) \ {c.sig.pos[i] : i \in 1..c.n}
    /\ \A ns \in SUBSET AllNames(c.sig) :
          LET cc == Call([i \in 1..c.n |-> I(i)], KwOver(ns)) IN Valid(c.sig, cc) => ns \subseteq SeqSet(GetArgs(c.sig, c.n))
AddGivesASignature == IsA("add") => LET sp == SpecOf(c.sig)  r == AddSpec(sp, c.upd) IN
    /\ SpecWellFormed(sp) /\ SpecWellFormed(r)
    /\ AddSpec(r, c.upd) = r
    /\ SubSeq(r.args, 1, Len(sp.args)) = sp.args /\ SubSeq(r.defaults, 1, Len(sp.defaults)) = sp.defaults
    /\ \A i \in 1..Len(c.upd) : c.upd[i][1] \in SpecNames(r)
    /\ r.kwonly = sp.kwonly /\ r.kwdefaults = sp.kwdefaults /\ r.varargs = sp.varargs /\ r.varkw = sp.varkw
K2ASameCall == (IsA("k2a") /\ Valid(c.sig, c.call)) =>
    /\ K2AOutcomes(c.sig, c.call) # {}
    /\ \A r \in K2AOutcomes(c.sig, c.call) : Valid(c.sig, r) /\ Bind(c.sig, r) = Bind(c.sig, c.call)
\* today's mechanism: with no positional arguments every named positional parameter is moved, whatever lies between them
MechK2A(sig, cc) == IF cc.pos # <<>> THEN cc
                    ELSE Call([i \in 1..Len(SelectSeq(sig.pos, LAMBDA n : KwHas(cc.kw, n))) |-> KwGet(cc.kw, SelectSeq(sig.pos, LAMBDA n : KwHas(cc.kw, n))[i])],
                              SelectSeq(cc.kw, LAMBDA p : p[1] \notin SeqSet(sig.pos)))
MechK2ASameCall == (done /\ IsA("k2a") /\ Valid(c.sig, c.call)) =>       \* (judged after the step, so that the run has states to show)
    Valid(c.sig, MechK2A(c.sig, c.call)) /\ Bind(c.sig, MechK2A(c.sig, c.call)) = Bind(c.sig, c.call)
PartializeHasAnOutcome == IsA("partialize") => LET o == PartializeOutcomes(c.sig, c.pre, c.args, c.kwargs, c.probe) IN
    /\ o # {}
    /\ (~c.pre.on \/ c.pre.pos = <<>> \/ c.args = <<>>) => Cardinality(o) = 1
    \* a keyword the function cannot take never reaches it
    /\ (~c.sig.varkw /\ ~KwHas(c.probe.kw, "z")) => \A r \in o : SIsExc(r) \/ \A i \in 1..Len(r[2]) : r[2][i][1] # "z"
=============================================================================
