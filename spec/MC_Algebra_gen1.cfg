CONSTANTS MaxLen = 3
          MaxLenX = 3
INIT InitGenUlist
NEXT GenUlist
