---------------------------- MODULE MC_TenorZone ----------------------------
(* X05-c on the specification itself, and the generator for the replay into the code.            *)
(* One behaviour per (zone z1 = ZoneMenu[a], UTC minute b); the second (and third) zone runs      *)
(* inside the invariants.  The instants lie on both sides of every switch of every zone of the    *)
(* menu in the years of the model, and in mid-winter / mid-summer.                                *)
EXTENDS TenorZone, Json
CONSTANTS ZYears, GenZYears

VARIABLES k, a, b, done
vars == <<k, a, b, done>>

ZoneMenu == << Zone(0, "none"), Zone(0, "eu"), Zone(60, "eu"), Zone(120, "eu"), Zone(-300, "us"), Zone(-360, "us"), Zone(-480, "us"),
               Zone(540, "none"), Zone(330, "none"), Zone(345, "none"), Zone(-210, "none"), Zone(-300, "none") >>
NZ == Len(ZoneMenu)
Switching == {i \in 1..NZ : ZoneMenu[i][3] # "none"}
Near == {-121, -120, -61, -60, -59, -1, 0, 1, 59, 60, 61, 119, 120, 121}
Instants(Y) == UNION {{SummerStart(ZoneMenu[i], y) + d : d \in Near} \cup {SummerEnd(ZoneMenu[i], y) + d : d \in Near} : i \in Switching, y \in Y}
               \cup UNION {{MinOf(OrdOf(y, 1, 15), 43200), MinOf(OrdOf(y, 7, 15), 43200), MinOf(OrdOf(y, 12, 31), 86340), MinOf(OrdOf(y, 2, 29 - (IF IsLeap(y) THEN 0 ELSE 1)), 0)} : y \in Y}

Init == done = FALSE /\ k = "z" /\ a \in 1..NZ /\ b \in Instants(ZYears)
Next == done = FALSE /\ done' = TRUE /\ UNCHANGED <<k, a, b>>

UtcWall(m) == <<m \div 1440, (m % 1440) * 60, 0>>
T1 == AtUTC(UtcWall(b), ZoneMenu[a])              \* the aware time of zone z1 at instant b
On == done /\ k = "z"
AllZ == {ZoneMenu[i] : i \in 1..NZ}

\* ---- the zones themselves ----
ZoneShape == On => LET z == ZoneMenu[a]  y == CivilOf(b \div 1440)[1] IN
    z[3] # "none" =>
      LET st == SummerStart(z, y)  en == SummerEnd(z, y) IN
      /\ st < en /\ CivilOf(st \div 1440)[1] = y /\ CivilOf(en \div 1440)[1] = y
      /\ Weekday((st + z[2]) \div 1440) = 6 /\ Weekday((en + z[2]) \div 1440) = 6                 \* Sundays, local time
      /\ OffAtUTC(z, st - 1) = z[2] /\ OffAtUTC(z, st) = z[2] + 60 /\ OffAtUTC(z, en - 1) = z[2] + 60 /\ OffAtUTC(z, en) = z[2]
      \* one hour of wall clock does not exist in spring, one hour exists twice in autumn, every other minute once
      /\ \A i \in -2..61 : Cardinality(WallOffsets(z, st + z[2] + i)) = (IF i \in 0..59 THEN 0 ELSE 1)
      /\ \A i \in -2..61 : Cardinality(WallOffsets(z, en + z[2] + i)) = (IF i \in 0..59 THEN 2 ELSE 1)
      /\ (z[3] = "eu" => st % 1440 = 60 /\ en % 1440 = 60)
      /\ (z[3] = "us" => (st + z[2]) % 1440 = 120 /\ (en + z[2] + 60) % 1440 = 120)
OffsetIsOneOfTwo == On => OffAtUTC(ZoneMenu[a], b) \in {ZoneMenu[a][2], ZoneMenu[a][2] + 60} /\ T1[5] = OffAtUTC(ZoneMenu[a], b) /\ UTCMin(T1) = b

\* ---- convert keeps the instant ----
ConvertKeepsInstant == On => \A z2 \in AllZ : LET r == Convert(T1, z2, 0) IN
    /\ IsAware(r) /\ UTCMin(r) = b /\ r[5] = OffAtUTC(z2, b) /\ r[4] = T1[4] /\ r[3] % 60 = T1[3] % 60
    /\ WallMin(r) - WallMin(T1) = r[5] - T1[5]
RoundTrip == On => \A z2 \in AllZ : Convert(Convert(T1, z2, 0), ZoneMenu[a], 0) = T1
Compose   == On => \A z2 \in AllZ, z3 \in AllZ : Convert(Convert(T1, z2, 0), z3, 0) = Convert(T1, z3, 0)
ConvertOwnZone == On => Convert(T1, ZoneMenu[a], 0) = T1
\* a naive datetime stands for the machine's local time
ConvertNaive == On => \A z2 \in AllZ, sys \in {0, 60, -300, 330} :
    Convert(Naive(Wall(T1)), z2, sys) = Convert(Aware(Wall(T1), sys), z2, 0)
\* no zone: the zone is dropped, the wall clock stays (for replace and for convert alike)
DropZone == On => /\ Convert(T1, NoZone, 0) = Naive(Wall(T1)) /\ Replace(T1, NoZone) = Naive(Wall(T1))
                  /\ Replace(Naive(Wall(T1)), NoZone) = Naive(Wall(T1))

\* ---- replace keeps the wall clock ----
ReplaceKeepsWall == On => \A z2 \in AllZ : LET r == Replace(T1, z2) IN
    r # Undefined3 => /\ IsAware(r) /\ Wall(r) = Wall(T1) /\ OffAtUTC(z2, UTCMin(r)) = r[5]
                      /\ UTCMin(r) - b = T1[5] - r[5]                                              \* the instant moves by the difference of the offsets
                      /\ Replace(Naive(Wall(T1)), z2) = r                                          \* whatever zone the time had before
ReplaceOwnZone == On => LET r == Replace(T1, ZoneMenu[a]) IN r # Undefined3 => r = T1
\* replace, then convert: the wall clock of z2 read in z1; replacing back by z2's wall clock round trips
ReplaceThenConvert == On => \A z2 \in AllZ : LET r == Replace(T1, z2) IN
    r # Undefined3 => /\ Convert(Convert(r, ZoneMenu[a], 0), z2, 0) = r
                      /\ Replace(Convert(r, z2, 0), NoZone) = Naive(Wall(T1))
                      /\ Replace(Replace(r, NoZone), z2) = r
\* between two fixed offsets everything is plain subtraction
FixedOffsets == On => \A z2 \in AllZ : (ZoneMenu[a][3] = "none" /\ z2[3] = "none") =>
    /\ Wall(Convert(T1, z2, 0)) = ShiftMin(Wall(T1), z2[2] - ZoneMenu[a][2])
    /\ Replace(T1, z2) = Aware(Wall(T1), z2[2])
SeriesLaw == On => \A z2 \in AllZ : /\ SeriesConvert(T1, z2) = Convert(T1, z2, 0)
                                    /\ SeriesConvert(Naive(Wall(T1)), z2) = Replace(T1, z2)
                                    /\ SeriesConvert(T1, NoZone) = Naive(Wall(T1))
DtLaw == On => \A z2 \in AllZ : /\ Answer("dt", T1, z2, 0) = Replace(T1, z2) /\ Answer("dt", T1, NoZone, 0) = T1
                                /\ Answer("bump", T1, z2, 0) = Convert(T1, z2, 0)
NamesAgree == On => /\ \A nm \in KnownNames : ZoneOfName(nm) \in AllZ \cup {Zone(180, "none")}
                    /\ Cardinality(KnownNames) = Len(ZoneTable)
                    /\ ZoneOfName("london") = ZoneOfName("Europe/London") /\ ZoneOfName("EST") = ZoneOfName("new york")
                    /\ ZoneOfSpelling(<<"name", "tokyo", "upper">>) = Zone(540, "none") /\ ZoneOfSpelling(<<"none">>) = NoZone
                    /\ ZoneOfSpelling(<<"fixed", "timezone", -210>>) = Zone(-210, "none")

\* ---- generator ----
Emit(x) == done = FALSE /\ done' = TRUE /\ UNCHANGED <<k, a, b>> /\ PrintT(ToJson(x))
MapS(F(_), seq) == FoldLeft(LAMBDA acc, x : Append(acc, F(x)), <<>>, seq)
\* every spelling of a zone
NamesOf(z) == {nm \in KnownNames : ZoneOfName(nm) = z}
SpellingsOf(z) == {<<"name", nm, cs>> : nm \in NamesOf(z), cs \in {"asis", "lower", "upper", "swap"}} \cup {<<"obj", nm>> : nm \in NamesOf(z)}
                  \cup (IF z[3] = "none" THEN {<<"fixed", kd, z[2]>> : kd \in {"timezone", "tzoffset", "pytz"}} ELSE {})
GenInit == done = FALSE /\ ((k = "gz" /\ a \in 1..NZ /\ b \in Instants(GenZYears)) \/ (k = "gn" /\ a \in 1..Len(ZoneTable) /\ b = 0))
\* a zone name: its offsets at every instant of the menu
GenName == LET nm == ZoneTable[a][1]  ms == SetToSeq(Instants(GenZYears)) IN
           Emit([k |-> "name", name |-> nm, utc |-> ms, offs |-> MapS(LAMBDA m : OffAtUTC(ZoneOfName(nm), m), ms)])
GenNext == IF k = "gn" THEN GenName ELSE
    LET z1  == ZoneMenu[a]
        sec == <<0, 1, 30, 59>>[(b % 4) + 1]  us == <<0, 1, 500000, 999999>>[((b \div 4) % 4) + 1]
        w   == <<b \div 1440, (b % 1440) * 60 + sec, us>>
        t1  == AtUTC(w, z1)
        s1  == SetToSeq(SpellingsOf(z1))
        sys == <<0, 300, -210, 60>>[((a + b) % 4) + 1]
        zs  == SetToSeq(AllZ)
        one(i, z2) == LET sp == SetToSeq(SpellingsOf(z2))  op == SetToSeq(Ops)[((i + a + b) % Cardinality(Ops)) + 1]
                          tin == IF (i + 2 * a + b) % 3 = 0 THEN Naive(Wall(t1)) ELSE t1
                          spl == sp[((3 * i + a + 5 * (b % 1009)) % Len(sp)) + 1] IN
                      [op |-> op, t |-> tin, z2 |-> spl, sys |-> sys, want |-> IF Claimed(op, spl) THEN Answer(op, tin, z2, sys) ELSE Undefined3]
        cases == MapS(LAMBDA i : one(i, zs[i]), [i \in 1..Len(zs) |-> i])
                 \o << [op |-> "replace", t |-> t1, z2 |-> <<"none">>, sys |-> sys, want |-> Answer("replace", t1, NoZone, sys)],
                       [op |-> "convert", t |-> t1, z2 |-> <<"none">>, sys |-> sys, want |-> Answer("convert", t1, NoZone, sys)],
                       [op |-> "dt", t |-> t1, z2 |-> <<"none">>, sys |-> sys, want |-> Answer("dt", t1, NoZone, sys)],
                       [op |-> "sconvert", t |-> t1, z2 |-> <<"none">>, sys |-> sys, want |-> Answer("sconvert", t1, NoZone, sys)] >>
    IN  Emit([k |-> "zone", utc |-> w, z1 |-> s1[((a + b) % Len(s1)) + 1], t1 |-> t1, cases |-> cases])
=============================================================================
