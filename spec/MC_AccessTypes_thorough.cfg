CONSTANTS Wide = TRUE
INIT Init
NEXT Eval
INVARIANT PinnedIsLattice
INVARIANT Classified
INVARIANT WidthsAreNumbers
INVARIANT NanIsNull
INVARIANT NullIsScalar
INVARIANT PrimIdempotent
INVARIANT PrimIsPrimitive
INVARIANT PrimOKOfPrim
INVARIANT PrimKeepsPredicates
