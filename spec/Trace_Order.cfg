INIT Init
NEXT Next
