INIT Init
NEXT Next
