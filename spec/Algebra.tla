------------------------------ MODULE Algebra ------------------------------
(* Property C16: ulist, dictattr and Dict - ordered set / key algebra without side effects.    *)
(*                                                                                             *)
(* Elements and mapping values are the tagged values of Values.tla; "equal" is Python's ==     *)
(* (PyEq: 1 == True == 1.0), which is what a ulist means by "duplicate" and what the property  *)
(* means by "u + x equals ...".                                                                 *)
(*   a ulist        is a sequence of values no two of which are PyEq                           *)
(*   an operand x   is <<"elem", v>> (a single element) or <<"list", seq>> (a list)            *)
(*   a mapping      is a sequence of <<key, value>> pairs with distinct string keys (a dict in *)
(*                  its insertion order); its class travels beside it                          *)
(*   a definition set for Dict.__call__ is a function  key -> sequence of parameter names,    *)
(*                  beside it their kinds (with / without a default, keyword-only), whether    *)
(*                  the definition declares *args / **kwargs, and what kind of callable it is  *)
EXTENDS Values, SequencesExt

\* ------------------------------------------------------------------------------------------
\* 1. ulist (law level)
\* ------------------------------------------------------------------------------------------
ElemsOf(s) == {s[i] : i \in 1..Len(s)}
IsUSeq(s)  == \A i, j \in 1..Len(s) : i # j => ~PyEq(s[i], s[j])
\* Python's list equality
SeqPyEq(a, b) == Len(a) = Len(b) /\ \A i \in 1..Len(a) : PyEq(a[i], b[i])

\* keep the first occurrence of every element, in order
RECURSIVE Dedup(_)
Dedup(s) == IF s = <<>> THEN <<>>
            ELSE LET r == Dedup(Front(s)) IN IF PyIn(Last(s), r) THEN r ELSE Append(r, Last(s))

Xs(x) == IF x[1] = "elem" THEN <<x[2]>> ELSE x[2]
Union(u, x) == Dedup(u \o Xs(x))                               \* u + x, u | x
Diff(u, x)  == SelectSeq(u, LAMBDA e : ~PyIn(e, Xs(x)))        \* u - x
Inter(u, x) == SelectSeq(u, LAMBDA e : PyIn(e, Xs(x)))         \* u & x

\* s is t with some elements left out
RECURSIVE IsSubSeq(_, _)
IsSubSeq(s, t) == IF s = <<>> THEN TRUE
                  ELSE IF t = <<>> THEN FALSE
                  ELSE IF Head(s) = Head(t) THEN IsSubSeq(Tail(s), Tail(t)) ELSE IsSubSeq(s, Tail(t))
SameClasses(S, T) == (\A a \in S : \E b \in T : PyEq(a, b)) /\ (\A b \in T : \E a \in S : PyEq(a, b))

\* mechanism (the code): ulist(raw) sorts set(raw) by raw.index; the operators special-case a
\* single element
FirstIdx(s, v) == CHOOSE i \in 1..Len(s) : PyEq(s[i], v) /\ \A j \in 1..(i - 1) : ~PyEq(s[j], v)
DedupMech(s) == LET keep == {i \in 1..Len(s) : FirstIdx(s, s[i]) = i}
                IN  [n \in 1..Cardinality(keep) |-> s[CHOOSE i \in keep : Cardinality({j \in keep : j < i}) = n - 1]]
UnionMech(u, x) == IF x[1] = "list" THEN DedupMech(u \o x[2])
                   ELSE IF PyIn(x[2], u) THEN u ELSE DedupMech(Append(u, x[2]))
InterMech(u, x) == IF x[1] = "list" THEN DedupMech(SelectSeq(u, LAMBDA e : PyIn(e, x[2])))
                   ELSE IF PyIn(x[2], u) THEN <<x[2]>> ELSE <<>>          \* the operand's object, equal to u's
DiffMech(u, x)  == IF x[1] = "list" THEN DedupMech(SelectSeq(u, LAMBDA e : ~PyIn(e, x[2])))
                   ELSE IF ~PyIn(x[2], u) THEN u ELSE DedupMech(SelectSeq(u, LAMBDA e : ~PyIn(e, <<x[2]>>)))

\* ------------------------------------------------------------------------------------------
\* 2. key algebra of mappings (law level)
\* ------------------------------------------------------------------------------------------
KeySeq(d)  == [i \in 1..Len(d) |-> d[i][1]]
KeySet(d)  == {d[i][1] : i \in 1..Len(d)}
IsMapping(d) == \A i, j \in 1..Len(d) : i # j => d[i][1] # d[j][1]
At(d, k)   == d[CHOOSE i \in 1..Len(d) : d[i][1] = k][2]
AsFun(d)   == [k \in KeySet(d) |-> At(d, k)]
\* a key selection is <<"elem", key>> or <<"list", keys>>, like a ulist operand
Sel(x)     == IF x[1] = "elem" THEN {x[2]} ELSE ElemsOf(x[2])
Wrap(ks)   == [i \in 1..Len(ks) |-> VStr(ks[i])]
WrapX(x)   == IF x[1] = "elem" THEN <<"elem", VStr(x[2])>> ELSE <<"list", Wrap(x[2])>>

Minus(d, x)  == SelectSeq(d, LAMBDA p : p[1] \notin Sel(x))                 \* d - keys
And(d, x)    == SelectSeq(d, LAMBDA p : p[1] \in Sel(x))                    \* d & keys
Plus(d, o)   == [k \in KeySet(d) \cup KeySet(o) |-> IF k \in KeySet(o) THEN At(o, k) ELSE At(d, k)]   \* {**d, **o}
\* outcomes that may be an error are tagged: <<"map", f>>, <<"list", s>> or Raises(cls)
\* d[[k1, k2, ...]]: the sub-mapping; an absent key is an error
Select(d, ks)   == IF ElemsOf(ks) \subseteq KeySet(d) THEN <<"map", [k \in ElemsOf(ks) |-> At(d, k)]>> ELSE Raises("KeyError")
\* d[k1, k2, ...]: the list of values
MultiGet(d, ks) == IF ElemsOf(ks) \subseteq KeySet(d) THEN <<"list", [i \in 1..Len(ks) |-> At(d, ks[i])]>> ELSE Raises("KeyError")
\* relabel with a renaming ren (a function old key -> new key, on any subset of keys, also of
\* keys d does not have); the domain of the property is the collision-free renamings
NewKey(ren, k)  == IF k \in DOMAIN ren THEN ren[k] ELSE k
Collides(d, ren) == \E k1, k2 \in KeySet(d) : k1 # k2 /\ NewKey(ren, k1) = NewKey(ren, k2)
Relabel(d, ren) == [n \in {NewKey(ren, k) : k \in KeySet(d)} |-> At(d, CHOOSE k \in KeySet(d) : NewKey(ren, k) = n)]
\* the spellings of one relabel call: an optional BLANKET rule for all keys - <<"none">>, <<"prefix", s>>, <<"suffix", s>>
\* or <<"map", ren>> (a dict old -> new, or a callable) - together with INDIVIDUAL relabels (keywords old = new).
\* "Exactly the expected keys": a key named by an individual relabel gets that name, every other key follows
\* the blanket rule (individual relabels are never dropped, whatever the blanket rule is)
BlanketOf(d, bl) == CASE bl[1] = "prefix" -> [k \in KeySet(d) |-> bl[2] \o k]
                      [] bl[1] = "suffix" -> [k \in KeySet(d) |-> k \o bl[2]]
                      [] bl[1] = "map"    -> bl[2]
                      [] OTHER            -> <<>>
Renaming(d, bl, indiv) == LET r == BlanketOf(d, bl) IN
                          [k \in DOMAIN r \cup DOMAIN indiv |-> IF k \in DOMAIN indiv THEN indiv[k] ELSE r[k]]

\* ------------------------------------------------------------------------------------------
\* 2b. values that are mappings themselves: <<"m", f>> with f a function key -> value (a nested dict of ANY dict class:
\*     dict, dictattr, Dict, OrderedDict, defaultdict, a user subclass - the law does not look at the realisation).
\*     "Untouched values": every operator hands the values on as they are.  The one operator that looks inside a value
\*     is + of Dict (and its subclasses), which is tree_update:
\*       DictPlusIsTreeUpdate (named deviation from "d + o == {**d, **o}", which is what dictattr + o and every d | o do):
\*       where BOTH sides hold a mapping under the same key, Dict + o holds their recursive merge (property C15)
\* ------------------------------------------------------------------------------------------
IsM(v) == v[1] = "m"
RECURSIVE DeepV(_, _)
DeepV(dv, ov) == IF IsM(dv) /\ IsM(ov)
                 THEN <<"m", [k \in DOMAIN dv[2] \cup DOMAIN ov[2] |->
                                IF k \notin DOMAIN ov[2] THEN dv[2][k]
                                ELSE IF k \notin DOMAIN dv[2] THEN ov[2][k] ELSE DeepV(dv[2][k], ov[2][k])]>>
                 ELSE ov
TreePlus(cls) == cls \in {"Dict", "SubD"}
PlusOn(cls, d, o) == IF ~TreePlus(cls) THEN Plus(d, o)
                     ELSE [k \in KeySet(d) \cup KeySet(o) |->
                             IF k \notin KeySet(o) THEN At(d, k)
                             ELSE IF k \notin KeySet(d) THEN At(o, k) ELSE DeepV(At(d, k), At(o, k))]

\* 2c. d - path: the key is a PATH tuple <<k1, ..., kn>>, n >= 2, into values that are mappings ("delete a branch"):
\*     the law is the tree with that path removed - a path that is not there is a no-op -, a new mapping of the same
\*     class, and d unchanged AT EVERY DEPTH: the mappings along the path belong to d.  d -= path is the same law for the
\*     name it is applied to (the classes define no __isub__): the object d stays what it was.
\*     PathThroughLeaf (outside the property): a prefix of the path that ends in a value which is not a mapping
RECURSIVE RemF(_, _)
RemF(f, p) == IF Len(p) = 1 THEN [k \in (DOMAIN f) \ {p[1]} |-> f[k]]
              ELSE IF DOMAIN f = {} THEN f
              ELSE IF p[1] \in DOMAIN f THEN (IF IsM(f[p[1]]) THEN [f EXCEPT ![p[1]] = <<"m", RemF(f[p[1]][2], Tail(p))>>] ELSE f)
              ELSE f
RECURSIVE PathOkF(_, _)
PathOkF(f, p) == IF Len(p) = 1 \/ DOMAIN f = {} THEN TRUE
                 ELSE IF p[1] \in DOMAIN f THEN IsM(f[p[1]]) /\ PathOkF(f[p[1]][2], Tail(p)) ELSE TRUE
PathOk(d, p)  == Len(p) >= 2 /\ PathOkF(AsFun(d), p)
RECURSIVE PathThere(_, _)
PathThere(f, p) == IF DOMAIN f = {} THEN FALSE
                   ELSE IF p[1] \in DOMAIN f THEN Len(p) = 1 \/ (IsM(f[p[1]]) /\ PathThere(f[p[1]][2], Tail(p))) ELSE FALSE
MinusPath(d, p) == LET g == RemF(AsFun(d), p) IN [i \in 1..Len(d) |-> <<d[i][1], g[d[i][1]]>>]       \* (n >= 2: no top-level key goes)
\* mechanism: which of d's own nested mappings does the result share?  "alongpath": none of those along the path (they are
\* copied - today's code); "rootonly": all of them (a shallow copy of the root only, the deletion happens in the shared
\* branch).  What d holds afterwards:
PathMechAfter(policy, d, p) == IF policy = "rootonly" /\ PathThere(AsFun(d), p) THEN MinusPath(d, p) ELSE d

\* ------------------------------------------------------------------------------------------
\* 3. Dict.__call__: evaluation of definitions in dependency order
\*    par  : derived key -> sequence of the names of its NAMED parameters, as declared
\*    kin  : derived key -> sequence of the kinds of those parameters:
\*             "req" / "opt"      positional-or-keyword, without / with a default value
\*             "kwreq" / "kwopt"  keyword-only,          without / with a default value
\*    star : derived key -> "", "args", "kw" or "args_kw": the definition also declares *args
\*           and / or **kwargs
\*    shape: derived key -> what kind of callable value carries that declaration: "def" a plain
\*           function, "obj" an object with a __call__ method, "partial" a functools.partial of
\*           a function whose first positional parameter is bound (the law does not look at it:
\*           "callable values")
\*    base : the mapping before the call.
\*    "Arguments taken by name from the mapping": a parameter is an argument called by its name,
\*    whatever its kind.  One that is itself being defined waits for the new value (an EDGE of the
\*    dependency graph - of the kind of the parameter); any other is read from the mapping; only
\*    a name the mapping does not have at all falls back on the parameter's own default.  The
\*    statement orders the evaluation by the edges and calls a cycle of edges circular: it makes
\*    no difference between edges through required and through defaulted parameters.
\*    The value a definition computes is the tuple (key, arg1, arg2, ...) of what it received for
\*    its named parameters, so that a value identifies the whole evaluation that produced it; a
\*    default is the marker ("default", key, parameter).
\*    Outside the property (named exclusions):
\*      NoSelfLoops    b = lambda b: ... means "the previous value" in the code
\*      Grounded       a parameter without a default names something the mapping or another
\*                     definition provides (otherwise the call of the definition is a TypeError)
\*      NoHiddenKey    the code hands every definition a hidden extra argument key = <its name>
\*                     which an entry "key" of the mapping must trump; a parameter called "key"
\*                     without such an entry receives it, and the statement is silent about that
\*      StarsUnjudged  what arrives in *args / **kwargs (the code: nothing / the whole mapping)
\*                     is not "taken by name": the value does not report it
\* ------------------------------------------------------------------------------------------
ParamKinds == {"req", "opt", "kwreq", "kwopt"}
Stars      == {"", "args", "kw", "args_kw"}
Shapes     == {"def", "obj", "partial"}
HasDefault(kind) == kind \in {"opt", "kwopt"}
KwOnly(kind)     == kind \in {"kwreq", "kwopt"}
\* Python's grammar: positional parameters without a default, then those with one, then keyword-only ones
KindRank(kind)   == CASE kind = "req" -> 1 [] kind = "opt" -> 2 [] OTHER -> 3
ParSet(par, k)   == {par[k][i] : i \in 1..Len(par[k])}
WellFormed(par, kin, star, shape) ==
    /\ DOMAIN kin = DOMAIN par /\ DOMAIN star = DOMAIN par /\ DOMAIN shape = DOMAIN par
    /\ \A k \in DOMAIN par : /\ Len(kin[k]) = Len(par[k]) /\ star[k] \in Stars /\ shape[k] \in Shapes
                             /\ \A i \in 1..Len(par[k]) : kin[k][i] \in ParamKinds
                             /\ \A i, j \in 1..Len(par[k]) : i < j => par[k][i] # par[k][j] /\ KindRank(kin[k][i]) <= KindRank(kin[k][j])
NoSelfLoops(par) == \A k \in DOMAIN par : k \notin ParSet(par, k)
Grounded(par, kin, base) == \A k \in DOMAIN par : \A i \in 1..Len(par[k]) :
                               ~HasDefault(kin[k][i]) => par[k][i] \in DOMAIN par \cup DOMAIN base
NoHiddenKey(par, base)   == \A k \in DOMAIN par : "key" \in ParSet(par, k) => "key" \in DOMAIN par \cup DOMAIN base
AllReq(par)  == [k \in DOMAIN par |-> [i \in 1..Len(par[k]) |-> "req"]]       \* every parameter required, no stars:
NoStars(par) == [k \in DOMAIN par |-> ""]                                        \* the plain definitions
Dflt(k, p)       == VTup(<<VStr("default"), VStr(k), VStr(p)>>)
ArgOf(k, p, m)   == IF p \in DOMAIN m THEN m[p] ELSE Dflt(k, p)
ValOf(k, ps, m)  == VTup(<<VStr(k)>> \o [i \in 1..Len(ps) |-> ArgOf(k, ps[i], m)])
Put(m, k, v)     == [x \in DOMAIN m \cup {k} |-> IF x = k THEN v ELSE m[x]]

\* the machine: one action per evaluation of a definition; k may be evaluated when none of its
\* named parameters - of whatever kind - is still pending
CanEval(k, pending, par) == k \in pending /\ ParSet(par, k) \cap pending = {}
Stuck(pending, par)      == pending # {} /\ \A k \in pending : ~CanEval(k, pending, par)

\* law level: cyclic definitions are an error, otherwise every derived key has the value of its
\* definition applied to the final values of its parameters
Succ(par, k) == ParSet(par, k) \cap DOMAIN par
RECURSIVE ReachN(_, _, _)
ReachN(S, par, n) == IF n = 0 THEN S ELSE ReachN(S \cup UNION {Succ(par, x) : x \in S}, par, n - 1)
Cyclic(par) == \E k \in DOMAIN par : k \in ReachN(Succ(par, k), par, Cardinality(DOMAIN par))
RECURSIVE Fin(_, _, _)
Fin(k, par, base) == VTup(<<VStr(k)>> \o [i \in 1..Len(par[k]) |->
                              LET p == par[k][i] IN
                              IF p \in DOMAIN par THEN Fin(p, par, base)                \* (a) derived in the same call: the NEW value
                              ELSE IF p \in DOMAIN base THEN base[p]                    \* (b) already in the mapping
                              ELSE Dflt(k, p)])                                         \* (c) nowhere: the parameter's default
Outcome(par, base) == IF Cyclic(par) THEN Raises("ValueError")
                      ELSE <<"map", [k \in DOMAIN base \cup DOMAIN par |-> IF k \in DOMAIN par THEN Fin(k, par, base) ELSE base[k]]>>

\* mechanism (the code): the definitions, in keyword order `rem`, are evaluated layer by layer: all those that
\* depend (dep[k] = the names that make k wait) on no remaining definition, one after the other in keyword
\* order, each seeing what the ones before it stored; the last remaining definition is evaluated without
\* looking at its parameters.  Today's code: dep[k] = every named parameter (DepAll); DepRequired is the
\* variant that lets defaulted parameters through (it breaks the law: MC_Algebra_reqonly.cfg)
RECURSIVE EvalSeq(_, _, _)
EvalSeq(ks, m, par) == IF ks = <<>> THEN m
                       ELSE EvalSeq(Tail(ks), Put(m, Head(ks), ValOf(Head(ks), par[Head(ks)], m)), par)
RECURSIVE Layered(_, _, _, _)
Layered(rem, m, par, dep) ==
    IF Len(rem) <= 1 THEN <<"map", EvalSeq(rem, m, par)>>
    ELSE LET ind == SelectSeq(rem, LAMBDA k : dep[k] \cap ElemsOf(rem) = {}) IN
         IF ind = <<>> THEN Raises("ValueError")
         ELSE Layered(SelectSeq(rem, LAMBDA k : k \notin ElemsOf(ind)), EvalSeq(ind, m, par), par, dep)
DepAll(par)           == [k \in DOMAIN par |-> ParSet(par, k)]
DepRequired(par, kin) == [k \in DOMAIN par |-> {par[k][i] : i \in {j \in 1..Len(par[k]) : ~HasDefault(kin[k][j])}}]
DepPositional(par, kin) == [k \in DOMAIN par |-> {par[k][i] : i \in {j \in 1..Len(par[k]) : ~KwOnly(kin[k][j])}}]
\* ------------------------------------------------------------------------------------------
\* 4. Sessions: histories of public calls and of the caller's own actions on the SAME objects.
\*    Law ("a call has no memory and owns nothing of the caller"): the outcome of every call is the single-call
\*    law applied to what the objects hold AT THAT MOMENT - whatever was called or edited before -, every object
\*    of the caller (receiver and arguments) holds after the call what it held before it, and what the caller
\*    later does to the result of a call does not reach any of the caller's other objects.
\* ------------------------------------------------------------------------------------------
UlistLaw(fn, u, x) == CASE fn \in {"add", "or"} -> Union(u, x)
                        [] fn = "sub" -> Diff(u, x)
                        [] fn = "and" -> Inter(u, x)

\* in-place edits of a list object through the list API: u[i] = v, append, pop, pop + append, reverse, insert, del u[i], clear
EditL(u, e) == CASE e[1] = "set"       -> [u EXCEPT ![e[2]] = e[3]]
                 [] e[1] = "append"    -> Append(u, e[2])
                 [] e[1] = "pop"       -> Front(u)
                 [] e[1] = "popappend" -> Append(Front(u), e[2])
                 [] e[1] = "reverse"   -> Reverse(u)
                 [] e[1] = "insert"    -> InsertAt(u, e[2], e[3])
                 [] e[1] = "del"       -> RemoveAt(u, e[2])
                 [] OTHER              -> <<>>                          \* "clear"
EditLOk(u, e) == CASE e[1] \in {"set", "del"}          -> e[2] \in 1..Len(u)
                   [] e[1] = "insert"                  -> e[2] \in 1..(Len(u) + 1)
                   [] e[1] \in {"pop", "popappend"}    -> u # <<>>
                   [] e[1] \in {"append", "reverse", "clear"} -> TRUE
                   [] OTHER -> FALSE
\* 4a. ONE ulist object u.  A call is  <<"op", fn, x>>  u fn x  |  <<"rop", fn, w>>  ulist(w) fn u (u is the right operand, a
\*     list)  |  <<"in", e>>  e in u.  The owner edits u in place between the calls (a ulist IS a list); the domain of the
\*     property (OwnerKeepsUnique) are the edits after which u still has no duplicates.  The result of a call is a
\*     sequence (for "in": the one-element sequence of the boolean)
CallU(u, c) == CASE c[1] = "op"  -> UlistLaw(c[2], u, c[3])
                 [] c[1] = "rop" -> UlistLaw(c[2], Dedup(c[3]), <<"list", u>>)
                 [] OTHER        -> <<VBool(PyIn(c[2], u))>>
OwnerKeepsUnique(u, e) == EditLOk(u, e) /\ IsUSeq(EditL(u, e))

\* 4b. mapping sessions.  The caller's objects: two receivers d, e (classes cls.d, cls.e), a list of keys K, another mapping O
\*     and a renaming M (old -> new, as a dict); st = [d, e, K, O, M], every mapping as its sequence of <<key, value>>.
\*     A call is <<name, receiver>> (or <<"relabel", receiver, individual relabels>>) and takes K / O / M as they are
SetKey(d, k, v) == IF k \in KeySet(d) THEN [i \in 1..Len(d) |-> IF d[i][1] = k THEN <<k, v>> ELSE d[i]] ELSE Append(d, <<k, v>>)
DelKey(d, k)    == SelectSeq(d, LAMBDA p : p[1] # k)
RenOf(st, r, c) == Renaming(st[r], <<"map", AsFun(st.M)>>, AsFun(c[3]))          \* the individual relabels c[3] as items old, new
CallMOk(st, c)  == c[1] = "relabel" => ~Collides(st[c[2]], RenOf(st, c[2], c))
CallM(st, cls, c) == LET r == st[c[2]] IN
    CASE c[1] = "minus"    -> <<"map", AsFun(Minus(r, <<"list", st.K>>))>>             \* r - K
      [] c[1] = "and"      -> <<"map", AsFun(And(r, <<"list", st.K>>))>>               \* r & K
      [] c[1] = "select"   -> Select(r, st.K)                                          \* r[K]
      [] c[1] = "multiget" -> MultiGet(r, st.K)                                        \* r[tuple(K)]
      [] c[1] = "plus"     -> <<"map", PlusOn(cls[c[2]], r, st.O)>>                    \* r + O
      [] c[1] = "or"       -> <<"map", Plus(r, st.O)>>                                 \* r | O
      [] c[1] = "keys"     -> <<"list", Wrap(KeySeq(r))>>                              \* r.keys()
      [] OTHER             -> <<"map", Relabel(r, RenOf(st, c[2], c))>>                \* r.relabel(M, **individual)
\* the owner's edits: obj[k] = v / del obj[k] / obj.clear() for obj one of d, e, O, M; K.append(k), K.pop()
EditM(st, e) == CASE e[1] = "set"     -> [st EXCEPT ![e[2]] = SetKey(@, e[3], e[4])]
                  [] e[1] = "del"     -> [st EXCEPT ![e[2]] = DelKey(@, e[3])]
                  [] e[1] = "clear"   -> [st EXCEPT ![e[2]] = <<>>]
                  [] e[1] = "appendK" -> [st EXCEPT !.K = Append(@, e[2])]
                  [] OTHER            -> [st EXCEPT !.K = Front(@)]                       \* "popK"
EditMOk(st, e) == CASE e[1] \in {"set", "clear"} -> e[2] \in {"d", "e", "O", "M"}
                    [] e[1] = "del"     -> e[2] \in {"d", "e", "O", "M"} /\ e[3] \in KeySet(st[e[2]])
                    [] e[1] = "appendK" -> TRUE
                    [] e[1] = "popK"    -> st.K # <<>>
                    [] OTHER -> FALSE
=============================================================================
