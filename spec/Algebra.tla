------------------------------ MODULE Algebra ------------------------------
(* Property C16: ulist, dictattr and Dict - ordered set / key algebra without side effects.    *)
(*                                                                                             *)
(* Elements and mapping values are the tagged values of Values.tla; "equal" is Python's ==     *)
(* (PyEq: 1 == True == 1.0), which is what a ulist means by "duplicate" and what the property  *)
(* means by "u + x equals ...".                                                                 *)
(*   a ulist        is a sequence of values no two of which are PyEq                           *)
(*   an operand x   is <<"elem", v>> (a single element) or <<"list", seq>> (a list)            *)
(*   a mapping      is a sequence of <<key, value>> pairs with distinct string keys (a dict in *)
(*                  its insertion order); its class travels beside it                          *)
(*   a definition set for Dict.__call__ is a function  key -> sequence of parameter names      *)
EXTENDS Values, SequencesExt

\* ------------------------------------------------------------------------------------------
\* 1. ulist (law level)
\* ------------------------------------------------------------------------------------------
ElemsOf(s) == {s[i] : i \in 1..Len(s)}
IsUSeq(s)  == \A i, j \in 1..Len(s) : i # j => ~PyEq(s[i], s[j])
\* Python's list equality
SeqPyEq(a, b) == Len(a) = Len(b) /\ \A i \in 1..Len(a) : PyEq(a[i], b[i])

\* keep the first occurrence of every element, in order
RECURSIVE Dedup(_)
Dedup(s) == IF s = <<>> THEN <<>>
            ELSE LET r == Dedup(Front(s)) IN IF PyIn(Last(s), r) THEN r ELSE Append(r, Last(s))

Xs(x) == IF x[1] = "elem" THEN <<x[2]>> ELSE x[2]
Union(u, x) == Dedup(u \o Xs(x))                               \* u + x, u | x
Diff(u, x)  == SelectSeq(u, LAMBDA e : ~PyIn(e, Xs(x)))        \* u - x
Inter(u, x) == SelectSeq(u, LAMBDA e : PyIn(e, Xs(x)))         \* u & x

\* s is t with some elements left out
RECURSIVE IsSubSeq(_, _)
IsSubSeq(s, t) == IF s = <<>> THEN TRUE
                  ELSE IF t = <<>> THEN FALSE
                  ELSE IF Head(s) = Head(t) THEN IsSubSeq(Tail(s), Tail(t)) ELSE IsSubSeq(s, Tail(t))
SameClasses(S, T) == (\A a \in S : \E b \in T : PyEq(a, b)) /\ (\A b \in T : \E a \in S : PyEq(a, b))

\* mechanism (the code): ulist(raw) sorts set(raw) by raw.index; the operators special-case a
\* single element
FirstIdx(s, v) == CHOOSE i \in 1..Len(s) : PyEq(s[i], v) /\ \A j \in 1..(i - 1) : ~PyEq(s[j], v)
DedupMech(s) == LET keep == {i \in 1..Len(s) : FirstIdx(s, s[i]) = i}
                IN  [n \in 1..Cardinality(keep) |-> s[CHOOSE i \in keep : Cardinality({j \in keep : j < i}) = n - 1]]
UnionMech(u, x) == IF x[1] = "list" THEN DedupMech(u \o x[2])
                   ELSE IF PyIn(x[2], u) THEN u ELSE DedupMech(Append(u, x[2]))
InterMech(u, x) == IF x[1] = "list" THEN DedupMech(SelectSeq(u, LAMBDA e : PyIn(e, x[2])))
                   ELSE IF PyIn(x[2], u) THEN <<x[2]>> ELSE <<>>          \* the operand's object, equal to u's
DiffMech(u, x)  == IF x[1] = "list" THEN DedupMech(SelectSeq(u, LAMBDA e : ~PyIn(e, x[2])))
                   ELSE IF ~PyIn(x[2], u) THEN u ELSE DedupMech(SelectSeq(u, LAMBDA e : ~PyIn(e, <<x[2]>>)))

\* ------------------------------------------------------------------------------------------
\* 2. key algebra of mappings (law level)
\* ------------------------------------------------------------------------------------------
KeySeq(d)  == [i \in 1..Len(d) |-> d[i][1]]
KeySet(d)  == {d[i][1] : i \in 1..Len(d)}
IsMapping(d) == \A i, j \in 1..Len(d) : i # j => d[i][1] # d[j][1]
At(d, k)   == d[CHOOSE i \in 1..Len(d) : d[i][1] = k][2]
AsFun(d)   == [k \in KeySet(d) |-> At(d, k)]
\* a key selection is <<"elem", key>> or <<"list", keys>>, like a ulist operand
Sel(x)     == IF x[1] = "elem" THEN {x[2]} ELSE ElemsOf(x[2])
Wrap(ks)   == [i \in 1..Len(ks) |-> VStr(ks[i])]
WrapX(x)   == IF x[1] = "elem" THEN <<"elem", VStr(x[2])>> ELSE <<"list", Wrap(x[2])>>

Minus(d, x)  == SelectSeq(d, LAMBDA p : p[1] \notin Sel(x))                 \* d - keys
And(d, x)    == SelectSeq(d, LAMBDA p : p[1] \in Sel(x))                    \* d & keys
Plus(d, o)   == [k \in KeySet(d) \cup KeySet(o) |-> IF k \in KeySet(o) THEN At(o, k) ELSE At(d, k)]   \* {**d, **o}
\* outcomes that may be an error are tagged: <<"map", f>>, <<"list", s>> or Raises(cls)
\* d[[k1, k2, ...]]: the sub-mapping; an absent key is an error
Select(d, ks)   == IF ElemsOf(ks) \subseteq KeySet(d) THEN <<"map", [k \in ElemsOf(ks) |-> At(d, k)]>> ELSE Raises("KeyError")
\* d[k1, k2, ...]: the list of values
MultiGet(d, ks) == IF ElemsOf(ks) \subseteq KeySet(d) THEN <<"list", [i \in 1..Len(ks) |-> At(d, ks[i])]>> ELSE Raises("KeyError")
\* relabel with a renaming ren (a function old key -> new key, on any subset of keys, also of
\* keys d does not have); the domain of the property is the collision-free renamings
NewKey(ren, k)  == IF k \in DOMAIN ren THEN ren[k] ELSE k
Collides(d, ren) == \E k1, k2 \in KeySet(d) : k1 # k2 /\ NewKey(ren, k1) = NewKey(ren, k2)
Relabel(d, ren) == [n \in {NewKey(ren, k) : k \in KeySet(d)} |-> At(d, CHOOSE k \in KeySet(d) : NewKey(ren, k) = n)]

\* ------------------------------------------------------------------------------------------
\* 3. Dict.__call__: evaluation of definitions in dependency order
\*    par : derived key -> sequence of its parameter names; base: the mapping before the call.
\*    A parameter that is itself being defined waits for the new value; any other is read from
\*    the mapping.  The value a definition computes is the tuple (key, arg1, arg2, ...), so
\*    that a value identifies the whole evaluation that produced it.
\*    Definitions that take their own key as a parameter (b = lambda b: ...) mean "the previous
\*    value" in the code and are outside the property: NoSelfLoops.
\* ------------------------------------------------------------------------------------------
ParSet(par, k)   == {par[k][i] : i \in 1..Len(par[k])}
NoSelfLoops(par) == \A k \in DOMAIN par : k \notin ParSet(par, k)
Grounded(par, base) == \A k \in DOMAIN par : ParSet(par, k) \subseteq DOMAIN par \cup DOMAIN base
ValOf(k, ps, m)  == VTup(<<VStr(k)>> \o [i \in 1..Len(ps) |-> m[ps[i]]])
Put(m, k, v)     == [x \in DOMAIN m \cup {k} |-> IF x = k THEN v ELSE m[x]]

\* the machine: one action per evaluation of a definition
CanEval(k, pending, par) == k \in pending /\ ParSet(par, k) \cap pending = {}
Stuck(pending, par)      == pending # {} /\ \A k \in pending : ~CanEval(k, pending, par)

\* law level: cyclic definitions are an error, otherwise every derived key has the value of its
\* definition applied to the final values of its parameters
Succ(par, k) == ParSet(par, k) \cap DOMAIN par
RECURSIVE ReachN(_, _, _)
ReachN(S, par, n) == IF n = 0 THEN S ELSE ReachN(S \cup UNION {Succ(par, x) : x \in S}, par, n - 1)
Cyclic(par) == \E k \in DOMAIN par : k \in ReachN(Succ(par, k), par, Cardinality(DOMAIN par))
RECURSIVE Fin(_, _, _)
Fin(k, par, base) == VTup(<<VStr(k)>> \o [i \in 1..Len(par[k]) |->
                              IF par[k][i] \in DOMAIN par THEN Fin(par[k][i], par, base) ELSE base[par[k][i]]])
Outcome(par, base) == IF Cyclic(par) THEN Raises("ValueError")
                      ELSE <<"map", [k \in DOMAIN base \cup DOMAIN par |-> IF k \in DOMAIN par THEN Fin(k, par, base) ELSE base[k]]>>

\* mechanism (the code): evaluate all currently independent definitions, layer by layer; the last
\* remaining definition is evaluated without looking at its parameters
RECURSIVE Layered(_, _, _)
Layered(rem, m, par) ==
    IF rem = {} THEN <<"map", m>>
    ELSE IF Cardinality(rem) = 1 THEN LET k == CHOOSE x \in rem : TRUE IN <<"map", Put(m, k, ValOf(k, par[k], m))>>
    ELSE LET ind == {k \in rem : ParSet(par, k) \cap rem = {}} IN
         IF ind = {} THEN Raises("ValueError")
         ELSE Layered(rem \ ind, [x \in DOMAIN m \cup ind |-> IF x \in ind THEN ValOf(x, par[x], m) ELSE m[x]], par)
=============================================================================
