------------------------------- MODULE Drange -------------------------------
(* Property C10: drange(t0, t1, bump) as a state machine that emits one element per step.       *)
(*                                                                                               *)
(*   cur  the next candidate, out  the list emitted so far, st  "run" | "done" | "rejected"      *)
(*   Single      t0 = t1 gives <<t0>>                                                            *)
(*   RejectBump  the bump points away from t1: ValueError, nothing is emitted                    *)
(*   Step        cur is still within the endpoints: emit it, cur' = cur + bump                   *)
(*   Finish      cur has passed t1                                                               *)
(* Instants and bumps are those of Bump.tla; cur + bump is Bump!Apply, i.e. the list is the one  *)
(* "obtained by iterating dt_bump".  For business-day bumps the walk starts at the first weekday *)
(* at or after t0 in the direction of the bump ("lists weekdays only").                           *)
(* IsDrange is the same thing as a predicate on a finished list (used to validate recorded lists *)
(* without recursion); MC_Drange proves the machine's final list satisfies it.                    *)
EXTENDS Bump

VARIABLES t0, t1, bump, cur, out, st
drvars == <<t0, t1, bump, cur, out, st>>

Cmp(a, b) == IF Before(a, b) THEN -1 ELSE IF a = b THEN 0 ELSE 1
IsBBump(b) == b[1] = "tenor" /\ Len(b[2]) = 1 /\ b[2][1][2] = "b"
BCount(b)  == b[2][1][1]

\* which way the bump moves instant x (+1 later, -1 earlier, 0 not at all), and where t1 lies
Dir(x, b)    == Cmp(Apply(x, b), x)
Toward(a, b) == Cmp(b, a)
\* x (on the t1 side of t0) has not passed t1
Within(x, a, b) == IF Before(a, b) THEN AtOrBefore(x, b) ELSE AtOrBefore(b, x)
Between(x, a, b) == (AtOrBefore(a, x) /\ AtOrBefore(x, b)) \/ (AtOrBefore(b, x) /\ AtOrBefore(x, a))

\* a weekend day rolls back to Friday (first weekday met walking backwards)
RollBack(o) == IF IsWeekday(o) THEN o ELSE o - (Weekday(o) - 4)
\* first element: t0, or for business-day bumps the first weekday from t0 in the bump's direction
Start(a, b) == IF ~IsBBump(b) THEN a
               ELSE IF BCount(b) > 0 THEN <<RollFwd(a[1]), a[2], a[3]>> ELSE <<RollBack(a[1]), a[2], a[3]>>

\* ---------------------------------------------------------------------------- the domain ---
\* (quantifier of C10) integer and business-day bumps: endpoints a whole number of days apart;
\* month-based units: midnight endpoints, t0 on a day of month that exists in every month (and, in
\* compound tenors, only whole-day units beside them: Bump claims month units at midnight only);
\* zero bumps are excluded.
WholeDayUnits == {"d", "w", "b"} \cup MonthUnits
HasMonthUnit(b) == b[1] = "tenor" /\ \E i \in 1..Len(b[2]) : b[2][i][2] \in MonthUnits
CaseInDomain(a, z, b) ==
    /\ IsInstant(a) /\ IsInstant(z)
    /\ b[1] = "tenor" => \A i \in 1..Len(b[2]) : b[2][i][2] \in Units
    /\ Dir(a, b) # 0
    /\ (b[1] = "int" \/ IsBBump(b)) => (a[2] = z[2] /\ a[3] = z[3])
    /\ HasMonthUnit(b) => /\ IsMidnight(a) /\ IsMidnight(z) /\ CivilOf(a[1])[3] <= 28
                          /\ \A i \in 1..Len(b[2]) : b[2][i][2] \in WholeDayUnits   \* the running instant stays a midnight

\* ---------------------------------------------------------------------------- the machine ---
DrInit(Cases) == /\ \E x \in Cases : t0 = x[1] /\ t1 = x[2] /\ bump = x[3]
                 /\ cur = Start(t0, bump) /\ out = <<>> /\ st = "run"

Single     == /\ st = "run" /\ t0 = t1
              /\ out' = <<t0>> /\ st' = "done" /\ UNCHANGED <<t0, t1, bump, cur>>
RejectBump == /\ st = "run" /\ t0 # t1 /\ Dir(t0, bump) # Toward(t0, t1)
              /\ st' = "rejected" /\ UNCHANGED <<t0, t1, bump, cur, out>>
Step       == /\ st = "run" /\ t0 # t1 /\ Dir(t0, bump) = Toward(t0, t1)
              /\ Within(cur, t0, t1)
              /\ out' = Append(out, cur) /\ cur' = Apply(cur, bump)
              /\ UNCHANGED <<t0, t1, bump, st>>
Finish     == /\ st = "run" /\ t0 # t1 /\ Dir(t0, bump) = Toward(t0, t1)
              /\ ~Within(cur, t0, t1)
              /\ st' = "done" /\ UNCHANGED <<t0, t1, bump, cur, out>>
DrNext == Single \/ RejectBump \/ Step \/ Finish
Halted == st \in {"done", "rejected"}

\* ------------------------------------------------------------------- the list as a predicate -
IsDrange(a, z, b, xs) ==
    IF ~Within(Start(a, b), a, z) THEN xs = <<>>
    ELSE /\ Len(xs) >= 1
         /\ xs[1] = Start(a, b)
         /\ \A i \in 1..(Len(xs) - 1) : xs[i + 1] = Apply(xs[i], b)
         /\ \A i \in 1..Len(xs) : Within(xs[i], a, z)
         /\ ~Within(Apply(xs[Len(xs)], b), a, z)

\* ---------------------------------------------- the list as a function of the arguments alone -
\* (recursive: small spans only; MC_Drange proves the machine's final list equal to it - MachineIsFunction)
RECURSIVE Walk(_, _, _, _)
Walk(x, a, z, b) == IF Within(x, a, z) THEN <<x>> \o Walk(Apply(x, b), a, z, b) ELSE <<>>

\* A compound bump may move different start dates different ways ('1m-30d' moves 1 Feb back to 30 Jan and any d Jan
\* forward to d+1 Jan; '1b-2d' moves a Friday forward and a Monday back; '1m-4w' does not move 1 Feb 2001 at all):
\* which way a bump points is a fact about (t0, bump).  The statement describes the list "obtained by iterating
\* dt_bump" when every step of that iteration moves towards t1 (and month units are applied to days that exist in
\* every month): Steady.  Outside it the iteration may turn round and never pass t1 - not claimed.
RECURSIVE SteadyFrom(_, _, _, _)
SteadyFrom(x, a, z, b) == IF ~Within(x, a, z) THEN TRUE
                          ELSE /\ Dir(x, b) = Toward(a, z)
                               /\ HasMonthUnit(b) => CivilOf(x[1])[3] <= 28
                               /\ SteadyFrom(Apply(x, b), a, z, b)
Steady(a, z, b) == IF a = z \/ Dir(a, b) # Toward(a, z) THEN TRUE ELSE SteadyFrom(Start(a, b), a, z, b)

\* ------------------------------------------- whole-day bumps: one movement, several spellings -
\* "integer n, timedelta(n) and 'nd' give identical lists": an integer n, timedelta(days = n), 'nd'
\* (and 'kw' = 7k days) denote the same movement; on endpoints for which both spellings are in the
\* domain they must give the same outcome - whatever the times of day of t0 and t1, however short
\* the span (less than a day, less than one bump, not a multiple of the bump).
IsWholeDayBump(b) == \/ b[1] = "int"
                     \/ b[1] = "td" /\ b[2][2] = 0 /\ b[2][3] = 0
                     \/ b[1] = "tenor" /\ Len(b[2]) = 1 /\ b[2][1][2] \in {"d", "w"}
WholeDays(b) == CASE b[1] = "int" -> b[2]
                  [] b[1] = "td"  -> b[2][1]
                  [] OTHER        -> IF b[2][1][2] = "w" THEN 7 * b[2][1][1] ELSE b[2][1][1]
SpellingsOfDays(n) == {<<"int", n>>, <<"td", <<n, 0, 0>>>>, <<"tenor", <<<<n, "d">>>>>>}
                      \cup (IF n % 7 = 0 THEN {<<"tenor", <<<<n \div 7, "w">>>>>>} ELSE {})
\* the sibling spellings of whole-day bump b that the quantifier admits on the endpoints a, z
Siblings(a, z, b) == {c \in SpellingsOfDays(WholeDays(b)) : CaseInDomain(a, z, c)}
\* the list of a whole-day bump in closed form: a, a + n days, ... as many as whole periods of |n|
\* days fit into the time between the endpoints (counted in seconds and microseconds, not in days)
WholePeriods(a, z, n) == LET e == IF Before(a, z) THEN Elapsed(a, z) ELSE Elapsed(z, a)
                             s == e[1] + (e[2] \div 1000000)
                         IN  s \div (Abs(n) * 86400)
IsWholeDayList(a, z, n, xs) == /\ Len(xs) = WholePeriods(a, z, n) + 1
                               /\ \A i \in 1..Len(xs) : xs[i] = AddDur(a, (i - 1) * n, 0, 0)

\* Named deviation SinglePointWeekend: for t0 = t1 on a weekend and a business-day bump the
\* statement says both "[t0]" and "weekdays only"; either reading is accepted.
SinglePointWeekend(a, z, b) == a = z /\ IsBBump(b) /\ ~IsWeekday(a[1])

\* what a call may return: <<"ok", list>> or <<"exc", "ValueError">>
Accepts(a, z, b, r) ==
    IF a = z THEN r = <<"ok", <<a>>>> \/ (SinglePointWeekend(a, z, b) /\ r = <<"ok", <<>>>>)
    ELSE IF Dir(a, b) # Toward(a, z) THEN r = <<"exc", "ValueError">>
    ELSE r[1] = "ok" /\ IsDrange(a, z, b, r[2])

Outcome(a, z, b) == IF a = z THEN <<"ok", <<a>>>>
                    ELSE IF Dir(a, b) # Toward(a, z) THEN <<"exc", "ValueError">>
                    ELSE <<"ok", Walk(Start(a, b), a, z, b)>>
AcceptSeq(a, z, b) == IF SinglePointWeekend(a, z, b) THEN <<Outcome(a, z, b), <<"ok", <<>>>>>> ELSE <<Outcome(a, z, b)>>

\* first clause of the statement that a returned value r breaks ("" = none)
Explain(a, z, b, r) ==
    IF r[1] = "timeout" THEN "terminates"
    ELSE IF a = z THEN (IF Accepts(a, z, b, r) THEN "" ELSE "single_point")
    ELSE IF Dir(a, b) # Toward(a, z) THEN (IF r = <<"exc", "ValueError">> THEN "" ELSE "away_raises_valueerror")
    ELSE IF r[1] # "ok" THEN "raised_on_valid_range"
    ELSE LET xs == r[2]  s == Start(a, b) IN
         IF ~Within(s, a, z) THEN (IF xs = <<>> THEN "" ELSE "weekdays_only")
         ELSE IF xs = <<>> THEN "empty_list"
         ELSE IF xs[1] # s THEN (IF IsBBump(b) /\ xs[1][1] # s[1] THEN "weekdays_only" ELSE "starts_at_t0")
         ELSE IF \E i \in 1..Len(xs) : ~Between(xs[i], a, z) THEN "within_bounds"
         ELSE IF \E i \in 1..(Len(xs) - 1) : Cmp(xs[i + 1], xs[i]) # Toward(a, z) THEN "strictly_monotone"
         ELSE IF \E i \in 1..(Len(xs) - 1) : xs[i + 1] # Apply(xs[i], b) THEN "iterates_bump"
         ELSE IF Within(Apply(xs[Len(xs)], b), a, z) THEN "stops_before_t1"
         ELSE ""
\* ------------------------------------------------------------ realisations of the arguments ---
\* The statement speaks of start dates, ints, timedeltas and period strings: VALUES.  A call receives objects; what
\* it must return is decided by the values they denote, whatever carries them (law: Outcome of the denoted values).
\*   bump   an integer as a Python int, a numpy integer of any width, an element taken from an array / a Series;
\*          a timedelta as datetime.timedelta, a subclass of it, pandas.Timedelta;
\*          a period string in lower / upper / mixed case, with '+' signs, as a str subclass, as numpy.str_
\*   t0/t1  datetime, a subclass, pandas.Timestamp, datetime.date, numpy.datetime64 of unit D / s / us / ns,
\*          a yyyymmdd integer, ISO strings 'yyyy-mm-dd', 'yyyymmdd', 'yyyy-mm-dd hh:mm:ss', 'yyyy-mm-ddThh:mm:ss.ffffff'
SignedIntReals   == {"int", "np_int8", "np_int16", "np_int32", "np_int64", "np_intp", "np_longlong", "array_item", "series_item"}
UnsignedIntReals == {"np_uint8", "np_uint16", "np_uint32", "np_uint64"}
IntReals == SignedIntReals \cup UnsignedIntReals
TdReals  == {"timedelta", "td_sub", "pd_Timedelta"}
StrReals == {"l", "u", "p", "m", "str_sub", "np_str"}
DayReals  == {"date", "np_D", "int", "str_d", "str_c"}      \* can only name a day
SecReals  == {"np_s", "str_s"}                              \* whole seconds
FullReals == {"datetime", "sub", "ts", "np_us", "str_us"}
NsReals   == {"np_ns"}                                      \* int64 nanoseconds: 1678..2262 only
EndReals  == DayReals \cup SecReals \cup FullReals \cup NsReals
EndRealOk(r, t) == /\ r \in EndReals
                   /\ r \in DayReals => IsMidnight(t)
                   /\ r \in SecReals => t[3] = 0
                   /\ r \in NsReals  => t[1] \in OrdOf(1700, 1, 1)..OrdOf(2250, 1, 1)
\* Named restriction UnsignedOnlyToward: an unsigned numpy integer is a positive bump; pointing away from t1 the
\* code fails inside numpy (OverflowError: -9 out of bounds for uint8) before it can say ValueError - reported as a
\* finding, kept out of the domain here.
BumpRealOk(r, a, z, b) ==
    CASE b[1] = "int"   -> /\ r \in IntReals
                           /\ r = "np_int8" => b[2] \in -128..127
                           /\ r \in UnsignedIntReals => (b[2] > 0 /\ (r = "np_uint8" => b[2] <= 255) /\ Before(a, z))
      [] b[1] = "td"    -> r \in TdReals
      [] b[1] = "tenor" -> r \in StrReals
\* the entry point: drange itself, or Calendar.drange (claimed for bumps without a business-day part) of a calendar
\* without holidays ("cal") / with holidays and a Friday-Saturday weekend ("cal_hol": they must not matter)
Vias == {"drange", "cal", "cal_hol"}
HasBPart(b) == b[1] = "tenor" /\ \E i \in 1..Len(b[2]) : b[2][i][2] = "b"
\* reals = [t0 |-> r, t1 |-> r, bump |-> r, via |-> v]
RealsOk(rs, a, z, b) == /\ EndRealOk(rs.t0, a) /\ EndRealOk(rs.t1, z) /\ BumpRealOk(rs.bump, a, z, b)
                        /\ rs.via \in Vias /\ (rs.via # "drange" => ~HasBPart(b))
PlainReals(b) == [t0 |-> "datetime", t1 |-> "datetime", via |-> "drange",
                  bump |-> CASE b[1] = "int" -> "int" [] b[1] = "td" -> "timedelta" [] OTHER -> "l"]
=============================================================================
