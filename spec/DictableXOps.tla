---------------------------- MODULE DictableXOps ----------------------------
(* Extension X02: the dictable calls that no listed property covers, as pure operators on the    *)
(* list-of-records tables of Table.tla / DictableOps.tla (property C01).  Unlike C01 these        *)
(* operators keep the ORDER of the columns as the library does, because one of them - renaming a  *)
(* column onto an existing one - has a result that depends on it.                                 *)
(*                                                                                                *)
(*   construction forms      XConstruct         records, header + rows, values + one name,        *)
(*                                              DataFrame, zip forms,                             *)
(*                                              dictable(d, extra = ...)                          *)
(*   reads (no effect)       XGetT XGetAttrT XTupleGetT XApplyT XIfElseT XReprT XDictConcatV             *)
(*   allocating              XCallT (d(c = f, ...)), XDoXT, XRelabelT, XUnpivotT, XyzT, XExtendT       *)
(*   in place                XUpdateFromT, and XIfNoneT where the column exists (named deviation)   *)
(*                                                                                                *)
(* The session state machine over these operators is DictableX.tla, the trace specification for   *)
(* recorded histories Trace_DictableX.tla.                                                        *)
EXTENDS DictableOps

\* ---- outcomes of a call as the session sees them ------------------------------------------------
XOutOk       == <<"ok", 0>>
XOutExc(cls) == <<"exc", cls>>
XOutVal(v)   == <<"val", v>>
XQOk(v)  == [ok |-> TRUE,  v |-> v,    err |-> "ok"]        \* result of a read
XQErr(e) == [ok |-> FALSE, v |-> None, err |-> e]
XNames(pairs) == {pairs[k][1] : k \in 1..Len(pairs)}         \* keys of a sequence of <<key, x>> pairs
XPairGet(pairs, n) == pairs[CHOOSE k \in 1..Len(pairs) : pairs[k][1] = n][2]
XIdx(n) == [i \in 1..n |-> i]
XPosIn(s, x) == CHOOSE k \in 1..Len(s) : s[k] = x

\* the column names that records are built from, in the order Python sorts them
XColU == <<"a", "b", "c", "e", "key", "p", "q", "w", "x", "y", "z">>
XColRank(c) == CHOOSE k \in 1..Len(XColU) : XColU[k] = c
XSortCols(S) == SetToSortSeq(S, LAMBDA u, v : XColRank(u) < XColRank(v))

\* Python truthiness including the empty tuple / list
XTruthy(v) == IF IsSeq(v) THEN Pay(v) # <<>> ELSE Truthy(v)

\* ---- functions of a row ------------------------------------------------------------------------------
\* A function is [kind |-> k, args |-> <<parameter names>>]; the driver renders it as a Python lambda
\* with exactly these parameter names.  The library hands every parameter the row's cell of that name,
\* or else the default of that name (apply(f, z = 9); d(c = f) and if_none supply key = <column name>).
XFnVal(kind, vs) ==
    CASE kind = "tuple"    -> VTup(vs)                                    \* lambda a, b: (a, b)
      [] kind = "list"     -> VLst(vs)                                    \* lambda a, b: [a, b]
      [] kind = "ident"    -> vs[1]                                       \* lambda a: a
      [] kind = "isnone"   -> VBool(IsNone(vs[1]))                        \* lambda a: a is None
      [] kind = "coalesce" -> LET nn == SelectSeq(vs, LAMBDA v : ~IsNone(v)) IN IF nn = <<>> THEN None ELSE nn[1]
      [] kind = "zero"     -> IF IsNone(vs[1]) THEN VInt(0) ELSE vs[1]    \* lambda v: 0 if v is None else v
      [] kind = "const"    -> VX                                          \* lambda: 'x'
XEnvOf(row, defs) == [n \in DOMAIN row \cup XNames(defs) |-> IF n \in DOMAIN row THEN row[n] ELSE XPairGet(defs, n)]
XFnMissing(fn, names) == \E k \in 1..Len(fn.args) : fn.args[k] \notin names
XFnEval(fn, env) == XFnVal(fn.kind, [k \in 1..Len(fn.args) |-> env[fn.args[k]]])

\* ---- reads -----------------------------------------------------------------------------------------------
\* d.get(c, default): the column, or the default once per row
XGetT(t, c, dflt) == XQOk(VLst(IF HasCol(t, c) THEN [i \in 1..NR(t) |-> t.rows[i][c]] ELSE [i \in 1..NR(t) |-> dflt]))
\* getattr(d, c[, default]): the column, or the default ITSELF, or AttributeError
XGetAttrT(t, c, dflt) == IF HasCol(t, c) THEN XQOk(VLst([i \in 1..NR(t) |-> t.rows[i][c]]))
                        ELSE IF dflt = <<>> THEN XQErr("AttributeError") ELSE XQOk(dflt[1])
\* d.apply(f, **defaults) and d[f]: f of every row
XApplyT(t, fn, defs) ==
    IF NR(t) > 0 /\ XFnMissing(fn, ColSet(t) \cup XNames(defs)) THEN XQErr("TypeError")
    ELSE XQOk(VLst([i \in 1..NR(t) |-> XFnEval(fn, XEnvOf(t.rows[i], defs))]))
\* an item is a column <<"c", name>> or a function <<"f", fn>>
XItemErr(it, cols, dn) == IF it[1] = "c" THEN (IF it[2] \in cols THEN "ok" ELSE "KeyError")
                         ELSE (IF XFnMissing(it[2], cols \cup dn) THEN "TypeError" ELSE "ok")
XItemVal(it, row, defs) == IF it[1] = "c" THEN row[it[2]] ELSE XFnEval(it[2], XEnvOf(row, defs))
\* d[i1, i2, ...]: one tuple per row; the first item that cannot be had decides the exception
XTupleGetT(t, items) ==
    LET errs == [k \in 1..Len(items) |-> IF items[k][1] = "f" /\ NR(t) = 0 THEN "ok" ELSE XItemErr(items[k], ColSet(t), {})]
        bad  == {k \in 1..Len(items) : errs[k] # "ok"}
    IN  IF bad # {} THEN XQErr(errs[Min(bad)])
        ELSE XQOk(VLst([i \in 1..NR(t) |-> VTup([k \in 1..Len(items) |-> XItemVal(items[k], t.rows[i], <<>>)])]))
\* d.if_else(cond, a, b, **defaults): per row, a or b (column or function) according to the truth of cond;
\* only the branch a row takes is looked at, so a missing branch matters only if some row takes it
XIfElseT(t, cond, a, b, defs) ==
    LET cols  == ColSet(t)
        ce    == XItemErr(cond, cols, {})
        br(i) == IF XTruthy(XItemVal(cond, t.rows[i], <<>>)) THEN a ELSE b
        bad   == {i \in 1..NR(t) : XItemErr(br(i), cols, XNames(defs)) # "ok"}
    IN  IF NR(t) = 0 THEN XQOk(VLst(<<>>))
        ELSE IF ce # "ok" THEN XQErr(ce)
        ELSE IF bad # {} THEN XQErr(XItemErr(br(Min(bad)), cols, XNames(defs)))
        ELSE XQOk(VLst([i \in 1..NR(t) |-> XItemVal(br(i), t.rows[i], defs)]))
\* repr / to_string, the shape only: dimensions, header, number of lines, and the "...n rows..." line
\* that repr puts in the middle of more than six rows (0 = there is none)
XReprT(t) == XQOk(VTup(<<VInt(NR(t)), VInt(Len(t.cols)), VLst([k \in 1..Len(t.cols) |-> VStr(t.cols[k])]),
                       VInt(IF t.cols = <<>> THEN 0 ELSE NR(t) + 1), VInt(IF NR(t) > 6 THEN NR(t) ELSE 0)>>))
\* dict_concat(records): every key that occurs -> its values record by record, None where a record lacks it
XDictConcatV(recs) == <<"map", [c \in RecCols(recs) |-> VLst([r \in 1..Len(recs) |-> RecGet(recs[r], c)])]>>
\* dict_concat(list(d)): the rows back to columns (nothing at all for a table without rows)
XDictConcatRowsV(t) == <<"map", [c \in (IF NR(t) = 0 THEN {} ELSE ColSet(t)) |-> VLst([i \in 1..NR(t) |-> t.rows[i][c]])]>>

\* ---- construction forms ------------------------------------------------------------------------------------
\* records: one record keeps its own key order, several records with the same keys come out with SORTED keys
\* (records with different keys: the order is unspecified - they are left to C01, which compares columns as sets)
XSameKeys(recs) == \A i \in 1..Len(recs) : XNames(recs[i]) = XNames(recs[1])
XFromRecords(recs) ==
    IF recs = <<>> THEN Ok(EmptyT)
    ELSE IF Len(recs) = 1 THEN Ok(RecordT(recs[1]))
    ELSE Ok(Tbl(XSortCols(XNames(recs[1])), [i \in 1..Len(recs) |-> [c \in XNames(recs[1]) |-> RecGet(recs[i], c)]]))
\* dictable(d, c1 = .., c2 = ..): the extra columns first (a name the table has keeps the TABLE's values at
\* the extra's place), then the table's own columns; scalars and one-row sides broadcast
XExtendT(t, extra) ==
    LET cs   == [k \in 1..Len(extra) |-> extra[k][1]] \o SelectSeq(t.cols, LAMBDA c : c \notin XNames(extra))
        arg(c) == IF HasCol(t, c) THEN <<"l", [i \in 1..NR(t) |-> t.rows[i][c]]>> ELSE XPairGet(extra, c)
    IN  FromCols(cs, [k \in 1..Len(cs) |-> arg(cs[k])])
XConstruct(s) ==
    CASE s.kind = "recs"  -> XFromRecords(s.recs)                         \* dictable([record, ...])
      [] s.kind = "cols"  -> FromCols(s.cols, s.args)                     \* dictable(dict) / dictable(zip(names, values))
      [] s.kind = "rows"  -> FromRows(s.rows, s.hdrs)                     \* dictable([header] + rows) / dictable(zip(*columns), names) / DataFrame
      [] s.kind = "single" -> FromCols(<<s.name>>, <<<<"l", s.vals>>>>)     \* dictable(values, 'name'): one column of that name, however many values
      [] s.kind = "frame" -> LET f == FromRows(s.rows, s.hdrs).t IN      \* DataFrame with a named index: the index becomes the first column
                             Ok(Tbl(<<s.index>> \o SelectSeq(f.cols, LAMBDA c : c # s.index), f.rows))

\* ---- d(c1 = v, c2 = f, ...) ------------------------------------------------------------------------------------
\* kws: sequence of <<name, spec>>, spec = <<"s", v>> | <<"l", vs>> (constants) | <<"f", fn>> (computed per row)
XIsF(kw)     == kw[2][1] = "f"
XConsts(kws) == SelectSeq(kws, LAMBDA kw : ~XIsF(kw))
XFuncs(kws)  == SelectSeq(kws, LAMBDA kw : XIsF(kw))
XReads(kw)   == Range(kw[2][2].args)
\* one computed column: f of every row (the hidden default key = the new column's name), then set
XEvalFn(t, name, fn) == LET r == XApplyT(t, fn, <<<<"key", VStr(name)>>>>) IN
                       IF ~r.ok THEN Err(r.err) ELSE SetColT(t, name, <<"l", Pay(r.v)>>)
RECURSIVE XEvalSeq(_, _, _)
XEvalSeq(t, fs, k) == IF k > Len(fs) THEN Ok(t)
                     ELSE LET r == XEvalFn(t, fs[k][1], fs[k][2][2]) IN IF r.ok THEN XEvalSeq(r.t, fs, k + 1) ELSE r
\* LAW.  The constants are set first.  The functions are evaluated in an order in which no function reads a
\* column that itself or a later function of the same call produces; only the very last may read its own
\* column (named deviation SelfReferenceIsCircular: d(a = f(a), b = g(b)) is refused as "circular" although
\* d(a = f(a)) alone is fine).  Without such an order the call is refused.  Every admissible order gives the
\* same table (checked by TLC: CallConfluent).
XAdmissible(o) == \A i \in 1..Len(o) : (XReads(o[i]) \cap {o[j][1] : j \in i..Len(o)}) \subseteq (IF i = Len(o) THEN {o[i][1]} ELSE {})
XCallLaw(t, kws) ==
    LET c == UpdateT(t, XConsts(kws), 1)
        ords == {o \in SetToSeqs(Range(XFuncs(kws))) : XAdmissible(o)}
    IN  IF ~c.ok THEN {Err("ValueError")}
        ELSE IF ords = {} THEN {Err("ValueError"), Err("TypeError")}     \* refused; which complaint comes first is not specified
        ELSE {XEvalSeq(c.t, o, 1) : o \in ords}
\* MECHANISM (as the library does it): rounds; each round evaluates, in keyword order, the functions that read
\* no column still to be produced; the last remaining function is evaluated whatever it reads
RECURSIVE XCallLoop(_, _)
XCallLoop(t, rem) ==
    IF Len(rem) <= 1 THEN XEvalSeq(t, rem, 1)
    ELSE LET ready == SelectSeq(rem, LAMBDA kw : XReads(kw) \cap XNames(rem) = {}) IN
         IF ready = <<>> THEN Err("ValueError")
         ELSE LET r == XEvalSeq(t, ready, 1) IN
              IF ~r.ok THEN r ELSE XCallLoop(r.t, SelectSeq(rem, LAMBDA kw : XReads(kw) \cap XNames(rem) # {}))
XCallT(t, kws) == LET c == UpdateT(t, XConsts(kws), 1) IN IF ~c.ok THEN Err(c.err) ELSE XCallLoop(c.t, XFuncs(kws))

\* ---- d.if_none(none, c1 = v, c2 = f) ----------------------------------------------------------------------------
\* which cells count as missing: None (default) | NaN or infinite | one of some values | a predicate
XMissing(cell, none) == CASE none[1] = "none" -> IsNone(cell)
                         [] none[1] = "nan"  -> IsNanLike(cell)
                         [] none[1] = "vals" -> PyIn(cell, none[2])
                         [] none[1] = "isstr" -> IsStr(cell)                \* lambda v: isinstance(v, str)
\* fill the missing cells of an existing column: a constant, or f of the row (key = the column's name);
\* f is only called for the rows that need it
XFillCol(t, c, spec, none) ==
    LET need == {i \in 1..NR(t) : XMissing(t.rows[i][c], none)} IN
    IF spec[1] = "f" /\ need # {} /\ XFnMissing(spec[2], ColSet(t) \cup {"key"}) THEN Err("TypeError")
    ELSE Ok(Tbl(t.cols, [i \in 1..Len(t.rows) |-> [cc \in ColSet(t) |->
                IF cc = c /\ i \in need
                THEN (IF spec[1] = "f" THEN XFnEval(spec[2], XEnvOf(t.rows[i], <<<<"key", VStr(c)>>>>)) ELSE spec[2])
                ELSE t.rows[i][cc]]]))
\* Named deviation IfNoneInPlace: where the column exists the cells are filled IN THE OPERAND, and if every
\* named column exists the operand itself is returned; the first column the table lacks makes the call go on
\* with a new table (as d(c = ..) would), and the operand keeps what was filled before that point.
\* Result: self = the operand afterwards, res = the returned table, alias = "the returned table is the operand".
RECURSIVE XIfNoneLoop(_, _, _, _, _)
XIfNoneLoop(self, cur, own, none, kws) ==
    IF kws = <<>> THEN [self |-> self, res |-> cur, alias |-> own, err |-> "ok"]
    ELSE LET r == IF HasCol(cur, kws[1][1]) THEN XFillCol(cur, kws[1][1], kws[1][2], none) ELSE XCallT(cur, <<kws[1]>>) IN
         IF ~r.ok THEN [self |-> self, res |-> cur, alias |-> own, err |-> r.err]
         ELSE IF HasCol(cur, kws[1][1]) THEN XIfNoneLoop(IF own THEN r.t ELSE self, r.t, own, none, Tail(kws))
         ELSE XIfNoneLoop(self, r.t, FALSE, none, Tail(kws))
XIfNoneT(t, none, kws) == XIfNoneLoop(t, t, TRUE, none, kws)

\* ---- d.do(functions, *columns) --------------------------------------------------------------------------------------
\* a do-function is [kind, extras]: lambda v, <extras>: ...; v is the cell, the extras are the row's cells of
\* those names.  Column after column, function after function - a later step sees what the earlier ones wrote.
XDoOne(t, c, f) ==
    IF NR(t) > 0 /\ \E k \in 1..Len(f.extras) : ~HasCol(t, f.extras[k]) THEN Err("TypeError")
    ELSE Ok(Tbl(t.cols, [i \in 1..Len(t.rows) |-> [cc \in ColSet(t) |->
                IF cc = c THEN XFnVal(f.kind, <<t.rows[i][c]>> \o [k \in 1..Len(f.extras) |-> t.rows[i][f.extras[k]]])
                ELSE t.rows[i][cc]]]))
RECURSIVE XDoSteps(_, _, _)
XDoSteps(t, steps, k) == IF k > Len(steps) THEN Ok(t)
                        ELSE LET r == XDoOne(t, steps[k][1], steps[k][2]) IN IF r.ok THEN XDoSteps(r.t, steps, k + 1) ELSE r
\* cs = <<>> with star = TRUE means "all columns" (d.do(f)); d.do(f, []) does nothing
XDoXT(t, fs, cs, star) ==
    LET on == IF cs = <<>> /\ star THEN t.cols ELSE cs
        steps == [j \in 1..(Len(on) * Len(fs)) |-> <<on[((j - 1) \div Len(fs)) + 1], fs[((j - 1) % Len(fs)) + 1]>>]
    IN  XDoSteps(t, steps, 1)

\* ---- d.relabel / d.rename -----------------------------------------------------------------------------------------------
XFnName(f, c) == CASE f = "double"  -> c \o c                                       \* lambda c: c + c
                  [] f = "const_k" -> "k"                                          \* lambda c: 'k'
                  [] f = "ab_to_c" -> IF c \in {"a", "b"} THEN "c" ELSE c           \* lambda c: 'c' if c in ('a', 'b') else c
XNewName(form, c, k, n) ==
    CASE form.kind = "map"    -> IF c \in XNames(form.pairs) THEN XPairGet(form.pairs, c) ELSE c     \* relabel(a = 'b') / relabel({'a': 'b'})
      [] form.kind = "fn"     -> XFnName(form.fn, c)                                               \* relabel(function)
      [] form.kind = "fnmap"  -> IF c \in XNames(form.pairs) THEN XPairGet(form.pairs, c) ELSE XFnName(form.fn, c)   \* relabel(function, a = 'b')
      [] form.kind = "prefix" -> form.s \o c                                                      \* relabel('x_')
      [] form.kind = "suffix" -> c \o form.s                                                      \* relabel('_x')
      [] form.kind = "list"   -> IF Len(form.names) = n /\ n # 1 THEN form.names[k] ELSE c         \* relabel(['p', 'q']): by position, if it fits
\* LAW.  Every column gets its new name; where several columns get the same name the result has ONE column of
\* that name, at the place of the first of them and with the values of the LAST of them.
XRelabelT(t, form) ==
    LET n  == Len(t.cols)
        nm == [k \in 1..n |-> XNewName(form, t.cols[k], k, n)]
        firsts == SelectSeq(XIdx(n), LAMBDA k : \A j \in 1..(k - 1) : nm[j] # nm[k])
        newcols == [i \in 1..Len(firsts) |-> nm[firsts[i]]]
        src(c2) == t.cols[CHOOSE k \in 1..n : nm[k] = c2 /\ \A j \in (k + 1)..n : nm[j] # c2]
    IN  Ok(Tbl(newcols, IF newcols = <<>> THEN <<>> ELSE [i \in 1..Len(t.rows) |-> [c2 \in Range(newcols) |-> t.rows[i][src(c2)]]]))

\* ---- d.update(other table) ----------------------------------------------------------------------------------------------
\* the other table's columns assigned one after the other (C01's UpdateT: a rejected one stops the call)
XUpdateFromT(t, u) == UpdateT(t, [k \in 1..Len(u.cols) |-> <<u.cols[k], <<"l", [i \in 1..NR(u) |-> u.rows[i][u.cols[k]]]>>>>], 1)

\* ---- d.unpivot(x, y, z) ---------------------------------------------------------------------------------------------------
\* ysel = <<>>: every column that is not in xs becomes a (y, z) pair; otherwise the named ones only
\* (d.unpivot(x, {y: [..]}, z)).  One output row per input row and y column, in that order.
XUnpivotT(t, xs, y, z, ysel) ==
    LET ycols == IF ysel = <<>> THEN SelectSeq(t.cols, LAMBDA c : c \notin Range(xs)) ELSE ysel
        n == Len(ycols)   N == NR(t)
        rep(c) == [j \in 1..(N * n) |-> t.rows[((j - 1) \div n) + 1][c]]
    IN  IF N > 0 /\ n > 0 /\ \E k \in 1..Len(xs) : ~HasCol(t, xs[k]) THEN Err("KeyError")
        ELSE IF N > 0 /\ \E k \in 1..n : ~HasCol(t, ycols[k]) THEN Err("KeyError")
        ELSE LET base == FromCols(xs, [k \in 1..Len(xs) |-> <<"l", IF N * n = 0 THEN <<>> ELSE rep(xs[k])>>]).t
                 wy == SetColT(base, y, <<"l", [j \in 1..(N * n) |-> VStr(ycols[((j - 1) % n) + 1])]>>).t
             IN  SetColT(wy, z, <<"l", [j \in 1..(N * n) |-> t.rows[((j - 1) \div n) + 1][ycols[((j - 1) % n) + 1]]]>>)

\* ---- d.xyz(x, y, z, agg): the pivot table --------------------------------------------------------------------------------------
\* Domain: the x cells are ints, the y cells are strings of XColU that are not x columns.
XyzDomain(t, xs, y) ==
    /\ xs # <<>> /\ Range(xs) \subseteq ColSet(t) /\ y \in ColSet(t) \ Range(xs)
    /\ Cardinality(Range(xs)) = Len(xs)
    /\ \A i \in 1..NR(t) : /\ \A k \in 1..Len(xs) : Tag(t.rows[i][xs[k]]) = "i"
                           /\ IsStr(t.rows[i][y]) /\ Pay(t.rows[i][y]) \in Range(XColU) \ Range(xs)
XAgg(a, vs) == CASE a = "none"  -> VLst(vs)               \* no aggregation: the list
                [] a = "last"  -> vs[Len(vs)]            \* lambda v: v[-1]
                [] a = "first" -> vs[1]                  \* lambda v: v[0]
                [] a = "len"   -> VInt(Len(vs))          \* len
XLexLt(u, v) == \E k \in 1..Len(u) : (\A j \in 1..(k - 1) : u[j] = v[j]) /\ Pay(u[k]) < Pay(v[k])
\* LAW.  One row per distinct x key (ascending), one column per distinct y value (ascending) after the x
\* columns; a cell aggregates the z of the rows with that key and that y in their original order, None if none.
XyzT(t, xs, y, z, agg) ==
    LET N == NR(t)
        xk(i) == [k \in 1..Len(xs) |-> t.rows[i][xs[k]]]
        XK == SetToSortSeq({xk(i) : i \in 1..N}, XLexLt)
        YK == XSortCols({Pay(t.rows[i][y]) : i \in 1..N})
        zv(i) == XItemVal(z, t.rows[i], <<>>)
        cell(key, yv) == LET ids == SelectSeq(XIdx(N), LAMBDA i : xk(i) = key /\ Pay(t.rows[i][y]) = yv) IN
                         IF ids = <<>> THEN None ELSE XAgg(agg, [j \in 1..Len(ids) |-> zv(ids[j])])
    IN  IF N = 0 THEN Ok(Tbl(xs, <<>>))
        ELSE IF XItemErr(z, ColSet(t), {}) # "ok" THEN Err(XItemErr(z, ColSet(t), {}))
        ELSE Ok(Tbl(xs \o YK, [r \in 1..Len(XK) |-> [c \in Range(xs) \cup Range(YK) |->
                        IF c \in Range(xs) THEN XK[r][XPosIn(xs, c)] ELSE cell(XK[r], c)]]))
=============================================================================
