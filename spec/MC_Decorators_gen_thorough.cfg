CONSTANTS MaxWraps = 4
          LastOnlyFrom = 5
          MaxChain = 4
          MaxCalls = 5
          Wide = TRUE
          FixedCode = TRUE
          Modes = {"bind", "heap", "memo", "chain", "exc", "args", "deco", "order"}
          MaxExcChain = 2
          MaxBindings = 2
          MaxArgSteps = 4
          MaxDecoObjs = 3
          MaxDecoCalls = 2
          MaxOrdChain = 2
          TwoDecos = TRUE
INIT Init
NEXT NextGen
INVARIANT MemoIsLaw
INVARIANT MemoScalesMC
