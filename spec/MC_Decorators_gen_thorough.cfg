CONSTANTS MaxWraps = 4
          LastOnlyFrom = 5
          MaxChain = 4
          MaxCalls = 5
          Wide = TRUE
          FixedCode = TRUE
          Modes = {"bind", "heap", "memo", "chain"}
INIT Init
NEXT NextGen
INVARIANT MemoIsLaw
