\* S2C generator: every case of the thorough menu with the outcomes the specification accepts
CONSTANTS DSpan = 40
          NDay = 14
          MJMax = 36
          MYears = {1999, 2000}
          WSpanAbs = {0, 1, 2, 3, 4, 5, 6, 7, 8, 9, 14, 15}
          WKAbs = {1, 2, 3, 5, 7, 14}
INIT Init
NEXT NextGen
