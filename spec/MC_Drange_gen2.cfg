\* S2C generator: every case of the thorough menu with the outcomes the specification accepts
CONSTANTS DSpan = 40
          NDay = 14
          MJMax = 36
          MYears = {1999, 2000}
INIT Init
NEXT NextGen
