CONSTANTS Menu = "thorough"
          Trees <- TreeMenu
          V <- Vals
          Concurrent = TRUE
SPECIFICATION Spec
INVARIANT WellFormed
INVARIANT PendingIsSubset
INVARIANT ProgressIsSet
INVARIANT OrderIndependent
INVARIANT NothingLeft
INVARIANT ShapeKept
INVARIANT LooksUntouched
INVARIANT EveryKindAwaited
INVARIANT AnyOrder
PROPERTY NoEarlyReturn
PROPERTY Termination
