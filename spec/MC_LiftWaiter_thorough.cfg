CONSTANTS Menu = "thorough"
          Trees <- TreeMenu
          V <- Vals
          Concurrent = TRUE
SPECIFICATION Spec
INVARIANT PendingIsSubset
INVARIANT ProgressIsSet
INVARIANT OrderIndependent
INVARIANT NothingLeft
INVARIANT ShapeKept
INVARIANT AnyOrder
PROPERTY NoEarlyReturn
PROPERTY Termination
