CONSTANTS NStart = 1
          Spread = 1
          Offsets = {0, 1}
          RunSecs = {0}
          NHolDays = 1
INIT Init
NEXT Eval
INVARIANT KMechMonotone
