------------------------------ MODULE SliceSess ------------------------------
(* Property C13, SESSIONS: df_slice / df_unslice have no memory and own nothing of the caller.      *)
(*                                                                                              *)
(* The caller's world  w  is a record of the objects the caller holds between calls:             *)
(*   heap : the series objects ever made (object number = position), each a one-column frame;     *)
(*   ids  : the caller's LIST of series - ids[i] = the number of the object at list position i    *)
(*          (the same object may sit at two positions);                                          *)
(*   bl   : the caller's LIST of bounds (grid positions, monotone);                              *)
(*   fr   : the frame the last stitch call returned (the caller keeps it and may correct it in    *)
(*          place), fn = its number of columns (0 = no frame yet).                               *)
(* A step is a record  a  with a.op =                                                            *)
(*   public calls                                                                                *)
(*     "stitch"  : df_slice(list, ub = bounds, n = a.n)            -> fr, fn                     *)
(*     "unslice" : df_unslice(fr, bounds)                          -> any U with IsUnstitch      *)
(*     "slice"   : df_slice(x, a.lb, a.ub, a.oc), x = the series at list position a.i            *)
(*                 (a.tgt = "s") or the frame fr (a.tgt = "f")     -> Slice(x, ..)               *)
(*   the caller's own actions between calls (all IN PLACE, object identities stay)               *)
(*     "set"     : one value of a series (tgt "s": position a.i, row a.r) or of the frame (tgt   *)
(*                 "f": row a.r, column a.j) is overwritten with a.v (a correction; NaN = erased) *)
(*     "bound"   : bounds[a.i] = a.b          "swap" : list[a.i], list[a.j] = list[a.j], list[a.i] *)
(*     "put"     : list[a.i] = a NEW series object with content a.s                              *)
(*     "smudge"  : every value of the result of the last "unslice" / "slice" call (a.tgt = "un" / *)
(*                 "sl") is overwritten in place - the world is as it was (a result is the       *)
(*                 caller's to scribble on; nothing the caller holds may change with it).        *)
(* Law: the outcome of a call is the law of Slice.tla applied to the world AS IT IS AT THAT      *)
(* MOMENT (Result), and a call changes nothing of the world but the variable that receives its   *)
(* result (Apply).                                                                               *)
EXTENDS Slice

NoFrame == [rows |-> <<>>, cols |-> <<>>]
SS(w) == [i \in 1..Len(w.ids) |-> w.heap[w.ids[i]]]           \* the list as the call sees it
SetCell(f, r, j, v) == [rows |-> f.rows, cols |-> [f.cols EXCEPT ![j] = [@ EXCEPT ![r] = v]]]
Monotone(b) == Increasing(b) \/ Decreasing(b)
IsCall(a) == a.op \in {"stitch", "unslice", "slice"}

\* the frames df_unslice speaks of: stitched n-column frames = those that SOME family of series stitches to;
\* the canonical family Unstitch is a witness whenever there is one
CanUnstitch(F, ubs, n) ==
    /\ n >= 1 /\ NCols(F) = n /\ Len(ubs) >= 1 /\ Increasing(ubs) /\ WellFormed(F)
    /\ \A r \in 1..NRows(F) : \E i \in 1..Len(ubs) : InInterval(F.rows[r], ubs, i)
    /\ IsUnstitch(Unstitch(F, ubs, n), F, ubs, n)

SliceTarget(w, a) == IF a.tgt = "f" THEN w.fr ELSE SS(w)[a.i]

StepEnabled(w, a) ==
    CASE a.op = "stitch"  -> a.n \in 1..Len(w.ids) /\ Len(w.bl) = Len(w.ids) /\ Monotone(w.bl)
      [] a.op = "unslice" -> w.fn >= 1 /\ CanUnstitch(w.fr, w.bl, w.fn)
      [] a.op = "slice"   -> IF a.tgt = "f" THEN w.fn >= 1 ELSE a.i \in 1..Len(w.ids)
      [] a.op = "set"     -> IF a.tgt = "f" THEN w.fn >= 1 /\ a.r \in 1..NRows(w.fr) /\ a.j \in 1..w.fn /\ w.fr.cols[a.j][a.r] # a.v
                             ELSE a.i \in 1..Len(w.ids) /\ a.r \in 1..NRows(SS(w)[a.i]) /\ SS(w)[a.i].cols[1][a.r] # a.v
      [] a.op = "bound"   -> a.i \in 1..Len(w.bl) /\ w.bl[a.i] # a.b /\ a.b >= 1 /\ Monotone([w.bl EXCEPT ![a.i] = a.b])
      [] a.op = "swap"    -> a.i \in 1..Len(w.ids) /\ a.j \in 1..Len(w.ids) /\ a.i < a.j /\ w.ids[a.i] # w.ids[a.j]
      [] a.op = "put"     -> a.i \in 1..Len(w.ids) /\ WellFormed(a.s) /\ NCols(a.s) = 1
      [] a.op = "smudge"  -> TRUE
      [] OTHER -> FALSE

\* the world after the step
Apply(w, a) ==
    CASE a.op = "stitch"  -> [w EXCEPT !.fr = Stitch(SS(w), w.bl, a.n), !.fn = a.n]
      [] a.op = "set"     -> IF a.tgt = "f" THEN [w EXCEPT !.fr = SetCell(@, a.r, a.j, a.v)]
                             ELSE [w EXCEPT !.heap[w.ids[a.i]] = SetCell(@, a.r, 1, a.v)]
      [] a.op = "bound"   -> [w EXCEPT !.bl[a.i] = a.b]
      [] a.op = "swap"    -> [w EXCEPT !.ids = [@ EXCEPT ![a.i] = w.ids[a.j], ![a.j] = w.ids[a.i]]]
      [] a.op = "put"     -> [w EXCEPT !.heap = Append(@, a.s), !.ids[a.i] = Len(w.heap) + 1]
      [] OTHER -> w                 \* "unslice", "slice", "smudge": the world is as it was

\* what a call with a function-like answer returns ("unslice" answers with any U that IsUnstitch admits)
Result(w, a) ==
    CASE a.op = "stitch" -> Stitch(SS(w), w.bl, a.n)
      [] a.op = "slice"  -> Slice(SliceTarget(w, a), a.lb, a.ub, a.oc, "date", 0)
      [] OTHER -> NoFrame

\* ---------------------------------------------------------------------------------------------
\* judging a recorded step (C2S):  w = the world before (as the specification has it),  a = the step,
\* x = [w |-> the world as read after the step, out |-> what the call returned]
\*   out for "stitch" / "slice": [kind, rows, cols];  for "unslice": [kind, keys, series, again] with again =
\*   what df_slice(recovered series, ub = bounds, n = fn) returned
\* ---------------------------------------------------------------------------------------------
WorldOK(w) == /\ Len(w.ids) >= 1 /\ \A i \in 1..Len(w.ids) : w.ids[i] \in 1..Len(w.heap)
              /\ \A h \in 1..Len(w.heap) : WellFormed(w.heap[h]) /\ NCols(w.heap[h]) = 1
              /\ Len(w.bl) = Len(w.ids) /\ Monotone(w.bl)
WorldDiff(w1, w2) ==           \* which part of the caller's world is not what it should be ("" = none)
    IF w1.ids # w2.ids THEN "list" ELSE IF w1.heap # w2.heap THEN "series" ELSE IF w1.bl # w2.bl THEN "bounds"
    ELSE IF w1.fn # w2.fn \/ w1.fr # w2.fr THEN "frame" ELSE ""
OutFrame(o) == [rows |-> o.rows, cols |-> o.cols]
StepVerdict(w, a, x) ==
    LET want == Apply(w, a)
        res  == Result(w, a)
        \* a call's result variable is judged on its own (fr after a stitch), the rest of the world must be as before
        rest == IF a.op = "stitch" THEN WorldDiff([want EXCEPT !.fr = NoFrame, !.fn = 0], [x.w EXCEPT !.fr = NoFrame, !.fn = 0])
                ELSE WorldDiff(want, x.w)
    IN  IF ~WorldOK(w) \/ ~StepEnabled(w, a) THEN "malformed_observation"
        ELSE IF a.op = "stitch" THEN
             IF x.out.kind # "val" THEN "stitch_raised"
             ELSE IF x.out.rows # res.rows THEN "stitch_rows"
             ELSE IF x.out.cols # res.cols THEN "stitch_values"
             ELSE IF rest # "" THEN "argument_changed"
             ELSE IF x.w.fr # want.fr \/ x.w.fn # want.fn THEN "malformed_observation" ELSE ""
        ELSE IF a.op = "slice" THEN
             IF x.out.kind # "val" THEN "slice_raised"
             ELSE IF x.out.rows # res.rows THEN "slice_rows"
             ELSE IF x.out.cols # res.cols THEN "slice_values"
             ELSE IF rest # "" THEN "argument_changed" ELSE ""
        ELSE IF a.op = "unslice" THEN
             IF x.out.kind # "val" THEN "unstitch_raised"
             ELSE IF x.out.keys # w.bl THEN "unstitch_keys"
             ELSE IF ~IsUnstitch(x.out.series, w.fr, w.bl, w.fn) THEN "unstitch_roundtrip"
             ELSE IF x.out.again.kind # "val" \/ OutFrame(x.out.again) # w.fr THEN "unstitch_restitch"
             ELSE IF rest # "" THEN "argument_changed" ELSE ""
        ELSE IF a.op = "smudge" THEN (IF rest # "" THEN "result_shared" ELSE "")      \* scribbling on a result reached the world
        ELSE IF a.op = "set" THEN
             \* the caller's own correction: the object written to reads as the specification says (the driver's business);
             \* any OTHER object that changed with it shares its cells with it - a result the caller cannot scribble on
             LET hit == IF a.tgt = "f" THEN x.w.fr = want.fr /\ x.w.fn = want.fn ELSE x.w.heap[w.ids[a.i]] = want.heap[w.ids[a.i]] IN
             IF rest = "" THEN "" ELSE IF hit /\ x.w.ids = want.ids /\ x.w.bl = want.bl /\ Len(x.w.heap) = Len(want.heap) THEN "result_shared" ELSE "malformed_observation"
        ELSE (IF rest # "" THEN "malformed_observation" ELSE "")                       \* the caller's own edit: the driver's business

=============================================================================
