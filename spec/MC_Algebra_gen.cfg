CONSTANTS MaxLen = 3
          MaxLenX = 3
INIT Init
NEXT NextGen
