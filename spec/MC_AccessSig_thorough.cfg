CONSTANTS Wide = TRUE
INIT Init
NEXT Eval
INVARIANT DefaultsAreWhatMayBeLeftOut
INVARIANT RequiredIsNecessaryAndSufficient
INVARIANT GetArgsIsWhatIsOpen
INVARIANT AddGivesASignature
INVARIANT K2ASameCall
INVARIANT PartializeHasAnOutcome
