------------------------------ MODULE MC_TextKey ------------------------------
(* X08-b (cache keys) on the specification, and the source of its S2C replay: the memo history machine of TextKey over a   *)
(* menu of calls with structured arguments; the states hold positions in the menu.                                         *)
EXTENDS TextKey, TLC, Json
CONSTANTS MaxLen, Gen, WithDicts
VARIABLES memo, n, hist
vars == <<memo, n, hist>>

i1 == <<"i", 1>>   i2 == <<"i", 2>>   sa == <<"s", "a">>   sb == <<"s", "b">>   sx == <<"s", "x">>
L(xs) == <<"l", xs>>
D(ps) == <<"d", ps>>
ListVals == << i1, i2, sa, L(<<>>), L(<<i1>>), L(<<i1, i2>>), L(<<i2, i1>>), L(<<L(<<i1>>)>>), L(<<L(<<sa, i1>>)>>),
               L(<<L(<<sa, i1>>), L(<<sb, i2>>)>>), L(<<L(<<i1, sx>>), L(<<sa, sx>>)>>), L(<<L(<<>>)>>) >>
DictVals == << D(<<>>), D(<<<<sa, i1>>>>), D(<<<<sa, i1>>, <<sb, i2>>>>), D(<<<<sb, i2>>, <<sa, i1>>>>), D(<<<<sa, i2>>>>), D(<<<<i1, sa>>>>),
               D(<<<<sa, L(<<i1>>)>>>>), D(<<<<sa, D(<<<<sb, i1>>>>)>>>>), D(<<<<sa, L(<<L(<<sb, i1>>)>>)>>>>),
               D(<<<<i1, sx>>, <<sa, sx>>>>), D(<<<<sa, sx>>, <<i1, sx>>>>), L(<<D(<<>>)>>), D(<<<<i2, sa>>, <<i1, sb>>>>), D(<<<<i1, sb>>, <<i2, sa>>>>) >>
Vals == IF WithDicts THEN ListVals \o DictVals ELSE ListVals
C(args, kw) == [args |-> args, kw |-> kw]
CallMenu == [k \in DOMAIN Vals |-> C(<<Vals[k]>>, <<>>)]
            \o << C(<<>>, <<>>), C(<<i1, i2>>, <<>>), C(<<i2, i1>>, <<>>), C(<<i1>>, <<<<"x", i2>>>>), C(<<>>, <<<<"x", i1>>>>), C(<<>>, <<<<"a", i1>>>>),
                  C(<<>>, <<<<"a", i1>>, <<"b", i2>>>>), C(<<>>, <<<<"b", i2>>, <<"a", i1>>>>), C(<<>>, <<<<"x", L(<<i1>>)>>>>), C(<<L(<<>>), L(<<>>)>>, <<>>) >>
            \o (IF WithDicts THEN << C(<<>>, <<<<"x", D(<<<<sa, i1>>>>)>>>>), C(<<>>, <<<<"x", L(<<L(<<sa, i1>>)>>)>>>>), C(<<L(<<>>), D(<<>>)>>, <<>>), C(<<D(<<>>), L(<<>>)>>, <<>>) >> ELSE <<>>)
K == DOMAIN CallMenu
Calls(m) == [i \in DOMAIN m |-> CallMenu[m[i]]]

Init == memo = <<>> /\ n = 0 /\ hist = <<>>
\* in the generator only steps on which the law speaks with one voice (a mixed-keys dict may miss: those histories are C2S matter)
Call(k) == /\ n < MaxLen
           /\ LET call == CallMenu[k]  w == KyWant(Calls(memo), call)  IN
              /\ Gen => Cardinality(w) = 1
              /\ \E obs \in w :
                    /\ memo' = IF obs.eval = 1 THEN Append(memo, k) ELSE memo
                    /\ hist' = IF Gen THEN Append(hist, [call |-> call, obs |-> obs]) ELSE hist
                    /\ (Gen /\ n + 1 = MaxLen) => PrintT(ToJson([hist |-> hist']))
           /\ n' = n + 1
Next == \E k \in K : Call(k)

\* ---- the laws ---------------------------------------------------------------------------------------------------
\* (the laws over pairs of calls do not depend on the state: they are looked at once, in the initial state)
EqIsEquivalence == n = 0 => /\ \A a \in K : KyCallEq(CallMenu[a], CallMenu[a])
                            /\ \A a, b \in K : KyCallEq(CallMenu[a], CallMenu[b]) = KyCallEq(CallMenu[b], CallMenu[a])
                            /\ \A a, b, d \in K : (KyCallEq(CallMenu[a], CallMenu[b]) /\ KyCallEq(CallMenu[b], CallMenu[d])) => KyCallEq(CallMenu[a], CallMenu[d])
\* the mechanism is complete where the keys of every dict can be sorted ...
KeyComplete == n = 0 => \A a, b \in K : (KyCallEq(CallMenu[a], CallMenu[b]) /\ ~KyCallMixed(CallMenu[a])) => KyMechSame(CallMenu[a], CallMenu[b])
\* ... and sound only as long as no dict is in play (MC_TextKey_sound.cfg, WithDicts = TRUE, must fail; looked at after one step)
KeySound == n = 1 => \A a, b \in K : KyMechSame(CallMenu[a], CallMenu[b]) => KyCallEq(CallMenu[a], CallMenu[b])
\* the menu is not trivial: equal calls that are written differently, different calls, mixed keys
MenuNotTrivial == n = 0 => /\ \E a, b \in K : a # b /\ KyCallEq(CallMenu[a], CallMenu[b])
                           /\ \E a, b \in K : ~KyCallEq(CallMenu[a], CallMenu[b])
                           /\ WithDicts => \E a \in K : KyCallMixed(CallMenu[a])
\* the memo never holds two equal calls unless a mixed-keys dict is involved; every call is explained by exactly the law
MemoDistinct == \A a, b \in DOMAIN memo : (a # b /\ KyCallEq(CallMenu[memo[a]], CallMenu[memo[b]])) => KyCallMixed(CallMenu[memo[a]])
=============================================================================
