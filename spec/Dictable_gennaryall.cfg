CONSTANTS MaxDepth = 3
          MaxRowsC = 20
INIT Init
NEXT NextNaryAll
CONSTRAINT NaryBound
