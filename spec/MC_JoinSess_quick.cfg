CONSTANTS MaxSteps = 3
          Stride = 8
          PoolStride = 12007
          Gen = FALSE
          Form = "pairs"
          Memo = "none"
          Variant = "plain"
SPECIFICATION Spec
INVARIANT TypeOK
INVARIANT SessionLaw
PROPERTY CallsLeavePool
