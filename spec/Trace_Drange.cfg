INIT Init
NEXT Next
