CONSTANTS Wide = TRUE
          Nest = FALSE
INIT Init
NEXT EvalGen
