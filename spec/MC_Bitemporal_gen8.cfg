CONSTANTS Dates = {1}
          Stamps = {1, 2, 3}
          Vals = {1, 2}
          MaxMerges = 3
          MaxAgain = 1
          Stable = TRUE
          Zones = {0}
          ZoneAware = TRUE
INIT Init
NEXT NextGenR
PROPERTY GenIsSpec
