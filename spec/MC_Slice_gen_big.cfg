CONSTANTS NPts = 7
          NDays = 2
          NSlots = 4
          StitchCfg <- StitchMid
          NDup = 3
          MaxMult = 3
          NDupSlots = 2
          ZoneCfg <- ZonesBig
          NZE = 4
          NZ2 = 1
          StitchDupCfg <- DupStitchBig
          StitchNaNCfg <- NaNStitchBig
INIT Init
NEXT EvalGen
