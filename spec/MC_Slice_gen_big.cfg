CONSTANTS NPts = 7
          NDays = 2
          NSlots = 4
          StitchCfg <- StitchMid
INIT Init
NEXT EvalGen

