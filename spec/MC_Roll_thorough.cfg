CONSTANTS Worlds <- WorldsAll
          Starts = {4, 8}
          Horizon = 19
          MaxStep = 3
          CutLag = 2
          ExpLag = 3
          Ns = {0, 2}
          EmptyAsNone = TRUE
          LiveRule = "post"
          MaxTrunc = 1
          TruncBack = {1, 4}
          Depth = 0
INIT MCInit
NEXT MCSpecNext
VIEW NoHist
INVARIANT FileOK
INVARIANT SavedIsFresh
INVARIANT ChainIsFresh
INVARIANT RollsTrue
INVARIANT LoadsPrefix
INVARIANT MechanismIsLaw
INVARIANT FrontIsStitch
PROPERTY RollsStable
PROPERTY OldNeverLoaded
