CONSTANTS Years = {2000}
          Stride = 5
          GenYears = {2000, 2003}
          GenStride = 11
INIT GenInit
NEXT GenNext
