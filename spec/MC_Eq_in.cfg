CONSTANTS Wide = FALSE
          Nest = FALSE
INIT InitIn
NEXT EvalIn
INVARIANT InLaws
