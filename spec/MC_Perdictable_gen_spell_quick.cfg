CONSTANT Sizes <- SZ_gen_spell_quick
INIT Init
NEXT Gen
