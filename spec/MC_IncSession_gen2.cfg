CONSTANTS MaxCalls = 2
          MaxArgs = 2
          FreeCalls = 1
          Scope = "quick"
          Adopt = FALSE
INIT Init
NEXT Next
CONSTRAINT GenBound
