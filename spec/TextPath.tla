------------------------------- MODULE TextPath -------------------------------
(* Extension X08-c, first part: the path helpers path_name / path_dirname / path_join (re-exported by _file.py) as an      *)
(* algebra on strings (sequences of code points; 47 = "/", 92 = the backslash).                                             *)
(* Law level, from the docstring of path_name ("replaces \ with / and ensures no double // other than at start", the        *)
(* start being the two slashes of //server):                                                                                *)
(*   PCanon(p)    every backslash reads as a slash; every run of slashes becomes ONE slash, except that a path that starts   *)
(*                with exactly two keeps them                                                                               *)
(*   PDir(p)      the directory part of the canonical path: what stands before its last slash (the root stays the root)      *)
(*   PJoin(a, b)  b if b starts at the root, else a and b with exactly one slash between them (none after an empty a)        *)
(* The library's stance "a backslash is a separator" is taken at its word: the directory of a path and the join of two       *)
(* paths do not depend on how the separators are SPELLED.  A path starting with three or more slashes is outside the domain. *)
EXTENDS Naturals, Sequences

PFwd(p) == [i \in DOMAIN p |-> IF p[i] = 92 THEN 47 ELSE p[i]]
RECURSIVE PSquash(_)
PSquash(p) == IF Len(p) < 2 THEN p
              ELSE IF p[1] = 47 /\ p[2] = 47 THEN PSquash(Tail(p)) ELSE <<p[1]>> \o PSquash(Tail(p))
PLead(p) == IF p = <<>> \/ p[1] # 47 THEN 0 ELSE IF Len(p) = 1 \/ p[2] # 47 THEN 1 ELSE IF Len(p) = 2 \/ p[3] # 47 THEN 2 ELSE 3
PCanon(p) == LET f == PFwd(p) IN IF PLead(f) = 2 THEN <<47>> \o PSquash(f) ELSE PSquash(f)
PathInDomain(p) == PLead(PFwd(p)) < 3

PLastSlash(c) == IF \E i \in DOMAIN c : c[i] = 47 THEN CHOOSE i \in DOMAIN c : c[i] = 47 /\ \A j \in (i + 1)..Len(c) : c[j] # 47 ELSE 0
RECURSIVE PRStrip(_)
PRStrip(h) == IF h # <<>> /\ h[Len(h)] = 47 THEN PRStrip(SubSeq(h, 1, Len(h) - 1)) ELSE h
PDir(p) == LET c == PCanon(p)  i == PLastSlash(c)  h == SubSeq(c, 1, i) IN
           IF \A k \in DOMAIN h : h[k] = 47 THEN h ELSE PRStrip(h)
PJoin2(a, b) == LET fa == PFwd(a)  fb == PFwd(b) IN
                IF fb # <<>> /\ fb[1] = 47 THEN fb
                ELSE IF fa = <<>> \/ fa[Len(fa)] = 47 THEN fa \o fb ELSE fa \o <<47>> \o fb
RECURSIVE PJoinAll(_)
PJoinAll(ps) == IF Len(ps) = 1 THEN PFwd(ps[1]) ELSE PJoin2(PJoinAll(SubSeq(ps, 1, Len(ps) - 1)), ps[Len(ps)])
PJoin(ps) == PCanon(PJoinAll(ps))
PHasBackslash(p) == \E i \in DOMAIN p : p[i] = 92

\* a call: [op "path_name" / "path_dirname", p]  or  [op "path_join", ps]; the outcome is a string
PathWant(c) == CASE c.op = "path_name" -> PCanon(c.p) [] c.op = "path_dirname" -> PDir(c.p) [] c.op = "path_join" -> PJoin(c.ps)
PathCallInDomain(c) == IF c.op = "path_join" THEN PathInDomain(PJoinAll(c.ps)) /\ \A i \in DOMAIN c.ps : PathInDomain(c.ps[i]) ELSE PathInDomain(c.p)
\* the features findings are filed under
PEarly(p) == LET f == PFwd(p) IN Len(f) >= 3 /\ f[1] # 47 /\ f[2] = 47 /\ f[3] = 47        \* a double separator right after the first character
PathTags(c) == [early |-> IF (IF c.op = "path_join" THEN PEarly(PJoinAll(c.ps)) ELSE PEarly(c.p)) THEN 1 ELSE 0, backslash |-> IF (IF c.op = "path_join" THEN \E i \in DOMAIN c.ps : PHasBackslash(c.ps[i]) ELSE PHasBackslash(c.p)) THEN 1 ELSE 0]
=============================================================================
