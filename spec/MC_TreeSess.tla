---------------------------- MODULE MC_TreeSess ----------------------------
(* Property C15 over SESSIONS (Tree.tla, "SESSIONS"): the caller keeps its objects - the dicts  *)
(* of its trees, the path objects it looks up with (a list, a tuple, a dotted string), the      *)
(* table objects it hands to table_to_tree (one row as a dict, a list of rows, a dictable) and  *)
(* the RESULTS of earlier calls - and goes on working with them: the same path object in two    *)
(* lookups (in the same tree, in another tree), a result edited in place through tree_setitem   *)
(* or item assignment and the operands looked at again, the same call repeated after an edit.   *)
(* Law (state s): every call returns what the statement says about what its arguments hold NOW  *)
(* (SessOut), every argument object is afterwards what it was, and a result is a tree of its    *)
(* own at every depth (SessNext: it joins the heap as a new object without references).         *)
(* Mechanism (state m): the code's loops, run on its own copy of the caller's objects; `alias`  *)
(* holds the pairs of heap entries that are ONE object for the mechanism (a write to one is a    *)
(* write to the other).  Variants, each refuted by TLC in a must-fail run:                       *)
(*    "poppath"     tree_getitem / tree_get consume the path with pop(0): a LIST path is the    *)
(*                  caller's object (as_list returns it as it is)       - PoolsUntouched        *)
(*    "selfresult"  tree_update returns `tree` itself when the update has no items              *)
(*                                                                      - ResultsIndependent    *)
(*    "columns"     table_to_tree reads a single dict as a dict of COLUMNS (dictable(table)):   *)
(*                  a list leaf becomes one row per element, the last one wins - CallsAreLaw    *)
(* "code" is the code as it is and satisfies all three.                                          *)
(* With Hist = TRUE the session is carried along and every complete session is printed with the *)
(* outcome and the state the law expects after each step: the S2C generator.                    *)
EXTENDS Tree, TLC, Json
CONSTANTS Variant,  \* "code" | "poppath" | "selfresult" | "columns"
          Size,     \* "std" | "wide": universe of worlds (initial objects of the caller) and of steps
          Depth,    \* number of steps of a session
          Hist      \* TRUE: carry and print the session (generator)

VARIABLES s, m, alias, n, ok, s0, hist
vars == <<s, m, alias, n, ok, s0, hist>>

KeyOrder == <<"a", "ab">>
Key  == {"a", "ab"}
L0   == VLst(<<>>)
L1   == VLst(<<VInt(1)>>)
L2   == VLst(<<VInt(1), None>>)
Wide == Size = "wide"

\* --- worlds ------------------------------------------------------------------------------------
\* (records, not [k \in S |-> ..]: TLC keeps such a function as an unevaluated closure inside the state)
Nd1(c1)     == [ab |-> c1]
Nd2(c1, c2) == [a |-> c1, ab |-> c2]
Inl        == Branch(Nd1(VInt(1)))                                         \* an inline nested dict {ab: 1}
HeapStd == { <<Nd2(RefCell(2), VInt(1)), Nd2(VInt(1), L1)>>,              \* t = {a: u, ab: 1}, u = {a: 1, ab: [1]}: ab is listed in both
             <<Nd2(Inl, None), <<>> >>,                                    \* t with a nested dict of its own, u = {}
             <<Nd2(Inl, VInt(1)), Nd2(Branch(Nd2(None, L1)), VInt(1))>>,   \* two trees of one shape: a -> ab, ab listed in both
             <<Nd1(VInt(1)), Nd2(RefCell(3), RefCell(3)), Nd1(L1)>> }      \* a shared branch
HeapWide == {<<n1, n2>> : n1 \in UNION {[S -> {VInt(1), RefCell(2), Inl}] : S \in (SUBSET Key) \ {{}}},
                          n2 \in {<<>>, Nd1(VInt(1)), Nd2(VInt(1), L1), [a |-> None]}}
HeapU == HeapStd \cup (IF Wide THEN {h \in HeapWide : SessHeapOk(h)} ELSE {})

\* one object of each kind spelling the same path (equal by value, three realisations)
PathQ == {<<"ab">>, <<"a", "ab">>} \cup (IF Wide THEN {<<"a">>, <<"a", "a">>} ELSE {})
Pool(q) == <<[kind |-> "list", keys |-> q], [kind |-> "tuple", keys |-> q], [kind |-> "dotted", keys |-> q]>>

\* tables over the wildcards x (a key) and y (the leaf): one row as a dict, rows as a list, rows as a dictable
PX == <<"var", "x">>   PY == <<"var", "y">>
PatS == {<<PX, PY>>, <<<<"lit", "a">>, PX, PY>>}
Row(k, v) == [x |-> VStr(k), y |-> v]
RowLeaf == {VInt(1), L0, L1, L2}
Tabs(v, w) == <<[kind |-> "dict", rows |-> <<Row("a", v)>>],
                [kind |-> "list", rows |-> <<Row("a", v), Row("ab", w)>>],
                [kind |-> "dictable", rows |-> <<Row("ab", w), Row("a", v)>>]>>
TabU == {Tabs(v, L2) : v \in RowLeaf} \cup (IF Wide THEN {Tabs(v, VInt(1)) : v \in RowLeaf} ELSE {})

Listed(objs, q) == \E i \in 1..Len(objs) : q \in TPaths(Unfold(objs, i))
WorldU == UNION {{[objs |-> h, paths |-> Pool(q), tabs |-> <<>>] : q \in {x \in PathQ : Listed(h, x)}} : h \in HeapU}
          \cup {[objs |-> <<Nd1(VInt(1))>>, paths |-> Pool(<<"a">>), tabs |-> tb] : tb \in TabU}

Init == /\ s \in WorldU /\ m = s /\ alias = {}
        /\ n = 0 /\ ok = TRUE
        /\ s0 = (IF Hist THEN s ELSE <<>>) /\ hist = <<>>

\* --- the mechanism: the code's loops on the mechanism's copy of the caller's objects --------------
Same(i, j) == i = j \/ <<i, j>> \in alias
WriteNode(objs, i, f) == [j \in 1..Len(objs) |-> IF Same(i, j) THEN f ELSE objs[j]]
MT(i) == Unfold(m.objs, i)
\* rows of a table argument as the loop sees them
IsLst(v) == Tag(v) = "l"
ColumnsRows(r) ==         \* dictable(one dict): list values are columns, scalars are repeated
    LET ls == {v \in DOMAIN r : IsLst(r[v])} IN
    IF ls = {} THEN <<r>>
    ELSE LET len == Len(Pay(r[CHOOSE v \in ls : TRUE])) IN
         [i \in 1..len |-> [v \in DOMAIN r |-> IF v \in ls THEN Pay(r[v])[i] ELSE r[v]]]
MechRows(tb) == IF Variant = "columns" /\ tb.kind = "dict" THEN ColumnsRows(tb.rows[1]) ELSE tb.rows
MechOut(c) ==
    CASE c.kind = "get"     -> TGet(MT(c.rt), m.paths[c.p].keys)
      [] c.kind = "setitem" -> None
      [] c.kind = "update"  -> InsertAll(MT(c.rt), ItemsSeq(MT(c.ru), KeyOrder), SeqSet(c.ign))
      [] c.kind = "items"   -> FromItems(SeqSet(ItemsSeq(MT(c.rt), KeyOrder)))
      [] c.kind = "to_table" -> Match(MT(c.rt), c.pat)
      [] c.kind = "from_table" -> LET rows == MechRows(m.tabs[c.tb]) IN
                                  InsertAll(EmptyTree, [i \in 1..Len(rows) |-> RowItem(c.pat, rows[i])], {})
      [] OTHER -> SessNil
ReturnsSelf(c) == Variant = "selfresult" /\ c.kind = "update" /\ ItemsSeq(MT(c.ru), KeyOrder) = <<>>
MechNext(c) ==
    CASE c.kind = "get" -> IF Variant = "poppath" /\ m.paths[c.p].kind = "list"
                           THEN [m EXCEPT !.paths = [m.paths EXCEPT ![c.p] = [kind |-> "list", keys |-> <<>>]]]
                           ELSE m
      [] c.kind \in {"update", "from_table"} ->
                           [m EXCEPT !.objs = Append(m.objs, IF ReturnsSelf(c) THEN m.objs[c.rt] ELSE Kids(MechOut(c)))]
      [] c.kind = "setitem" -> IF m.paths[c.p].keys = <<>> THEN m          \* (a consumed path: the code raises)
                               ELSE [m EXCEPT !.objs = WriteNode(m.objs, c.rt,
                                   Kids(Insert(Branch(m.objs[c.rt]), m.paths[c.p].keys, c.leaf, SeqSet(c.ign))))]
      [] c.kind = "edit"    -> [m EXCEPT !.objs = WriteNode(m.objs, c.obj,
                                   [x \in DOMAIN m.objs[c.obj] \cup {c.key} |-> IF x = c.key THEN c.cell ELSE m.objs[c.obj][x]])]
      [] OTHER -> SessNext(m, c)
MechAlias(c) == IF ReturnsSelf(c) THEN alias \cup {<<c.rt, Len(m.objs) + 1>>, <<Len(m.objs) + 1, c.rt>>}
                                        \cup {<<j, Len(m.objs) + 1>> : j \in {x \in 1..Len(m.objs) : Same(c.rt, x)}}
                                        \cup {<<Len(m.objs) + 1, j>> : j \in {x \in 1..Len(m.objs) : Same(c.rt, x)}}
                ELSE alias

\* --- one step ----------------------------------------------------------------------------------------
IsCall(c) == c.kind \in {"get", "setitem", "update", "items", "to_table", "from_table"}
OutJ(c) == IF c.kind = "items" THEN [t |-> SessOut(s, c), items |-> TItems(SessOut(s, c))] ELSE SessOut(s, c)
\* (guards are written `.. = TRUE`: inside an action TLC explores BOTH sides of a disjunction, as a value it short-circuits)
Step(c) == /\ n < Depth /\ SessOk(s, c) = TRUE
           /\ (n = 0 => IsCall(c))                       \* a session starts with a public call (an edit first is another world)
           /\ s' = SessNext(s, c) /\ SessHeapOk(s'.objs) = TRUE
           /\ m' = MechNext(c) /\ alias' = MechAlias(c)
           /\ ok' = (ok /\ (SessOk(m, c) /\ MechOut(c) = SessOut(s, c)))
           /\ n' = n + 1
           /\ hist' = (IF Hist THEN Append(hist, [call |-> c, out |-> OutJ(c), after |-> s']) ELSE hist)
           /\ (IF Hist /\ n + 1 = Depth
               THEN PrintT(ToJson([op |-> "sess", objs |-> s0.objs, paths |-> s0.paths, tabs |-> s0.tabs,
                                   steps |-> Append(hist, [call |-> c, out |-> OutJ(c), after |-> s'])]))
               ELSE TRUE)
           /\ UNCHANGED s0

Objs  == 1..Len(s.objs)
PathI == 1..Len(s.paths)
TabI  == 1..Len(s.tabs)
NewLeaf == VStr("n")
IgnS  == IF Wide THEN {<<>>, <<None>>} ELSE {<<>>}
\* (the step records are made as elements of a set, so that TLC hands Step a VALUE and not an unevaluated expression)
DoGet      == \E c \in {[kind |-> "get", fn |-> fn, rt |-> rt, p |-> p] : fn \in {"getitem", "get"}, rt \in Objs, p \in PathI} : Step(c)
DoSetItem  == \E c \in {[kind |-> "setitem", rt |-> rt, p |-> p, leaf |-> lg[1], ign |-> lg[2]] :
                            rt \in Objs, p \in PathI, lg \in (IF Wide THEN {<<NewLeaf, <<>> >>, <<None, <<None>> >>} ELSE {<<NewLeaf, <<>> >>})} : Step(c)
DoUpdate   == \E c \in {[kind |-> "update", rt |-> rt, ru |-> ru, ign |-> g] : rt \in Objs, ru \in Objs, g \in IgnS} : Step(c)
DoItems    == \E c \in {[kind |-> "items", rt |-> rt] : rt \in Objs} : Step(c)
DoToTable  == \E c \in {[kind |-> "to_table", rt |-> rt, pat |-> pat] :
                            rt \in Objs, pat \in (IF s.tabs = <<>> /\ ~Wide THEN {<<PX, PY>>} ELSE PatS)} : Step(c)
DoFromTable == \E c \in {[kind |-> "from_table", tb |-> tb, pat |-> pat] : tb \in TabI, pat \in PatS} : Step(c)
\* the caller's own actions
EditCells(i) == {None} \cup {RefCell(j) : j \in {x \in Objs : x > i}}
DoEdit     == \E c \in UNION {{[kind |-> "edit", obj |-> i, key |-> k, cell |-> cl] : k \in Key, cl \in EditCells(i)} : i \in Objs} :
                  /\ ((c.key \in DOMAIN s.objs[c.obj]) => s.objs[c.obj][c.key] # c.cell) = TRUE
                  /\ Step(c)
DoSetPath  == \E c \in {[kind |-> "setpath", p |-> p, keys |-> q] : p \in PathI, q \in PathQ} : c.keys # s.paths[c.p].keys /\ Step(c)
DoSetRow   == \E c \in UNION {{[kind |-> "setrow", tb |-> tb, row |-> r, var |-> "y", val |-> v] :
                                    r \in 1..Len(s.tabs[tb].rows), v \in {L1, VStr("v")}} : tb \in TabI} :
                  /\ s.tabs[c.tb].rows[c.row]["y"] # c.val
                  /\ Step(c)
Next == DoGet \/ DoSetItem \/ DoUpdate \/ DoItems \/ DoToTable \/ DoFromTable \/ DoEdit \/ DoSetPath \/ DoSetRow

\* --- the clauses (looked at when the session is complete, so that the must-fail runs have taken every action by then) ---
Done == n = Depth
\* every call returned what the law says about what its arguments held at that moment
CallsAreLaw        == Done => ok
\* the caller's path and table objects are what the caller made them
PoolsUntouched     == Done => (m.paths = s.paths /\ m.tabs = s.tabs)
\* the caller's dicts are what the caller made them and every result is a tree of its own: no write reaches two of them
ResultsIndependent == Done => m.objs = s.objs
HeapStaysOk        == SessHeapOk(s.objs)
=============================================================================
