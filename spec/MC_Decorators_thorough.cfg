CONSTANTS MaxWraps = 5
          LastOnlyFrom = 5
          MaxChain = 4
          MaxCalls = 5
          Wide = TRUE
          FixedCode = TRUE
          Modes = {"bind", "heap", "memo", "chain"}
INIT Init
NEXT Next
INVARIANT BindLaws
INVARIANT BindTotal
INVARIANT TwinsDiffer
INVARIANT Transparent
INVARIANT ReturnsWhatFReturns
INVARIANT FallbackIffRaises
INVARIANT DropsExactlyUndeclared
INVARIANT WrapTwiceIsOnce
INVARIANT NormalFormKeepsBehaviour
INVARIANT NoDoubleWrapping
INVARIANT MechRefinesMC
INVARIANT MemoOncePerKey
PROPERTY OnlyNewObject
PROPERTY MechOnlyNewObject
PROPERTY MemoStable
