CONSTANTS MaxCalls = 2
          MaxArgs = 2
          FreeCalls = 1
          Scope = "thorough"
          Adopt = FALSE
INIT Init
NEXT Next
CONSTRAINT GenBound
INVARIANT PoolUntouched
INVARIANT ResultByOriginal
INVARIANT SessPartition
INVARIANT SessIdempotent
INVARIANT SessKeepsCols
INVARIANT NoCondIsIdentity
INVARIANT EchoLaw
