CONSTANTS Tier = "quick"
          Shape = "cec"
          Depth = 3
          Fams = {"useq", "mses"}
          MemoPolicy = "none"
          ArgPolicy = "copy"
INIT Init
NEXT NextGen
INVARIANT UniqueKept
INVARIANT CallsOwnNothing
INVARIANT NoMemory
INVARIANT ResultsUnique
INVARIANT MemoIsMembers
INVARIANT SameCallSameAnswer
