CONSTANTS MaxRows = 2
          Wide = TRUE
INIT Init
NEXT NextGen
