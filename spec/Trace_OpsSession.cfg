INIT SessInit
NEXT SessNext
