CONSTANTS MaxDepth = 6
          MaxRowsC = 16
          LawDepth = 2
INIT Init
NEXT Next
CONSTRAINT SimBound
