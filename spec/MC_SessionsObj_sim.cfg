CONSTANTS NHol = 4
          NWk = 3
          NSess = 4
          QDays = {1, 2, 3, 4, 5}
          QSecs = {0, 46800, 46801, 81000, 86399}
          Depth = 8
          KeepHist = TRUE
          AskMod = 16
INIT Init
NEXT NextGen
