CONSTANTS Names = {"x", "y", "CFG"}
          ItemKeys = {"a"}
          ItemVals = {1, 2}
          MaxDepth = 2
          MaxLen = 3
          Menu = "wide"
INIT Init
NEXT NextMC
VIEW mcview
INVARIANT OnePerName
INVARIANT Different
INVARIANT PrefixClosed
PROPERTY Stable
PROPERTY OnlyWriteReplaces
PROPERTY ItemsStay
