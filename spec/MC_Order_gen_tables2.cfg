CONSTANTS MaxLen = 2
          Mode = "tables"
INIT Init
NEXT NextGen
