CONSTANTS MaxLenS = 3
          MaxRowsS = 0
          MaxListS = 2
          LimsS = {0, 1}
          MaxCalls = 2
          Consume = FALSE
          Emit = TRUE
INIT Init
NEXT NextGen
INVARIANT SIntact
INVARIANT SChain
INVARIANT SShared
INVARIANT SRefines
INVARIANT SFew
