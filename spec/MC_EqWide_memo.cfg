CONSTANTS Widths = {3, 8}
          Deep = FALSE
          Warm = 2
INIT Init
NEXT Step
INVARIANT MemoWalkSound
