CONSTANTS Dates = {1}
          Stamps = {1, 2, 3}
          Vals = {1, 2}
          MaxMerges = 3
          MaxAgain = 0
          Stable = TRUE
          Zones <- ZonesUEW
          ZoneAware = TRUE
INIT Init
NEXT NextGen
PROPERTY GenIsSpec
