CONSTANTS HW = 7
          Margins = {1, 3, 4}
          Anchors = {1, 2, 3}
          NMax = 8
          MCMod = 15
          GenMod = 1
          TPad = 2
INIT Init
NEXT Eval
INVARIANT AdjustLaw
INVARIANT AddLaw
INVARIANT DrangeLaw
INVARIANT MechanismIsLaw
INVARIANT BeyondIsLawOrRefusal
INVARIANT PathsAgree
INVARIANT TableLaw
INVARIANT Straddles
INVARIANT MonthNoIsMonthOf
