CONSTANTS MaxWraps = 4
          LastOnlyFrom = 2
          MaxChain = 3
          MaxCalls = 5
          Wide = FALSE
          FixedCode = FALSE
          Modes = {"heap"}
INIT Init
NEXT Next
INVARIANT MechRefinesMC
