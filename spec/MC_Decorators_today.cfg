CONSTANTS MaxWraps = 4
          LastOnlyFrom = 2
          MaxChain = 3
          MaxCalls = 5
          Wide = FALSE
          FixedCode = FALSE
          Modes = {"heap"}
          MaxExcChain = 1
          MaxBindings = 1
          MaxArgSteps = 0
          MaxDecoObjs = 3
          MaxDecoCalls = 0
          MaxOrdChain = 1
          TwoDecos = FALSE
INIT Init
NEXT Next
INVARIANT MechRefinesMC
