\* must violate ResultOwned: results cached per arguments, the cached list handed out
CONSTANTS Variant = "cache"
          MaxCalls = 2
          Scope = "quick"
          Family = "none"
INIT Init
NEXT Next
INVARIANT ResultOwned
