CONSTANTS NS = 3
 NT = 2
 NF = 0
INIT InitGen
NEXT EvalGen
