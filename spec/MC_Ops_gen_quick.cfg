CONSTANTS NS = 3
 NT = 2
 NF = 0
 Fill = FALSE
INIT InitGen
NEXT EvalGen
