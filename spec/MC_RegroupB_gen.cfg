CONSTANTS Ks = {1}
          Lean = FALSE
INIT Init
NEXT NextGen
INVARIANT WellFormed
