CONSTANTS Ks = {1}
          Lean = FALSE
INIT GenInit
NEXT NextGen
INVARIANT WellFormed
