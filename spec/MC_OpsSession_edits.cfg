\* quick tier, S2C by TLC's simulator: call ; in-place edit of an operand the call was given (identity and shape kept) ;
\* the same call / another operator / the other policy / a fill method on the same objects ; ... (every form of call)
CONSTANTS MaxSteps = 5
          FreeSteps = 1
          Scope = "quick"
          Caller = FALSE
          Edits = TRUE
          Pairs = "also"
          Extend = FALSE
          Mech = FALSE
INIT Init
NEXT NextGenE
