CONSTANTS MaxDepth = 2
          MaxRowsC = 4
INIT Init
NEXT Next
VIEW View
CONSTRAINT Bound
INVARIANT TypeOK
INVARIANT AllRectangular
INVARIANT ConcatLaw
INVARIANT DoLaw
PROPERTY OnlyTargetChanges
PROPERTY RejectedLeavesState
PROPERTY CallsOwnNothing
