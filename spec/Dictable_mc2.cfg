CONSTANTS MaxDepth = 2
          MaxRowsC = 4
INIT Init
NEXT Next
VIEW View
CONSTRAINT Bound
INVARIANT TypeOK
INVARIANT AllRectangular
INVARIANT ConcatLaw
INVARIANT DoLaw
INVARIANT ConcatNLaw
INVARIANT ScaleLaws
PROPERTY OnlyTargetChanges
PROPERTY RejectedLeavesState
PROPERTY CallsOwnNothing
