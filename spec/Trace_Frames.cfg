INIT Init
NEXT Next
