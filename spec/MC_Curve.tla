------------------------------- MODULE MC_Curve -------------------------------
(* Extension X03-a on the specification.  One behaviour per case  cs --Eval--> done.             *)
(*   kind "pt"    : one curve over one of the knot vectors of XU, every assignment of the values *)
(*                  YV (NaN included) to the knots, one point of AV (below / on / between / above *)
(*                  the knots, NaN), every fill policy: the clauses of the law Interp1 and the   *)
(*                  comparison with the mechanism of today's code;                               *)
(*   kind "vec"   : the same curves read at all points of AV at once (generator only);           *)
(*   kind "forms" : two curves as a matrix, shared or per-row knots, points as scalar / vector    *)
(*                  (one per row, or several for every row) / matrix: the forms agree with the    *)
(*                  one-curve form;                                                              *)
(*   kind "frame" : two dated curves as a frame whose column labels are the knots, points plain   *)
(*                  or dated (series / frame, also on dates the values do not have).             *)
(* EvalGen prints every case with the outcome the specification expects (S2C).                   *)
EXTENDS Curve, TLC, Json, SequencesExt
CONSTANTS Kinds, Wide

VARIABLES kind, x, y, a, fill, done
vars == <<kind, x, y, a, fill, done>>

X4  == <<Q(0, 1), Q(1, 1), Q(2, 1), Q(4, 1)>>
X3  == <<Q(-1, 1), Q(1, 1), Q(2, 1)>>
X3b == <<Q(0, 1), Q(2, 1), Q(3, 1)>>
X5  == <<Q(-3, 1), Q(0, 1), Q(1, 1), Q(3, 1), Q(9, 1)>>
XU  == IF Wide THEN {X4, X3, X5} ELSE {X4, X3}
\* (the differences between any two knots of a vector of XU are 2^k, 3 * 2^k or 9 * 2^k and the values multiples
\* of 9 / 4, so that binary floating point computes every chord without rounding - the law itself is exact anyway)
YV  == IF Wide THEN {NaNC, Q(0, 1), Q(9, 1), Q(-9, 2), Q(27, 4)} ELSE {NaNC, Q(0, 1), Q(9, 1), Q(-9, 2)}
AV  == {NaNC} \cup {Q(k, 2) : k \in (IF Wide THEN -5..13 ELSE -2..8)}
AVseq == <<NaNC>> \o [i \in 1..19 |-> Q(i - 6, 2)]

YR3  == [1..3 -> {NaNC, Q(0, 1), Q(3, 1)}]
YR3s == {<<Q(0, 1), Q(3, 1), NaNC>>, <<NaNC, NaNC, Q(3, 1)>>, <<Q(3, 1), Q(0, 1), Q(3, 1)>>, <<Q(0, 1), NaNC, Q(3, 1)>>}
Row2 == IF Wide THEN YR3 ELSE YR3s
XForms == {V(X3), M(<<X3, X3b>>), M(<<X3, X3>>)}
APlain == {C(Q(1, 2)), C(Q(5, 1)), C(NaNC),
           V(<<Q(1, 2), Q(5, 2)>>), V(<<Q(-3, 1), Q(1, 1)>>),          \* as long as there are curves: one point each
           V(<<Q(1, 2), Q(1, 1), Q(4, 1)>>), V(<<Q(0, 1)>>),            \* any other length: all points for every curve
           M(<<<<Q(1, 2), Q(1, 1)>>, <<Q(2, 1), NaNC>>>>), M(<<<<Q(1, 1)>>, <<Q(3, 1)>>>>)}
S(t, v) == [k |-> "s", t |-> t, v |-> v]
ADated == {S(<<1, 2>>, <<Q(1, 2), Q(5, 2)>>), S(<<2, 5>>, <<Q(1, 1), Q(1, 1)>>), S(<<2>>, <<Q(-3, 1)>>),
           [k |-> "f", t |-> <<2, 3>>, c |-> <<"p", "q">>, v |-> <<<<Q(1, 2), Q(5, 1)>>, <<Q(1, 1), Q(1, 1)>>>>],
           [k |-> "f", t |-> <<1, 2>>, c |-> <<"p">>, v |-> <<<<Q(1, 2)>>, <<Q(5, 1)>>>>]}
Fr(r1, r2) == [k |-> "f", t |-> <<1, 2>>, c |-> X3, v |-> <<r1, r2>>]

InitPt    == kind = "pt" /\ \E xx \in XU : x = V(xx) /\ \E yy \in [1..Len(xx) -> YV] : y = V(yy)
             /\ \E aa \in AV : a = C(aa)
InitVec   == kind = "vec" /\ \E xx \in XU : x = V(xx) /\ \E yy \in [1..Len(xx) -> YV] : y = V(yy)
             /\ a = V(AVseq)
InitForms == kind = "forms" /\ x \in XForms /\ \E r1 \in YR3, r2 \in Row2 : y = M(<<r1, r2>>)
             /\ a \in APlain
InitFrame == kind = "frame" /\ x \in {NoKnots, V(X3b)} /\ \E r1 \in YR3, r2 \in Row2 : y = Fr(r1, r2)
             /\ a \in APlain \cup ADated
Init == /\ \/ "pt" \in Kinds /\ InitPt
           \/ "vec" \in Kinds /\ InitVec
           \/ "forms" \in Kinds /\ InitForms
           \/ "frame" \in Kinds /\ InitFrame
        /\ fill \in Fills /\ done = FALSE

Want == Interp(a, y, x, fill)
Eval == done = FALSE /\ done' = TRUE /\ UNCHANGED <<kind, x, y, a, fill>>
EvalGen == Eval /\ PrintT(ToJson([kind |-> kind, x |-> x, y |-> y, a |-> a, fill |-> fill, want |-> Want,
                                  exact |-> FloatExact(a, y, x, fill)]))

\* ---- one curve, one point ---------------------------------------------------------------------
IsPt == kind = "pt" /\ done          \* the clauses are examined once per case, in its done-state
xs == x.v
ys == y.v
pt == a.v
K  == Knots(xs, ys)
R(f) == Interp1(xs, ys, pt, f)
Res  == R(fill)
Lo == ArgMin(xs, K)
Hi == ArgMax(xs, K)
Inside  == IsV(pt) /\ Cardinality(K) >= 2 /\ Le(xs[Lo], pt) /\ Le(pt, xs[Hi])
Outside == IsV(pt) /\ Cardinality(K) >= 2 /\ ~Inside
\* r lies on the straight line through knots i and j (no division)
OnLine(r, i, j) == IsV(r) /\ MulQ(SubQ(r, ys[i]), SubQ(xs[j], xs[i])) = MulQ(SubQ(ys[j], ys[i]), SubQ(pt, xs[i]))
Between(r, u, w) == (Le(u, r) /\ Le(r, w)) \/ (Le(w, r) /\ Le(r, u))
Adjacent(i, j) == i \in K /\ j \in K /\ Lt(xs[i], xs[j]) /\ ~\E k \in K : Lt(xs[i], xs[k]) /\ Lt(xs[k], xs[j])

\* the mechanism of today's code computes the law (the knot vectors of XU are increasing)
MechanismIsLaw == IsPt => MechInterp1(xs, ys, pt, fill) = Res
\* fewer than two knots, or no point: no value
NoCurve   == IsPt => ((Cardinality(K) < 2 \/ IsNaN(pt)) => IsNaN(Res))
\* the curve passes through its knots
HitsKnots == IsPt => \A i \in K : (Cardinality(K) >= 2 /\ pt = xs[i]) => Res = ys[i]
\* between two neighbouring knots the value lies on their chord (hence between their values)
OnSegment == (IsPt /\ IsV(pt)) => \A i \in K, j \in K : (Adjacent(i, j) /\ Le(xs[i], pt) /\ Le(pt, xs[j])) =>
                        OnLine(Res, i, j) /\ Between(Res, ys[i], ys[j])
\* inside the knots the fill policy is immaterial
FillOnlyOutside == IsPt => (Inside => \A f \in Fills : R(f) = Res)
\* outside the knots: nothing / the end value / the end segment continued
OutsidePolicy == IsPt => (Outside =>
                    /\ IsNaN(R("nan"))
                    /\ R("bound") = (IF Lt(pt, xs[Lo]) THEN ys[Lo] ELSE ys[Hi])
                    /\ IF Lt(pt, xs[Lo]) THEN \E j \in K : Adjacent(Lo, j) /\ OnLine(R("extrapolate"), Lo, j)
                       ELSE \E i \in K : Adjacent(i, Hi) /\ OnLine(R("extrapolate"), i, Hi))
\* NaN values are ignored: the curve through the remaining knots is the same curve
IgnoresNaNKnots == IsPt => Res = Interp1(Compress(xs, ys), Compress(ys, ys), pt, fill)
\* the order in which the knots are listed does not matter
OrderFree == IsPt => Res = Interp1(Reverse(xs), Reverse(ys), pt, fill)
WellFormedResult == IsPt => WellCell(Res)

\* ---- the forms agree with the one-curve form ---------------------------------------------------
IsForms == kind \in {"forms", "frame"}
NRowsY == Len(y.v)
One(i, p) == Interp1(XRow(x, y, i), y.v[i], p, fill)
FormsRowWise == (done /\ kind = "forms") =>
    LET w == Want IN
    CASE a.k = "c" -> w.k = "v" /\ \A i \in 1..NRowsY : w.v[i] = Interp(a, V(y.v[i]), V(XRow(x, y, i)), fill).v
      [] a.k = "v" /\ Len(a.v) = NRowsY -> w.k = "v" /\ \A i \in 1..NRowsY : w.v[i] = One(i, a.v[i])
      [] a.k = "v" -> w.k = "m" /\ \A i \in 1..NRowsY : w.v[i] = Interp(a, V(y.v[i]), V(XRow(x, y, i)), fill).v
      [] a.k = "m" -> w.k = "m" /\ \A i \in 1..NRowsY : w.v[i] = Interp(V(a.v[i]), V(y.v[i]), V(XRow(x, y, i)), fill).v
\* per-row knots that are all the same = shared knots
SharedKnots == (done /\ kind = "forms" /\ x = M(<<X3, X3>>)) => Want = Interp(a, y, V(X3), fill)
\* a frame of values is its matrix of values with the labels as knots; plain points keep its dates
FrameIsMatrix == (done /\ kind = "frame" /\ a.k \in {"c", "v", "m"}) =>
    LET w == Want  mm == Interp(a, M(y.v), IF x.k = "none" THEN V(y.c) ELSE x, fill) IN
    /\ w.t = y.t /\ w.v = mm.v /\ (w.k = "s") = (mm.k = "v")
\* dated points: one answer per date of the points; a date the values do not have gives NaN
FrameDated == (done /\ kind = "frame" /\ a.k \in {"s", "f"}) =>
    LET w == Want IN
    /\ w.t = a.t /\ w.k = AsPoints(a).k
    /\ \A i \in 1..Len(a.t) : a.t[i] \notin TimesOf(y) =>
            (IF w.k = "s" THEN IsNaN(w.v[i]) ELSE \A j \in 1..Len(w.v[i]) : IsNaN(w.v[i][j]))
    /\ \A i \in 1..Len(a.t) : a.t[i] \in TimesOf(y) =>
            LET r == PosOf(y, a.t[i]) IN
            IF w.k = "s" THEN w.v[i] = One(r, AsPoints(a).v[i]) ELSE \A j \in 1..Len(w.v[i]) : w.v[i][j] = One(r, a.v[i][j])
=============================================================================
