CONSTANT SSizes <- SS_thorough
INIT Init
NEXT Gen
