------------------------------- MODULE MC_FillS -------------------------------
(* Property C12 over HISTORIES: several df_fillna calls on the caller's objects (Fill.tla,        *)
(* "sessions").  The caller owns an input object x and a method-list object M (contents m) and    *)
(* makes calls; each call takes the input object or the object returned by the previous call,    *)
(* and either the shared list object M or a fresh list (a copy of m, its head, its tail).        *)
(* The statement's "a list of methods applies them in sequence" and "the input object is not     *)
(* modified" are laws about every call of such a history, not only about the first one:          *)
(*   SIntact     no call changes the contents of x or M                                          *)
(*   SChain      feeding results forward = one call with the concatenated method list            *)
(*   SShared     passing the shared object = passing a fresh copy of what the caller wrote       *)
(*   SRefines    (mechanism) a dispatcher that reads the list object it is handed produces the   *)
(*               law's results as long as it only ITERATES over it; the variant that CONSUMES it *)
(*               (pop) leaves an empty object behind and breaks the next call (must_fail config) *)
(* Generator configuration: `hist` records the calls with the outcomes admitted after each.      *)
EXTENDS Fill, TLC, Json, SequencesExt
CONSTANTS MaxLenS, MaxRowsS, MaxListS, LimsS, MaxCalls, Consume, Emit

VARIABLES x, m, lim,        \* what the caller wrote: the input frame, the method list, the limit of the session
          st,               \* law level session state (Fill!SessInit / SessCall)
          chain,            \* ghost: the methods applied since the input object was last taken
          heapM, mech,      \* mechanism: the contents of the list object M on the heap; the results it produces
          n, hist
vars == <<x, m, lim, st, chain, heapM, mech, n, hist>>

Code(j, i) == 100 * j + i
FrameOf(k, masks) ==
    [rows |-> Idx(k), cols |-> [j \in 1..Len(masks) |-> [i \in 1..k |-> IF masks[j][i] THEN Code(j, i) ELSE NaN]]]
FrameS == UNION {{FrameOf(k, <<a>>) : a \in [1..k -> BOOLEAN]} : k \in 0..MaxLenS}
          \cup UNION {{FrameOf(k, <<a, b>>) : a \in [1..k -> BOOLEAN], b \in [1..k -> BOOLEAN]} : k \in 1..MaxRowsS}
CONSTV  == 7
Methods == {<<"ffill", 0>>, <<"bfill", 0>>, <<"const", CONSTV>>, <<"nona", 0>>, <<"fnna", 0>>,
            <<"ffill_na", 0>>, <<"ffill_0", 0>>}
ListS   == UNION {[1..k -> Methods] : k \in 1..MaxListS}

Init == /\ x \in FrameS /\ m \in ListS /\ lim \in LimsS
        /\ st = SessInit(x, m) /\ chain = <<>> /\ heapM = m /\ mech = {x} /\ n = 0 /\ hist = <<>>

\* the calls a caller can make next: on the input object or on the previous result; with the shared list object M or
\* with a fresh list holding the head / the tail of what the caller wrote (the tail of a one-method list is the empty
\* list: that call returns its input).  A fresh copy of the whole list is the subject of SShared.
Fresh(o) == IF o = "copy" THEN m ELSE IF o = "head" THEN <<m[1]>> ELSE Tail(m)
CallOf(s, o) == [src |-> s, obj |-> o, ms |-> IF o = "M" THEN m ELSE Fresh(o), lim |-> lim]
Calls == {CallOf(s, o) : s \in {"x", "prev"}, o \in {"M", "head", "tail"}}

\* mechanism: the dispatcher sees the CONTENTS OF THE OBJECT it is handed (heapM for the shared object)
MechMethods(c) == IF c.obj = "M" THEN heapM ELSE c.ms
MechCall(c) ==
    /\ mech' = UNION {Fillna(g, MechMethods(c), c.lim) : g \in (IF c.src = "x" THEN {x} ELSE mech)}
    /\ heapM' = IF c.obj = "M" /\ Consume THEN <<>> ELSE heapM

Call(c) ==
    /\ n < MaxCalls /\ n' = n + 1
    /\ st' = SessCall(st, c)
    /\ chain' = (IF c.src = "x" THEN <<>> ELSE chain) \o CallMethods(st, c)
    /\ MechCall(c)
    /\ UNCHANGED <<x, m, lim>>
Next    == \E c \in Calls : Call(c) /\ hist' = <<>>
NextGen == \E c \in Calls : /\ Call(c)
                            /\ hist' = Append(hist, [c |-> c, want |-> SetToSeq(st'.prev)])
                            /\ (Emit /\ n' = MaxCalls) => PrintT(ToJson([x |-> x, m |-> m, lim |-> lim, hist |-> hist']))

SIntact  == st.x = x /\ st.m = m
SChain   == st.prev = Fillna(x, chain, lim)
SShared  == \A s \in {"x", "prev"} : SessCall(st, CallOf(s, "M")) = SessCall(st, CallOf(s, "copy"))
SRefines == mech = st.prev /\ heapM = m
SFew     == st.prev # {} /\ Cardinality(st.prev) <= 64
=============================================================================
