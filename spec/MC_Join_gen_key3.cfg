CONSTANTS MaxRows = 3
          Shape = "key"
INIT Init
NEXT NextGen
