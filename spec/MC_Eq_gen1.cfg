CONSTANTS Wide = FALSE
          Nest = FALSE
INIT Init
NEXT EvalGen
