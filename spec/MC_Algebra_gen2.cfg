CONSTANTS MaxLen = 3
          MaxLenX = 3
INIT InitGenMap
NEXT GenMap
