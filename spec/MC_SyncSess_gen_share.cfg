CONSTANTS Family = "share"
 Depth = 1
INIT Init
NEXT NextGen
INVARIANT HeapIsHistory
