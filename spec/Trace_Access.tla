---------------------------- MODULE Trace_Access ----------------------------
(* Trace validation for extension X07: each line of the log is one observation of the real code,                *)
(*   area "types":  op "row"  one object with the answers of all 35 predicates (or the exception class),          *)
(*                  op "n2n"  null2none(object): "none" / "same" / "other" / an exception class,                   *)
(*                  op "prim" as_primitive(object) and as_primitive of that result, encoded as objects.            *)
(*   area "items":  one call of getitem / callitem / callattr / getattrs / relabel / d.relabel / dict_invert /       *)
(*                  the as_list family / tree_repr with its outcome and the caller's objects afterwards.            *)
(*   area "sig":    one call of argspec_defaults / argspec_required / getargs / argspec_add / argspec_update /        *)
(*                  kwargs2args, or a partialize(...) followed by one probing call of the result.                      *)
(* A line may break several clauses: the verdict is the list of all of them, joined by ";".                       *)
(* (Batch declares the variables c and l: the call of a line is named cc here.)                                   *)
EXTENDS AccessTypes, AccessItems, AccessSig, Batch

RECURSIVE JoinSeq(_)
JoinSeq(s) == IF s = <<>> THEN "" ELSE IF Len(s) = 1 THEN s[1] ELSE s[1] \o ";" \o JoinSeq(Tail(s))
NonEmpty(s) == SelectSeq(s, LAMBDA x : x # "")

\* ---- types -------------------------------------------------------------------------------------------
RowVerdict(o) ==
    LET vv == o.v  r == o.row
        perPred == [i \in 1..Len(PredSeq) |->
                      LET p == PredSeq[i] IN
                      IF r[p] \notin {"T", "F"} THEN "predicate_raised:" \o p
                      ELSE IF r[p] \notin Admit(p, vv) THEN "predicate_value:" \o p ELSE ""]
        answered == \A p \in Preds : r[p] \in {"T", "F"}
        lat == IF answered /\ FirstBrokenLaw(r) # "" THEN "lattice:" \o FirstBrokenLaw(r) ELSE ""
    IN  JoinSeq(NonEmpty(perPred \o <<lat>>))

IsExcObj(x) == x.cls = "!exc"
PrimVerdict(o) ==
    IF IsExcObj(o.out) THEN "as_primitive_raised"
    ELSE IF ~PrimOK(o.v, o.out) THEN "as_primitive_value"
    ELSE IF PrimSame(o.v) /\ o.same # "T" THEN "as_primitive_touched"
    ELSE IF ~HasFree(o.v) /\ (IsExcObj(o.out2) \/ o.out2 # o.out) THEN "as_primitive_idempotent"
    ELSE ""

TypesVerdict(o) ==
    CASE o.op = "row"  -> RowVerdict(o)
      [] o.op = "n2n"  -> IF o.out = N2N(o.v) THEN "" ELSE "null2none"
      [] o.op = "prim" -> PrimVerdict(o)
      [] OTHER -> "unknown_op"

\* ---- items ------------------------------------------------------------------------------------------
\* a line carries the call (the shapes of MC_AccessItems), what came back and what the caller's objects look like afterwards
PairsOf(s) == {s[i] : i \in 1..Len(s)}
AsListInDomain(inp) == inp.sp = "tuple" => ~(Len(inp.xs) = 1 /\ Tag(inp.xs[1]) = "l")
AsListVerdict(o) ==
    LET cc == o.c  want == AsList(cc.inp, cc.none) IN
    IF ~AsListInDomain(cc.inp) THEN ""
    ELSE JoinSeq(NonEmpty(<<
        IF o.after # cc.inp THEN "argument_changed" ELSE "",
        IF o.lst # [cls |-> "list", items |-> want] THEN "as_list_value" ELSE "",
        IF o.tup # [cls |-> "tuple", items |-> want] THEN "as_tuple_value" ELSE "",
        IF o.first # First(cc.inp) THEN "first_value" ELSE "",
        IF o.last # LastOf(cc.inp) THEN "last_value" ELSE "",
        IF o.unique \notin UniqueOutcomes(cc.inp) THEN "unique_value" ELSE "",
        IF o.passthru # "same" THEN "passthru_value" ELSE "">>))
ItemsVerdict(o) ==
    LET cc == o.c IN
    CASE o.op = "getitem" -> IF o.after # cc.c THEN "argument_changed"
                             ELSE IF o.out # GetItem(cc.c, cc.k, cc.d) THEN "getitem_value" ELSE ""
      [] o.op = "chain"   -> IF o.out # ChainOutcome(cc) THEN "chain_outcome" ELSE ""
      [] o.op = "getattrs" -> IF o.obj_after # cc.obj \/ o.base_after # cc.base.items THEN "argument_changed"
                              ELSE IF o.out # GetAttrs(cc) THEN "getattrs_value" ELSE ""
      [] o.op = "relabel" -> IF ~RelabelInDomain(cc.keys, cc.form) THEN ""
                             ELSE IF IsExc(o.out) \/ PairsOf(o.out[2]) \notin RelabelMaps(cc.keys, cc.form, cc.kw) THEN "relabel_mapping" ELSE ""
      [] o.op = "relabel_dict" -> IF ~RelabelInDomain(Keys(cc.items), cc.form) THEN ""
                                  ELSE IF o.after # cc.items THEN "argument_changed"
                                  ELSE IF IsExc(o.out) THEN "relabel_raised"
                                  ELSE IF o.out[2].cls # cc.cls THEN "relabel_class"
                                  ELSE IF o.out[2].items \notin RelabelDicts(cc.items, cc.form, cc.kw) THEN "relabel_items" ELSE ""
      [] o.op = "dict_invert" -> IF o.after # cc.items THEN "argument_changed"
                                 ELSE IF o.out # Invert(cc.items) THEN "dict_invert_value"
                                 ELSE IF ~IsExc(o.out) /\ o.cls # "Dict" THEN "dict_invert_class" ELSE ""
      [] o.op = "as_list" -> AsListVerdict(o)
      [] o.op = "tree_repr" -> IF o.lines \notin Renderings(cc.tree, cc.offset) THEN "tree_repr_lines" ELSE ""
      [] OTHER -> "unknown_op"

\* ---- signatures -------------------------------------------------------------------------------------
SigVerdict(o) ==
    LET cc == o.c IN
    CASE o.op = "defaults" -> IF SIsExc(o.out) \/ PairsOf(o.out[2]) # Defaults(cc.sig) THEN "argspec_defaults_value" ELSE ""
      [] o.op = "defaults_partial" -> IF ~PreOK(cc.sig, cc.pre) THEN ""
                                      ELSE IF SIsExc(o.out) \/ PairsOf(o.out[2]) # DefaultsPartial(cc.sig, cc.pre) THEN "argspec_defaults_value" ELSE ""
      [] o.op = "required" -> IF o.out \notin RequiredOutcomes(cc.sig) THEN "argspec_required_value" ELSE ""
      [] o.op = "getargs"  -> IF ~GetArgsInDomain(cc.sig, cc.n) THEN "" ELSE IF o.out # <<"ok", GetArgs(cc.sig, cc.n)>> THEN "getargs_value" ELSE ""
      [] o.op = "add"      -> IF o.after # SpecOf(cc.sig) THEN "argument_changed"
                              ELSE IF o.out # <<"ok", AddSpec(SpecOf(cc.sig), cc.upd)>> THEN "argspec_add_value" ELSE ""
      [] o.op = "update"   -> IF o.after # SpecOf(cc.sig) THEN "argument_changed"
                              ELSE IF o.out # <<"ok", UpdateSpec(SpecOf(cc.sig), cc.f[1], cc.f[2])>> \/ o.cls # "FullArgSpec" THEN "argspec_update_value" ELSE ""
      [] o.op = "k2a"      -> IF ~Valid(cc.sig, cc.call) THEN ""
                              ELSE IF o.after # cc.call.kw THEN "argument_changed"
                              ELSE IF SIsExc(o.out) \/ o.out[2] \notin K2AOutcomes(cc.sig, cc.call) THEN "kwargs2args_value" ELSE ""
      [] o.op = "partialize" -> IF o.ispartial # "T" THEN "partialize_not_a_partial"
                                ELSE IF o.out \notin PartializeOutcomes(cc.sig, cc.pre, cc.args, cc.kwargs, cc.probe) THEN "partialize_call" ELSE ""
      [] OTHER -> "unknown_op"

Verdict(o) ==
    CASE o.area = "types" -> TypesVerdict(o)
      [] o.area = "items" -> ItemsVerdict(o)
      [] o.area = "sig"   -> SigVerdict(o)
      [] OTHER -> "unknown_area"

Init == BatchInit
Next == BatchNext(Verdict)
=============================================================================
