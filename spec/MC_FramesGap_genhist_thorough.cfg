CONSTANTS
 N = 7
 Ahead = 2
 G = {0}
 HistG = 3
 HistLen = 5
INIT InitHist
NEXT GenNext
