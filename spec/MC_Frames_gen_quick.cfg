CONSTANTS
 NS = 3
 NT = 2
 ND = 3
 SfTop = 40
 MaxNaN = 1
INIT Init
NEXT EvalGen
INVARIANT AllInDomain
INVARIANT CatIndex
INVARIANT CatThenColumn
INVARIANT CatInnerIsOuterCut
INVARIANT CatFillIsAsOf
INVARIANT CatFillKeeps
INVARIANT CatAssociates
INVARIANT StackRows
INVARIANT StackThenDropIsUpdate
INVARIANT AsSeriesRoundTrip
INVARIANT AsSeriesList
INVARIANT ColumnByName
INVARIANT ColumnByPosition
INVARIANT ColumnPassesThrough
INVARIANT ColumnsOrdered
INVARIANT RecolumnLaw
INVARIANT RecolumnIsSeriesLaw
INVARIANT NpReindexAtEnd
INVARIANT DropDupLaw
INVARIANT MaskLaw
INVARIANT ApplyIsAggregate
INVARIANT ApplyNaNOnlyWhereNoEntry
INVARIANT SfLaw
