CONSTANTS
 NS = 3
 NT = 2
 ND = 3
 SfTop = 40
 MaxNaN = 1
INIT Init
NEXT EvalGen
