CONSTANTS SessCfg <- SessMid
          OneCfg <- SessOne
          HeapKind = "near"
          Alias = TRUE
          Forms <- FormsFree
          MaxSteps = 9
          Gen = TRUE
          Memo = "none"
          AllPairs = FALSE
          Erase = TRUE
          EditStride = 1
          SliceStride = 1
INIT Init
NEXT Next
