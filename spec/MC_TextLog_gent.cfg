CONSTANTS MaxLen = 4
          NNames = 3
          Gen = TRUE
          Cached = TRUE
INIT Init
NEXT Next
