CONSTANTS Years = {2000}
          Stride = 5
          GenYears = {1999, 2000, 2001, 2004, 2096, 2100}
          GenStride = 3
INIT GenInit
NEXT GenNext
