CONSTANT SSizes <- SS_mc
INIT Init
NEXT Next
INVARIANT FollowsEdit
INVARIANT EditIsLocal
INVARIANT OptionsAreNotInputs
INVARIANT CopyIsLaw
