CONSTANTS DayYears <- QuickYears
          OvfYears <- QuickOvfYears
          OvfD = 400
          GenYears = {2000}
          GenOvfYears = {1901, 1996, 1999, 2001, 2004, 2096, 2100, 2104, 2200, 2262}
INIT GenOvfInit
NEXT GenOvfNext
