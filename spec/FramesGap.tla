------------------------------ MODULE FramesGap ------------------------------
(* Extension X06-b: gaps in a timeseries (ts_gap, ts_deal_with_issue, ts_degap of _pandas.py).    *)
(*                                                                                             *)
(* A timeseries is an object of Frames.tla (a series or a frame) on strictly increasing stamps;  *)
(* `today` is a stamp not earlier than its last row.  The gap AT a stamp is the number of days    *)
(* to the next stamp; the gap at the last stamp is measured against today (only with `recent`).   *)
(* An issue is a stamp whose score (for ts_degap: its gap) reaches the level; dealing with the    *)
(* issues cuts the series strictly after one of them - the cut is df_slice's (Slice.tla, C13).    *)
EXTENDS Frames

\* ---------------------------------------------------------------------------------------------
\* ts_gap
\* ---------------------------------------------------------------------------------------------
GapSeq(T, today, recent) ==
    [i \in 1..(IF recent THEN Len(T) ELSE Len(T) - 1) |-> IF i < Len(T) THEN T[i + 1] - T[i] ELSE today - T[i]]
\* a series of whole numbers on the stamps that have a gap; an empty series has none
GapLaw(T, today, recent) ==
    LET g == GapSeq(T, today, recent) IN Ser(SubSeq(T, 1, Len(g)), [i \in 1..Len(g) |-> VFlt(g[i], 1)])
GapDomain(T, today) == Increasing(T) /\ (T # <<>> => T[Len(T)] <= today) /\ \A i \in 1..Len(T) : T[i] >= 1

\* ---------------------------------------------------------------------------------------------
\* cutting strictly after a stamp = df_slice(ts, lb) with the default brackets "(]"
\* ---------------------------------------------------------------------------------------------
CutAfter(o, u) ==
    LET f == Sl!Slice([rows |-> o.t, cols |-> <<[i \in 1..Len(o.t) |-> i]>>], u, 0, <<"(", "]">>, "date", 0)
    IN  KeepPos(o, Range(f.cols[1]))

\* ---------------------------------------------------------------------------------------------
\* ts_deal_with_issue(ts, issue_calc, level, deal): scores = what issue_calc(ts) answers, a series of
\* whole numbers on some stamps; the issues are its rows with score >= level, in its order.
\*   deal: <<"last", 0>>      keep what follows the last issue
\*         <<"no_first", 0>>  keep what follows the first issue
\*         <<"int", k>>       keep what follows issue number k (0-based; negative: from the end) - the whole
\*                            series if there is no such issue
\*         <<"raise", 0>>     ValueError;   anything else <<"other", 0>>: ValueError
\* level 0 (None, False): nothing is looked at, the series comes back as it is.
\* ---------------------------------------------------------------------------------------------
IssueStamps(scores, level) ==
    LET ix == SelectSeq([i \in 1..Len(scores.t) |-> i], LAMBDA i : LeR(VFlt(level, 1), scores.v[i]))
    IN  [q \in 1..Len(ix) |-> scores.t[ix[q]]]
Deal(o, iss, deal) ==
    IF iss = <<>> THEN Val(o)
    ELSE CASE deal[1] = "last"     -> Val(CutAfter(o, iss[Len(iss)]))
           [] deal[1] = "no_first" -> Val(CutAfter(o, iss[1]))
           [] deal[1] = "int"      -> LET k == deal[2]  need == IF k >= 0 THEN k + 1 ELSE -k IN
                                      IF Len(iss) < need THEN Val(o)
                                      ELSE Val(CutAfter(o, IF k >= 0 THEN iss[k + 1] ELSE iss[Len(iss) + k + 1]))
           [] OTHER                -> Exc("ValueError")
DealLaw(o, scores, level, deal) == IF level = 0 THEN Val(o) ELSE Deal(o, IssueStamps(scores, level), deal)

\* ---------------------------------------------------------------------------------------------
\* ts_degap(ts, max_gap, deal, recent): the scores are the gaps.  The docstring calls "anything over
\* max_gap" an issue, the general function (and its error message) "at issue level >= level": a gap of
\* exactly max_gap days is an issue under one reading ("ge") and none under the other ("gt").  The
\* statement admits both (named deviation GapAtLevel).
\* ---------------------------------------------------------------------------------------------
GapReadings == {"ge", "gt"}
DegapRd(o, today, g, deal, recent, rd) ==
    IF g = 0 \/ o.t = <<>> THEN Val(o)
    ELSE Deal(o, IssueStamps(GapLaw(o.t, today, recent), IF rd = "ge" THEN g ELSE g + 1), deal)
DegapOutcomes(o, today, g, deal, recent) == {DegapRd(o, today, g, deal, recent, rd) : rd \in GapReadings}

\* ---------------------------------------------------------------------------------------------
\* on sets of stamps (the history machine of MC_FramesGap): what ts_degap(.., deal = 'last', recent =
\* False) keeps of a series on the stamps S
\* ---------------------------------------------------------------------------------------------
StampSer(S) == LET ts == Asc(S) IN Ser(ts, [i \in 1..Len(ts) |-> VFlt(ts[i], 1)])
DegapSet(S, g, rd) == Range(DegapRd(StampSer(S), 0, g, <<"last", 0>>, FALSE, rd).v.t)
\* consecutive stamps of S that are an issue apart
IsIssueGap(d, g, rd) == IF rd = "ge" THEN d >= g ELSE d > g
HasIssue(S, g, rd) == \E u, v \in S : u < v /\ (~\E w \in S : u < w /\ w < v) /\ IsIssueGap(v - u, g, rd)

\* ---------------------------------------------------------------------------------------------
\* one public call as a record (as Frames!Expect)
\* ---------------------------------------------------------------------------------------------
GapExpect(c) ==
    CASE c.op = "gap"   -> [kind |-> "oneof", vs |-> <<Val(IF c.x.t = <<>> THEN c.x ELSE GapLaw(c.x.t, c.today, c.recent))>>]
      [] c.op = "deal"  -> [kind |-> "oneof", vs |-> <<DealLaw(c.x, c.scores, c.level, c.deal)>>]
      [] c.op = "degap" -> [kind |-> "oneof", vs |-> SetToSeq(DegapOutcomes(c.x, c.today, c.g, c.deal, c.recent))]
GapOps == {"gap", "deal", "degap"}
WholeScores(s) == IsSer(s) /\ Len(s.v) = Len(s.t) /\ \A i \in 1..Len(s.v) : IsV(s.v[i]) /\ Dn(s.v[i]) = 1
GapCallDomain(c) ==
    CASE c.op = "gap"   -> WellFormedO(c.x) /\ IsPd(c.x) /\ GapDomain(c.x.t, c.today)
      [] c.op = "deal"  -> WellFormedO(c.x) /\ IsPd(c.x) /\ Increasing(c.x.t) /\ WholeScores(c.scores) /\ c.level >= 0
      [] c.op = "degap" -> WellFormedO(c.x) /\ IsPd(c.x) /\ GapDomain(c.x.t, c.today) /\ c.g >= 0
      [] OTHER -> FALSE
=============================================================================
