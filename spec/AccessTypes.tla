---------------------------- MODULE AccessTypes ----------------------------
(* Extension X07-a: the type predicates of pyg_base._types as a LATTICE, null2none and as_primitive. *)
(*                                                                                                   *)
(* An OBJECT of the universe is what Python knows about a value before pyg_base is asked:            *)
(*     [cls |-> name of its class, val |-> tagged payload (Values.tla), items |-> the objects it      *)
(*      holds (a container's elements, a dict's VALUES, an Enum member's value), idx |-> the kind of   *)
(*      its keys / index ("" when it has none)]                                                        *)
(* Classes: NoneType bool np.bool_ int np.int8..64 np.uint8..64 float np.float16/32/64 np.longdouble  *)
(* str np.str_ date datetime np.datetime64 Timestamp NaTType (a NaT has val <<"nat", 0>>)             *)
(* complex Decimal bytes object function np.timedelta64 Enum IntEnum                                   *)
(* list tuple set frozenset dict dictattr Dict dict_keys dict_values range iterator                    *)
(* ndarray0 (0-d array) ndarray (>= 1-d) Series DataFrame.                                            *)
(*                                                                                                   *)
(* LAW LEVEL (from the docstrings and tests/test_types.py):                                           *)
(*   Pin(p, v)    the truth value predicate p has on object v                                         *)
(*   Free(p, v)   the statement does not pin it (named deviations below): either truth value          *)
(*   Admit(p, v)  the set of admitted answers, a subset of {"T", "F"} - an exception is never one     *)
(*   Lattice      relations between the answers of ONE object (which predicate implies / excludes     *)
(*                which), also demanded of the free answers                                           *)
(*   N2N(v)       null2none: "none" for a null scalar, "same" (the very object) otherwise             *)
(*   Prim(v) / PrimOK(v, o)   as_primitive                                                            *)
EXTENDS Values, SequencesExt, FiniteSetsExt, TLC

Obj(c, v, it, ix) == [cls |-> c, val |-> v, items |-> it, idx |-> ix]
Sc(c, v)          == Obj(c, v, <<>>, "")
NoVal             == <<"n", 0>>
NaTVal            == <<"nat", 0>>

\* ---------------------------------------------------------------------------------------------
\* classes
\* ---------------------------------------------------------------------------------------------
NpSigned   == {"np.int8", "np.int16", "np.int32", "np.int64"}
NpUnsigned == {"np.uint8", "np.uint16", "np.uint32", "np.uint64"}
NpFloat    == {"np.float16", "np.float32", "np.float64", "np.longdouble"}      \* "any variant of np.float"
BoolCls    == {"bool", "np.bool_"}
\* Python: a bool IS an int (isinstance(True, int)); numpy: np.bool_ is not an integer
IntCls     == {"int", "bool", "IntEnum"} \cup NpSigned \cup NpUnsigned
FloatCls   == {"float"} \cup NpFloat
StrCls     == {"str", "np.str_"}
DateCls    == {"date", "datetime", "np.datetime64", "Timestamp", "NaTType"}
DictCls    == {"dict", "dictattr", "Dict"}
SetCls     == {"set", "frozenset"}
PdCls      == {"Series", "DataFrame"}
ViewCls    == {"dict_keys", "dict_values"}
\* iterables that are neither list, tuple, array, dict nor pandas
OtherIter  == SetCls \cup ViewCls \cup {"range", "iterator", "bytes"}
IterCls    == {"list", "tuple", "ndarray"} \cup DictCls \cup PdCls \cup OtherIter
SizedCls   == (IterCls \ {"iterator"}) \cup StrCls
OtherScalar == {"complex", "Decimal", "object", "function", "Enum"}
ScalarCls  == {"NoneType"} \cup IntCls \cup BoolCls \cup FloatCls \cup StrCls \cup DateCls \cup OtherScalar \cup {"np.timedelta64", "bytes"}

LenOf(v) == IF v.cls \in StrCls \cup {"bytes"} THEN Len(v.val[2])
            ELSE IF v.cls = "DataFrame" THEN v.val[2]
            ELSE Len(v.items)

\* ---------------------------------------------------------------------------------------------
\* the predicates
\* ---------------------------------------------------------------------------------------------
Singulars == <<"is_none", "is_bool", "is_int", "is_float", "is_num", "is_str", "is_date", "is_nan", "is_dict",
               "is_list", "is_tuple", "is_iterable", "is_listable", "is_arr", "is_series", "is_df", "is_pd", "is_ts",
               "is_len", "is_zero_len">>
Plurals   == <<"is_nones", "is_bools", "is_ints", "is_floats", "is_nums", "is_strs", "is_dates", "is_nans", "is_dicts",
               "is_lists", "is_tuples", "is_iterables", "is_arrs", "is_pds", "is_tss">>
PredSeq   == Singulars \o Plurals
Preds     == Range(PredSeq)
BaseOf    == [is_nones |-> "is_none", is_bools |-> "is_bool", is_ints |-> "is_int", is_floats |-> "is_float",
              is_nums |-> "is_num", is_strs |-> "is_str", is_dates |-> "is_date", is_nans |-> "is_nan",
              is_dicts |-> "is_dict", is_lists |-> "is_list", is_tuples |-> "is_tuple", is_iterables |-> "is_iterable",
              is_arrs |-> "is_arr", is_pds |-> "is_pd", is_tss |-> "is_ts"]

IsTs(v) == v.cls \in PdCls /\ (LenOf(v) = 0 \/ v.idx \in {"date", "date_desc"})

Single(p, v) ==
    CASE p = "is_none"     -> v.cls = "NoneType"
      [] p = "is_bool"     -> v.cls \in BoolCls
      [] p = "is_int"      -> v.cls \in IntCls
      [] p = "is_float"    -> v.cls \in FloatCls
      [] p = "is_num"      -> v.cls \in IntCls \cup FloatCls                \* "is_int(value) or is_float(value)"
      [] p = "is_str"      -> v.cls \in StrCls
      [] p = "is_date"     -> v.cls \in DateCls                             \* a date TYPE: a NaT is one
      [] p = "is_nan"      -> v.cls \in FloatCls /\ Tag(v.val) \in {"nan", "inf"}      \* "a nan or an inf"
      [] p = "is_dict"     -> v.cls \in DictCls
      [] p = "is_list"     -> v.cls = "list"
      [] p = "is_tuple"    -> v.cls = "tuple"
      [] p = "is_iterable" -> v.cls \in IterCls                             \* "Iterable excluding a string"
      [] p = "is_listable" -> v.cls \in {"list", "tuple", "ndarray"}        \* "a tuple, list or np.ndarray"
      [] p = "is_arr"      -> v.cls = "ndarray"                             \* an array with at least one dimension
      [] p = "is_series"   -> v.cls = "Series"
      [] p = "is_df"       -> v.cls = "DataFrame"
      [] p = "is_pd"       -> v.cls \in PdCls
      [] p = "is_ts"       -> IsTs(v)                                        \* pandas object indexed by dates (or empty)
      [] p = "is_len"      -> v.cls \in SizedCls /\ LenOf(v) > 0
      [] p = "is_zero_len" -> ~(v.cls \in SizedCls /\ LenOf(v) > 0)          \* "zero length (or has no len at all)"

\* NAMED DEVIATIONS of the singular predicates
\* (np.timedelta64: numpy files it under its signed integers, but it is no "int, or any variant of np.intN": pinned F)
\*   ZeroDim         a 0-d array has __iter__ but cannot be iterated
\*   ListableOther   the docstring names list / tuple / array, the code admits every iterable but dict and pandas
\*   EmptyArr        "array of non-zero-size" - an empty array with a dimension
FreeS(p, v) ==
    \/ p \in {"is_iterable", "is_listable"} /\ v.cls = "ndarray0"
    \/ p = "is_listable" /\ v.cls \in OtherIter
    \/ p = "is_arr" /\ v.cls = "ndarray" /\ Len(v.items) = 0

\* "one or many": the thing itself, or a non-empty list / tuple of such things.  is_lists is "many" only (tests:
\* not is_lists([1,2,3])); is_strs also reads the keys / values views of a dict (tests).
ManyCls(P) == IF P = "is_strs" THEN {"list", "tuple"} \cup ViewCls ELSE {"list", "tuple"}
Many(P, v) == v.cls \in ManyCls(P) /\ Len(v.items) > 0 /\ \A i \in 1..Len(v.items) : Single(BaseOf[P], v.items[i])
Plural(P, v) == IF P = "is_lists" THEN Many(P, v) ELSE Single(BaseOf[P], v) \/ Many(P, v)

\* NAMED DEVIATION ManyOfWhat: what "many" means for a container that is not a list or a tuple (a set of ints, the
\* keys of a dict, an array, a series, a range ...) is not stated - either answer, but an ANSWER.
FreeP(P, v) ==
    LET s == BaseOf[P] IN
    \/ FreeS(s, v)
    \/ ~Plural(P, v) /\ v.cls \in (IterCls \cup {"ndarray0"}) \ ManyCls(P)
    \/ v.cls \in ManyCls(P) /\ \E i \in 1..Len(v.items) : FreeS(s, v.items[i])

Pin(p, v)  == IF p \in Range(Singulars) THEN Single(p, v) ELSE Plural(p, v)
Free(p, v) == IF p \in Range(Singulars) THEN FreeS(p, v) ELSE FreeP(p, v)
TF(b)      == IF b THEN "T" ELSE "F"
Admit(p, v) == IF Free(p, v) THEN {"T", "F"} ELSE {TF(Pin(p, v))}
PinRow(v)  == [p \in Preds |-> TF(Pin(p, v))]

\* ---------------------------------------------------------------------------------------------
\* the lattice: relations between the answers r (a function predicate -> "T" / "F") given for ONE object
\* ---------------------------------------------------------------------------------------------
T(r, p) == r[p] = "T"
ScalarKinds   == {"is_none", "is_bool", "is_num", "is_str", "is_date"}
NotForNone    == Preds \ {"is_none", "is_nones", "is_zero_len"}
LatticeNames  == <<"num_is_int_or_float", "int_float_disjoint", "nan_is_float", "none_is_nothing_else", "str_is_a_scalar",
                   "scalars_are_not_iterable", "date_is_not_a_number", "len_xor_zero_len", "list_tuple_disjoint",
                   "list_tuple_arr_are_listable", "listable_is_iterable", "dict_pd_iterable_not_listable", "ts_is_pd",
                   "pd_is_series_or_df", "arr_dict_pd_disjoint", "one_is_many", "many_is_a_nonempty_iterable">>
Law(n, r) ==
    CASE n = "num_is_int_or_float"      -> T(r, "is_num") <=> (T(r, "is_int") \/ T(r, "is_float"))
      [] n = "int_float_disjoint"       -> ~(T(r, "is_int") /\ T(r, "is_float"))
      [] n = "nan_is_float"             -> T(r, "is_nan") => T(r, "is_float")
      [] n = "none_is_nothing_else"     -> T(r, "is_none") => \A p \in NotForNone : ~T(r, p)
      [] n = "str_is_a_scalar"          -> T(r, "is_str") => \A p \in {"is_iterable", "is_listable", "is_num", "is_date", "is_bool", "is_dict", "is_pd", "is_arr"} : ~T(r, p)
      [] n = "scalars_are_not_iterable" -> (\E p \in ScalarKinds : T(r, p)) => ~T(r, "is_iterable") /\ ~T(r, "is_listable")
      [] n = "date_is_not_a_number"     -> T(r, "is_date") => ~T(r, "is_num") /\ ~T(r, "is_bool")
      [] n = "len_xor_zero_len"         -> T(r, "is_len") # T(r, "is_zero_len")
      [] n = "list_tuple_disjoint"      -> ~(T(r, "is_list") /\ T(r, "is_tuple"))
      [] n = "list_tuple_arr_are_listable" -> (T(r, "is_list") \/ T(r, "is_tuple") \/ T(r, "is_arr")) => T(r, "is_listable")
      [] n = "listable_is_iterable"     -> T(r, "is_listable") => T(r, "is_iterable")
      [] n = "dict_pd_iterable_not_listable" -> (T(r, "is_dict") \/ T(r, "is_pd")) => T(r, "is_iterable") /\ ~T(r, "is_listable")
      [] n = "ts_is_pd"                 -> T(r, "is_ts") => T(r, "is_pd")
      [] n = "pd_is_series_or_df"       -> /\ T(r, "is_pd") <=> (T(r, "is_series") \/ T(r, "is_df"))
                                           /\ ~(T(r, "is_series") /\ T(r, "is_df"))
      [] n = "arr_dict_pd_disjoint"     -> ~(T(r, "is_arr") /\ T(r, "is_pd")) /\ ~(T(r, "is_arr") /\ T(r, "is_dict")) /\ ~(T(r, "is_dict") /\ T(r, "is_pd"))
      [] n = "one_is_many"              -> \A P \in Range(Plurals) \ {"is_lists"} : T(r, BaseOf[P]) => T(r, P)
      [] n = "many_is_a_nonempty_iterable" -> \A P \in Range(Plurals) : (T(r, P) /\ ~T(r, BaseOf[P])) => (T(r, "is_iterable") /\ T(r, "is_len"))
Lattice(r) == \A i \in 1..Len(LatticeNames) : Law(LatticeNames[i], r)
FirstBrokenLaw(r) == LET bad == {i \in 1..Len(LatticeNames) : ~Law(LatticeNames[i], r)} IN
                     IF bad = {} THEN "" ELSE LatticeNames[CHOOSE i \in bad : \A j \in bad : i <= j]

\* ---------------------------------------------------------------------------------------------
\* null2none / nan2none: None for a null SCALAR (a NaN or an infinity of any float width, a NaT of either kind,
\* None itself), the very same object for everything else - containers holding nulls included
\* ---------------------------------------------------------------------------------------------
NullScalar(v) == \/ v.cls = "NoneType"
                 \/ v.cls \in FloatCls /\ Tag(v.val) \in {"nan", "inf"}
                 \/ v.cls \in {"NaTType", "np.datetime64"} /\ Tag(v.val) = "nat"
N2N(v) == IF NullScalar(v) THEN "none" ELSE "same"

\* ---------------------------------------------------------------------------------------------
\* as_primitive: numpy scalars / Enum members / dates -> python primitives, at any depth of lists and tuples;
\* everything else is left alone (the same object comes back)
\* ---------------------------------------------------------------------------------------------
Midnight(v) == IF v.cls = "date" THEN <<"d", <<v.val[2], 0, 0>>>> ELSE v.val
\* NAMED DEVIATIONS: StrKept (np.str_ IS a str: either class), TimestampKept (a Timestamp IS a datetime), NaTAny (what a
\* missing date becomes belongs to the date parser)
PrimFree(v) == Tag(v.val) = "nat"
RECURSIVE Prim(_)
Prim(v) ==
    IF v.cls \in BoolCls THEN Sc("bool", v.val)
    ELSE IF v.cls \in IntCls THEN Sc("int", v.val)
    ELSE IF v.cls \in FloatCls THEN Sc("float", v.val)
    ELSE IF v.cls \in DateCls THEN Sc("datetime", Midnight(v))
    ELSE IF v.cls \in StrCls THEN Sc("str", v.val)
    ELSE IF v.cls = "Enum" THEN Prim(v.items[1])
    ELSE IF v.cls \in {"list", "tuple"} THEN Obj(v.cls, v.val, [i \in 1..Len(v.items) |-> Prim(v.items[i])], v.idx)
    ELSE v
RECURSIVE PrimOK(_, _)
PrimOK(v, o) ==
    IF PrimFree(v) THEN TRUE
    ELSE IF v.cls = "Enum" THEN PrimOK(v.items[1], o)
    ELSE IF v.cls \in {"list", "tuple"}
         THEN o.cls = v.cls /\ Len(o.items) = Len(v.items) /\ \A i \in 1..Len(v.items) : PrimOK(v.items[i], o.items[i])
    ELSE IF v.cls \in StrCls THEN o.val = v.val /\ o.items = <<>> /\ o.cls \in {"str", v.cls}
    ELSE IF v.cls = "Timestamp" THEN o.val = v.val /\ o.items = <<>> /\ o.cls \in {"datetime", "Timestamp"}
    ELSE o = Prim(v)
\* does the object pass through untouched (identity)?  lists and tuples are rebuilt, scalars of the kinds above mapped
PrimSame(v) == ~PrimFree(v) /\ Prim(v) = v /\ v.cls \notin {"list", "tuple"} /\ v.cls \notin (BoolCls \cup IntCls \cup FloatCls \cup DateCls \cup StrCls)
RECURSIVE HasFree(_)
HasFree(v) == PrimFree(v) \/ (v.cls \in {"list", "tuple", "Enum"} /\ \E i \in 1..Len(v.items) : HasFree(v.items[i]))
=============================================================================
