CONSTANTS Deep = TRUE
          Walk = "once"
          Size = "tiny"
INIT Init
NEXT Next
INVARIANT ResultIsMerge
INVARIANT OperandsIntact
INVARIANT UnfoldedLaws
