CONSTANTS Scope = "quick"
          Mech = "law"
          Loose = TRUE
          PlanSet = {"SEF", "FEF", "FFI", "FRF", "FIF", "EFI"}
INIT Init
NEXT Next
INVARIANT StepLaw
INVARIANT IdsUnique
CONSTRAINT GenDone
