CONSTANTS Kinds = {"pt", "vec"}
          Wide = TRUE
INIT Init
NEXT EvalGen
