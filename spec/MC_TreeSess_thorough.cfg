CONSTANTS Variant = "code"
          Size = "wide"
          Depth = 3
          Hist = FALSE
INIT Init
NEXT Next
INVARIANT CallsAreLaw
INVARIANT PoolsUntouched
INVARIANT ResultsIndependent
INVARIANT HeapStaysOk
