CONSTANTS Variant = "poppath"
          Size = "std"
          Depth = 3
          Hist = FALSE
INIT Init
NEXT Next
INVARIANT PoolsUntouched
