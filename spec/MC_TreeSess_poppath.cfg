CONSTANTS Variant = "poppath"
          Size = "std"
          Depth = 2
          Hist = FALSE
INIT Init
NEXT Next
INVARIANT PoolsUntouched
