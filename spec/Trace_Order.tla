----------------------------- MODULE Trace_Order -----------------------------
(* Trace validation for property C07.  Observation kinds:                                      *)
(*  cmprow   row i of the full matrix cmp(vals[i], vals[j]) recorded from the real code over a  *)
(*           concrete universe (file MAT_FILE: [vals, M]); the axioms are checked for row i     *)
(*           against all j (pairs) and all j, k (triples)                                       *)
(*  sort     sort(xs) / sorted(xs, key = Cmp): result, the real cmp of adjacent results (adj)   *)
(*           and of every pair i < j of the result (far: <<i, j, cmp>>; short lists only)        *)
(*  dsort    d.sort(by...) or d.sort(f): rows carry a unique id; per adjacent pair of result rows *)
(*           the real cmp of each key column (keycols names them); whether sorting the result    *)
(*           again changes it                                                                    *)
(*  dsortval d.sort(col = [values in order], ...): fully pinned, recomputed here                  *)
(* Numbers beyond TLC's integers arrive as exact binary expansions (OrderBig, tag "x").          *)
EXTENDS OrderBig, Batch

Mat  == JsonDeserialize(IOEnv.MAT_FILE)
Pick(S) == CHOOSE e \in S : TRUE
Show2(name, w) == name \o ":" \o ToString(w[1]) \o "," \o ToString(w[2])

RowVerdict(i) ==
    LET vals == Mat.vals  M == Mat.M
        raised == RaisedRow(vals, M, i)
        anti   == NotAntisymRow(vals, M, i)
        pinned == NotPinnedRow(vals, M, i)
        pinbig == NotPinnedBigRow(vals, M, i)
        trans  == NotTransRow(vals, M, i)
    IN  IF ~XAllWellFormed(vals[i]) THEN Show2("x_malformed", <<i, i>>)
        ELSE IF raised # {} THEN Show2("cmp_raises", Pick(raised))
        ELSE IF anti # {} THEN Show2("cmp_not_antisymmetric", Pick(anti))
        ELSE IF pinned # {} THEN Show2("cmp_pinned_value", Pick(pinned))
        ELSE IF pinbig # {} THEN Show2("cmp_pinned_big", Pick(pinbig))
        ELSE IF trans # {} THEN Show2("cmp_not_transitive", Pick(trans))
        ELSE ""

\* lexicographic sign of a sequence of per-column comparisons
RECURSIVE Lex(_, _)
Lex(cs, k) == IF k > Len(cs) THEN 0 ELSE IF cs[k] # 0 THEN cs[k] ELSE Lex(cs, k + 1)
RowsPerm(rows, out) == Len(rows) = Len(out) /\ {rows[i] : i \in 1..Len(rows)} = {out[i] : i \in 1..Len(out)}

\* dictionary lookup of the explicit value orders: listed values by position, unlisted last
Rank(v, vs) == IF \E i \in 1..Len(vs) : SameForSetX(v, vs[i])
               THEN CHOOSE i \in 1..Len(vs) : SameForSetX(v, vs[i]) /\ \A j \in 1..(i - 1) : ~SameForSetX(v, vs[j])
               ELSE Len(vs) + 1
RankCmp(orders, r, s) == Lex([k \in 1..Len(orders) |-> Sign(Rank(r[orders[k][1]], orders[k][2]) - Rank(s[orders[k][1]], orders[k][2]))], 1)

\* dictable.sort on key columns: the rows are ordered by cmp, column after column, ties keeping the original
\* order - or by cmp refined with the exact numeric order where cmp ties two different numbers (OrderBig)
DsortCmp(o)     == o.colcmp
DsortRefined(o) == [p \in 1..Len(o.colcmp) |-> [k \in 1..Len(o.colcmp[p]) |->
                      RefinedCmp(o.colcmp[p][k], o.out[p][o.keycols[k]], o.out[p + 1][o.keycols[k]])]]
OrderedBy(cc)   == \A p \in 1..Len(cc) : Lex(cc[p], 1) \in {-1, 0}
StableBy(o, cc) == \A p \in 1..Len(cc) : Lex(cc[p], 1) = 0 => Pay(o.out[p].id) < Pay(o.out[p + 1].id)

Verdict(o) ==
    CASE o.kind = "cmprow" -> RowVerdict(o.i)
      [] o.kind = "sort" ->
           IF o.raised # "" THEN "sort_raises"
           ELSE IF ~IsPerm(o.xs, o.out) THEN "sort_not_a_permutation"
           ELSE IF \E k \in 1..Len(o.adj) : o.adj[k] \notin {-1, 0} THEN "sort_not_nondecreasing"
           ELSE IF \E k \in 1..Len(o.far) : o.far[k][3] \notin {-1, 0} THEN "sort_not_nondecreasing_far"
           ELSE ""
      [] o.kind = "dsort" ->
           IF o.raised # "" THEN "dsort_raises"
           ELSE IF o.after # o.rows THEN "dsort_operand_changed"
           ELSE IF ~RowsPerm(o.rows, o.out) THEN "dsort_not_a_permutation"
           ELSE IF ~OrderedBy(DsortCmp(o)) /\ ~OrderedBy(DsortRefined(o)) THEN "dsort_not_ordered"
           ELSE IF ~(OrderedBy(DsortCmp(o)) /\ StableBy(o, DsortCmp(o))) /\ ~(OrderedBy(DsortRefined(o)) /\ StableBy(o, DsortRefined(o))) THEN "dsort_not_stable"
           ELSE IF ~o.again THEN "dsort_not_idempotent"
           ELSE ""
      [] o.kind = "dsortval" ->
           LET RC(r, s) == RankCmp(o.orders, r, s) IN
           IF o.raised # "" THEN "dsortval_raises"
           ELSE IF o.after # o.rows THEN "dsortval_operand_changed"
           ELSE IF o.out # StableSort(RC, o.rows) THEN "dsortval_order"
           ELSE ""
      [] OTHER -> "unknown_kind"

Init == BatchInit
Next == BatchNext(Verdict)
=============================================================================
