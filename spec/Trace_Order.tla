----------------------------- MODULE Trace_Order -----------------------------
(* Trace validation for property C07.  Observation kinds:                                      *)
(*  cmprow   row i of the full matrix cmp(vals[i], vals[j]) recorded from the real code over a  *)
(*           concrete universe (file MAT_FILE: [vals, M]); the axioms are checked for row i     *)
(*           against all j (pairs) and all j, k (triples)                                       *)
(*  sort     sort(xs) / sorted(xs, key = Cmp): result, the real cmp of adjacent results (adj)   *)
(*           and of every pair i < j of the result (far: <<i, j, cmp>>; short lists only)        *)
(*  dsort    d.sort(by...) or d.sort(f): rows carry a unique id; per adjacent pair of result rows *)
(*           the real cmp of each key column (keycols names them); whether sorting the result    *)
(*           again changes it                                                                    *)
(*  dsortval d.sort(col = [values in order], ...): fully pinned, recomputed here                  *)
(*  session  a whole sort session (OrderSess): the seed heap and the history TLC generated, and per *)
(*           step what the real code did (outcome of the call as for sort / dsort / dsortval, and   *)
(*           every live table and list afterwards).  The heap is tracked HERE, step by step: a    *)
(*           call is judged by the single-call clauses against the operands as the tracked heap  *)
(*           holds them at that moment, must leave every existing object as it was, and its      *)
(*           result becomes a new object of the heap; a caller's edit must change the edited     *)
(*           object only.                                                                         *)
(*           Steps "raise" (a call that legitimately raises: the heap must be as before, the outcome *)
(*           itself is outside the statement) and "cmps" (cmp over a sample idx of the universe of   *)
(*           MAT_FILE, recorded at that point of the history: the axioms hold on the sample and    *)
(*           every entry equals the entry of the matrix recorded in the fresh process).            *)
(*  dscale / sscale   sizes TLC cannot enumerate: a small base pattern (rows / values, with the cmp  *)
(*           observed between the base rows) scaled up k times; judged by the scaling law below.    *)
(*  cmprow2  as cmprow, over a second universe (file MAT2_FILE): dicts whose keys are not strings  *)
(* Numbers beyond TLC's integers arrive as exact binary expansions (OrderBig, tag "x").          *)
EXTENDS OrderSess, Batch

Mat  == JsonDeserialize(IOEnv.MAT_FILE)
Mat2 == JsonDeserialize(IOEnv.MAT2_FILE)
Pick(S) == CHOOSE e \in S : TRUE
Show2(name, w) == name \o ":" \o ToString(w[1]) \o "," \o ToString(w[2])

\* a dict with keys of any kind crosses as <<"mk", <<<<key, value>>, ...>>>>.  Python's own order is undefined between keys
\* of different kinds (numbers and bools are one kind): such a dict is still "a dict of these" and cmp must not raise on it
KeyKind(k) == IF Tag(k) \in {"i", "f", "b", "x", "inf"} THEN "num" ELSE Tag(k)
MixedKeys(v) == Tag(v) = "mk" /\ \E p, q \in 1..Len(Pay(v)) : KeyKind(Pay(v)[p][1]) # KeyKind(Pay(v)[q][1])
RowVerdictOf(mat, i) ==
    LET vals == mat.vals  M == mat.M
        raised == RaisedRow(vals, M, i)
        anti   == NotAntisymRow(vals, M, i)
        pinned == NotPinnedRow(vals, M, i)
        pinbig == NotPinnedBigRow(vals, M, i)
        trans  == NotTransRow(vals, M, i)
    IN  IF ~XAllWellFormed(vals[i]) THEN Show2("x_malformed", <<i, i>>)
        ELSE IF raised # {} THEN LET w == Pick(raised) IN
                                 Show2(IF MixedKeys(vals[w[1]]) \/ MixedKeys(vals[w[2]]) THEN "cmp_raises_mixed_keys" ELSE "cmp_raises", w)
        ELSE IF anti # {} THEN Show2("cmp_not_antisymmetric", Pick(anti))
        ELSE IF pinned # {} THEN Show2("cmp_pinned_value", Pick(pinned))
        ELSE IF pinbig # {} THEN Show2("cmp_pinned_big", Pick(pinbig))
        ELSE IF trans # {} THEN Show2("cmp_not_transitive", Pick(trans))
        ELSE ""
RowVerdict(i) == RowVerdictOf(Mat, i)
\* the same clauses, by name only (for a sample matrix inside a session)
RowClauseOf(mat, i) ==
    LET vals == mat.vals  M == mat.M IN
        IF RaisedRow(vals, M, i) # {} THEN "cmp_raises"
        ELSE IF NotAntisymRow(vals, M, i) # {} THEN "cmp_not_antisymmetric"
        ELSE IF NotPinnedRow(vals, M, i) # {} THEN "cmp_pinned_value"
        ELSE IF NotPinnedBigRow(vals, M, i) # {} THEN "cmp_pinned_big"
        ELSE IF NotTransRow(vals, M, i) # {} THEN "cmp_not_transitive"
        ELSE ""
\* one observed entry c = cmp(u, v), wherever it was observed (between neighbours of a sorted list, between key cells of
\* neighbouring rows): what the statement pins about single entries holds there too
PinOK(e, u, v) == e \in {-1, 0, 1} => /\ (Pinned(u, v) => e = PinnedValue(u, v))
                                      /\ (PinnedBig(u, v) => e \in AllowedBig(u, v))

\* lexicographic sign of a sequence of per-column comparisons
RECURSIVE Lex(_, _)
Lex(cs, k) == IF k > Len(cs) THEN 0 ELSE IF cs[k] # 0 THEN cs[k] ELSE Lex(cs, k + 1)
RowsPerm(rows, out) == Len(rows) = Len(out) /\ {rows[i] : i \in 1..Len(rows)} = {out[i] : i \in 1..Len(out)}

\* (explicit value orders: Rank, RankCmp, IsByValueOrder are in OrderSess)

\* dictable.sort on key columns: the rows are ordered by cmp, column after column, ties keeping the original
\* order - or by cmp refined with the exact numeric order where cmp ties two different numbers (OrderBig)
DsortCmp(o)     == o.colcmp
DsortRefined(o) == [p \in 1..Len(o.colcmp) |-> [k \in 1..Len(o.colcmp[p]) |->
                      RefinedCmp(o.colcmp[p][k], o.out[p][o.keycols[k]], o.out[p + 1][o.keycols[k]])]]
OrderedBy(cc)   == \A p \in 1..Len(cc) : Lex(cc[p], 1) \in {-1, 0}
\* ties keep the order they have in the operand (rows carry unique ids; a single-call table has them in ascending order,
\* the operand of a call in a session may be a result or an edited table)
PosOfId(rows, r) == CHOOSE i \in 1..Len(rows) : rows[i].id = r.id
StableBy(o, cc) == \A p \in 1..Len(cc) : Lex(cc[p], 1) = 0 => PosOfId(o.rows, o.out[p]) < PosOfId(o.rows, o.out[p + 1])

\* ---- scaling: sizes beyond what TLC can enumerate ---------------------------------------------------------
\* A small base pattern (n rows / values) is scaled up: the big table holds k copies of every base row, layout "block" = the whole
\* base k times over (rows with equal keys INTERLEAVED with the others), "each" = every base row k times in a run; row p of the
\* big table IS base row ScSrc(p) with id p.  SCALING LAW: a big table is sorted as its base pattern is - rows p, q compare as base
\* rows ScSrc(p), ScSrc(q) do (o.basecmp[i][j] = the cmp observed per key column between base rows i and j), so the result lists,
\* for the tie classes of the base in ascending order, every copy of the rows of the class by ascending position: it is a
\* permutation of the big rows in which each neighbour pair is increasing, or tied with the earlier position first.  The same for
\* sort(xs) on k copies of a base list (no stability there: equal values are not told apart).
ScSrc(layout, n, k, p) == IF layout = "block" THEN ((p - 1) % n) + 1 ELSE ((p - 1) \div k) + 1
ScN(o)        == Len(o.base) * o.k
ScRow(o, p)   == [o.base[ScSrc(o.layout, Len(o.base), o.k, p)] EXCEPT !.id = VInt(p)]
ScRows(o)     == [p \in 1..ScN(o) |-> ScRow(o, p)]
ScIdOf(r)     == Pay(r.id)
\* (the id column as a key - a third key in one call - is the position itself)
ScCmp(o, p, q) == LET bc == o.basecmp[ScSrc(o.layout, Len(o.base), o.k, p)][ScSrc(o.layout, Len(o.base), o.k, q)]
                  IN Lex([kc \in 1..Len(o.keycols) |-> IF o.keycols[kc] = "id" THEN Sign(p - q) ELSE bc[kc]], 1)
ScBaseBad(o)  == \E i, j \in 1..Len(o.base) : \E kc \in 1..Len(o.keycols) :
                    o.basecmp[i][j][kc] \notin {-1, 0, 1} \/ ~PinOK(o.basecmp[i][j][kc], o.base[i][o.keycols[kc]], o.base[j][o.keycols[kc]])
                    \/ o.basecmp[i][j][kc] # -o.basecmp[j][i][kc]
DScaleVerdict(o) ==
    LET NN == ScN(o) IN
    IF ScBaseBad(o) THEN "cmp_pinned_value_in_sort"
    ELSE IF o.raised # "" THEN "dsort_raises"
    ELSE IF o.after # ScRows(o) THEN "dsort_operand_changed"
    ELSE IF Len(o.out) # NN \/ {ScIdOf(o.out[p]) : p \in 1..Len(o.out)} # 1..NN \/ \E p \in 1..NN : o.out[p] # ScRow(o, ScIdOf(o.out[p])) THEN "dsort_not_a_permutation"
    ELSE IF \E p \in 1..(NN - 1) : ScCmp(o, ScIdOf(o.out[p]), ScIdOf(o.out[p + 1])) > 0 THEN "dsort_not_ordered"
    ELSE IF \E p \in 1..(NN - 1) : ScCmp(o, ScIdOf(o.out[p]), ScIdOf(o.out[p + 1])) = 0 /\ ScIdOf(o.out[p]) > ScIdOf(o.out[p + 1]) THEN "dsort_not_stable"
    ELSE IF ~o.again THEN "dsort_not_idempotent"
    ELSE IF ~o.same THEN "dsort_depends_on_earlier_calls"             \* the call was made o.reps times on the one table object
    ELSE ""
\* lists: base values are distinct as tagged values (NaN objects by identity); o.basecmp[i][j] = <<cmp(base[i], base[j])>>
ScIdx(o, v)  == CHOOSE i \in 1..Len(o.base) : o.base[i] = v
SScaleVerdict(o) ==
    LET NN == ScN(o)  n == Len(o.base)
        xs == [p \in 1..NN |-> o.base[ScSrc(o.layout, n, o.k, p)]] IN
    IF \E i, j \in 1..n : o.basecmp[i][j][1] \notin {-1, 0, 1} \/ ~PinOK(o.basecmp[i][j][1], o.base[i], o.base[j]) \/ o.basecmp[i][j][1] # -o.basecmp[j][i][1]
        THEN "cmp_pinned_value_in_sort"
    ELSE IF o.raised # "" THEN "sort_raises"
    ELSE IF o.after # xs THEN "sort_operand_changed"
    ELSE IF Len(o.out) # NN \/ \E p \in 1..Len(o.out) : \A i \in 1..n : o.base[i] # o.out[p] THEN "sort_not_a_permutation"
    ELSE IF \E i \in 1..n : Cardinality({p \in 1..NN : o.out[p] = o.base[i]}) # o.k THEN "sort_not_a_permutation"
    ELSE IF \E p \in 1..(NN - 1) : o.basecmp[ScIdx(o, o.out[p])][ScIdx(o, o.out[p + 1])][1] > 0 THEN "sort_not_nondecreasing"
    ELSE IF ~o.same THEN "sort_depends_on_earlier_calls"
    ELSE ""

CallVerdict(o) ==
    CASE o.kind = "cmprow" -> RowVerdict(o.i)
      [] o.kind = "cmprow2" -> RowVerdictOf(Mat2, o.i)
      [] o.kind = "sort" ->
           IF o.raised # "" THEN "sort_raises"
           ELSE IF o.after # o.xs THEN "sort_operand_changed"
           ELSE IF ~IsPerm(o.xs, o.out) THEN "sort_not_a_permutation"
           ELSE IF \E k \in 1..Len(o.adj) : ~PinOK(o.adj[k], o.out[k], o.out[k + 1]) THEN "cmp_pinned_value_in_sort"
           ELSE IF \E k \in 1..Len(o.adj) : o.adj[k] \notin {-1, 0} THEN "sort_not_nondecreasing"
           ELSE IF \E k \in 1..Len(o.far) : o.far[k][3] \notin {-1, 0} THEN "sort_not_nondecreasing_far"
           ELSE ""
      [] o.kind = "dsort" ->
           IF o.raised # "" THEN "dsort_raises"
           ELSE IF o.after # o.rows THEN "dsort_operand_changed"
           ELSE IF ~RowsPerm(o.rows, o.out) THEN "dsort_not_a_permutation"
           ELSE IF \E p \in 1..Len(o.colcmp) : \E k \in 1..Len(o.colcmp[p]) : ~PinOK(o.colcmp[p][k], o.out[p][o.keycols[k]], o.out[p + 1][o.keycols[k]])
                THEN "cmp_pinned_value_in_sort"
           ELSE IF ~OrderedBy(DsortCmp(o)) /\ ~OrderedBy(DsortRefined(o)) THEN "dsort_not_ordered"
           ELSE IF ~(OrderedBy(DsortCmp(o)) /\ StableBy(o, DsortCmp(o))) /\ ~(OrderedBy(DsortRefined(o)) /\ StableBy(o, DsortRefined(o))) THEN "dsort_not_stable"
           ELSE IF ~o.again THEN "dsort_not_idempotent"
           ELSE ""
      [] o.kind = "dsortval" ->
           IF o.raised # "" THEN "dsortval_raises"
           ELSE IF o.after # o.rows THEN "dsortval_operand_changed"
           ELSE IF ~IsByValueOrder(o.orders, o.rows, o.out) THEN (IF OrdersHaveDup(o.orders) THEN "dsortval_order_dup" ELSE "dsortval_order")
           ELSE ""
      [] o.kind = "dscale" -> DScaleVerdict(o)
      [] o.kind = "sscale" -> SScaleVerdict(o)
      [] OTHER -> "unknown_kind"

\* ---- sessions ---------------------------------------------------------------------------------------
\* the single-call observation a call step amounts to, its operands taken from the tracked heap S
AsCall(S, st, ob) ==
    CASE st.op \in {"sort", "sortfn"} -> [kind |-> "dsort", rows |-> S.tabs[st.src], keycols |-> KeyCols(st), raised |-> ob.raised, out |-> ob.out,
                                          colcmp |-> ob.colcmp, again |-> ob.again, after |-> ob.tabs[st.src]]
      [] st.op = "sortval"  -> [kind |-> "dsortval", rows |-> S.tabs[st.src], orders |-> OrdersAt(S, st), raised |-> ob.raised, out |-> ob.out,
                                after |-> ob.tabs[st.src]]
      [] st.op = "listsort" -> [kind |-> "sort", xs |-> S.lsts[st.lst], raised |-> ob.raised, out |-> ob.out, adj |-> ob.adj, far |-> ob.far,
                                after |-> ob.lsts[st.lst]]
\* the heap after the step: a call allocates what it returned (judged lawful before), an edit is the caller's own action
\* cmp over a sample of the universe at this point of the history: ob.idx = indices into Mat.vals, ob.M = the entries observed NOW
SampleMat(ob) == [vals |-> [k \in 1..Len(ob.idx) |-> Mat.vals[ob.idx[k]]], M |-> ob.M]
SampleVerdict(ob) ==
    LET sm == SampleMat(ob)
        bad == {i \in 1..Len(ob.idx) : RowClauseOf(sm, i) # ""} IN
    IF bad # {} THEN RowClauseOf(sm, Pick(bad))
    ELSE IF \E p, q \in 1..Len(ob.idx) : ob.M[p][q] # Mat.M[ob.idx[p]][ob.idx[q]] THEN "cmp_depends_on_earlier_calls"      \* a call has no memory
    ELSE ""
Tracked(S, st, ob) == IF st.op \in {"raise", "cmps"} THEN S
                      ELSE IF st.op = "listsort" THEN NewList(S, ob.out)
                      ELSE IF IsCall(st) THEN NewTable(S, ob.out)
                      ELSE IF st.op = "setcol" THEN EditTable(S, st) ELSE EditList(S, st)
StepVerdict(S, st, ob) ==
    LET T == Tracked(S, st, ob) IN
    IF ~Enabled(S, st) THEN "sess_step_not_enabled"                \* the generator and this specification disagree: machinery
    ELSE IF st.op = "raise" THEN           \* OutsideDomain: raising or not, and with which class, is not the statement's business
        IF ob.tabs # S.tabs \/ ob.lsts # S.lsts THEN "sess_raising_call_changes_caller_object" ELSE ""
    ELSE IF st.op = "cmps" THEN
        IF ob.tabs # S.tabs \/ ob.lsts # S.lsts THEN "sess_call_changes_caller_object" ELSE SampleVerdict(ob)
    ELSE IF IsCall(st) THEN
        LET v == CallVerdict(AsCall(S, st, ob)) IN
        IF v # "" THEN v
        ELSE IF ob.tabs # T.tabs \/ ob.lsts # T.lsts THEN "sess_call_changes_caller_object"
        ELSE ""
    ELSE IF ob.raised # "" THEN "sess_edit_raises"
    ELSE IF st.op = "setcol" /\ ob.tabs[st.src] # T.tabs[st.src] THEN "sess_edit_not_applied"
    ELSE IF st.op = "setlst" /\ ob.lsts[st.lst] # T.lsts[st.lst] THEN "sess_edit_not_applied"
    ELSE IF ob.tabs # T.tabs \/ ob.lsts # T.lsts THEN "sess_edit_changes_other_object"
    ELSE ""
RECURSIVE Walk(_, _, _)
Walk(o, S, k) == IF k > Len(o.hist) THEN ""
                 ELSE LET v == StepVerdict(S, o.hist[k], o.obs[k]) IN
                      IF v # "" THEN v ELSE Walk(o, Tracked(S, o.hist[k], o.obs[k]), k + 1)
SessVerdict(o) == IF Len(o.obs) # Len(o.hist) THEN "sess_malformed" ELSE Walk(o, o.init, 1)

Verdict(o) == IF o.kind = "session" THEN SessVerdict(o) ELSE CallVerdict(o)

Init == BatchInit
Next == BatchNext(Verdict)
=============================================================================
