----------------------------- MODULE Trace_Order -----------------------------
(* Trace validation for property C07.  Observation kinds:                                      *)
(*  cmprow   row i of the full matrix cmp(vals[i], vals[j]) recorded from the real code over a  *)
(*           concrete universe (file MAT_FILE: [vals, M]); the axioms are checked for row i     *)
(*           against all j (pairs) and all j, k (triples)                                       *)
(*  sort     sort(xs) / sorted(xs, key = Cmp): result, and the real cmp of adjacent results     *)
(*  dsort    d.sort(by...) or d.sort(f): rows carry a unique id; per adjacent pair of result rows *)
(*           the real cmp of each key column; whether sorting the result again changes it       *)
(*  dsortval d.sort(col = [values in order], ...): fully pinned, recomputed here                  *)
EXTENDS Order, Batch

Mat == JsonDeserialize(IOEnv.MAT_FILE)
Pick(S) == CHOOSE e \in S : TRUE
Show2(name, w) == name \o ":" \o ToString(w[1]) \o "," \o ToString(w[2])

RowVerdict(i) ==
    LET vals == Mat.vals  M == Mat.M
        raised == {w \in RaisedAt(vals, M) : w[1] = i}
        anti   == {w \in NotAntisym(vals, M) : w[1] = i}
        pinned == {w \in NotPinned(vals, M) : w[1] = i}
        trans  == NotTransRow(vals, M, i)
    IN  IF raised # {} THEN Show2("cmp_raises", Pick(raised))
        ELSE IF anti # {} THEN Show2("cmp_not_antisymmetric", Pick(anti))
        ELSE IF pinned # {} THEN Show2("cmp_pinned_value", Pick(pinned))
        ELSE IF trans # {} THEN Show2("cmp_not_transitive", Pick(trans))
        ELSE ""

\* lexicographic sign of a sequence of per-column comparisons
RECURSIVE Lex(_, _)
Lex(cs, k) == IF k > Len(cs) THEN 0 ELSE IF cs[k] # 0 THEN cs[k] ELSE Lex(cs, k + 1)
RowsPerm(rows, out) == Len(rows) = Len(out) /\ {rows[i] : i \in 1..Len(rows)} = {out[i] : i \in 1..Len(out)}

\* dictionary lookup of the explicit value orders: listed values by position, unlisted last
Rank(v, vs) == IF \E i \in 1..Len(vs) : SameForSet(v, vs[i])
               THEN CHOOSE i \in 1..Len(vs) : SameForSet(v, vs[i]) /\ \A j \in 1..(i - 1) : ~SameForSet(v, vs[j])
               ELSE Len(vs) + 1
RankCmp(orders, r, s) == Lex([k \in 1..Len(orders) |-> Sign(Rank(r[orders[k][1]], orders[k][2]) - Rank(s[orders[k][1]], orders[k][2]))], 1)

Verdict(o) ==
    CASE o.kind = "cmprow" -> RowVerdict(o.i)
      [] o.kind = "sort" ->
           IF o.raised # "" THEN "sort_raises"
           ELSE IF ~IsPerm(o.xs, o.out) THEN "sort_not_a_permutation"
           ELSE IF \E k \in 1..Len(o.adj) : o.adj[k] \notin {-1, 0} THEN "sort_not_nondecreasing"
           ELSE ""
      [] o.kind = "dsort" ->
           IF o.raised # "" THEN "dsort_raises"
           ELSE IF o.after # o.rows THEN "dsort_operand_changed"
           ELSE IF ~RowsPerm(o.rows, o.out) THEN "dsort_not_a_permutation"
           ELSE IF \E p \in 1..Len(o.colcmp) : Lex(o.colcmp[p], 1) \notin {-1, 0} THEN "dsort_not_ordered"
           ELSE IF \E p \in 1..Len(o.colcmp) : Lex(o.colcmp[p], 1) = 0 /\ ~(Pay(o.out[p].id) < Pay(o.out[p + 1].id)) THEN "dsort_not_stable"
           ELSE IF ~o.again THEN "dsort_not_idempotent"
           ELSE ""
      [] o.kind = "dsortval" ->
           LET RC(r, s) == RankCmp(o.orders, r, s) IN
           IF o.raised # "" THEN "dsortval_raises"
           ELSE IF o.after # o.rows THEN "dsortval_operand_changed"
           ELSE IF o.out # StableSort(RC, o.rows) THEN "dsortval_order"
           ELSE ""
      [] OTHER -> "unknown_kind"

Init == BatchInit
Next == BatchNext(Verdict)
=============================================================================
