CONSTANTS Tier = "thorough"
          Shape = "free"
          Depth = 7
          Fams = {"useq", "mses"}
          MemoPolicy = "none"
          ArgPolicy = "copy"
INIT Init
NEXT NextGen
