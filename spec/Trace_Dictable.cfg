INIT Init
NEXT Next
