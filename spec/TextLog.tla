------------------------------- MODULE TextLog -------------------------------
(* Extension X08-b, first half: get_logger (_logger.py) as a REGISTRY - "simplify loggers creation and ensure we     *)
(* cache them and do not add too many handlers".                                                                       *)
(* Abstract state: reg = the sequence of loggers made so far, in the order of their making (the position is the        *)
(* identity of the object handed out): [name, level, hs] with hs the handlers [kind "console"/"file", level, dest].     *)
(* Calls (records):                                                                                                    *)
(*   [op "get", name, level, console, file]   file = 0: none, f > 0: the f-th file of the history                      *)
(*   [op "log", name, level]                  a message of that level through the object held for that name            *)
(* Law level, from the docstring and the documented behaviour of the logging package:                                  *)
(*   - the first get of a name makes the logger (its level, a console handler when asked, then a file handler when      *)
(*     asked, both at that level); every later get of that name hands out THE SAME object, unchanged, whatever is asked  *)
(*   - a message below the level of its logger goes nowhere; otherwise it is written ONCE by every handler of the       *)
(*     logger and of its ancestors in the dotted-name hierarchy (nearest first) whose level it reaches                  *)
(* The operators are pure (state in, state / observation out): MC_TextLog runs them as a machine, Trace_Text folds      *)
(* them over recorded histories.                                                                                       *)
EXTENDS Naturals, Sequences, FiniteSets

\* names are sequences of words: <<"A">>, <<"A", "B">> is the child A.B of A
IsAncestor(p, n) == Len(p) < Len(n) /\ SubSeq(n, 1, Len(p)) = p

LgIndex(reg, name) == IF \E i \in DOMAIN reg : reg[i].name = name THEN CHOOSE i \in DOMAIN reg : reg[i].name = name ELSE 0
LgHandlers(call) == (IF call.console THEN <<[kind |-> "console", level |-> call.level, dest |-> 0]>> ELSE <<>>)
                    \o (IF call.file > 0 THEN <<[kind |-> "file", level |-> call.level, dest |-> call.file]>> ELSE <<>>)

\* ---- get --------------------------------------------------------------------------------------------------
LgGetState(reg, call) == IF LgIndex(reg, call.name) > 0 THEN reg
                         ELSE Append(reg, [name |-> call.name, level |-> call.level, hs |-> LgHandlers(call)])
\* what the caller sees of the object handed out: which object it is, its level, its handlers
LgGetObs(reg, call) == LET r == LgGetState(reg, call)  i == LgIndex(r, call.name) IN [obj |-> i, level |-> r[i].level, hs |-> r[i].hs]

\* ---- log --------------------------------------------------------------------------------------------------
\* the loggers whose handlers see a message sent through `name`: itself, then its ancestors from the nearest
RECURSIVE LgChain(_, _)
LgChain(reg, name) == IF name = <<>> THEN <<>>
                      ELSE LET i == LgIndex(reg, name) IN (IF i > 0 THEN <<i>> ELSE <<>>) \o LgChain(reg, SubSeq(name, 1, Len(name) - 1))
RECURSIVE LgFlat(_)
LgFlat(ss) == IF ss = <<>> THEN <<>> ELSE ss[1] \o LgFlat(Tail(ss))
LgReached(reg, name, level) ==
    LET i == LgIndex(reg, name) IN
    IF i = 0 \/ level < reg[i].level THEN <<>>
    ELSE SelectSeq(LgFlat([k \in DOMAIN LgChain(reg, name) |-> reg[LgChain(reg, name)[k]].hs]), LAMBDA h : h.level <= level)
\* the lines that appear: per destination (0 = console, f = file f) the sequence of <<name, level>> written by this one message
LgLines(reg, call, dest) == LET hs == SelectSeq(LgReached(reg, call.name, call.level), LAMBDA h : h.dest = dest)
                            IN [k \in DOMAIN hs |-> <<call.name, call.level>>]
LgLogObs(reg, call, nfiles) == [d \in 1..(nfiles + 1) |-> LgLines(reg, call, d - 1)]

\* ---- one step: <<state afterwards, observation>> ----------------------------------------------------------
LgStep(reg, call, nfiles) == IF call.op = "get" THEN <<LgGetState(reg, call), LgGetObs(reg, call)>>
                             ELSE <<reg, LgLogObs(reg, call, nfiles)>>
\* a log call needs the object: only names that were asked for before
LgEnabled(reg, call) == call.op = "get" \/ LgIndex(reg, call.name) > 0

\* ---- a recorded history: steps = sequence of [call, obs]; "" or the clause of the first step the law does not explain
RECURSIVE LgJudge(_, _, _)
LgJudge(reg, steps, nfiles) ==
    IF steps = <<>> THEN ""
    ELSE LET st == steps[1]  r == LgStep(reg, st.call, nfiles) IN
         IF ~LgEnabled(reg, st.call) THEN "bad_input"
         ELSE IF st.call.op = "get" /\ st.obs.obj # r[2].obj THEN (IF LgIndex(reg, st.call.name) > 0 THEN "logger_not_cached" ELSE "logger_identity")
         ELSE IF st.call.op = "get" /\ st.obs.level # r[2].level THEN (IF LgIndex(reg, st.call.name) > 0 THEN "logger_reconfigured" ELSE "logger_level")
         ELSE IF st.call.op = "get" /\ st.obs.hs # r[2].hs THEN (IF LgIndex(reg, st.call.name) > 0 THEN "handlers_added" ELSE "handlers_made")
         ELSE IF st.call.op = "log" /\ st.obs # r[2] THEN "message_delivery"
         ELSE LgJudge(r[1], Tail(steps), nfiles)
=============================================================================
