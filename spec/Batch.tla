------------------------------- MODULE Batch -------------------------------
(* Trace validation of "function-like" logs: every line of the NDJSON file named by the        *)
(* environment variable OBS_FILE is one observation of the real code (a public call with its   *)
(* encoded arguments and outcome, or a one-step behaviour).  The log is cut into K chunks, one *)
(* TLC behaviour per chunk, one state per consumed line, so that 16 workers share the work.    *)
(* A trace specification EXTENDS this module, defines Verdict(o) - "" when the specification   *)
(* explains observation o, otherwise the name of the first clause that fails - and uses        *)
(*     Init == BatchInit      Next == BatchNext(Verdict)                                       *)
(* Rejected lines are reported (one JSON line each) and the rest of the log is still examined. *)
EXTENDS Naturals, Sequences, TLC, Json, IOUtils
VARIABLES c, l

Obs == ndJsonDeserialize(IOEnv.OBS_FILE)
N   == Len(Obs)
K   == 64
Lo(k) == ((k - 1) * N) \div K + 1
Hi(k) == (k * N) \div K

Reject(i, v) == PrintT(ToJson([bad |-> i, clause |-> v]))

BatchInit == c \in 1..K /\ l = Lo(c) - 1
BatchNext(V(_)) == /\ l < Hi(c)
                   /\ LET v == V(Obs[l + 1]) IN IF v = "" THEN TRUE ELSE Reject(l + 1, v)
                   /\ l' = l + 1 /\ c' = c
=============================================================================
