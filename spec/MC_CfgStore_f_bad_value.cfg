CONSTANTS KeyOrd <- KeyAB
          Vals = {1, 2}
          Bad = 0
          Procs = {1, 2}
          NPaths = 1
          Blocked = {}
          Allow = {"bad_value"}
          GenFlush = {1, 2, 3, 4}
          WarmReads = TRUE
          InitCfgs <- FewCfgs
          WriteCfgs <- BadWrite
          MaxBegin = 2
          MaxRead = 2
          MaxSpawn = 3
          MaxCrash = 1
INIT Init
NEXT NextMCBad
INVARIANT TypeOK
INVARIANT ReadLaw
