CONSTANTS ZYears = {2008, 2010, 2015, 2016, 2021, 2024, 2032, 2036}
          GenZYears = {2024}
INIT Init
NEXT Next
INVARIANT ZoneShape
INVARIANT OffsetIsOneOfTwo
INVARIANT ConvertKeepsInstant
INVARIANT RoundTrip
INVARIANT Compose
INVARIANT ConvertOwnZone
INVARIANT ConvertNaive
INVARIANT DropZone
INVARIANT ReplaceKeepsWall
INVARIANT ReplaceOwnZone
INVARIANT ReplaceThenConvert
INVARIANT FixedOffsets
INVARIANT SeriesLaw
INVARIANT DtLaw
INVARIANT NamesAgree
