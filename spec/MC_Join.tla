------------------------------- MODULE MC_Join -------------------------------
(* Property C02 on the law level: for every pair of small key tables the key-equal pairs,        *)
(* the anti-join and the left-join decomposition are consistent; generator configurations        *)
(* print the key tables whose decorated variants (ids, shared columns, renamed and computed      *)
(* keys, spellings, modes) the driver pushes through the real join / xor.                        *)
EXTENDS Join, TLC, Json
CONSTANTS MaxRows, Shape      \* Shape: "one" (key column a) | "two" (key columns a, b) | "key" (key column a over abstract key cells)
VARIABLES x, y, done

D1 == <<"d", <<730120, 0, 0>>>>
KeyU1 == {None, VInt(1), VFlt(1, 1), VInt(2), VFlt(5, 2), VNaN(1), VNaN(2), VStr("a"), D1}
KeyU2 == {None, VInt(1), VFlt(1, 1), VNaN(1), VNaN(2)}
\* abstract key cells (Join.tla): three key classes in two realisation slots each, next to None and a NaN object - the driver
\* chooses the witnesses (2^53, 2^53 + 1, 2^53 + 2 as int / float / numpy scalars, ...); the law only needs the classes
KeyUK == {<<"k", <<c, s>>>> : c \in 1..3, s \in {"A", "B"}} \cup {None, VNaN(1)}
SeqsUpTo(S, n) == UNION {[1..k -> S] : k \in 0..n}
RowU == IF Shape = "one" THEN [{"a"} -> KeyU1] ELSE IF Shape = "key" THEN [{"a"} -> KeyUK] ELSE [{"a", "b"} -> KeyU2]
ColsOf == IF Shape = "two" THEN <<"a", "b">> ELSE <<"a">>
Ks == [k \in 1..Len(ColsOf) |-> <<"col", ColsOf[k]>>]
TableU == {[cols |-> ColsOf, rows |-> rs] : rs \in SeqsUpTo(RowU, MaxRows)}

Init == x \in TableU /\ y \in TableU /\ done = FALSE
Next == done = FALSE /\ done' = TRUE /\ UNCHANGED <<x, y>>
NextGen == Next /\ PrintT(ToJson([x |-> x, y |-> y, npairs |-> Cardinality(Pairs(x, y, Ks, Ks)), nxor |-> Len(XorRows(x, y, Ks, Ks))]))

Matched == {p[1] : p \in Pairs(x, y, Ks, Ks)}
Unmatched == {i \in 1..NRows(x) : \A j \in 1..NRows(y) : ~Match(x.rows[i], y.rows[j], Ks, Ks)}
\* left join = x*y + x/y: every row of x lies in exactly one of the matched part and xor
LeftJoinDecomposition == Matched \cup Unmatched = 1..NRows(x) /\ Matched \cap Unmatched = {} /\ Len(XorRows(x, y, Ks, Ks)) = Cardinality(Unmatched)
\* inner join is symmetric under swapping the sides
Symmetric == Pairs(y, x, Ks, Ks) = {<<p[2], p[1]>> : p \in Pairs(x, y, Ks, Ks)}
\* KeyEq is an equivalence on the rows' keys, so matching is "same class on both sides"
ClassesOK == \A i \in 1..NRows(x), j \in 1..NRows(y), i2 \in 1..NRows(x) :
                (Match(x.rows[i], y.rows[j], Ks, Ks) /\ Match(x.rows[i2], x.rows[i], Ks, Ks)) => Match(x.rows[i2], y.rows[j], Ks, Ks)
\* the result rows carry the columns of both sides and the law-level rows are a bag of that size
RowsOK == Len(JoinRows(x, y, Ks, Ks, "none")) = Cardinality(Pairs(x, y, Ks, Ks))
          /\ BagEq(JoinRows(x, y, Ks, Ks, "none"), JoinRows(x, y, Ks, Ks, "none"), KeyNames(Ks, Ks))
\* abstract key cells: the realisation slot is invisible to the law - renaming every slot leaves the pairs as they are
Reslot(t) == [t EXCEPT !.rows = [i \in 1..NRows(t) |-> [c \in DOMAIN t.rows[i] |->
                 IF IsK(t.rows[i][c]) THEN <<"k", <<KClass(t.rows[i][c]), "A">>>> ELSE t.rows[i][c]]]]
SlotInvisible == Pairs(Reslot(x), Reslot(y), Ks, Ks) = Pairs(x, y, Ks, Ks)
=============================================================================
