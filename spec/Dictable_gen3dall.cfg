CONSTANTS MaxDepth = 3
          MaxRowsC = 8
INIT Init
NEXT NextDerivedAll
CONSTRAINT SimBound
