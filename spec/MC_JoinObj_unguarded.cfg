CONSTANTS MaxRows = 2
          MaxRowsY = 0
          MaxSteps = 1
          NKeys = 4
          Stride = 4
          Gen = FALSE
          Emit = "none"
          Variant = "reuse_unguarded"
INIT InitSame
NEXT Next
INVARIANT MechRefinesLaw
