CONSTANTS MaxRows = 2
          MaxRowsY = 0
          MaxSteps = 1
          NKeys = 4
          Stride = 8
          Gen = FALSE
          Emit = "none"
          Variant = "reuse_unguarded"
SPECIFICATION Spec
INVARIANT MechRefinesLaw
