CONSTANTS MaxDepth = 2
          MaxRowsC = 14
          LawDepth = 2
INIT Init
NEXT Next
CONSTRAINT GenBound
