CONSTANTS Wide = FALSE
          Nest = FALSE
INIT InitToday
NEXT EvalTodayGen
