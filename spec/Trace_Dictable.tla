--------------------------- MODULE Trace_Dictable ---------------------------
(* Trace validation for property C01: every line is one recorded history of public calls on real *)
(* dictables with arbitrary arguments (random slices, masks, positions, values incl. floats and   *)
(* dates, column choices).  After every call the driver logged the outcome and the projection of  *)
(* all registers; the trace specification steps the operators of Dictable.tla over the events and *)
(* compares outcome, every live table (four observation channels) and the aliasing structure.     *)
(* Augmented assignments (e += record / table / None) are recorded for names that are the only    *)
(* one for their object; per-column transforms carry the list of functions (DoFnApply).           *)
(* The caller's argument objects (st.av) are part of the state: Bind / edit events change them,   *)
(* calls that name them are stepped with their CURRENT value, and after EVERY event the logged     *)
(* objects must equal st.av (argument_changed).                                                    *)
(* Round 5: the same judgement on BIG observations - tables of 17 .. 1025 rows that are a small   *)
(* pattern scaled up (NewBig = BigT of DictableOps), pushed through masks, slices, positions,      *)
(* copies, concatenations; n-ary concat calls with up to 65 operands; histories of up to 260      *)
(* calls.  The scaling laws that tie these to the small tables TLC enumerates are ScaleLaws.      *)
EXTENDS DictableOps, Batch

St0 == [heap |-> <<>>, reg |-> [r \in Regs |-> 0], av |-> NoArgs]
TT(st, r) == st.heap[st.reg[r]]
DoAlloc(st, rd, res) == IF res.ok THEN [heap |-> Append(st.heap, res.t), reg |-> [st.reg EXCEPT ![rd] = Len(st.heap) + 1], out |-> "ok"]
                        ELSE [heap |-> st.heap, reg |-> st.reg, out |-> res.err]
DoInPlace(st, r, res) == [heap |-> [st.heap EXCEPT ![st.reg[r]] = IF res.ok THEN res.t ELSE (IF res.err = "partial" THEN res.t ELSE @)], reg |-> st.reg,
                          out |-> IF res.ok THEN "ok" ELSE res.err]
Apply(st, e) ==
    CASE e.op = "New"       -> DoAlloc(st, e.rd, Construct(e.seed))
      [] e.op = "SetCol"    -> DoInPlace(st, e.r, SetColT(TT(st, e.r), e.c, e.arg))
      [] e.op = "SetFrom"   -> DoInPlace(st, e.r, IF HasCol(TT(st, e.r2), e.c2) THEN SetColT(TT(st, e.r), e.c, <<"l", ColVals(TT(st, e.r2), e.c2)>>) ELSE Err("KeyError"))
      [] e.op = "DelCol"    -> DoInPlace(st, e.r, DelColT(TT(st, e.r), e.c))
      [] e.op = "Update"    -> LET res == UpdateT(TT(st, e.r), e.items, 1) IN
                               [heap |-> [st.heap EXCEPT ![st.reg[e.r]] = res.t], reg |-> st.reg, out |-> res.err]
      [] e.op = "Slice"     -> DoAlloc(st, e.rd, SliceGenT(TT(st, e.r), e.lo, e.hi, e.step))
      [] e.op = "Mask"      -> DoAlloc(st, e.rd, MaskSeqT(TT(st, e.r), e.mask))
      [] e.op = "Take"      -> DoAlloc(st, e.rd, TakeT(TT(st, e.r), e.pos))
      [] e.op = "Project"   -> DoAlloc(st, e.rd, ProjectT(TT(st, e.r), e.cs))
      [] e.op = "Derive"    -> DoAlloc(st, e.rd, DeriveT(TT(st, e.r), e.c, e.f))
      [] e.op = "Do"        -> DoAlloc(st, e.rd, DoT(TT(st, e.r), e.fs, e.cs))
      [] e.op = "Rename"    -> DoAlloc(st, e.rd, RenameT(TT(st, e.r), e.c, e.c2))
      [] e.op = "Swap"      -> DoAlloc(st, e.rd, SwapT(TT(st, e.r), e.c, e.c2))
      [] e.op = "Concat"    -> DoAlloc(st, e.rd, ConcatT(TT(st, e.ra), TT(st, e.rb)))
      [] e.op = "AddRecord" -> DoAlloc(st, e.rd, ConcatT(TT(st, e.r), RecordT(e.rec)))
      [] e.op = "DeriveConst" -> DoAlloc(st, e.rd, SetColT(TT(st, e.r), e.c, e.arg))
      [] e.op = "DerivePair" -> DoAlloc(st, e.rd, DerivePairT(TT(st, e.r), e.c, e.f, e.c2, e.g))
      [] e.op = "Minus"     -> DoAlloc(st, e.rd, MinusColsT(TT(st, e.r), e.cs))
      [] e.op = "IAdd"      -> DoAlloc(st, e.r, ConcatT(TT(st, e.r), TT(st, e.rb)))           \* e += table: the name e holds e + table, nothing else moves
      [] e.op = "ISub"      -> DoAlloc(st, e.r, MinusColsT(TT(st, e.r), e.cs))
      [] e.op = "IAddRecord" -> DoAlloc(st, e.r, ConcatT(TT(st, e.r), RecordT(e.rec)))
      \* calls that are handed the caller's argument objects (st.av) - the event names the object, the value is the one it has NOW
      [] e.op = "NewMap"    -> DoAlloc(st, e.rd, FromCols(MapCols(st.av.m), MapArgs(st.av.m)))
      [] e.op = "NewMapKw"  -> DoAlloc(st, e.rd, FromMapKw(st.av.m, e.kw))
      [] e.op = "NewTabKw"  -> DoAlloc(st, e.rd, FromTableKw(TT(st, e.r), e.kw))
      [] e.op = "NewRecs"   -> DoAlloc(st, e.rd, FromRecords(st.av.recs))
      [] e.op = "NewColsL"  -> DoAlloc(st, e.rd, FromCols(<<"a", "b">>, <<<<"l", st.av.L>>, IF e.b = "L" THEN <<"l", st.av.L>> ELSE <<"s", VX>>>>))
      [] e.op = "NewRowsCs" -> DoAlloc(st, e.rd, FromRows(e.rows, st.av.cs))
      [] e.op = "SetColL"   -> DoInPlace(st, e.r, SetColT(TT(st, e.r), e.c, <<"l", st.av.L>>))
      [] e.op = "UpdateMap" -> LET res == UpdateT(TT(st, e.r), st.av.m, 1) IN
                               [heap |-> [st.heap EXCEPT ![st.reg[e.r]] = res.t], reg |-> st.reg, out |-> res.err]
      [] e.op = "DeriveConstL" -> DoAlloc(st, e.rd, SetColT(TT(st, e.r), e.c, <<"l", st.av.L>>))
      [] e.op = "DeriveMap" -> DoAlloc(st, e.rd, AssignAllT(TT(st, e.r), st.av.m))
      [] e.op = "RenameMap" -> DoAlloc(st, e.rd, RenameManyT(TT(st, e.r), st.av.rn))
      [] e.op = "RenameMapKw" -> DoAlloc(st, e.rd, RenameManyT(TT(st, e.r), st.av.rn \o e.kw))
      [] e.op = "ProjectCs" -> DoAlloc(st, e.rd, ProjectT(TT(st, e.r), st.av.cs))
      [] e.op \in {"MinusCs", "ISubCs"} -> DoAlloc(st, e.rd, MinusColsT(TT(st, e.r), st.av.cs))
      [] e.op = "DoCs"      -> DoAlloc(st, e.rd, DoT(TT(st, e.r), e.fs, st.av.cs))
      [] e.op = "TakeIx"    -> DoAlloc(st, e.rd, TakeT(TT(st, e.r), st.av.ix))
      [] e.op \in {"AddRecs", "IAddRecs"} -> DoAlloc(st, e.rd, ConcatT(TT(st, e.r), FromRecords(st.av.recs).t))
      [] e.op \in {"AddRec1", "IAddRec1"} -> DoAlloc(st, e.rd, ConcatT(TT(st, e.r), RecordT(st.av.recs[1])))
      \* round 5: three or more operands in one call; a small pattern scaled up to n rows; masks / columns that are a cycled pattern
      [] e.op = "ConcatN"   -> DoAlloc(st, e.rd, ConcatManyT([k \in 1..Len(e.ops) |-> IF e.ops[k][1] = "r" THEN TT(st, e.ops[k][2]) ELSE RecordT(e.ops[k][3])]))
      [] e.op = "NewBig"    -> DoAlloc(st, e.rd, NewBigT(e.seed, e.n, e.b))
      [] e.op = "MaskCyc"   -> DoAlloc(st, e.rd, MaskSeqT(TT(st, e.r), CycleTo(e.pat, NR(TT(st, e.r)))))
      [] e.op = "SetColCyc" -> DoInPlace(st, e.r, SetColT(TT(st, e.r), e.c, CycArg(e.pat, NR(TT(st, e.r)))))
      [] e.op \in {"Copy", "NoFilter"} -> DoAlloc(st, e.rd, Ok(TT(st, e.r)))
      [] e.op \in {"AddNone", "ConcatOne", "IAddNone"} -> [heap |-> st.heap, reg |-> [st.reg EXCEPT ![e.rd] = st.reg[e.r]], out |-> "ok"]

\* the caller's own actions change the caller's objects and nothing else; a call changes none of them
CallerApply(av, e) ==
    CASE e.op = "Bind"       -> [k \in ArgNames \cup {"lg"} |-> IF k = "lg" THEN FALSE ELSE e.av[k]]
      [] e.op = "MapSet"     -> [av EXCEPT !.m = MapPut(@, e.c, e.arg)]
      [] e.op = "MapDel"     -> [av EXCEPT !.m = MapDrop(@, e.c)]
      [] e.op = "RnSet"      -> [av EXCEPT !.rn = MapPut(@, e.c, e.c2)]
      [] e.op = "RnDel"      -> [av EXCEPT !.rn = MapDrop(@, e.c)]
      [] e.op = "RecsAppend" -> [av EXCEPT !.recs = Append(@, e.rec)]
      [] e.op = "RecSet"     -> [av EXCEPT !.recs[1] = MapPut(@, e.c, e.v)]
      [] e.op = "LAppend"    -> [av EXCEPT !.L = Append(@, e.v)]
      [] e.op = "CsAppend"   -> [av EXCEPT !.cs = Append(@, e.c)]
      [] e.op = "CsPop"      -> [av EXCEPT !.cs = Tail(@)]
      [] e.op = "IxAppend"   -> [av EXCEPT !.ix = Append(@, e.i)]
Step(st, e) == IF e.op \in CallerOps THEN [heap |-> st.heap, reg |-> st.reg, out |-> "ok", av |-> CallerApply(st.av, e)]
               ELSE LET nx == Apply(st, e) IN [heap |-> nx.heap, reg |-> nx.reg, out |-> nx.out, av |-> IF e.op \in GivesL THEN [st.av EXCEPT !.lg = TRUE] ELSE st.av]

\* the logged projection of one register against the abstract table
RegVerdict(st, r, p) ==
    IF st.reg[r] = 0 THEN (IF p.live THEN "register_should_be_empty" ELSE "")
    ELSE IF ~p.live THEN "register_lost"
    ELSE LET t == TT(st, r)  g == p.table IN
         IF g.ragged THEN "not_rectangular"
         ELSE IF Range(g.cols) # ColSet(t) THEN "columns"
         ELSE IF g.rows # t.rows THEN "rows"
         ELSE IF g.len # NR(t) \/ g.shape # <<NR(t), Len(t.cols)>> THEN "len_or_shape"
         ELSE IF g.iter # t.rows THEN "iteration"
         ELSE IF g.cells # t.rows \/ g.bycol # t.rows THEN "cell_access"
         ELSE IF {s \in Regs : st.reg[s] = st.reg[r]} # Range(p.same) THEN "aliasing"
         ELSE ""
RECURSIVE FirstBad(_, _, _)
FirstBad(st, p, rs) == IF rs = <<>> THEN "" ELSE LET v == RegVerdict(st, Head(rs), p[Head(rs)]) IN IF v # "" THEN v ELSE FirstBad(st, p, Tail(rs))
RECURSIVE Run(_, _, _)
Run(st, events, k) ==
    IF k > Len(events) THEN ""
    ELSE LET e == events[k]  nx == Step(st, e) IN
         IF e.out # nx.out THEN "step" \o ToString(k) \o ":outcome"
         ELSE IF e.post.args # ObserveArgs(nx.av) THEN "step" \o ToString(k) \o ":argument_changed"     \* every object of the caller, after every call
         ELSE LET v == FirstBad(nx, e.post, <<"r1", "r2", "r3">>) IN
              IF v # "" THEN "step" \o ToString(k) \o ":" \o v ELSE Run([heap |-> nx.heap, reg |-> nx.reg, av |-> nx.av], events, k + 1)
Verdict(o) == Run(St0, o.events, 1)

Init == BatchInit
Next == BatchNext(Verdict)
=============================================================================
