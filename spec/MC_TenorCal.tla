---------------------------- MODULE MC_TenorCal ----------------------------
(* X05-b on the specification itself, and the generators for the replay into the code.           *)
(* Families of states (k), one behaviour each (a state and a "done" step; judged after the step): *)
(*   "mon"   a = a month 1..12: every spelling of it denotes it                                   *)
(*   "ym"    a = a month count -40..50                                                            *)
(*   "nth"   a = a month index year * 12 + month - 1: n-th weekday laws, mechanism = law          *)
(*   "num"   a = a day (ordinal): its spellings as a number; and the band borders                 *)
(*   "np"    a = a day: its spellings as numpy.datetime64 counts                                  *)
(*   "per"   a = index of a first character: the period grammar                                   *)
(*   "fmt"   a = a day: formats, what they write and what comes back                              *)
EXTENDS TenorCal, TLC, Json
CONSTANTS NthYears, Days, GenDays, GenFams

D == INSTANCE Dates      \* property C04: Denote(form, written integers, dialect) - reused, not copied

VARIABLES k, a, done
vars == <<k, a, done>>

\* days: around month ends, leap days and the turns of years, from before the spreadsheet epoch to beyond pandas' nanoseconds
DayMenu(Y) == {OrdOf(y, m, d) : y \in Y, m \in {1, 2, 3, 7, 12}, d \in {1, 13, 28}} \cup {OrdOf(y, 12, 31) : y \in Y} \cup {OrdOf(y, 3, 1) - 1 : y \in Y}
QuickDays       == DayMenu({1700, 1900, 1970, 1999, 2000, 2024, 2261, 2500}) \cup {Epoch + 13, Epoch + 347, Epoch + 348, SerialBase + 3001}
QuickGenDays    == DayMenu({1678, 1899, 1969, 1971, 2000, 2023, 2038, 2100, 2261, 2400})
ThoroughDays    == DayMenu({y \in 1600..2600 : y % 5 = 0} \cup 1895..1905 \cup 1995..2005 \cup 2255..2265)
ThoroughGenDays == DayMenu({y \in 1600..2600 : y % 7 = 0} \cup 1996..2004 \cup {1678, 1899, 1969, 1970, 1971, 2038, 2100, 2261, 2262})

Init == /\ done = FALSE
        /\ \/ k = "mon" /\ a \in 1..12
           \/ k = "ym"  /\ a \in -40..50
           \/ k = "nth" /\ a \in {y * 12 + m - 1 : y \in NthYears, m \in 1..12}
           \/ k = "num" /\ a \in Days
           \/ k = "np"  /\ a \in Days
           \/ k = "per" /\ a \in 1..8
           \/ k = "fmt" /\ a \in Days
Next == done = FALSE /\ done' = TRUE /\ UNCHANGED <<k, a>>
On(kk) == done /\ k = kk

\* ---- month -----------------------------------------------------------------------------------
Str(s) == <<"str", s>>
\* prefixes of the name from three letters on, in three cases, and with something after the three letters
NameSpellings(i) == LET nm == MonthNames[i] IN
    UNION {{Take(nm, n), UpperStr(Take(nm, n)), Cap(Take(nm, n))} : n \in 3..Len(nm)}
    \cup {Take(nm, 3) \o <<"x">>, Take(nm, 3) \o <<".">>, Cap(Take(nm, 3)) \o <<" ", "1">>}
CodeSpellings(i) == {<<FutCodes[i]>>, <<ToLower(FutCodes[i])>>}
MonthSpellings(i) == {<<"int", i>>, <<"float", i, 1>>} \cup {Str(s) : s \in NameSpellings(i) \cup CodeSpellings(i)}
NotMonths == {Str(<<>>), Str(<<"a">>), Str(<<"1">>), Str(<<"3">>), Str(<<"j","a">>), Str(<<"m","a">>), Str(<<"x","y","z">>), Str(<<"f","a","i","l">>),
              Str(<<"1","2">>), Str(<<" ","j","a","n">>), Str(<<"j","u","x">>), <<"float", 7, 2>>, <<"float", -1, 2>>, <<"nan">>, <<"inf", 1>>, <<"inf", -1>>,
              <<"other", "NoneType">>, <<"other", "dict">>, <<"other", "list">>}
MonthLaws == On("mon") =>
    /\ \A v \in MonthSpellings(a) : Month(v) = <<"ok", a>>
    /\ \A v \in NotMonths : Month(v) = Rejected
    /\ \A i \in 1..12 : (MonthAbbr(i) = MonthAbbr(a) <=> i = a) /\ (FutCodes[i] = FutCodes[a] <=> i = a)      \* no two months share a spelling
    /\ \A j \in -24..36 : Month(<<"int", j>>) = <<"ok", j>>                                                  \* integers are not normalised here
    /\ \A c \in 1..26 : (Pos(FutCodes, UpperAZ[c]) = 0) => Month(Str(<<LowerAZ[c]>>)) = Rejected /\ Month(Str(<<UpperAZ[c]>>)) = Rejected
YmLaws == On("ym") => \A y \in {1999, 2000} :
    LET r == YM(y, <<"int", a>>) IN
    /\ r[1] = "ok" /\ r[2][2] \in 1..12 /\ (r[2][1] - y) * 12 + r[2][2] = a            \* months are conserved
    /\ YM(y, <<"int", a + 12>>)[2] = <<r[2][1] + 1, r[2][2]>>                           \* twelve months are a year
    /\ (a \in 1..12 => r[2] = <<y, a>>)
    /\ (a \in 1..12 => \A v \in MonthSpellings(a) : YM(y, v) = r)
    /\ YM(y, Str(<<"x","y","z">>)) = Rejected

\* ---- n-th weekday ----------------------------------------------------------------------------
Ns == (-7..7) \ {0}
NthLaws == On("nth") =>
    LET y == a \div 12  m == (a % 12) + 1 IN
    /\ \A w \in 0..6 :
         LET c == Cardinality(DowIn(y, m, w)) IN
         /\ c \in {4, 5}
         /\ \A n \in Ns : LET o == NthDowLaw(y, m, n, w) IN
              /\ Weekday(o) = w
              /\ (o \in MonthDays(y, m) <=> (n <= c /\ 0 - n <= c))
              /\ NthDowMech(y, m, n, w) = o                                             \* mechanism = law
              /\ (n >= 1 /\ n < 7 => NthDowLaw(y, m, n + 1, w) = o + 7)
              /\ (n <= -1 /\ n > -7 => NthDowLaw(y, m, n - 1, w) = o - 7)
         /\ NthDowLaw(y, m, c, w) = NthDowLaw(y, m, -1, w) /\ NthDowLaw(y, m, 1, w) = NthDowLaw(y, m, 0 - c, w)
         /\ NthDowLaw(y, m, 1, w) - OrdOf(y, m, 1) \in 0..6
         /\ NthDowLaw(y, m, c + 1, w) = NthDowLaw(y, m + 1, 1, w)                       \* beyond the month = the first of the next month
         /\ NthDowLaw(y, m, 0 - c - 1, w) = NthDowLaw(y, m - 1, -1, w)
    /\ Cardinality(UNION {DowIn(y, m, w) : w \in 0..6}) = DIM(y, m)
    /\ \A mm \in {m - 12, m + 12} : NthDowLaw(y, mm, 2, 3) = NthDowLaw(y + (mm - m) \div 12, m, 2, 3)      \* months outside 1..12 are carried into the year

\* ---- numbers ---------------------------------------------------------------------------------
Yyyymmdd(o) == LET c == CivilOf(o) IN c[1] * 10000 + c[2] * 100 + c[3]
N(i) == <<"n", i, 0>>
Means(v, o, s, u) == NumDenote(v, 0) = <<"ok", o, s, u>>
NumLaws == On("num") =>
    \* every spelling of the day as a number denotes the day (where the band reaches it), and bands never overlap
    /\ (a - SerialBase > 3000 /\ a - SerialBase < 300000) => Means(N(a - SerialBase), a, 0, 0)
    /\ (a >= 300000 /\ a < 1095000) => Means(N(a), a, 0, 0)
    /\ LET c == CivilOf(a) IN (c[1] \in 1001..2999) => Means(N(Yyyymmdd(a)), a, 0, 0)
    /\ LET c == CivilOf(a) IN (c[1] \in 1501..3000 /\ c[2] = 1 /\ c[3] = 1) => Means(N(c[1]), a, 0, 0)
    /\ (a - Epoch >= 348 /\ a - Epoch < 24000) => /\ Means(<<"ts", a - Epoch, 0, 0>>, a, 0, 0)
                                                  /\ Means(N((a - Epoch) * 86400 + 3661), a, 3661, 0)
                                                  /\ NumDenote(N((a - Epoch) * 86400 + 3661), 0) = NumDenote(<<"ts", a - Epoch, 3661, 0>>, 0)
    \* a fraction is that part of a day (of a second for a timestamp)
    /\ (a >= 300000 /\ a < 1095000) => /\ Means(<<"n", a, 32>>, a, 43200, 0) /\ Means(<<"n", a, 63>>, a, 85050, 0) /\ Means(<<"n", a, 1>>, a, 1350, 0)
    /\ (a - Epoch >= 348) => Means(<<"ts", a - Epoch, 86399, 63>>, a, 86399, 984375)
    \* offsets count from the day of the call, both ways, and a negative fraction goes back in time
    /\ \A i \in {-1500, -1, 0, 1, 1500} : NumDenote(N(i), a) = <<"ok", a + i, 0, 0>>
    /\ NumDenote(<<"n", -2, -32>>, a) = <<"ok", a - 3, 43200, 0>> /\ NumDenote(<<"n", 0, -16>>, a) = <<"ok", a - 1, 64800, 0>>
\* the borders, and the anchors written in the documentation of dt()
NumBorders == On("num") =>
    /\ Band(1500) = "offset" /\ Band(1501) = "year" /\ Band(3000) = "year" /\ Band(3001) = "serial" /\ Band(299999) = "serial"
    /\ Band(300000) = "ordinal" /\ Band(1094999) = "ordinal" /\ Band(1095000) = "timestamp" /\ Band(10000101) = "timestamp"
    /\ Band(10000102) = "yyyymmdd" /\ Band(30001230) = "yyyymmdd" /\ Band(30001231) = "timestamp" /\ Band(-5) = "offset"
    /\ Means(N(20020301), OrdOf(2002, 3, 1), 0, 0) /\ Means(N(37316), OrdOf(2002, 3, 1), 0, 0) /\ Means(N(730180), OrdOf(2000, 3, 1), 0, 0)
    /\ Means(N(951868800), OrdOf(2000, 3, 1), 0, 0) /\ Means(N(2000), OrdOf(2000, 1, 1), 0, 0)
    /\ NumDenote(N(20001301), 0) = Undefined /\ NumDenote(N(20000230), 0) = Undefined
    /\ Epoch = OrdOf(1970, 1, 1) /\ SerialBase = OrdOf(1899, 12, 30)

\* ---- numpy.datetime64 ------------------------------------------------------------------------
NpLaws == On("np") =>
    LET c == CivilOf(a)  d == a - Epoch IN
    /\ NpDenote("D", <<d>>) = Ok5(a, 0, 0, 0)
    /\ (d % 7 = 0) => NpDenote("W", <<d \div 7>>) = Ok5(a, 0, 0, 0)
    /\ NpDenote("W", <<d \div 7>>)[2] \in (a - 6)..a /\ Weekday(NpDenote("W", <<d \div 7>>)[2]) = 3         \* weeks begin on Thursdays
    /\ NpDenote("M", <<(c[1] - 1970) * 12 + c[2] - 1>>) = Ok5(OrdOf(c[1], c[2], 1), 0, 0, 0)
    /\ NpDenote("Y", <<c[1] - 1970>>) = Ok5(OrdOf(c[1], 1, 1), 0, 0, 0)
    \* the same instant in a finer unit is the same instant; a coarser unit cannot spell it
    /\ \A s \in {0, 3600, 3660, 3661, 86399} :
         /\ NpDenote("s", <<d, s, 0>>) = Ok5(a, s, 0, 0)
         /\ NpDenote("ms", <<d, s, 0>>) = Ok5(a, s, 0, 0) /\ NpDenote("us", <<d, s, 0>>) = Ok5(a, s, 0, 0) /\ NpDenote("ns", <<d, s, 0>>) = Ok5(a, s, 0, 0)
         /\ (NpDenote("m", <<d, s, 0>>) # Undefined <=> s % 60 = 0) /\ (NpDenote("h", <<d, s, 0>>) # Undefined <=> s % 3600 = 0)
         /\ NpDenote("ms", <<d, s, 123>>) = NpDenote("us", <<d, s, 123000>>) /\ NpDenote("us", <<d, s, 123456>>) = NpDenote("ns", <<d, s, 123456000>>)
         /\ NpDenote("ns", <<d, s, 123456789>>) = Ok5(a, s, 123456, 789)
    /\ NpDenote("D", <<0>>) = Ok5(Epoch, 0, 0, 0) /\ NpDenote("s", <<-1, 86399, 0>>) = Ok5(Epoch - 1, 86399, 0, 0)

\* ---- period strings --------------------------------------------------------------------------
PerAlpha == <<"-", "+", "1", "0", "d", "M", "x", " ">>
Strs(n) == [1..n -> 1..Len(PerAlpha)]
AsStr(f) == [i \in DOMAIN f |-> PerAlpha[f[i]]]
\* a second wording of the grammar: some position holds a unit letter, and what stands before it is an optional sign and digits only
IsPeriod2(s) == \E p \in 2..Len(s) : /\ s[p] \in PeriodLetters
                                    /\ LET k0 == IF s[1] \in {"-", "+"} THEN 2 ELSE 1 IN k0 < p /\ \A i \in k0..(p - 1) : s[i] \in Digits
PeriodLaws == On("per") =>
    \A n \in 0..3 : \A f \in Strs(n) :
        LET s == <<PerAlpha[a]>> \o AsStr(f) IN
        /\ IsPeriod(s) = IsPeriod2(s)
        /\ IsPeriod(s) => \A x \in 1..Len(PerAlpha) : IsPeriod(s \o <<PerAlpha[x]>>)                      \* what follows does not matter
        /\ (s[1] \in Digits) => (IsPeriod(s) <=> IsPeriod(<<"-">> \o s)) /\ (IsPeriod(s) <=> IsPeriod(<<"+">> \o s))
        /\ (~\E i \in 1..Len(s) : s[i] \in Digits) => ~IsPeriod(s)
        /\ IsBump(<<"str", s>>) = IsPeriod(s)
BumpLaws == On("per") => /\ IsBump(<<"int", 1499>>) /\ ~IsBump(<<"int", 1500>>) /\ IsBump(<<"int", -100000>>) /\ IsBump(<<"timedelta">>)
                         /\ IsBump(<<"relativedelta">>) /\ ~IsBump(<<"other", "float">>) /\ ~IsBump(<<"other", "NoneType">>)
                         /\ ~IsPeriod(<<>>) /\ IsPeriod(<<"1", "d">>) /\ IsPeriod(<<"-", "2", "d", "4", "n">>) /\ ~IsPeriod(<<"d">>) /\ ~IsPeriod(<<"n", "o", "w">>)

\* ---- formats ---------------------------------------------------------------------------------
Tods == << <<0, 0, 0, 0>>, <<4, 5, 6, 7>>, <<23, 59, 59, 999999>>, <<12, 0, 30, 500000>>, <<0, 30, 0, 0>> >>
Civ(o, t) == LET c == CivilOf(o) IN <<c[1], c[2], c[3], t[1], t[2], t[3], t[4]>>
Layouts == [order : Orders, sep : Seps4, mon : {"m", "b", "B"}, time : {"", "HM", "HMS", "HMSf"}, join : {" ", "T"}]
Percent(s) == FoldLeft(LAMBDA acc, x : acc \o (IF x \in StrftimeLetters THEN <<"%", x>> ELSE <<x>>), <<>>, s)
RECURSIVE NumVal(_)
NumVal(s) == IF s = <<>> THEN 0 ELSE 10 * NumVal(SubSeq(s, 1, Len(s) - 1)) + (Pos(<<"0","1","2","3","4","5","6","7","8","9">>, s[Len(s)]) - 1)
\* what C04 calls the written integers of a numeric / iso string, from a layout and an instant
WrittenInts(L, c) == LET three == CASE L.order = "ymd" -> <<c[1], c[2], c[3]>> [] L.order = "dmy" -> <<c[3], c[2], c[1]>> [] L.order = "mdy" -> <<c[2], c[3], c[1]>>
                     IN  three \o (CASE L.time = "" -> <<>> [] L.time = "HMS" -> <<c[4], c[5], c[6]>> [] L.time = "HMSf" -> <<c[4], c[5], c[6], c[7]>>)
FormatLaws == On("fmt") => \A ti \in 1..Len(Tods) :
    LET c == Civ(a, Tods[ti]) IN
    \* no format: yyyymmdd for a day, the ISO string for an instant; '' and the one-character separators
    /\ Dt2Str(<<"none">>, c) = (IF ti = 1 THEN NumChars(c[1], 4) \o NumChars(c[2], 2) \o NumChars(c[3], 2) ELSE Dt2Str(<<"str", <<"i","s","o">>>>, c))
    /\ Dt2Str(<<"str", <<>>>>, c) = NumChars(Yyyymmdd(a), 8)
    /\ Dt2Str(<<"str", <<"-">>>>, c) = Dt2Str(<<"str", <<"Y","-","m","-","d">>>>, c)
    /\ Len(Dt2Str(<<"str", <<"i","s","o">>>>, c)) = (IF c[7] = 0 THEN 19 ELSE 26)
    \* numbers are written in full: reading the digits back gives the field
    /\ NumVal(SubSeq(Dt2Str(<<"str", <<"Y","m","d","H","M","S">>>>, c), 9, 14)) = c[4] * 10000 + c[5] * 100 + c[6]
    /\ Dt2Str(<<"str", <<"j">>>>, c) = NumChars(c[1], 4) \o <<"j">> \o NumChars(c[2], 2) \o <<"j">> \o NumChars(c[3], 2)      \* one character is a separator, never a field
    /\ NumVal(Dt2Str(<<"str", <<"%","j">>>>, c)) = a - OrdOf(c[1], 1, 1) + 1
    /\ \A L \in {LL \in Layouts : LL.sep = "-" \/ LL.order = "ymd"} :
         LET f == LayoutFormat(L) IN
         /\ LayoutOk(L) /\ FormatInDomain(<<"str", f>>, c)
         /\ Tokens(Percent(f)) = Tokens(f)                                                 \* the bare and the '%' way of writing a format
         /\ Dt2Str(<<"str", Percent(f)>>, c) = Dt2Str(<<"str", f>>, c)
         \* what comes back is what C04 says the written integers denote (numeric months, a time of day that C04 knows)
         /\ (L.mon = "m" /\ L.time # "HM" /\ c[1] \in D!FirstYear..D!LastYear) =>
               \A dl \in DialectsOf(L) : D!Denote(IF L.order = "ymd" THEN "iso_str" ELSE "numeric_str", WrittenInts(L, c), dl) = ReadBack(L, c)
         /\ (L.time = "HMSf") => ReadBack(L, c) = SpecialReadBack(<<"none">>, c)

\* ---- generators ------------------------------------------------------------------------------
Emit(x) == done = FALSE /\ done' = TRUE /\ UNCHANGED <<k, a>> /\ PrintT(ToJson(x))
\* (a LET-bound sequence indexed inside a function constructor is evaluated again for every index: map with the
\* iterative FoldLeft instead, which evaluates the sequence once)
MapS(F(_), seq) == FoldLeft(LAMBDA acc, x : Append(acc, F(x)), <<>>, seq)
Count(n) == [i \in 1..n |-> i]
NsSeq == <<-7, -6, -5, -4, -3, -2, -1, 1, 2, 3, 4, 5, 6, 7>>
GenInit == /\ done = FALSE /\ k \in GenFams
           /\ \/ k = "gmon"  /\ a \in 0..12
              \/ k = "gnth"  /\ a \in {y * 14 + m : y \in NthYears, m \in 0..13}
              \/ k = "gnum"  /\ a \in GenDays
              \/ k = "gnumb" /\ a = 0
              \/ k = "gnp"   /\ a \in GenDays
              \/ k = "gper"  /\ a \in 1..Len(PerAlpha)
              \/ k = "gfmt"  /\ a \in GenDays
\* months: every spelling of month a (a = 0: the things that are not months, and integers), for month() and for ym()
GenMon == LET vs == SetToSeq(IF a = 0 THEN NotMonths \cup {<<"int", j>> : j \in -24..36} \cup {<<"float", j, 1>> : j \in {-13, 0, 13, 25}}
                                      ELSE MonthSpellings(a)) IN
          Emit([k |-> "mon", cases |-> MapS(LAMBDA v : [v |-> v, month |-> Month(v), ym |-> [j \in 1..3 |-> YM(<<1999, 2000, 2001>>[j], v)]], vs)])
\* n-th weekday: month m of year y (also the months 0 and 13), every n and weekday; the month and the weekday are
\* spelled in each of their spellings in turn
WdSpellings(w) == LET nm == WdNames[w + 1] IN <<Take(nm, 3), nm, UpperStr(Take(nm, 3)), Cap(nm), Cap(Take(nm, 4))>>
GenNth ==
    LET y == a \div 14  m == a % 14
        sp == IF m \in 1..12 THEN SetToSeq(MonthSpellings(m)) ELSE << <<"int", m>> >>
        nsp == Len(sp)
        cases == MapS(LAMBDA i :
                    LET n  == NsSeq[((i - 1) \div 7) + 1]  w == (i - 1) % 7
                        mv == IF nsp = 1 THEN <<"int", m>> ELSE SetToSeq(MonthSpellings(m))[((i + a) % nsp) + 1]
                        ws == WdSpellings(w)[((i + a) % 5) + 1]
                    IN  [n |-> n, mv |-> mv, ws |-> ws, want |-> NthDow(y, mv, n, ws)], Count(98))
    IN  Emit([k |-> "nth", y |-> y, m |-> m, cases |-> cases])
\* numbers: the spellings of day a, with times of day and fractions; and (gnumb) the numbers around the borders of the bands
NumCase(v) == [v |-> v, want |-> NumDenote(v, 0)]
FkMenu == <<0, 1, 16, 32, 63>>
GenNum ==
    LET c  == CivilOf(a)  fk == FkMenu[(a % 5) + 1]  s == <<0, 1, 3661, 43200, 86399>>[((a \div 5) % 5) + 1]
        vs == (IF a - SerialBase > 3000 /\ a - SerialBase < 300000 THEN << <<"n", a - SerialBase, 0>>, <<"n", a - SerialBase, fk>> >> ELSE <<>>)
              \o (IF a >= 300000 /\ a < 1095000 THEN << <<"n", a, 0>>, <<"n", a, fk>> >> ELSE <<>>)
              \o (IF c[1] \in 1001..2999 THEN << <<"n", Yyyymmdd(a), 0>>, <<"n", Yyyymmdd(a), fk>> >> ELSE <<>>)
              \o (IF c[1] \in 1501..3000 THEN << <<"n", c[1], 0>>, <<"n", c[1], fk>> >> ELSE <<>>)
              \o (IF a - Epoch >= 348 THEN << <<"ts", a - Epoch, s, 0>>, <<"ts", a - Epoch, s, fk>> >> ELSE <<>>)
              \o (IF a - Epoch >= 13 /\ a - Epoch < 24000 THEN << <<"n", (a - Epoch) * 86400 + s, fk>> >> ELSE <<>>)
    IN  Emit([k |-> "num", day |-> a, cases |-> [i \in 1..Len(vs) |-> NumCase(vs[i])]])
Borders == <<1501, 1502, 2999, 3000, 3001, 3002, 299998, 299999, 300000, 300001, 1094998, 1094999, 1095000, 1095001,
             10000100, 10000101, 10000102, 10000103, 30001229, 30001230, 30001231, 30001232, 2147483647,
             20020301, 37316, 730180, 951868800, 2000, 19000101, 22991231, 20000229, 21000228>>
GenNumB == Emit([k |-> "num", day |-> 0, cases |-> [i \in 1..(2 * Len(Borders)) |->
                    NumCase(<<"n", Borders[((i - 1) \div 2) + 1], IF i % 2 = 1 THEN 0 ELSE 32>>)]])
\* numpy: day a in every unit (the units that cannot spell a time of day get the day, the week, the month, the year of it)
NpCase(u, c) == [u |-> u, c |-> c, want |-> NpDenote(u, c)]
GenNp ==
    LET c == CivilOf(a)  d == a - Epoch
        s == <<0, 3600, 3660, 3661, 86399>>[(a % 5) + 1]
        vs == << NpCase("D", <<d>>), NpCase("W", <<d \div 7>>), NpCase("M", <<(c[1] - 1970) * 12 + c[2] - 1>>), NpCase("Y", <<c[1] - 1970>>),
                 NpCase("h", <<d, s - (s % 3600), 0>>), NpCase("m", <<d, s - (s % 60), 0>>), NpCase("s", <<d, s, 0>>),
                 NpCase("ms", <<d, s, 0>>), NpCase("ms", <<d, s, 999>>), NpCase("us", <<d, s, 1>>), NpCase("us", <<d, s, 999999>>) >>
              \o (IF c[1] \in 1678..2261 THEN << NpCase("ns", <<d, s, 0>>), NpCase("ns", <<d, s, 123456789>>), NpCase("ns", <<d, s, 999999000>>) >> ELSE <<>>)
    IN  Emit([k |-> "np", day |-> a, cases |-> vs])
\* periods: every string of at most four characters of the alphabet that begins with character a (and the empty string)
GenPer ==
    LET ss == SetToSeq(UNION {{<<PerAlpha[a]>> \o AsStr(f) : f \in Strs(n)} : n \in 0..3} \cup (IF a = 1 THEN {<<>>} ELSE {}))
    IN  Emit([k |-> "per", cases |-> MapS(LAMBDA x : [s |-> x, period |-> IsPeriod(x), bump |-> IsBump(<<"str", x>>)], ss)])
\* formats: day a at one time of the menu; a quarter of the layouts in turn, written bare or with '%'; the special
\* spellings; and formats that are only written, never read back
FmtCase(f, c) == [fmt |-> f, want |-> Dt2Str(f, c), back |-> SpecialReadBack(f, c), dls |-> <<"uk", "us">>]
OneWay == << <<"y","-","b">>, <<"B"," ","Y">>, <<"%","j">>, <<"a"," ","d"," ","b"," ","Y">>, <<"A",","," ","d"," ","B"," ","Y">>, <<"I",":","M"," ","p">>,
             <<"%","w">>, <<"Y","m","d","H","M","S">>, <<"d","-","b","-","y">>, <<"%","d","/","%","m","/","%","Y">>, <<"H",":","M">>, <<"Y","m">>,
             <<"_">>, <<":">>, <<"i","s","O">>, <<"[","Y","]"," ","j","/","w">> >>
GenFmt ==
    LET c   == Civ(a, Tods[(a % Len(Tods)) + 1])
        Ls  == SetToSeq({L \in Layouts : L.time # "" \/ L.join = " "})
        sel == SelectSeq([i \in 1..Len(Ls) |-> <<i, Ls[i]>>], LAMBDA p : (p[1] + a) % 4 = 0)
        lay == MapS(LAMBDA p :
                   LET L == p[2]  f == IF (p[1] + a) % 8 = 0 THEN Percent(LayoutFormat(L)) ELSE LayoutFormat(L) IN
                   [fmt |-> <<"str", f>>, want |-> Dt2Str(<<"str", f>>, c), back |-> ReadBack(L, c), dls |-> SetToSeq(DialectsOf(L))], sel)
        spc == << FmtCase(<<"none">>, c), FmtCase(<<"str", <<>>>>, c), FmtCase(<<"str", <<"i","s","o">>>>, c) >>
               \o [i \in 1..4 |-> FmtCase(<<"str", <<SetToSeq(Seps4)[i]>>>>, c)]
               \o MapS(LAMBDA f : FmtCase(<<"str", f>>, c), OneWay)
    IN  Emit([k |-> "fmt", c |-> c, cases |-> lay \o spc])
GenNext == CASE k = "gmon" -> GenMon [] k = "gnth" -> GenNth [] k = "gnum" -> GenNum [] k = "gnumb" -> GenNumB
             [] k = "gnp" -> GenNp [] k = "gper" -> GenPer [] k = "gfmt" -> GenFmt
=============================================================================
