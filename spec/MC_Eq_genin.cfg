CONSTANTS Wide = FALSE
          Nest = FALSE
INIT InitIn
NEXT EvalInGen
