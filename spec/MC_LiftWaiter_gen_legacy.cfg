\* the legacy kind of awaitable (generator-based coroutines), kept apart from the verdict: see props/c19.py
CONSTANTS Menu = "legacy"
          Trees <- TreeMenu
          V <- Vals
          Concurrent = TRUE
INIT Init
NEXT NextGen
