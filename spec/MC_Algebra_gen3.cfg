CONSTANTS MaxLen = 3
          MaxLenX = 3
INIT InitGenCall
NEXT GenCall
