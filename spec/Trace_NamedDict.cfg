INIT Init
NEXT Next
