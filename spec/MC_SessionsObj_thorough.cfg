CONSTANTS NHol = 4
          NWk = 3
          NSess = 4
          QDays = {0, 1, 2, 3, 4, 5, 6}
          QSecs = {0, 46799, 46800, 46801, 81000, 86399}
          Depth = 0
          KeepHist = FALSE
          AskMod = 1
INIT Init
NEXT Next
INVARIANT MechanismIgnoresHistory
INVARIANT SameAsFresh
INVARIANT TableOnlyFromBuild
PROPERTY QueriesArePure
PROPERTY BuildKeepsConfig
PROPERTY EditsKeepTable
