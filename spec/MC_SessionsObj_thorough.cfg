CONSTANTS NHol = 4
          NWk = 3
          NSess = 4
          QDays = {1, 2, 3, 4, 5}
          QSecs = {46799, 46800, 46801, 81000}
          Depth = 0
          KeepHist = FALSE
          AskMod = 1
INIT Init
NEXT Next
INVARIANT MechanismIgnoresHistory
INVARIANT SameAsFresh
INVARIANT TableOnlyFromBuild
PROPERTY QueriesArePure
PROPERTY BuildKeepsConfig
PROPERTY EditsKeepTable
