CONSTANTS Wide = TRUE
          Nest = FALSE
INIT InitIn
NEXT EvalInGen
