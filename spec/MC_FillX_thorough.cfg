CONSTANTS MaxLenX = 4
          MaxRowsX = 2
          MaxLenL = 5
          MaxRowsL = 3
          MaxListX = 2
          MaxListL = 2
          LimsX = {0, 1}
          SpecialsX <- SpecialsAll
          NonaCells <- NonaCellsAll
          LabelKinds = {"dup", "same", "rev", "mixed", "gaps"}
          AllSpells = TRUE
          Emit = TRUE
INIT Init
NEXT Next
INVARIANT XValueBlind
INVARIANT XNonNaNKept
INVARIANT XSpecialFromNeighbour
INVARIANT XSpecialIsObservation
INVARIANT XSpecialRowStays
INVARIANT XLabelBlind
INVARIANT XLabelShape
INVARIANT XNonaExact
INVARIANT XNonaCells
INVARIANT XNonaNaN
INVARIANT XNonaAbsent
INVARIANT XNonaZero
INVARIANT XNonaEdge
INVARIANT XFewOutcomes
