---------------------------- MODULE DictableOps ----------------------------
(* Property C01, the list-of-records model: what every public dictable call does to a table.     *)
(* Pure operators on abstract tables (Table.tla); the session state machine that uses them is    *)
(* Dictable.tla, the trace specification for recorded histories Trace_Dictable.tla.              *)
EXTENDS Table, TLC, SequencesExt, FiniteSetsExt

Regs == {"r1", "r2", "r3"}
NextReg(r) == CASE r = "r1" -> "r2" [] r = "r2" -> "r3" [] r = "r3" -> "r1"
V1 == VInt(1)  V2 == VInt(2)  VX == VStr("x")
Tbl(cols, rows) == [cols |-> cols, rows |-> rows]
EmptyT == Tbl(<<>>, <<>>)
\* number of rows as len() sees it: a table without columns has none
NR(t) == IF t.cols = <<>> THEN 0 ELSE Len(t.rows)
Ok(t) == [ok |-> TRUE, t |-> t, err |-> "ok"]
Err(e) == [ok |-> FALSE, t |-> EmptyT, err |-> e]
ColVals(t, c) == [i \in 1..Len(t.rows) |-> t.rows[i][c]]
HasCol(t, c) == c \in ColSet(t)

\* ---- constructors -----------------------------------------------------------------------------
\* a column argument is <<"s", v>> (a scalar) or <<"l", seq>> (a list)
ArgLen(a) == IF a[1] = "s" THEN 1 ELSE Len(a[2])
ArgAt(a, i, n) == IF a[1] = "s" THEN a[2] ELSE IF Len(a[2]) = 1 THEN a[2][1] ELSE a[2][i]
\* dictable(a = ..., b = ...): scalars and length-1 lists broadcast; two different lengths other than 1: ValueError
FromCols(cols, args) ==
    LET ls == {ArgLen(args[k]) : k \in 1..Len(args)} \ {1} IN
    IF Cardinality(ls) > 1 THEN Err("ValueError")
    ELSE LET n == IF cols = <<>> THEN 0 ELSE IF ls = {} THEN 1 ELSE CHOOSE x \in ls : TRUE IN
         Ok(Tbl(cols, [i \in 1..n |-> [c \in Range(cols) |-> ArgAt(args[CHOOSE k \in 1..Len(cols) : cols[k] = c], i, n)]]))
\* dictable([record, ...]): the union of the keys, None where a record lacks one
RecCols(recs) == UNION {{recs[i][k][1] : k \in 1..Len(recs[i])} : i \in 1..Len(recs)}
RecGet(rec, c) == IF \E k \in 1..Len(rec) : rec[k][1] = c THEN rec[CHOOSE k \in 1..Len(rec) : rec[k][1] = c][2] ELSE None
FromRecords(recs) == LET cs == SetToSeq(RecCols(recs)) IN
                     Ok(Tbl(IF recs = <<>> THEN <<>> ELSE cs, [i \in 1..(IF cs = <<>> THEN 0 ELSE Len(recs)) |-> [c \in RecCols(recs) |-> RecGet(recs[i], c)]]))
\* dictable(rows, headers)
FromRows(rows, hdrs) == Ok(Tbl(hdrs, [i \in 1..Len(rows) |-> [c \in Range(hdrs) |-> rows[i][CHOOSE k \in 1..Len(hdrs) : hdrs[k] = c]]]))

Seeds == {
    [kind |-> "cols", cols |-> <<>>, args |-> <<>>],                                                            \* dictable()
    [kind |-> "rows", hdrs |-> <<"a", "b">>, rows |-> <<>>],                                                      \* dictable([], ['a','b'])
    [kind |-> "cols", cols |-> <<"a", "b">>, args |-> <<<<"l", <<V1, V2>>>>, <<"l", <<VX, None>>>>>>],            \* two rows
    [kind |-> "cols", cols |-> <<"a", "b">>, args |-> <<<<"s", V1>>, <<"l", <<V1, V2, None>>>>>>],                \* scalar broadcast
    [kind |-> "cols", cols |-> <<"a", "b">>, args |-> <<<<"l", <<V2>>>>, <<"l", <<V1, None>>>>>>],                \* length-1 list broadcast
    [kind |-> "cols", cols |-> <<"a", "b">>, args |-> <<<<"l", <<V1, V2>>>>, <<"l", <<V1, V2, VX>>>>>>],          \* lengths 2 and 3: rejected
    [kind |-> "cols", cols |-> <<"a", "c">>, args |-> <<<<"l", <<>>>>, <<"s", VX>>>>],                            \* empty list and a scalar: no rows
    [kind |-> "cols", cols |-> <<"a">>, args |-> <<<<"s", None>>>>],                                             \* one row holding None
    [kind |-> "recs", recs |-> <<<<<<"a", V1>>>>, <<<<"b", VX>>>>>>],                                            \* records with different keys
    [kind |-> "recs", recs |-> <<<<<<"a", V2>>, <<"b", None>>>>, <<<<"a", V2>>, <<"b", V1>>>>, <<<<"b", V1>>, <<"a", VX>>>>>>],
    [kind |-> "rows", hdrs |-> <<"a", "c">>, rows |-> <<<<V1, V2>>, <<None, VX>>>>],                              \* rows + headers
    [kind |-> "cols", cols |-> <<"key", "a">>, args |-> <<<<"l", <<VX, V2>>>>, <<"l", <<V1, None>>>>>>]             \* a column called 'key'
}
Construct(s) == CASE s.kind = "cols" -> FromCols(s.cols, s.args)
                  [] s.kind = "recs" -> FromRecords(s.recs)
                  [] s.kind = "rows" -> FromRows(s.rows, s.hdrs)

\* ---- in place ---------------------------------------------------------------------------------
\* d[c] = value: fits iff its length is the table's, or 1 (broadcast), or the table has no columns yet
SetColT(t, c, a) ==
    LET n == NR(t)  k == ArgLen(a) IN
    IF t.cols = <<>> THEN Ok(Tbl(<<c>>, [i \in 1..k |-> [cc \in {c} |-> ArgAt(a, i, k)]]))
    ELSE IF k = n \/ k = 1
         THEN Ok(Tbl(IF HasCol(t, c) THEN t.cols ELSE Append(t.cols, c),
                     [i \in 1..n |-> [cc \in ColSet(t) \cup {c} |-> IF cc = c THEN ArgAt(a, i, n) ELSE t.rows[i][cc]]]))
         ELSE Err("ValueError")
DelColT(t, c) == IF ~HasCol(t, c) THEN Err("KeyError")
                 ELSE LET cs == SelectSeq(t.cols, LAMBDA x : x # c) IN
                      Ok(Tbl(cs, IF cs = <<>> THEN <<>> ELSE [i \in 1..Len(t.rows) |-> [cc \in Range(cs) |-> t.rows[i][cc]]]))
\* d.update(mapping): the assignments one after the other; a rejected one stops the call and keeps the earlier ones
RECURSIVE UpdateT(_, _, _)
UpdateT(t, items, k) == IF k > Len(items) THEN Ok(t)
                        ELSE LET r == SetColT(t, items[k][1], items[k][2]) IN
                             IF r.ok THEN UpdateT(r.t, items, k + 1) ELSE [ok |-> FALSE, t |-> t, err |-> r.err]

\* ---- allocating -------------------------------------------------------------------------------
SubRows(t, idx) == Tbl(t.cols, [k \in 1..Len(idx) |-> t.rows[idx[k]]])      \* idx: 1-based row numbers
SliceIdx(n, sl) == CASE sl = "first" -> [k \in 1..(IF n > 0 THEN 1 ELSE 0) |-> 1]                \* d[0:1]
                     [] sl = "tail"  -> [k \in 1..(IF n > 0 THEN n - 1 ELSE 0) |-> k + 1]          \* d[1:]
                     [] sl = "even"  -> [k \in 1..((n + 1) \div 2) |-> 2 * k - 1]                  \* d[::2]
                     [] sl = "last"  -> [k \in 1..(IF n > 0 THEN 1 ELSE 0) |-> n]                  \* d[-1:]
                     [] sl = "none"  -> <<>>                                                      \* d[:0]
                     [] sl = "rev"   -> [k \in 1..n |-> n + 1 - k]                                \* d[::-1]
SliceT(t, sl) == Ok(SubRows(t, SliceIdx(NR(t), sl)))
MaskOf(n, m) == CASE m = "all" -> [i \in 1..n |-> TRUE] [] m = "nothing" -> [i \in 1..n |-> FALSE] [] m = "odd" -> [i \in 1..n |-> i % 2 = 1]
MaskT(t, m) == LET mk == MaskOf(NR(t), m) IN Ok(SubRows(t, SelectSeq([i \in 1..NR(t) |-> i], LAMBDA i : mk[i])))
\* d[[i, j, ...]] with 0-based, possibly negative positions
TakeT(t, pos) == IF \E k \in 1..Len(pos) : pos[k] >= NR(t) \/ pos[k] < -NR(t) THEN Err("IndexError")
                 ELSE Ok(SubRows(t, [k \in 1..Len(pos) |-> IF pos[k] >= 0 THEN pos[k] + 1 ELSE NR(t) + pos[k] + 1]))
ProjectT(t, cs) == IF \E k \in 1..Len(cs) : ~HasCol(t, cs[k]) THEN Err("KeyError")
                   ELSE Ok(Tbl(cs, [i \in 1..Len(t.rows) |-> [cc \in Range(cs) |-> t.rows[i][cc]]]))
\* functions of the menus (the driver holds the matching Python lambdas)
IntPair(u, v) == Tag(u) = "i" /\ Tag(v) = "i"
FnApply(f, row) == CASE f = "copy_a"   -> row.a                                        \* lambda a: a
                     [] f = "a_or_2"   -> IF IsNone(row.a) THEN V2 ELSE row.a            \* lambda a: 2 if a is None else a
                     [] f = "const_x"  -> VX                                             \* lambda: 'x'
                     [] f = "copy_key" -> row.key                                        \* lambda key: key   (a column that is called 'key')
                     [] f = "copy_c"   -> row.c                                          \* lambda c: c
                     [] f = "a_plus_b" -> IF IntPair(row.a, row.b) THEN VInt((Pay(row.a) + Pay(row.b)) % 100) ELSE None   \* a function of two columns
FnNeeds(f) == CASE f = "const_x" -> {} [] f = "copy_key" -> {"key"} [] f = "copy_c" -> {"c"} [] f = "a_plus_b" -> {"a", "b"} [] OTHER -> {"a"}
\* d(c = f): a new table with the derived column
DeriveT(t, c, f) == IF NR(t) > 0 /\ ~(FnNeeds(f) \subseteq ColSet(t)) THEN Err("TypeError")
                    ELSE IF t.cols = <<>> THEN Ok(Tbl(<<c>>, <<>>))
                    ELSE Ok(Tbl(IF HasCol(t, c) THEN t.cols ELSE Append(t.cols, c),
                                [i \in 1..NR(t) |-> [cc \in ColSet(t) \cup {c} |-> IF cc = c THEN FnApply(f, t.rows[i]) ELSE t.rows[i][cc]]]))
\* d(c = f, c2 = g) where c is a column the table does not have yet and g reads c: whatever the order of the keywords, the only
\* reading on records is "c first, then c2 from the record that has c" (with c already there, old-or-new c would be open: left out)
DerivePairT(t, c, f, c2, g) == LET r1 == DeriveT(t, c, f) IN IF r1.ok THEN DeriveT(r1.t, c2, g) ELSE r1

\* per-column transforms d.do(f, *cols) / d.do([f, g, ...], *cols).  The first parameter of a function is the cell that is
\* transformed, every further parameter NAMES A COLUMN and receives that field of the same record.  On a list of records the call is
\* record by record: for each column in the order given, for each function in the order given, rec[col] = f(rec[col], rec[extras]);
\* a record has one state only, so an extra parameter naming a column transformed earlier in the call sees the NEW value.
DoFnExtras(f) == CASE f = "add_a" -> {"a"} [] f = "or_b" -> {"b"} [] OTHER -> {}
DoFnApply(f, v, rec) == CASE f = "none0" -> IF IsNone(v) THEN VInt(0) ELSE v                                  \* lambda value: 0 if value is None else value
                          [] f = "add_a" -> IF IntPair(v, rec.a) THEN VInt((Pay(v) + Pay(rec.a)) % 100) ELSE v   \* lambda value, a: (value + a) % 100 if both are ints else value
                          [] f = "or_b"  -> IF IsNone(v) THEN rec.b ELSE v                                      \* lambda value, b: b if value is None else value
DoPlan(keys, fs) == [k \in 1..(Len(keys) * Len(fs)) |-> <<keys[((k - 1) \div Len(fs)) + 1], fs[((k - 1) % Len(fs)) + 1]>>]
RECURSIVE DoOnRec(_, _, _)
DoOnRec(rec, steps, k) == IF k > Len(steps) THEN rec
                        ELSE DoOnRec([rec EXCEPT ![steps[k][1]] = DoFnApply(steps[k][2], rec[steps[k][1]], rec)], steps, k + 1)
DoCellOnly(fs) == \A j \in 1..Len(fs) : DoFnExtras(fs[j]) = {}
\* cs = <<>>: no columns named = all columns (the session machine uses that form only with functions of the cell alone, the
\* order of "all columns" is not part of the model)
DoT(t, fs, cs) == LET keys == IF cs = <<>> THEN t.cols ELSE cs IN
                  IF \E k \in 1..Len(cs) : ~HasCol(t, cs[k]) THEN Err("KeyError")
                  ELSE IF NR(t) > 0 /\ keys # <<>> /\ \E j \in 1..Len(fs) : ~(DoFnExtras(fs[j]) \subseteq ColSet(t)) THEN Err("TypeError")
                  ELSE Ok(Tbl(t.cols, [i \in 1..Len(t.rows) |-> DoOnRec(t.rows[i], DoPlan(keys, fs), 1)]))
\* d - c, d - [c, ...]: a new table without these columns; names the table does not have are ignored
MinusColsT(t, cs) == LET keep == SelectSeq(t.cols, LAMBDA x : x \notin Range(cs)) IN
               Ok(Tbl(keep, IF keep = <<>> THEN <<>> ELSE [i \in 1..Len(t.rows) |-> [cc \in Range(keep) |-> t.rows[i][cc]]]))
\* d.relabel(c = c2) onto a fresh name
RenameT(t, c, c2) == IF ~HasCol(t, c) THEN Ok(t)
                     ELSE Ok(Tbl([k \in 1..Len(t.cols) |-> IF t.cols[k] = c THEN c2 ELSE t.cols[k]],
                                 [i \in 1..Len(t.rows) |-> [cc \in (ColSet(t) \ {c}) \cup {c2} |-> IF cc = c2 THEN t.rows[i][c] ELSE t.rows[i][cc]]]))
\* d.relabel(a = 'b', b = 'a'): renames are simultaneous, so a swap is a swap
SwapT(t, c, c2) == IF ~(HasCol(t, c) /\ HasCol(t, c2)) THEN Ok(t)
                   ELSE Ok(Tbl([k \in 1..Len(t.cols) |-> IF t.cols[k] = c THEN c2 ELSE IF t.cols[k] = c2 THEN c ELSE t.cols[k]],
                               [i \in 1..Len(t.rows) |-> [cc \in ColSet(t) |-> IF cc = c THEN t.rows[i][c2] ELSE IF cc = c2 THEN t.rows[i][c] ELSE t.rows[i][cc]]]))
\* concatenation: rows of t then rows of u, the union of the columns, None where a side lacks one
ConcatT(t, u) == LET cs == t.cols \o SelectSeq(u.cols, LAMBDA x : x \notin ColSet(t))
                     pad(r, have) == [cc \in Range(cs) |-> IF cc \in have THEN r[cc] ELSE None] IN
                 Ok(Tbl(cs, IF cs = <<>> THEN <<>> ELSE
                            [i \in 1..NR(t) |-> pad(t.rows[i], ColSet(t))] \o [i \in 1..NR(u) |-> pad(u.rows[i], ColSet(u))]))
RecordT(rec) == Tbl([k \in 1..Len(rec) |-> rec[k][1]], <<[cc \in {rec[k][1] : k \in 1..Len(rec)} |-> RecGet(rec, cc)]>>)

\* ---- the caller's own argument objects -----------------------------------------------------------
\* A session does not only hold tables: the caller keeps plain Python objects and hands THE SAME object to several calls
\* (or to two parameters of one call).  The law for all of them: a call owns nothing of the caller - after every call each
\* argument object is what it was before, and a call sees the object as it is at that moment (no memory of earlier calls).
\*    m    a dict of columns  {name: scalar | list}   dictable(m), dictable(m, **kw), d.update(m), d(**m)
\*    rn   a dict of renames  {old: new}              d.relabel(rn), d.rename(rn), d.relabel(rn, **kw)
\*    recs a list of records  [{name: value}]         dictable(recs), d + recs, d += recs, d + recs[0]
\*    L    a list of values                           d[c] = L, dictable(a = L, b = L), d(c = L)
\*    cs   a list of column names                     d[cs], d - cs, d -= cs, d.do(f, cs), dictable(rows, cs)
\*    ix   a list of row positions                    d[ix]
\* lg: L has been handed over as a column (the library keeps a fitting list as the column itself, like a dict of lists would;
\* what the caller does to that list afterwards is not a table operation, so the caller's edits of L stop there)
ArgNames == {"m", "rn", "recs", "L", "cs", "ix"}
World(m, rn, recs, L, cs, ix) == [m |-> m, rn |-> rn, recs |-> recs, L |-> L, cs |-> cs, ix |-> ix, lg |-> FALSE]
NoArgs == World(<<>>, <<>>, <<>>, <<>>, <<>>, <<>>)
W0 == World(<<<<"a", <<"l", <<V1, V2>>>>>>, <<"b", <<"s", VX>>>>>>, <<<<"a", "d">>>>, <<<<<<"a", V2>>>>, <<<<"c", VX>>, <<"a", None>>>>>>,
            <<V1, V2>>, <<"b", "a">>, <<-1, 0>>)
Worlds == {W0,
           \* a one-row mapping (every length is 1: the broadcast base), a swap, one record, a three-long list, one name, one position
           World(<<<<"a", <<"s", V1>>>>, <<"c", <<"l", <<VX>>>>>>>>, <<<<"a", "b">>, <<"b", "a">>>>, <<<<<<"b", V1>>, <<"a", VX>>>>>>, <<VX, None, V1>>, <<"a">>, <<0>>),
           \* a mapping whose lengths do not fit, a rename of a column few tables have, no records, an empty list, an absent name
           World(<<<<"c", <<"l", <<V1, V2, VX>>>>>>, <<"a", <<"l", <<V1, V2>>>>>>>>, <<<<"key", "k">>, <<"b", "y">>>>, <<>>, <<>>, <<"a", "e">>, <<1, 1>>),
           \* an empty mapping, an empty rename, two records with the same keys, a one-long list
           World(<<>>, <<>>, <<<<<<"a", V1>>, <<"b", V2>>>>, <<<<"a", None>>, <<"b", VX>>>>>>, <<V2>>, <<"c", "b">>, <<0, -1, 0>>)}
ObserveArgs(w) == [k \in ArgNames |-> w[k]]
\* the caller's own actions (new objects for all names; edits in place) and the calls that take the list L as a column
CallerOps == {"Bind", "MapSet", "MapDel", "RnSet", "RnDel", "RecsAppend", "RecSet", "LAppend", "CsAppend", "CsPop", "IxAppend"}
GivesL == {"NewColsL", "SetColL", "DeriveConstL"}
MapCols(m) == [k \in 1..Len(m) |-> m[k][1]]
MapArgs(m) == [k \in 1..Len(m) |-> m[k][2]]
MapKeys(m) == {m[k][1] : k \in 1..Len(m)}
MapPut(m, c, a) == IF c \in MapKeys(m) THEN [k \in 1..Len(m) |-> IF m[k][1] = c THEN <<c, a>> ELSE m[k]] ELSE Append(m, <<c, a>>)
MapDrop(m, c) == SelectSeq(m, LAMBDA p : p[1] # c)
NoDup(s) == Cardinality(Range(s)) = Len(s)
\* dictable(m, **kw): the columns of the mapping and the keyword columns together (names of kw not in m: which one wins is not pinned down)
FromMapKw(m, kw) == FromCols(MapCols(m) \o MapCols(kw), MapArgs(m) \o MapArgs(kw))
\* dictable(d, **kw): the columns of the table d as lists, and the keyword columns, under the construction rule (length-1 broadcast)
FromTableKw(t, kw) == FromCols(t.cols \o MapCols(kw), [k \in 1..Len(t.cols) |-> <<"l", ColVals(t, t.cols[k])>>] \o MapArgs(kw))
\* dictable(rows, cs) with the caller's list of names as headers: two rows made up from the number of names
RowsFor(cs) == [i \in 1..2 |-> [k \in 1..Len(cs) |-> IF (i + k) % 2 = 0 THEN V1 ELSE VX]]
\* d.relabel(mapping [, **keywords]): all renames at once; columns the table does not have are ignored.  Domain: no two columns
\* end up under one name (RenameFits)
RenTo(pairs, c) == IF c \in MapKeys(pairs) THEN pairs[CHOOSE k \in 1..Len(pairs) : pairs[k][1] = c][2] ELSE c
RenameFits(t, pairs) == \A c1 \in ColSet(t), c2 \in ColSet(t) : RenTo(pairs, c1) = RenTo(pairs, c2) => c1 = c2
RenameManyT(t, pairs) == Ok(Tbl([k \in 1..Len(t.cols) |-> RenTo(pairs, t.cols[k])],
                                [i \in 1..Len(t.rows) |-> [cc \in {RenTo(pairs, c) : c \in ColSet(t)} |-> t.rows[i][CHOOSE c \in ColSet(t) : RenTo(pairs, c) = cc]]]))
\* d(**m) with plain values: the assignments of d.update(m) on a new table, all or nothing
AssignAllT(t, items) == LET r == UpdateT(t, items, 1) IN IF r.ok THEN r ELSE Err(r.err)

\* ---- general arguments (used by the trace specification for recorded random histories) -----------
\* Python's slice semantics for d[lo:hi:step]; an absent bound is <<0, 0>>, a given one <<1, v>>
Clamp(v, a, b) == IF v < a THEN a ELSE IF v > b THEN b ELSE v
PySliceIdx(n, lo, hi, step) ==
    IF step > 0 THEN
        LET l0 == IF lo[1] = 0 THEN 0 ELSE Clamp(IF lo[2] < 0 THEN lo[2] + n ELSE lo[2], 0, n)
            h0 == IF hi[1] = 0 THEN n ELSE Clamp(IF hi[2] < 0 THEN hi[2] + n ELSE hi[2], 0, n)
            cnt == IF h0 > l0 THEN (h0 - l0 + step - 1) \div step ELSE 0
        IN [k \in 1..cnt |-> l0 + (k - 1) * step + 1]
    ELSE
        LET l0 == IF lo[1] = 0 THEN n - 1 ELSE Clamp(IF lo[2] < 0 THEN lo[2] + n ELSE lo[2], -1, n - 1)
            h0 == IF hi[1] = 0 THEN -1 ELSE Clamp(IF hi[2] < 0 THEN hi[2] + n ELSE hi[2], -1, n - 1)
            cnt == IF l0 > h0 THEN (l0 - h0 + (-step) - 1) \div (-step) ELSE 0
        IN [k \in 1..cnt |-> l0 + (k - 1) * step + 1]
SliceGenT(t, lo, hi, step) == Ok(SubRows(t, PySliceIdx(NR(t), lo, hi, step)))
MaskSeqT(t, mk) == Ok(SubRows(t, SelectSeq([i \in 1..NR(t) |-> i], LAMBDA i : mk[i])))

\* ---- n-ary concatenation ------------------------------------------------------------------------
\* dictable.concat(x1, ..., xn) / dictable.concat([x1, ..., xn]) with three or more operands in ONE call (tables and single
\* records mixed): the rows of x1, then those of x2, ... in order; the columns are the union; a row that comes from an operand
\* without a column has None there - wherever in the list that operand stands (a column may appear, disappear and reappear).
\* An operand is <<"r", register, <<>>>> (a table of the session) or <<"rec", "", record>> (a dict = one row).
RECURSIVE UnionColsFrom(_, _, _)
UnionColsFrom(acc, ts, k) == IF k > Len(ts) THEN acc ELSE UnionColsFrom(acc \o SelectSeq(ts[k].cols, LAMBDA x : x \notin Range(acc)), ts, k + 1)
UnionCols(ts) == UnionColsFrom(<<>>, ts, 1)
ConcatManyT(ts) == LET cs == UnionCols(ts)
                       pad(r, have) == [cc \in Range(cs) |-> IF cc \in have THEN r[cc] ELSE None] IN
                   Ok(Tbl(cs, IF cs = <<>> THEN <<>> ELSE FlattenSeq([k \in 1..Len(ts) |-> [i \in 1..NR(ts[k]) |-> pad(ts[k].rows[i], ColSet(ts[k]))]])))
\* the chained binary form ((x1 + x2) + x3) + ... ; ConcatNLaw (Dictable.tla) says the two are the same table
RECURSIVE ConcatChainFrom(_, _, _)
ConcatChainFrom(acc, ts, k) == IF k > Len(ts) THEN acc ELSE ConcatChainFrom(ConcatT(acc, ts[k]).t, ts, k + 1)
ConcatChainT(ts) == Ok(ConcatChainFrom(ts[1], ts, 2))
RecMenu == <<<<<<"a", V2>>>>, <<<<"b", VX>>, <<"a", None>>>>>>         \* a record without b, a record with b
OperandSet(regs) == {<<"r", r, <<>>>> : r \in regs} \cup {<<"rec", "", RecMenu[k]>> : k \in 1..Len(RecMenu)}
SeqsOf(S, n) == [1..n -> S]

\* ---- size: the same rows many times -------------------------------------------------------------
\* TLC cannot enumerate tables of 65 or 260 rows; recorded histories on such tables are judged by the trace specification
\* with the very same operators.  A big table is a small pattern scaled up: row i (1-based) of BigT(t, n, b) is row
\* (((i - 1) div b) mod p) + 1 of the p-row pattern t - b = 1: the pattern repeated (t t t ...), b > 1: every row b times in
\* a row (interleaved blocks); n need not be a multiple of p.  A mask / an assigned column is a short pattern cycled to length n.
\* The SCALING LAWS (ScaleLaws in Dictable.tla, checked by TLC on small tables, k = 2, 3 copies): the outcome of a row-selecting
\* or row-wise call on k copies of the rows is k copies of its outcome on the rows, in order.
CycleTo(pat, n) == [i \in 1..n |-> pat[((i - 1) % Len(pat)) + 1]]
BigRows(rows, n, b) == [i \in 1..n |-> rows[(((i - 1) \div b) % Len(rows)) + 1]]
BigT(t, n, b) == IF NR(t) = 0 THEN t ELSE Tbl(t.cols, BigRows(t.rows, n, b))
CopiesT(t, k) == BigT(t, k * NR(t), 1)
\* the constructor call itself is handed the scaled-up rows / records (only the pattern rows that occur count: a record of the pattern
\* that is never laid out contributes no column)
BigSeed(s, n, b) == CASE s.kind = "rows" -> [s EXCEPT !.rows = IF s.rows = <<>> THEN <<>> ELSE BigRows(s.rows, n, b)]
                      [] s.kind = "recs" -> [s EXCEPT !.recs = IF s.recs = <<>> THEN <<>> ELSE BigRows(s.recs, n, b)]
NewBigT(s, n, b) == Construct(BigSeed(s, n, b))
\* d[c] = pattern cycled to the length of the table (an empty pattern is the empty list)
CycArg(pat, n) == <<"l", IF pat = <<>> THEN <<>> ELSE CycleTo(pat, n)>>

=============================================================================
