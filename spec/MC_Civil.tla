------------------------------ MODULE MC_Civil ------------------------------
(* One state per day of the 400-year cycle 1900-01-01 .. 2299-12-31 (146 097 days):           *)
(* Ord and YMD are mutually inverse, consecutive days step the civil date correctly, the       *)
(* weekday advances by one, and the whole calendar repeats after 146 097 days.                 *)
EXTENDS Civil, TLC
VARIABLE o
First == Ord(1900, 1, 1)
Last  == Ord(2299, 12, 31)
\* one behaviour per year, so that the workers share the days
Init == o \in {Ord(y, 1, 1) : y \in 1900..2299}
Next == o < Last /\ YearOf(o + 1) = YearOf(o) /\ o' = o + 1
RoundTrip  == LET t == YMD(o) IN ValidYMD(t[1], t[2], t[3]) /\ Ord(t[1], t[2], t[3]) = o
Successor  == LET t == YMD(o)  u == YMD(o + 1) IN
                 IF t[3] < DIM(t[1], t[2]) THEN u = <<t[1], t[2], t[3] + 1>>
                 ELSE IF t[2] < 12 THEN u = <<t[1], t[2] + 1, 1>> ELSE u = <<t[1] + 1, 1, 1>>
WeekdayStep == Weekday(o + 1) = (Weekday(o) + 1) % 7
Period400  == LET t == YMD(o) IN YMD(o + 146097) = <<t[1] + 400, t[2], t[3]>> /\ Weekday(o + 146097) = Weekday(o)
Anchor     == First = 693596 /\ Weekday(First) = 0 /\ Last - First + 1 = 146097   \* 1900-01-01 was a Monday
=============================================================================
