CONSTANTS ZYears = {2021}
          GenZYears = {2024}
INIT Init
NEXT Next
INVARIANT ZoneShape
INVARIANT OffsetIsOneOfTwo
INVARIANT ConvertKeepsInstant
INVARIANT RoundTrip
INVARIANT Compose
INVARIANT ConvertOwnZone
INVARIANT ConvertNaive
INVARIANT DropZone
INVARIANT ReplaceKeepsWall
INVARIANT ReplaceOwnZone
INVARIANT ReplaceThenConvert
INVARIANT FixedOffsets
INVARIANT SeriesLaw
INVARIANT DtLaw
INVARIANT NamesAgree
