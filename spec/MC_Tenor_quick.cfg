CONSTANTS Years = {1999, 2000, 2004, 2100}
          Stride = 5
          GenYears = {2000}
          GenStride = 7
INIT Init
NEXT Next
INVARIANT ShiftShape
INVARIANT WindowIsEnough
INVARIANT FloorLaw
INVARIANT Anniversaries
INVARIANT MechWholeYearsIsLaw
INVARIANT PartOfYear
INVARIANT NonIncreasing
INVARIANT AtAnniversaries
INVARIANT SignAndLastYear
INVARIANT SeriesMechIsLaw
INVARIANT TenorLaws
