\* quick tier: ONE run model-checks the clauses on every history (no VIEW: hist is part of the state) and prints the
\* histories for the S2C replay; the thorough tier checks the VIEW-quotient with more arguments and generates separately
CONSTANTS MaxCalls = 2
          MaxArgs = 2
          FreeCalls = 1
          Scope = "quick"
          Adopt = FALSE
          MaxEdits = 0
          MinEdits = 0
          Probes = TRUE
          FirstOps = {"inc", "exc", "find", "one"}
          Srcs = {"live"}
          Ons = {"t", "last"}
          NameIds = {0}
          Gen = TRUE
INIT Init
NEXT NextNoEdit
CONSTRAINT GenBound
INVARIANT PoolUntouched
INVARIANT ResultByOriginal
INVARIANT SessPartition
INVARIANT SessIdempotent
INVARIANT SessKeepsCols
INVARIANT NoCondIsIdentity
INVARIANT EchoLaw
PROPERTY ArgumentsLeftAlone
