CONSTANTS MaxSteps = 3
          Stride = 8
          PoolStride = 53
          ZStride = 25
          Gen = FALSE
          Form = "pairs"
          Memo = "conv"
          Variant = "plain"
SPECIFICATION Spec
INVARIANT TypeOK
INVARIANT SessionLaw
PROPERTY CallsLeavePool
