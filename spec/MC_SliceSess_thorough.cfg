CONSTANTS SessCfg <- SessMid
          OneCfg <- SessOneBig
          HeapKind = "near"
          Alias = TRUE
          Forms <- FormsPairs
          MaxSteps = 4
          Gen = FALSE
          Memo = "none"
          AllPairs = TRUE
          Erase = TRUE
          EditStride = 1
          SliceStride = 1
INIT Init
NEXT Next
INVARIANT TypeOK
INVARIANT StitchedCanUnstitch
INVARIANT UnsliceNoMemory
INVARIANT StitchNoMemory
PROPERTY CorrectionKeepsStitched
PROPERTY CallsOwnNothing
