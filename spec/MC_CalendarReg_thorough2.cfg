CONSTANTS Keys = {"a", "b"}
          NHol = 3
          NWk = 2
          NLo = 1
          NHi = 2
          ConAdjs = {"f", "p", "m"}
          ConFull = TRUE
          Rich = TRUE
          MaxObj = 2
          Depth = 0
          KeepHist = FALSE
          SetAdjs = {"f"}
          Fan = 0
INIT Init
NEXT NextReg
INVARIANT WellFormed
INVARIANT FetchReflectsLast
INVARIANT FetchReflectsConfig
INVARIANT WellConfigured
INVARIANT TableFresh
INVARIANT PathsAgree
PROPERTY OneKeyPerStep
