CONSTANTS Keys = {"a", "b"}
          NHol = 3
          NWk = 3
          Rich = TRUE
          MaxObj = 2
          Depth = 0
          KeepHist = FALSE
INIT Init
NEXT Next
INVARIANT WellFormed
INVARIANT FetchReflectsLast
INVARIANT TableFresh
INVARIANT PathsAgree
PROPERTY OneKeyPerStep
