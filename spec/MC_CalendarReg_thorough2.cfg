CONSTANTS Keys = {"a", "b"}
          NHol = 5
          NWk = 4
          NLo = 3
          NHi = 3
          ConAdjs = {"f", "p", "m"}
          Rich = TRUE
          MaxObj = 2
          Depth = 0
          KeepHist = FALSE
          Fan = 0
INIT Init
NEXT Next
INVARIANT WellFormed
INVARIANT FetchReflectsLast
INVARIANT FetchReflectsConfig
INVARIANT WellConfigured
INVARIANT TableFresh
INVARIANT PathsAgree
PROPERTY OneKeyPerStep
