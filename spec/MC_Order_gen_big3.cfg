CONSTANTS MaxLen = 3
          Mode = "big"
INIT Init
NEXT NextGen
