INIT Init
NEXT Next
