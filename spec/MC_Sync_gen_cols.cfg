CONSTANTS NP = 0
 NT = 0
 NF = 0
 NA = 0
 NC = 3
 NS = 0
 Light = FALSE
INIT InitGen
NEXT EvalGen
