------------------------------ MODULE MC_JoinSess ------------------------------
(* Property C02 as a SESSION state machine (law level: JoinSess.tla): a pool of three caller-     *)
(* owned objects X (table), Y (table | dict | Dict | df), Z (table) and steps on these same       *)
(* objects - calls of join / xor / * / / / x*y + x/y between any two of them in every mode and    *)
(* form, and the caller's own actions between calls (a key cell overwritten in place, the key     *)
(* column replaced, a row appended in place, the last result overwritten in place).               *)
(*                                                                                                *)
(* Model checking (Gen = FALSE): the outcome register holds what the mechanism model JoinMech     *)
(* returns; with Memo = "none" the mechanism reads both operands at every call and SessionLaw     *)
(* holds; with Memo = "conv" it keeps the table made of the last non-table operand (one slot,     *)
(* keyed by the object) - a dict / Dict shares its column lists with that table, so cell edits    *)
(* and appends get through, a replaced column does not, and nothing does for a DataFrame:         *)
(* SessionLaw FAILS (that configuration documents why sessions with edits are enumerated).        *)
(* Generation (Gen = TRUE): hist carries the steps, Finish prints the session.                    *)
(*   Form = "pairs"  breadth-first, sessions  call ; call  and  call ; edit ; call  on rich pools *)
(*                   (some keys matched, >= 2 unmatched key groups in Y, >= 1 in X), thinned       *)
(*                   deterministically by Stride / PoolStride                                     *)
(*   Form = "free"   any MaxSteps steps (TLC simulation: random sessions)                         *)
EXTENDS JoinSess, JoinMech, TLC, Json
CONSTANTS MaxSteps, Stride, PoolStride, ZStride, Gen, Form, Memo
VARIABLES pool0,        \* the pool as built
          pool,         \* the pool now: [X |-> table, Y |-> table, Z |-> table]
          kindY,        \* what kind of object Y is
          w,            \* weight of the initial pool (thinning)
          n,            \* steps taken (99: finished)
          last,         \* the last step
          out,          \* outcome of the last call (mechanism model; Gen = FALSE)
          conv,         \* mechanism with Memo = "conv": the remembered conversion [obj, val]
          hist          \* generator only
vars == <<pool0, pool, kindY, w, n, last, out, conv, hist>>

KMax == 5
TX(f) == [cols |-> <<"a", "v", "p">>, rows |-> [i \in 1..Len(f) |-> [a |-> VInt(f[i]), v |-> VInt(i % 2), p |-> VInt(i)]]]
TY(f) == [cols |-> <<"a", "v", "q">>, rows |-> [i \in 1..Len(f) |-> [a |-> VInt(f[i]), v |-> VInt((i + 1) % 2), q |-> VInt(10 + i)]]]
TZ(f) == [cols |-> <<"a", "r">>, rows |-> [i \in 1..Len(f) |-> [a |-> VInt(f[i]), r |-> VInt(20 + i)]]]
Rich(fx, fy) == LET sx == Range(fx)  sy == Range(fy) IN
                Cardinality(sy \ sx) >= 2 /\ sx \cap sy # {} /\ sx \ sy # {}
KindIx(k) == CHOOSE i \in 1..Len(YKinds) : YKinds[i] = k
NoStep == [kind |-> "none"]
NoOut == [kind |-> "none"]
NoConv == [obj |-> "none", val |-> TZ(<<>>)]

WXY(fx, fy) == fx[1] + (3 * fx[2]) + (9 * fx[3]) + (27 * fy[1]) + (135 * fy[2]) + (675 * fy[3])
Init == \E fx \in [1..3 -> 1..3], fy \in [1..3 -> 1..KMax] :
           /\ (Form = "pairs" => Rich(fx, fy))
           /\ WXY(fx, fy) % PoolStride = 0
           /\ \E fz \in [1..2 -> 1..KMax] :
                 /\ (WXY(fx, fy) + (3 * fz[1]) + (7 * fz[2])) % ZStride = 0
                 /\ \E k \in Range(YKinds) :                              \* the same contents with every kind of Y
                       /\ w = WXY(fx, fy) + (3375 * fz[1]) + (16875 * fz[2]) + (84375 * KindIx(k))
                       /\ pool0 = [X |-> TX(fx), Y |-> TY(fy), Z |-> TZ(fz)] /\ pool = pool0 /\ kindY = k
                       /\ n = 0 /\ last = NoStep /\ out = NoOut /\ conv = NoConv /\ hist = <<>>

Picked(i) == ((w * 61) + (n * 131) + (i * 7)) % Stride = 0
Record(step) == IF Gen THEN Append(hist, step) ELSE hist
KindOf(o) == IF o = "Y" THEN kindY ELSE "table"

\* ---- calls ------------------------------------------------------------------------------------------
AllPairs == << <<"X", "Y">>, <<"Z", "Y">>, <<"X", "Z">>, <<"Z", "X">>, <<"Y", "X">>, <<"Y", "Z">> >>
CallOK == IF Form = "pairs" THEN n \in {0, 1} \/ (n = 2 /\ last.kind # "call") ELSE n < MaxSteps
\* the mechanism's view of the other operand
Seen(r) == IF Memo = "conv" /\ KindOf(r) # "table" /\ conv.obj = r THEN conv.val ELSE pool[r]
Call == \E q \in 1..Len(AllPairs), j \in 1..Len(SPlans) :
           LET l == AllPairs[q][1]  r == AllPairs[q][2]
               c == SCall(pool, l, r, j, n + q) IN
           /\ CallOK /\ <<l, r>> \in CallPairs(kindY) /\ Picked(((q - 1) * Len(SPlans)) + j)
           /\ last' = c /\ n' = n + 1
           /\ out' = IF Gen THEN NoOut ELSE MechCall(c.op, pool[l], Seen(r), c.lk, c.rk, c.mode, FALSE)
           /\ conv' = IF Memo = "conv" /\ KindOf(r) # "table" THEN [obj |-> r, val |-> Seen(r)] ELSE conv
           /\ hist' = Record(c)
           /\ UNCHANGED <<pool0, pool, kindY, w>>

\* ---- the caller's own actions -------------------------------------------------------------------------
EditOK == IF Form = "pairs" THEN n = 1 ELSE n < MaxSteps - 1
ObjIx(o) == CHOOSE i \in 1..3 : Objs[i] = o
ColA(t) == [i \in 1..NRows(t) |-> t.rows[i].a]
NewRow(o, k) == LET m == NRows(pool[o]) + 1 IN
                CASE o = "X" -> [a |-> VInt(k), v |-> VInt(m % 2), p |-> VInt(m)]
                  [] o = "Y" -> [a |-> VInt(k), v |-> VInt((m + 1) % 2), q |-> VInt(10 + m)]
                  [] o = "Z" -> [a |-> VInt(k), r |-> VInt(20 + m)]
Shifted(t) == [i \in 1..NRows(t) |-> VInt((Pay(t.rows[i].a) % KMax) + 1)]
Reversed(t) == [i \in 1..NRows(t) |-> t.rows[NRows(t) + 1 - i].a]
EditSteps ==
    {[kind |-> "cell", obj |-> o, col |-> "a", row |-> i, val |-> VInt(k)] :
        o \in Range(Objs), i \in 1..4, k \in 1..KMax}
    \cup {[kind |-> "setcol", obj |-> o, col |-> "a", how |-> h] : o \in Range(Objs), h \in {"reverse", "shift"}}
    \cup {[kind |-> "append", obj |-> o, key |-> k] : o \in Range(Objs), k \in 1..KMax}
EditNo(e) == CASE e.kind = "cell" -> 1000 + (100 * ObjIx(e.obj)) + (10 * e.row) + Pay(e.val)
               [] e.kind = "setcol" -> 2000 + (10 * ObjIx(e.obj)) + (IF e.how = "shift" THEN 1 ELSE 0)
               [] e.kind = "append" -> 3000 + (10 * ObjIx(e.obj)) + e.key
\* the step as recorded (with the values the driver needs) and whether it is an edit at all
Concrete(e) == CASE e.kind = "cell" -> e
                 [] e.kind = "setcol" -> [kind |-> "setcol", obj |-> e.obj, col |-> "a", how |-> e.how,
                                          vals |-> IF e.how = "shift" THEN Shifted(pool[e.obj]) ELSE Reversed(pool[e.obj])]
                 [] e.kind = "append" -> [kind |-> "append", obj |-> e.obj, newrow |-> NewRow(e.obj, e.key)]
Possible(e) == CASE e.kind = "cell" -> e.row <= NRows(pool[e.obj]) /\ pool[e.obj].rows[e.row].a # e.val
                 [] e.kind = "setcol" -> NRows(pool[e.obj]) > 0 /\ Concrete(e).vals # ColA(pool[e.obj])
                 [] e.kind = "append" -> NRows(pool[e.obj]) < 4
\* a dict / Dict shares its column lists with the table made of it: in-place edits of the lists get through to a remembered conversion
Through(e) == Memo = "conv" /\ conv.obj = e.obj /\ kindY \in {"dict", "Dict"} /\ e.kind \in {"cell", "append"}
Edit == \E e \in EditSteps :
           /\ EditOK /\ Possible(e) /\ ((e.kind = "setcol" /\ e.how = "shift") \/ Picked(EditNo(e)))      \* a replaced column: never thinned
           /\ pool' = ApplyEdit(pool, Concrete(e))
           /\ conv' = IF Through(e) THEN [conv EXCEPT !.val = pool'[e.obj]] ELSE conv
           /\ last' = Concrete(e) /\ n' = n + 1 /\ out' = NoOut /\ hist' = Record(last')
           /\ UNCHANGED <<pool0, kindY, w>>
\* every cell of the table the last call returned is overwritten in place; nothing of the pool may change
EditResult == /\ EditOK /\ last.kind = "call"
              /\ last' = [kind |-> "editresult"] /\ n' = n + 1 /\ out' = NoOut /\ hist' = Record(last')
              /\ UNCHANGED <<pool0, pool, kindY, w, conv>>
Complete == IF Form = "pairs" THEN n >= 2 /\ n < 99 /\ last.kind = "call" ELSE n = MaxSteps
Finish == /\ Gen /\ Complete
          /\ n' = 99 /\ PrintT(ToJson([pool |-> pool0, kindY |-> kindY, steps |-> hist]))
          /\ UNCHANGED <<pool0, pool, kindY, w, last, out, conv, hist>>
Next == Call \/ Edit \/ EditResult \/ Finish

\* ---- invariants ---------------------------------------------------------------------------------------
\* a call has no memory: its outcome is what the law demands of the pool values at that moment
SessionLaw == (last.kind = "call" /\ ~Gen) =>
    CallVerdict(last.op, pool[last.l], pool[last.r], last.lk, last.rk, last.mode, out) = ""
TypeOK == /\ n \in 0..MaxSteps \cup {99} /\ (~Gen => hist = <<>>)
          /\ \A o \in Range(Objs) : Rectangular(pool[o]) /\ NRows(pool[o]) <= 4
\* a call owns nothing of the caller: the pool is the same afterwards
CallsLeavePool == [][last'.kind \in {"call", "editresult"} => pool' = pool]_vars
Spec == Init /\ [][Next]_vars
=============================================================================
