CONSTANTS NHol = 2
          NWk = 1
          NSess = 1
          QDays = {4}
          QSecs = {46800}
          Depth = 0
          KeepHist = FALSE
          AskMod = 1
INIT Init
NEXT Next
INVARIANT TableMechIsLaw
