CONSTANTS MaxRows = 2
          MaxRowsY = 2
          MaxSteps = 2
          NKeys = 6
          Stride = 64
          Gen = FALSE
          Emit = "none"
          Variant = "plain"
SPECIFICATION Spec
INVARIANT TypeOK
INVARIANT MechRefinesLaw
INVARIANT Decomposition
INVARIANT SelfJoinReflexive
INVARIANT SelfJoinTranspose
INVARIANT SharingInvisible
PROPERTY CallsLeaveOperands
