---------------------------- MODULE BumpSession ----------------------------
(* Property C09 over SESSIONS: a caller who owns start objects and lists of bumps makes several   *)
(* calls of dt_bump / dt on them and edits his lists in between.                                  *)
(*                                                                                                *)
(* Law (from the statement: what a bump denotes is a function of the start INSTANT and of the     *)
(* bumps as they are at the moment of the call):                                                  *)
(*   - a start denotes its instant whatever its realisation (datetime, subclass, Timestamp,       *)
(*     datetime.date, numpy datetime64 of any unit, yyyymmdd integer, ISO string);                *)
(*   - a list of bumps handed over as one argument, the same bumps handed over as separate        *)
(*     arguments and (for period strings) their concatenation '1y-3m2d' all apply the parts left  *)
(*     to right;                                                                                  *)
(*   - a call has no memory (its outcome does not depend on earlier calls) and owns nothing of    *)
(*     the caller (after the call every list the caller owns holds what it held before).          *)
(* Mechanism (MechCall): the loop of _dates.dt_bump - normalise the start, as_list (which hands   *)
(* back the caller's own list), walk the bumps, tokenise each period string part by part, closed  *)
(* weekday formula, month-overflow constructor (which resets the time of day).  Variants of the   *)
(* mechanism express what the law forbids (each must violate a clause in MC_BumpSession):         *)
(*   "queue"  the bumps are consumed as a work queue - the queue being the caller's list          *)
(*   "memo"   period strings are parsed once and memoised; the tail of a compound tenor shares    *)
(*            the memoised list of the shorter tenor, which gets the head inserted                *)
(*   "asis"   a start that is a datetime.date is bumped as it is (date arithmetic drops what is   *)
(*            below a day and hands back a date)                                                  *)
EXTENDS Bump

\* --------------------------------------------------------------------- start realisations ---
DayReals  == {"date", "np_D", "int", "str_d"}            \* can only name a day: claimed at midnight
SecReals  == {"np_s", "str_s"}                           \* whole seconds
FullReals == {"datetime", "sub", "ts", "np_us", "str_us"}
NsReals   == {"np_ns"}                                   \* numpy's int64 nanoseconds: 1678..2262 only
Reals     == DayReals \cup SecReals \cup FullReals \cup NsReals
NsLo == OrdOf(1700, 1, 1)
NsHi == OrdOf(2250, 1, 1)
\* a start is [real, t]: realisation and the instant it denotes
RealOk(r, t) == /\ r \in Reals /\ IsInstant(t)
                /\ r \in DayReals => IsMidnight(t)
                /\ r \in SecReals => t[3] = 0
                /\ r \in NsReals  => t[1] \in NsLo..NsHi
Denote(s) == s.t
\* dt(t, bumps...) reads its first argument as a date only when it is a date object (dt(20240105, '1b') and
\* dt('2024-01-05', '1b') are year / month spellings of another function)
DtFormOk(r) == r \notin {"int", "str_d", "str_s", "str_us"}

\* ------------------------------------------------------------------------ bumps of a call ---
\* an argument of a call:  <<"list", i>>   the caller's list i itself        dt_bump(t, lst)
\*                         <<"splat", i>>  its elements as arguments          dt_bump(t, *lst)
\*                         <<"join", i>>   its period strings concatenated    dt_bump(t, ''.join(lst))
\*                         <<"item", b>>   one literal bump                   dt_bump(t, b)
IsTenor(b) == b[1] = "tenor"
RECURSIVE JoinParts(_)
JoinParts(items) == IF items = <<>> THEN <<>> ELSE Head(items)[2] \o JoinParts(Tail(items))
ArgOk(lists, arg) ==
    CASE arg[1] \in {"list", "splat"} -> arg[2] \in DOMAIN lists
      [] arg[1] = "join" -> arg[2] \in DOMAIN lists /\ lists[arg[2]] # <<>> /\ \A k \in DOMAIN lists[arg[2]] : IsTenor(lists[arg[2]][k])
      [] arg[1] = "item" -> TRUE
ArgItems(lists, arg) ==
    CASE arg[1] \in {"list", "splat"} -> lists[arg[2]]
      [] arg[1] = "join" -> << <<"tenor", JoinParts(lists[arg[2]])>> >>
      [] arg[1] = "item" -> <<arg[2]>>

RECURSIVE TenorDomOk(_, _)
TenorDomOk(t, parts) == IF parts = <<>> THEN TRUE
                        ELSE /\ Head(parts)[2] \in Units
                             /\ (Head(parts)[2] \in MonthUnits => IsMidnight(t))
                             /\ TenorDomOk(AddUnit(t, Head(parts)[1], Head(parts)[2]), Tail(parts))
ItemInDomain(t, b) == IsInstant(t) /\ (b[1] = "tenor" => TenorDomOk(t, b[2]))
\* law: the bumps one after the other, each by Bump!Apply
RECURSIVE ApplyAll(_, _)
ApplyAll(t, items) == IF items = <<>> THEN t ELSE ApplyAll(Apply(t, Head(items)), Tail(items))
RECURSIVE AllInDomain(_, _)
\* (IF, not a disjunction: inside an action TLC explores both disjuncts; TenorDomOk is Bump!TenorInDomain written that way)
AllInDomain(t, items) == IF items = <<>> THEN TRUE
                         ELSE ItemInDomain(t, Head(items)) /\ AllInDomain(Apply(t, Head(items)), Tail(items))

\* a call: <<op, start, arg>>, op = "bump" (dt_bump) or "dt"
CallInDomain(lists, c) == /\ RealOk(c[2].real, c[2].t) /\ ArgOk(lists, c[3])
                          /\ c[1] = "dt" => DtFormOk(c[2].real)
                          /\ AllInDomain(Denote(c[2]), ArgItems(lists, c[3]))
Ok(t) == <<"ok", t>>
LawCall(lists, c) == Ok(ApplyAll(Denote(c[2]), ArgItems(lists, c[3])))

\* -------------------------------------------------------------- the caller's own actions ---
\* <<"append", i, b>>  <<"popfirst", i>>  <<"poplast", i>>  <<"set", i, k, b>>  <<"clear", i>>  <<"extend", i, j>>
EditOk(lists, e) ==
    CASE e[1] = "append"   -> e[2] \in DOMAIN lists
      [] e[1] = "popfirst" -> e[2] \in DOMAIN lists /\ lists[e[2]] # <<>>
      [] e[1] = "poplast"  -> e[2] \in DOMAIN lists /\ lists[e[2]] # <<>>
      [] e[1] = "set"      -> e[2] \in DOMAIN lists /\ e[3] \in DOMAIN lists[e[2]]
      [] e[1] = "clear"    -> e[2] \in DOMAIN lists
      [] e[1] = "extend"   -> e[2] \in DOMAIN lists /\ e[3] \in DOMAIN lists
Edit(lists, e) ==
    CASE e[1] = "append"   -> [lists EXCEPT ![e[2]] = Append(@, e[3])]
      [] e[1] = "popfirst" -> [lists EXCEPT ![e[2]] = Tail(@)]
      [] e[1] = "poplast"  -> [lists EXCEPT ![e[2]] = SubSeq(@, 1, Len(@) - 1)]
      [] e[1] = "set"      -> [lists EXCEPT ![e[2]][e[3]] = e[4]]
      [] e[1] = "clear"    -> [lists EXCEPT ![e[2]] = <<>>]
      [] e[1] = "extend"   -> [lists EXCEPT ![e[2]] = @ \o lists[e[3]]]

\* ------------------------------------------------------------------------------ mechanism ---
\* one token of a period string, as the code does it
MechUnit(t, n, u) ==
    CASE u = "b" -> <<BDayClosed(t[1], n), t[2], t[3]>>
      [] u = "m" -> <<AddMonthsMech(t[1], n), 0, 0>>                \* _ymd: a fresh midnight
      [] u = "q" -> <<AddMonthsMech(t[1], 3 * n), 0, 0>>
      [] u = "y" -> <<AddMonthsMech(t[1], 12 * n), 0, 0>>
      [] OTHER   -> AddUnit(t, n, u)
RECURSIVE MechParts(_, _)
MechParts(t, parts) == IF parts = <<>> THEN t ELSE MechParts(MechUnit(t, Head(parts)[1], Head(parts)[2]), Tail(parts))

\* variant "memo": memo is a function  tenor (sequence of parts) -> the parts its cached list holds
NoMemo == <<>>
RECURSIVE MemoParse(_, _)
MemoParse(memo, p) ==
    IF p \in DOMAIN memo THEN [memo |-> memo, parts |-> memo[p]]
    ELSE IF p = <<>> THEN [memo |-> memo, parts |-> <<>>]
    ELSE LET r    == MemoParse(memo, Tail(p))
             new  == <<Head(p)>> \o r.parts
             m1   == IF Tail(p) \in DOMAIN r.memo THEN [r.memo EXCEPT ![Tail(p)] = new] ELSE r.memo   \* the shared list
         IN  [memo |-> [q \in DOMAIN m1 \cup {p} |-> IF q = p THEN new ELSE m1[q]], parts |-> new]

\* variant "asis": a date stays a date: only whole days of a duration count (timedelta.days of the normalised
\* duration), the answer is a date unless a month unit rebuilt it
DaysOnly(t, b) == CASE b[1] = "int" -> <<t[1] + b[2], 0, 0>>
                    [] b[1] = "td"  -> <<t[1] + b[2][1], 0, 0>>
RECURSIVE AsIsParts(_, _)
AsIsParts(st, parts) ==      \* st = [t, isdate]
    IF parts = <<>> THEN st
    ELSE LET n == Head(parts)[1]  u == Head(parts)[2]
             nx == IF ~st.isdate THEN [t |-> MechUnit(st.t, n, u), isdate |-> FALSE]
                   ELSE IF u \in MonthUnits THEN [t |-> MechUnit(st.t, n, u), isdate |-> FALSE]
                   ELSE IF u \in {"h", "n", "s"} THEN [t |-> <<st.t[1] + ((n * UnitSeconds(u)) \div 86400), 0, 0>>, isdate |-> TRUE]
                   ELSE [t |-> MechUnit(st.t, n, u), isdate |-> TRUE]
         IN  AsIsParts(nx, Tail(parts))

\* the walk over the bumps; st = [t, isdate, memo]
RECURSIVE MechWalk(_, _, _)
MechWalk(st, items, V) ==
    IF items = <<>> THEN st
    ELSE LET b == Head(items)
             nx == IF b[1] # "tenor"
                   THEN IF st.isdate THEN [st EXCEPT !.t = DaysOnly(st.t, b)] ELSE [st EXCEPT !.t = Apply(st.t, b)]
                   ELSE LET pr == IF V = "memo" THEN MemoParse(st.memo, b[2]) ELSE [memo |-> st.memo, parts |-> b[2]]
                            r  == AsIsParts([t |-> st.t, isdate |-> st.isdate], pr.parts)
                        IN  [t |-> r.t, isdate |-> r.isdate, memo |-> pr.memo]
         IN  MechWalk(nx, Tail(items), V)

\* one public call by the mechanism: what it returns, and what it leaves of the caller's lists and of its own memo
MechCall(lists, memo, c, V) ==
    LET items == ArgItems(lists, c[3])
        st0   == [t |-> Denote(c[2]), isdate |-> V = "asis" /\ c[2].real = "date" /\ c[1] = "bump", memo |-> memo]
        st    == MechWalk(st0, items, V)
    IN  [out   |-> IF st.isdate THEN <<"other", "date">> ELSE Ok(st.t),
         lists |-> IF V = "queue" /\ c[3][1] = "list" THEN [lists EXCEPT ![c[3][2]] = <<>>] ELSE lists,
         memo  |-> st.memo]
=============================================================================
