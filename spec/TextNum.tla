------------------------------- MODULE TextNum -------------------------------
(* Extension X08-a, second half: which strings denote which numbers for as_float (_as_float.py).       *)
(* The accepted grammar (from the code, its docstring and tests/test_as_float.py):                       *)
(*     text    ::=  number [ending]        after every blank and every comma has been dropped              *)
(*     number  ::=  [+|-] ( digits [. [digits]] | . digits ) [ (e|E) [+|-] digits ]                       *)
(*     ending  ::=  million | billion | trillion | percent | mln | bln | tln | trl | pct | mn | bn | tn |   *)
(*                  bp | % | m | k | b | t | crore | lakh          in any case, the LONGEST that fits,      *)
(*                  looked for only when the text has at least two characters and does not end in a digit  *)
(* The value is EXACT:  number * 10^(power of the ending), kept here as a decimal  m * 10^e  in normal    *)
(* form (m without trailing zeros; zero is (0, 0)).  The empty text (nothing but blanks and commas) is     *)
(* None; a text outside the grammar is "not a number" - the docstring is silent, the test wants None,      *)
(* the code hands the text back: both are admitted (named deviation NotANumber).  Brackets for negative    *)
(* numbers are NOT part of the grammar.                                                                     *)
EXTENDS Text

IsDigit(c) == c >= 48 /\ c <= 57
AllDigits(s) == \A i \in DOMAIN s : IsDigit(s[i])
RECURSIVE DigitsVal(_)
DigitsVal(ds) == IF ds = <<>> THEN 0 ELSE 10 * DigitsVal(TxTake(ds, Len(ds) - 1)) + (ds[Len(ds)] - 48)
FirstPos(s, S) == IF \E i \in DOMAIN s : s[i] \in S THEN CHOOSE i \in DOMAIN s : s[i] \in S /\ \A j \in 1..(i - 1) : s[j] \notin S ELSE 0

Clean(s) == SelectSeq(s, LAMBDA c : c # 44 /\ c # 32)

Endings == <<
  <<<<109, 105, 108, 108, 105, 111, 110>>, 6>>, <<<<98, 105, 108, 108, 105, 111, 110>>, 9>>, <<<<116, 114, 105, 108, 108, 105, 111, 110>>, 12>>,
  <<<<112, 101, 114, 99, 101, 110, 116>>, -2>>, <<<<109, 108, 110>>, 6>>, <<<<98, 108, 110>>, 9>>, <<<<116, 108, 110>>, 12>>, <<<<116, 114, 108>>, 12>>,
  <<<<112, 99, 116>>, -2>>, <<<<109, 110>>, 6>>, <<<<98, 110>>, 9>>, <<<<116, 110>>, 12>>, <<<<98, 112>>, -4>>, <<<<37>>, -2>>, <<<<109>>, 6>>,
  <<<<107>>, 3>>, <<<<98>>, 9>>, <<<<116>>, 12>>, <<<<99, 114, 111, 114, 101>>, 7>>, <<<<108, 97, 107, 104>>, 5>> >>

\* the endings that fit the text t (0 = none): looked for only in a text of two characters or more that does not end in a digit
Fits(t) == LET lt == Lower(t) IN IF Len(t) < 2 \/ IsDigit(t[Len(t)]) THEN {} ELSE {k \in DOMAIN Endings : IsSuf(Endings[k][1], lt)}
\* law: the longest ending that fits
EndingOf(t) == LET f == Fits(t) IN IF f = {} THEN 0 ELSE CHOOSE k \in f : \A j \in f : Len(Endings[j][1]) <= Len(Endings[k][1])
\* code: the first of the table that fits
FirstEndingOf(t) == LET f == Fits(t) IN IF f = {} THEN 0 ELSE CHOOSE k \in f : \A j \in f : k <= j
HasEnding(t) == Fits(t) # {}

ParseNum(t) ==
    LET signed == t # <<>> /\ (t[1] = 45 \/ t[1] = 43)
        neg    == t # <<>> /\ t[1] = 45
        u      == IF signed THEN Tail(t) ELSE t
        ep     == FirstPos(u, {101, 69})
        mant   == IF ep = 0 THEN u ELSE SubSeq(u, 1, ep - 1)
        expo   == IF ep = 0 THEN <<>> ELSE TxDrop(u, ep)
        esign  == expo # <<>> /\ (expo[1] = 45 \/ expo[1] = 43)
        edig   == IF esign THEN Tail(expo) ELSE expo
        dp     == FirstPos(mant, {46})
        ip     == IF dp = 0 THEN mant ELSE SubSeq(mant, 1, dp - 1)
        fp     == IF dp = 0 THEN <<>> ELSE TxDrop(mant, dp)
        okm    == AllDigits(ip) /\ AllDigits(fp) /\ Len(ip) + Len(fp) >= 1
        oke    == ep = 0 \/ (edig # <<>> /\ AllDigits(edig))
    IN IF okm /\ oke
       THEN LET fits == Len(ip) + Len(fp) <= 9 /\ Len(edig) <= 2 IN          \* (the checker's integers have 32 bits)
            [ok |-> TRUE, m |-> IF fits THEN (IF neg THEN -1 ELSE 1) * DigitsVal(ip \o fp) ELSE 0,
             e |-> IF fits THEN (IF ep = 0 THEN 0 ELSE (IF expo[1] = 45 THEN -1 ELSE 1) * DigitsVal(edig)) - Len(fp) ELSE 0,
             nd |-> Len(ip) + Len(fp), ne |-> Len(edig)]
       ELSE [ok |-> FALSE, m |-> 0, e |-> 0, nd |-> 0, ne |-> 0]

RECURSIVE Norm(_, _)
Norm(m, e) == IF m = 0 THEN <<0, 0>> ELSE IF m % 10 = 0 THEN Norm(m \div 10, e + 1) ELSE <<m, e>>
TNum(m, e) == <<"num", Norm(m, e)>>
NotANumber(x) == {Val(TNone), Val(x)}                  \* named deviation: None (the test) or the text itself (the code)

Body(t)  == LET k == EndingOf(t) IN IF k = 0 THEN t ELSE TxTake(t, Len(t) - Len(Endings[k][1]))
Power(t) == LET k == EndingOf(t) IN IF k = 0 THEN 0 ELSE Endings[k][2]

\* texts that Python's float() reads although the grammar above does not list them, or whose numbers do not fit the
\* 32-bit integers of the checker: outside the domain
Special == { <<105, 110, 102>>, <<110, 97, 110>>, <<105, 110, 102, 105, 110, 105, 116, 121>> }
NumInDomain(x) == IsStrV(x) => LET t == Clean(x[2])  b == Body(t)  p == ParseNum(b)
                                   u == IF b # <<>> /\ (b[1] = 45 \/ b[1] = 43) THEN Tail(b) ELSE b IN
                               /\ Lower(u) \notin Special
                               /\ \A i \in DOMAIN t : t[i] < 128 /\ t[i] # 95 /\ ~IsSpaceC(t[i])
                               /\ p.ok => (p.nd <= 9 /\ p.ne <= 2)

AsFloatWant(x) ==
    IF ~IsStrV(x) THEN {Val(x)}
    ELSE LET t == Clean(x[2]) IN
         IF t = <<>> THEN {Val(TNone)}
         ELSE LET p == ParseNum(Body(t)) IN
              IF p.ok THEN {Val(TNum(p.m, p.e + Power(t)))} ELSE NotANumber(x)

\* ---- every call of the text area: what it must show, where the rules above are all there is to say, and the features of
\* the input that findings are filed under (printed next to the case; they decide nothing)
AllWant(x) == IF x.op = "as_float" THEN AsFloatWant(x.x) ELSE TextWant(x)
AllInDomain(x) == IF x.op = "as_float" THEN NumInDomain(x.x) ELSE TextInDomain(x)
AllClause(x, out) == IF x.op = "as_float" THEN (IF out.kind = "exc" THEN "as_float_raised" ELSE "as_float_result") ELSE TextClause(x, out)
Tags(x) == IF x.op = "as_float" /\ IsStrV(x.x) /\ Clean(x.x[2]) # <<>>
           THEN LET t == Clean(x.x[2])  b == Body(t) IN
                [negpower |-> IF Power(t) < 0 THEN 1 ELSE 0,
                 scineg   |-> IF \E i \in 1..(Len(b) - 1) : b[i] \in {101, 69} /\ b[i + 1] = 45 THEN 1 ELSE 0]
           ELSE [negpower |-> 0, scineg |-> 0]
=============================================================================
