CONSTANTS Menu = "quick"
          Trees <- TreeMenu
          V <- Vals
SPECIFICATION Spec
INVARIANT PendingIsSubset
INVARIANT ProgressIsSet
INVARIANT OrderIndependent
INVARIANT NothingLeft
INVARIANT ShapeKept
PROPERTY NoEarlyReturn
PROPERTY Termination
