CONSTANTS NS = 1
 NT = 0
 NF = 2
INIT InitGen
NEXT EvalGen
