CONSTANTS NS = 1
 NT = 0
 NF = 2
 Fill = FALSE
INIT InitGen
NEXT EvalGen
