CONSTANTS Kinds = {"forms", "frame"}
          Wide = FALSE
INIT Init
NEXT EvalGen
