CONSTANTS Keys = {"a", "b"}
          NHol = 4
          NWk = 3
          Rich = TRUE
          MaxObj = 4
          Depth = 8
          KeepHist = TRUE
INIT Init
NEXT NextGen
