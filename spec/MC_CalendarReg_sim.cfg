CONSTANTS Keys = {"a", "b"}
          NHol = 3
          NWk = 2
          Rich = TRUE
          MaxObj = 6
          Depth = 8
          KeepHist = TRUE
INIT Init
NEXT NextGen
