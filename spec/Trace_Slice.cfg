INIT Init
NEXT Next
