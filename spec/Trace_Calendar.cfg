INIT Init
NEXT Next
