--------------------------- MODULE MC_SessionsObj ---------------------------
(* Extension X01, the history: one calendar object under any interleaving of public calls.      *)
(*   SetDefaults(sc)     the module's default session bounds change (configuration)              *)
(*   EditHolidays(H)     cal['holidays'] = ...    in place (the object is a Dict)                *)
(*   EditWeekend(w)      cal['weekend'] = ...     in place                                       *)
(*   BuildTable          a table query (bdays / clock / add of several days) builds the lazy     *)
(*                       business-day table from the holidays of that moment; never rebuilt      *)
(*   Ask(q)              trade_date / is_trading / mask, with explicit bounds or the defaults    *)
(* The law answers a query from the CURRENT holidays, weekend and effective bounds alone.        *)
(* Invariants: the code's mechanism (which never reads the table) equals the law in every        *)
(* reachable state; the table exists only after BuildTable.  A mechanism that took business days *)
(* from the table must break the law after an in-place edit (MC_SessionsObj_table.cfg,           *)
(* must_fail): the history matters for exactly that design.  `lastop` is a ghost naming the      *)
(* action taken, for the action properties (queries are pure).  `hist` is kept by the generator  *)
(* configuration only.                                                                           *)
EXTENDS Sessions, TLC, Json, FiniteSetsExt
CONSTANTS NHol, NWk, NSess, QDays, QSecs, Depth, KeepHist, AskMod

VARIABLES st, lastop, hist
vars == <<st, lastop, hist>>

E  == Ord(2000, 1, 31)                       \* Monday, the month end; E - 3 Fri, E - 2 Sat, E - 1 Sun
Lo == E - 14
Hi == E + 14
HolMenu  == <<{}, {E}, {E - 3, E, E + 1}, {E + 1, E + 2}>>
WkMenu   == <<{5, 6}, {4, 5}, {}>>
SessMenu == <<DefaultSession, [ds |-> 28800, de |-> 61200], [ds |-> 81000, de |-> 46800], [ds |-> 46800, de |-> 46800]>>
Hols == {HolMenu[i] : i \in 1..NHol}
Wks  == {WkMenu[i] : i \in 1..NWk}
Sess == {SessMenu[i] : i \in 1..NSess}
QD(k) == E - 4 + k                           \* QDays counts from the Thursday before (cfg files have no negative numbers)
Cfg(H, w) == [hol |-> H, wk |-> w, adj |-> "m", lo |-> Lo, hi |-> Hi]
Q(op, d, s, a, ex, sc) == [op |-> op, d |-> d, s |-> s, a |-> a, ex |-> ex, ds |-> sc.ds, de |-> sc.de]
QM == {Q("trade_date", QD(k), s, a, 0, DefaultSession) : k \in QDays, s \in QSecs, a \in {"f", "p"}}
      \cup {Q("trade_date", QD(k), s, a, 1, sc) : k \in QDays, s \in QSecs, a \in {"f", "p"}, sc \in Sess}
      \cup {Q(op, QD(k), s, "", 0, DefaultSession) : op \in {"is_trading", "mask"}, k \in QDays, s \in QSecs}
      \cup {Q(op, QD(k), s, "", 1, sc) : op \in {"is_trading", "mask"}, k \in QDays, s \in QSecs, sc \in Sess}
      \cup {Q("is_trading", QD(k), s, "", ex, sc) : k \in QDays, s \in QSecs, ex \in {2, 3}, sc \in Sess}
      \cup {Q("trade_date", QD(k), s, a, ex, sc) : k \in QDays, s \in QSecs, a \in {"f", "p"}, ex \in {2, 3}, sc \in Sess \ {DefaultSession}}
Askable(q) == SQDomain(st.cfg, st.defs, q)
HolSeq(H) == SetToSortSeq(H, <)
Log(ev) == hist' = IF KeepHist THEN Append(hist, ev) ELSE hist
Room == (KeepHist => Len(hist) < Depth)
\* the generator asks a rotating 1-in-AskMod sample of the menu, so that edits and queries mix
QNo(q) == q.d + q.s \div 100 + q.ds \div 100 + 3 * q.ex + (IF q.a = "p" THEN 1 ELSE 0) + (IF q.op = "mask" THEN 2 ELSE IF q.op = "is_trading" THEN 5 ELSE 0)
Sampled(q) == AskMod = 1 \/ (QNo(q) + 5 * Len(hist) + Cardinality(st.cfg.hol)) % AskMod = 0

Init == /\ \E H \in Hols, w \in Wks :
             /\ st = NewCal(Cfg(H, w))
             /\ hist = IF KeepHist THEN <<[op |-> "New", hol |-> HolSeq(H), wk |-> HolSeq(w), adj |-> "m", lo |-> Lo, hi |-> Hi]>> ELSE <<>>
        /\ lastop = "new"

SetDefaults(sc) == /\ Room /\ sc # st.defs
                   /\ st' = DoSetDefaults(st, sc) /\ lastop' = "defaults"
                   /\ Log([op |-> "SetDefaults", ds |-> sc.ds, de |-> sc.de])
EditHolidays(H) == /\ Room /\ H # st.cfg.hol
                   /\ st' = DoEditHolidays(st, H) /\ lastop' = "holidays"
                   /\ Log([op |-> "EditHolidays", hol |-> HolSeq(H)])
EditWeekend(w)  == /\ Room /\ w # st.cfg.wk
                   /\ st' = DoEditWeekend(st, w) /\ lastop' = "weekend"
                   /\ Log([op |-> "EditWeekend", wk |-> HolSeq(w)])
BuildTable      == /\ Room
                   /\ st' = DoBuildTable(st) /\ lastop' = "build"
                   /\ Log([op |-> "BuildTable"])
Ask(q)          == /\ Room /\ Askable(q) /\ Sampled(q)
                   /\ UNCHANGED st /\ lastop' = "ask"
                   /\ Log([op |-> "Ask", q |-> q, w |-> Where(Eff(st.defs, q), q.s),
                            x |-> B(q.op = "trade_date" /\ TodayOff(Eff(st.defs, q), q.s, q.a)), want |-> SAnswer(st.cfg, st.defs, q)])

Next == \/ \E sc \in Sess : SetDefaults(sc)
        \/ \E H \in Hols : EditHolidays(H)
        \/ \E w \in Wks : EditWeekend(w)
        \/ BuildTable
        \/ \E q \in QM : Ask(q)
NextGen == Next /\ (Len(hist') = Depth => PrintT(ToJson([hist |-> hist'])))

\* ---- invariants ---------------------------------------------------------------------------------
\* the code (closed boundaries) answers every askable query as the law does from the current
\* configuration - whatever was called before, whether or not the table exists or is stale
MechanismIgnoresHistory == \A q \in QM : Askable(q) => SMech(st.cfg, st.defs, q, TRUE) = SAnswer(st.cfg, st.defs, q)
\* a freshly constructed calendar with the same configuration and defaults answers the same
SameAsFresh == \A q \in QM : Askable(q) =>
    LET fresh == DoSetDefaults(NewCal(st.cfg), st.defs) IN SAnswer(fresh.cfg, fresh.defs, q) = SAnswer(st.cfg, st.defs, q)
TableOnlyFromBuild == (~st.pop => st.tab = <<>>) /\ (st.pop => \E H \in Hols, w \in Wks : st.tab = BTable(Cfg(H, w)))
\* (must fail) a mechanism that reads business days from the table once it exists
TableMechIsLaw == \A q \in {x \in QM : x.op = "is_trading" /\ x.ex = 0} : Askable(q) =>
    LET sc == Eff(st.defs, q)  t == QInst(q) IN
    (\E D \in {t[1], t[1] + 1} : TabIsBday(st, D) /\ InSession(sc, D, t)) = IsTrading(st.cfg, sc, t)
\* the stale table is reachable (vacuity guard for the history part): checked as a must-fail invariant too
NeverStale == st.pop => st.tab = BTable(st.cfg)

\* ---- action properties ----------------------------------------------------------------------------
QueriesArePure == [][lastop' = "ask" => st' = st]_vars
BuildKeepsConfig == [][lastop' = "build" => (st'.cfg = st.cfg /\ st'.defs = st.defs /\ (st.pop => st'.tab = st.tab))]_vars
EditsKeepTable == [][lastop' \in {"holidays", "weekend", "defaults"} => (st'.pop = st.pop /\ st'.tab = st.tab)]_vars
=============================================================================
