\* today's mechanism over every session of <= 2 calls
CONSTANTS Variant = "code"
          MaxCalls = 2
          Scope = "quick"
          Family = "none"
INIT Init
NEXT Next
INVARIANT NoMemory
INVARIANT RegistryBlind
INVARIANT ResultOwned
