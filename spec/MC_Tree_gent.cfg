CONSTANTS LeafSet = "std"
          RebuildWide = TRUE
          Deep = TRUE
          Wide3 = FALSE
          TableWide = TRUE
          StrangeWide = TRUE
          Only = "all"
INIT Init
NEXT NextGen
