CONSTANTS LeafSet = "std"
          RebuildWide = TRUE
          Deep = TRUE
          Wide3 = FALSE
          TableWide = TRUE
INIT Init
NEXT NextGen
