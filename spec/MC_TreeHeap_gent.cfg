CONSTANTS Deep = TRUE
          Walk = "unfold"
          Size = "wide"
INIT Init
NEXT NextGen
