CONSTANTS MaxWraps = 4
          LastOnlyFrom = 3
          MaxChain = 3
          MaxCalls = 5
          Wide = FALSE
          FixedCode = TRUE
          Modes = {"bind", "heap", "memo", "chain", "exc", "args", "deco", "order"}
          MaxExcChain = 1
          MaxBindings = 1
          MaxArgSteps = 0
          MaxDecoObjs = 3
          MaxDecoCalls = 0
          MaxOrdChain = 1
          TwoDecos = FALSE
INIT Init
NEXT Next
INVARIANT BindLaws
INVARIANT BindTotal
INVARIANT TwinsDiffer
INVARIANT Transparent
INVARIANT ReturnsWhatFReturns
INVARIANT FallbackIffRaises
INVARIANT DropsExactlyUndeclared
INVARIANT WrapTwiceIsOnce
INVARIANT NormalFormKeepsBehaviour
INVARIANT ExcLaws
INVARIANT ReplayIsTheCall
INVARIANT ArgBindings
INVARIANT OrderLaws
INVARIANT OrderMatters
INVARIANT DecoLaws
INVARIANT DecoratedNormal
INVARIANT NoDoubleWrapping
INVARIANT MechRefinesMC
INVARIANT MemoOncePerKey
PROPERTY OnlyNewObject
PROPERTY MechOnlyNewObject
PROPERTY MemoStable
PROPERTY ArgumentsUntouched
PROPERTY DecoratedStable
