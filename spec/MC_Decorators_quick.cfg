CONSTANTS MaxWraps = 4
          LastOnlyFrom = 3
          MaxChain = 3
          MaxCalls = 5
          Wide = FALSE
          FixedCode = TRUE
          Modes = {"bind", "heap", "memo", "chain"}
INIT Init
NEXT Next
INVARIANT BindLaws
INVARIANT BindTotal
INVARIANT TwinsDiffer
INVARIANT Transparent
INVARIANT ReturnsWhatFReturns
INVARIANT FallbackIffRaises
INVARIANT DropsExactlyUndeclared
INVARIANT WrapTwiceIsOnce
INVARIANT NormalFormKeepsBehaviour
INVARIANT NoDoubleWrapping
INVARIANT MechRefinesMC
INVARIANT MemoOncePerKey
PROPERTY OnlyNewObject
PROPERTY MechOnlyNewObject
PROPERTY MemoStable
