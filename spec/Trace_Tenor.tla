----------------------------- MODULE Trace_Tenor -----------------------------
(* Trace validation for extension X05.  Every line of the log is one observation of the real     *)
(* code: the arguments as the driver rendered them from abstract values, and what came back.     *)
(*                                                                                               *)
(*  k = "yb"    years_between(t0, t1): t0 ordinal, t1 = <<ordinal, second, microsecond>>, out     *)
(*  k = "ytm"   years_to_maturity(M, ts) in one calling form ("date" one call per t, "list",      *)
(*              "series", "frame"): ts = ordinals, outs = per t <<"val", <<p, q>>>> / <<"nan">> /  *)
(*              <<"exc", class>>                                                                  *)
(*  k = "tenor" years_to_maturity('<n><u>'); "named" the named tenors (out, and what the plain    *)
(*              spelling gave); "ynum" a number; "ycont" a list / tuple of maturities             *)
(*  k = "mon" / "ym" / "nth" / "num" / "np" / "per" / "bumpv" / "fmt"   the helpers of X05-b      *)
(*  k = "zone" / "astz" / "istz"                                        the zone algebra of X05-c *)
(* Verdict: "" or the name of the failing clause; "bad_input" = the driver left the domain of the *)
(* specification (a machinery failure, never a violation).                                        *)
EXTENDS Tenor, TenorZone, Batch

Same(x, z) == x[1] = z[1] /\ Len(x) = Len(z) /\ x = z
Has(o, f)  == f \in DOMAIN o

\* ---------------------------------------------------------------------------------- X05-a ----
YbVerdict(o) == IF o.out[1] = "ok" /\ o.out[2] = WholeYears(o.t0, o.t1[1]) THEN "" ELSE "years_between"

\* one valuation date: before or at maturity every form must give the law; after it the scalar and list forms still
\* must (named deviation SeriesPastMaturity: a timeseries shows NaN there, which the statement does not pin)
YtmOne(form, M, t, out) ==
    LET want == YTM(M, t) IN
    IF out[1] = "val" /\ out[2][2] > 0 /\ RatEq(out[2], want) THEN ""
    ELSE IF t > M /\ form \in {"series", "frame"} /\ out[1] = "nan" THEN ""
    ELSE IF t > M THEN "ytm_past_maturity" ELSE "ytm"
YtmVerdict(o) ==
    IF Len(o.ts) # Len(o.outs) THEN "ytm_shape"
    ELSE LET bad == {i \in 1..Len(o.ts) : YtmOne(o.form, o.M, o.ts[i], o.outs[i]) # ""} IN
         IF bad = {} THEN "" ELSE YtmOne(o.form, o.M, o.ts[CHOOSE i \in bad : \A j \in bad : i <= j], o.outs[CHOOSE i \in bad : \A j \in bad : i <= j])
TenorVerdict(o) == IF o.u \notin TenorUnits THEN "bad_input"
                   ELSE IF o.out[1] = "val" /\ o.out[2][2] > 0 /\ RatEq(o.out[2], TenorYears(o.n, o.u)) THEN "" ELSE "tenor_string"
NamedVerdict(o) == IF o.nm \notin NamedTenors THEN "bad_input"
                   ELSE IF o.out[1] = "val" /\ o.plain[1] = "val" /\ o.out[2][2] > 0 /\ RatEq(o.out[2], o.plain[2]) /\ NamedOk(PlainName(o.nm), o.out[2])
                        THEN "" ELSE "named_tenor"
YnumVerdict(o) == IF o.out[1] = "val" /\ o.out[2][2] > 0 /\ RatEq(o.out[2], o.v) THEN "" ELSE "number_passes"
\* a list / tuple of maturities: the same container type, and item by item what the items give alone
YcontVerdict(o) == IF o.outtype = o.intype /\ Len(o.outs) = Len(o.alone) /\ \A i \in 1..Len(o.outs) : Same(o.outs[i], o.alone[i]) THEN "" ELSE "container"

\* ---------------------------------------------------------------------------------- X05-b ----
MonVerdict(o) == IF Same(o.out, Month(o.v)) THEN ""
                 ELSE IF Month(o.v) = Rejected THEN "month_rejects" ELSE "month"
YmVerdict(o)  == LET want == YM(o.y, o.v) IN
                 IF want[1] = "ok" THEN (IF o.out[1] = "ok" /\ o.out[2] = want[2] THEN "" ELSE "ym")
                 ELSE (IF Same(o.out, want) THEN "" ELSE "ym_rejects")
NthVerdict(o) == LET want == NthDow(o.y, o.mv, o.n, o.ws) IN
                 IF want = Undefined THEN "bad_input"
                 ELSE IF Same(o.out, want) THEN ""
                 ELSE IF o.n < 0 /\ o.mv[1] # "int" THEN "nth_from_end_spelled_month" ELSE "nth_weekday"
NumVerdict(o) == LET want == NumDenote(o.v, o.today) IN
                 IF want = Undefined THEN "bad_input"
                 ELSE IF Same(o.out, want) THEN ""
                 ELSE IF o.typ \in {"np.int64", "np.int32"} THEN "number_numpy_int" ELSE "number"
NpVerdict(o)  == LET want == NpDenote(o.u, o.c) IN
                 IF want = Undefined \/ ~NpInDomain(o.u, want) THEN "bad_input"
                 ELSE IF Same(o.out, want) THEN "" ELSE "numpy_datetime64"
PerVerdict(o) == IF o.period = IsPeriod(o.s) /\ o.bump = IsBump(<<"str", o.s>>) THEN "" ELSE "period"
BumpvVerdict(o) == IF o.out = IsBump(o.v) THEN "" ELSE "is_bump"
\* a format: what was written, and - for the layouts and the special spellings - what dt() made of it in every dialect that reads it
FmtVerdict(o) ==
    LET cv == o.c  f == o.fmt IN
    IF ~(cv[1] \in 1000..9999 /\ ValidYMD(cv[1], cv[2], cv[3]) /\ cv[4] \in 0..23 /\ cv[5] \in 0..59 /\ cv[6] \in 0..59 /\ cv[7] \in 0..999999) THEN "bad_input"
    ELSE IF ~FormatInDomain(f, cv) THEN "bad_input"
    ELSE IF o.out # <<"ok", Dt2Str(f, cv)>> THEN "dt2str"
    ELSE LET want == IF Has(o, "layout") THEN (IF LayoutOk(o.layout) /\ <<"str", LayoutFormat(o.layout)>> = f THEN ReadBack(o.layout, cv) ELSE <<"bad">>)
                     ELSE SpecialReadBack(f, cv)
             dls  == IF Has(o, "layout") /\ LayoutOk(o.layout) THEN DialectsOf(o.layout) ELSE {"uk", "us"} IN
         IF want = <<"bad">> THEN "bad_input"
         ELSE IF want = Undefined THEN (IF Len(o.back) = 0 THEN "" ELSE "bad_input")
         ELSE IF {o.back[i][1] : i \in 1..Len(o.back)} # dls THEN "bad_input"
         ELSE IF \A i \in 1..Len(o.back) : Same(o.back[i][2], want) THEN "" ELSE "dt2str_roundtrip"

\* ---------------------------------------------------------------------------------- X05-c ----
TimeOk(t) == /\ t[1] \in {"naive", "aware"} /\ t[3] \in 0..86399 /\ t[4] \in 0..999999
             /\ CivilOf(t[2])[1] \in 2008..2036 /\ (t[1] = "aware" => t[5] \in -900..900)
ZoneVerdict(o) ==
    LET z == ZoneOfSpelling(o.z2) IN
    IF z = <<"undefined">> \/ ~TimeOk(o.t) \/ o.op \notin Ops THEN "bad_input"
    ELSE IF ~Claimed(o.op, o.z2) THEN "domain"
    ELSE LET want == Answer(o.op, o.t, z, o.sys) IN
         IF want = Undefined3 THEN "domain"            \* a wall clock the target zone skips or repeats: not claimed, the driver drops the line
         ELSE IF Same(o.out, want) THEN ""
         ELSE IF o.op = "bump" /\ o.z2[1] \in {"obj", "fixed"} /\ o.out[1] = "exc" THEN "zone_object_not_recognised"
         ELSE IF o.op \in {"replace", "sreplace", "dt", "sdt"} THEN "replace_keeps_wall_clock" ELSE "convert_keeps_instant"
\* as_tz(name): the offsets of the zone it returns at the recorded UTC minutes
AstzVerdict(o) ==
    IF ~NameKnown(o.name) THEN "bad_input"
    ELSE IF o.out[1] # "ok" THEN "as_tz_name"
    ELSE IF \A i \in 1..Len(o.utc) : o.out[2][i] = OffAtUTC(ZoneOfName(o.name), o.utc[i]) THEN "" ELSE "as_tz_name"
IstzVerdict(o) == IF IsTzLaw(o.kind, o.out) THEN "" ELSE "is_tz"

Verdict(o) == CASE o.k = "yb"    -> YbVerdict(o)
                [] o.k = "ytm"   -> YtmVerdict(o)
                [] o.k = "tenor" -> TenorVerdict(o)
                [] o.k = "named" -> NamedVerdict(o)
                [] o.k = "ynum"  -> YnumVerdict(o)
                [] o.k = "ycont" -> YcontVerdict(o)
                [] o.k = "mon"   -> MonVerdict(o)
                [] o.k = "ym"    -> YmVerdict(o)
                [] o.k = "nth"   -> NthVerdict(o)
                [] o.k = "num"   -> NumVerdict(o)
                [] o.k = "np"    -> NpVerdict(o)
                [] o.k = "per"   -> PerVerdict(o)
                [] o.k = "bumpv" -> BumpvVerdict(o)
                [] o.k = "fmt"   -> FmtVerdict(o)
                [] o.k = "zone"  -> ZoneVerdict(o)
                [] o.k = "astz"  -> AstzVerdict(o)
                [] o.k = "istz"  -> IstzVerdict(o)
                [] OTHER -> "bad_input"

Init == BatchInit
Next == BatchNext(Verdict)
=============================================================================
