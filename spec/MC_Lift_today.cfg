\* mechanism model of today's code (positional companions handed down as generators):
\* expected to violate PosEqKw - run with must_fail
CONSTANTS D = 1
          W = 1
          DD = 2
          Part = "deep"
          Materialise = FALSE
INIT Init
NEXT Eval
INVARIANT PosEqKw
