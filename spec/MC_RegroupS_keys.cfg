CONSTANTS Scope = "quick"
          Mech = "keys"
          Loose = FALSE
          PlanSet = {"FI"}
INIT Init
NEXT Next
INVARIANT StepLaw
