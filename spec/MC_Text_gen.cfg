CONSTANTS Strata = {"prefix", "sep", "replace", "split", "chars", "bbg", "num", "misc"}
          NumLen = 3
INIT Init
NEXT EvalGen
