------------------------------ MODULE Trace_Bump ------------------------------
(* Trace validation for property C09.  Every line is an observation of the real dt_bump:        *)
(*   k = "raw"  one call  dt_bump(t, bump) -> out   (t, bump, out as in Bump.tla; out is         *)
(*              <<"ok", instant>>, <<"exc", class>> or <<"other", type name>>)                   *)
(*   k = "gb" / "gf" / "gm"  a *group* of calls from midnight starts that share the abstraction  *)
(*              the specification factors through, with the number of calls and one concrete     *)
(*              witness <<start ordinal, result ordinal>>:                                        *)
(*     gb  business days:  (weekday of t, n)            -> (days moved, time of day of the result)*)
(*     gf  fixed units, ints, timedelta(days):  (form, unit, n) -> (days moved, time of day)       *)
(*     gm  month units:  (unit, n, month, class of day-of-month dlo..dhi, leap-ness of the target *)
(*         year) -> (years moved, month, day - start day, time of day)                            *)
(*   The group's claim is checked for the whole class, and the witness is recomputed in full.     *)
(*   k = "raw" with the fields real / dress: the start was handed over in that realisation (the   *)
(*              law reads it as the instant t - domain: the realisation can say t) and the bump   *)
(*              in that dress (numpy integer, Timedelta, str subclass ...: the same bump)         *)
(*   k = "sess" one recorded SESSION on shared objects: lists0 = the caller's lists at the start,  *)
(*              steps = <<kind, action, outcome, the caller's lists afterwards>>, kind "call"      *)
(*              (action <<op, start, argument, spelling>>) or "edit" (the caller's own action);    *)
(*              the fold carries the abstract lists: every call is judged by the law on the lists   *)
(*              as they are at that moment and must leave them as they were.                        *)
EXTENDS BumpSession, Batch

W0 == 730122                                \* 2000-01-03, a Monday

RawVerdict(o) ==
    IF ~InDomain(o.t, o.bump) THEN "domain"
    ELSE IF "real" \in DOMAIN o /\ ~RealOk(o.real, o.t) THEN "domain"
    ELSE IF o.out[1] # "ok" THEN "raised"
    ELSE IF o.out[2] = Apply(o.t, o.bump) THEN ""
    ELSE IF o.bump[1] # "tenor" THEN "fixed_exact"
    ELSE IF Len(o.bump[2]) > 1 THEN "compound_left_to_right"
    ELSE IF o.bump[2][1][2] = "b" THEN "b_nth_weekday"
    ELSE IF o.bump[2][1][2] \in MonthUnits THEN "month_keeps_day_or_rolls"
    ELSE "fixed_exact"

GbVerdict(o) ==
    IF Weekday(W0) # 0 \/ o.wd \notin 0..6 \/ o.cnt < 1 THEN "domain"
    ELSE IF Weekday(o.wit[1]) # o.wd \/ o.wit[2] - o.wit[1] # o.dord THEN "witness"
    ELSE IF <<BDayStep(W0 + o.wd, o.n) - (W0 + o.wd), 0, 0>> # <<o.dord, o.s1, o.u1>> THEN "b_nth_weekday"
    ELSE IF BDayStep(o.wit[1], o.n) # o.wit[2] THEN "b_nth_weekday"
    ELSE ""

GfBump(o) == CASE o.form = "int" -> <<"int", o.n>>
               [] o.form = "td"  -> <<"td", <<o.n, 0, 0>>>>
               [] o.form = "tenor" -> <<"tenor", <<<<o.n, o.unit>>>>>>
GfVerdict(o) ==
    IF o.cnt < 1 \/ (o.form = "tenor" /\ o.unit \notin FixedUnits) THEN "domain"
    ELSE IF o.wit[2] - o.wit[1] # o.dord THEN "witness"
    ELSE IF Apply(Midnight(o.wit[1]), GfBump(o)) # <<o.wit[2], o.s1, o.u1>> THEN "fixed_exact"
    ELSE IF Apply(Midnight(W0), GfBump(o)) # <<W0 + o.dord, o.s1, o.u1>> THEN "fixed_exact"
    ELSE ""

GmVerdict(o) ==
    LET k  == o.n * MonthsOf(o.unit)
        cv == CivilOf(o.wit[1])
        r  == CivilOf(o.wit[2])
        ty == NormYM(cv[1], cv[2] + k)[1]
    IN  IF o.cnt < 1 \/ o.unit \notin MonthUnits \/ o.dlo > o.dhi \/ o.m \notin 1..12 THEN "domain"
        ELSE IF \/ cv[2] # o.m \/ cv[3] \notin o.dlo..o.dhi \/ (o.leap = 1) # IsLeap(ty)
                \/ <<r[1] - cv[1], r[2], r[3] - cv[3]>> # <<o.dy, o.m1, o.dd>> THEN "witness"
        ELSE IF \E d \in o.dlo..o.dhi : MonthShape(o.m, d, k, o.leap = 1) # <<o.dy, o.m1, d + o.dd>>
             THEN "month_keeps_day_or_rolls"
        ELSE IF AddUnit(Midnight(o.wit[1]), o.n, o.unit) # <<o.wit[2], o.s1, o.u1>> THEN "month_keeps_day_or_rolls"
        ELSE ""

\* the clause of the statement a wrong result of call cl on `lists` breaks
SessClause(lists, cl) ==
    LET items == ArgItems(lists, cl[3]) IN
    IF Len(items) # 1 THEN "compound_left_to_right"
    ELSE IF items[1][1] # "tenor" THEN "fixed_exact"
    ELSE IF Len(items[1][2]) > 1 THEN "compound_left_to_right"
    ELSE IF items[1][2][1][2] = "b" THEN "b_nth_weekday"
    ELSE IF items[1][2][1][2] \in MonthUnits THEN "month_keeps_day_or_rolls"
    ELSE "fixed_exact"
RECURSIVE SessFold(_, _, _)
SessFold(lists, steps, k) ==
    IF k > Len(steps) THEN ""
    ELSE LET e == steps[k] IN
         IF e[1] = "call" THEN
              IF ~CallInDomain(lists, e[2]) THEN "domain"
              ELSE IF e[3][1] # "ok" THEN "raised"
              ELSE IF e[3] # LawCall(lists, e[2]) THEN SessClause(lists, e[2])
              ELSE IF e[4] # lists THEN "argument_changed"
              ELSE SessFold(lists, steps, k + 1)
         ELSE IF e[1] = "edit" THEN
              IF ~EditOk(lists, e[2]) THEN "domain"
              ELSE IF e[4] # Edit(lists, e[2]) THEN "domain"          \* the driver's own bookkeeping
              ELSE SessFold(Edit(lists, e[2]), steps, k + 1)
         ELSE "unknown_kind"
SessVerdict(o) == SessFold(o.lists0, o.steps, 1)

Verdict(o) == CASE o.k = "raw" -> RawVerdict(o)
                [] o.k = "sess" -> SessVerdict(o)
                [] o.k = "gb"  -> GbVerdict(o)
                [] o.k = "gf"  -> GfVerdict(o)
                [] o.k = "gm"  -> GmVerdict(o)
                [] OTHER -> "unknown_kind"

Init == BatchInit
Next == BatchNext(Verdict)
=============================================================================
