CONSTANTS Strata = {"prefix", "sep", "replace", "split", "chars", "bbg", "num", "misc"}
          NumLen = 3
INIT Init
NEXT Eval
INVARIANT MeetIsGLB
INVARIANT MeetAlgebra
INVARIANT DeprefixLaws
INVARIANT DeprefixSepLaws
INVARIANT SplitJoin
INVARIANT SplitMechIsLaw
INVARIANT DedupLaw
INVARIANT ReplaceFixpoint
INVARIANT RefusalJustified
INVARIANT CharMapLaws
INVARIANT WordLaws
INVARIANT F12Nearest
INVARIANT BbgLaws
INVARIANT EndingsConsistent
INVARIANT BlanksAndCommas
INVARIANT SignAndPercent
INVARIANT OneReading
