-------------------------------- MODULE TextFs --------------------------------
(* Extension X08-c, second part: mkdir and dictdir over a real directory tree, as a machine on an abstract tree.             *)
(* State: [dirs, files] = the directories and files under a root, each a sequence of names (the root, <<>>, is always there).   *)
(* Calls:                                                                                                                     *)
(*   [op "mkdir", path, trail, spell]  the path root/n1/../nk, with a trailing separator (trail) or without: "makes a new       *)
(*                                     directory if not exists. It works if path is a filename too" - the LAST name of a path    *)
(*                                     without trailing separator is taken for a file name (named deviation LastNameIsAFile),    *)
(*                                     everything before it is made, with all its ancestors; the directory is handed back        *)
(*   [op "touch", path]                the harness writes a file (not a call of the library)                                     *)
(*   [op "dictdir", path, level]       the tree below a directory as a dict: name -> full path, directories opened up to `level` *)
(* Law: mkdir only ever ADDS the directories on the way to its target, changes nothing that exists, and doing it again changes   *)
(* nothing; dictdir shows exactly the children, files and unopened directories as paths, opened directories as dicts.            *)
EXTENDS Naturals, Sequences, FiniteSets

FsPrefixes(p) == {SubSeq(p, 1, k) : k \in 1..Len(p)}
FsTarget(call) == IF call.trail THEN call.path ELSE SubSeq(call.path, 1, Len(call.path) - 1)
FsIsDir(st, p) == p = <<>> \/ p \in st.dirs
FsEnabled(st, call) ==
    CASE call.op = "mkdir"   -> \A q \in FsPrefixes(call.path) : q \notin st.files            \* no file stands in the way
      [] call.op = "touch"   -> FsIsDir(st, SubSeq(call.path, 1, Len(call.path) - 1)) /\ call.path \notin st.dirs
      [] call.op = "dictdir" -> FsIsDir(st, call.path)
FsAfter(st, call) ==
    CASE call.op = "mkdir"   -> [dirs |-> st.dirs \cup FsPrefixes(FsTarget(call)), files |-> st.files]
      [] call.op = "touch"   -> [dirs |-> st.dirs, files |-> st.files \cup {call.path}]
      [] call.op = "dictdir" -> st

FsKids(st, p) == {q \in st.dirs \cup st.files : Len(q) = Len(p) + 1 /\ SubSeq(q, 1, Len(p)) = p}
RECURSIVE FsDict(_, _, _)
FsDict(st, p, level) == LET names == {q[Len(q)] : q \in FsKids(st, p)} IN
                        [nm \in names |-> LET q == Append(p, nm) IN
                                          IF level > 0 /\ q \in st.dirs THEN <<"d", FsDict(st, q, level - 1)>> ELSE <<"p", q>>]
\* what the call shows: mkdir - the directory handed back; dictdir - the dict; and always the whole tree afterwards
FsShows(st, call) == CASE call.op = "mkdir" -> FsTarget(call) [] call.op = "touch" -> <<>> [] call.op = "dictdir" -> FsDict(st, call.path, call.level)
FsObs(st, call) == LET a == FsAfter(st, call) IN [ret |-> FsShows(st, call), dirs |-> a.dirs, files |-> a.files]

SeqSet(s) == {s[i] : i \in DOMAIN s}
\* a recorded history: steps = <<[call, obs = [ret, dirs (a list), files (a list)]]>>; "" or the clause of the first step the law does not explain
RECURSIVE FsJudge(_, _)
FsJudge(st, steps) ==
    IF steps = <<>> THEN ""
    ELSE LET s == steps[1]  a == FsAfter(st, s.call)
             feat == IF s.call.op = "mkdir" /\ s.call.spell = "back" THEN ":backslash" ELSE "" IN
         IF ~FsEnabled(st, s.call) THEN "outside_domain"
         ELSE IF "exc" \in DOMAIN s.obs THEN s.call.op \o "_raised" \o feat
         ELSE IF SeqSet(s.obs.dirs) # a.dirs \/ SeqSet(s.obs.files) # a.files THEN s.call.op \o "_tree" \o feat
         ELSE IF s.obs.ret # FsShows(st, s.call) THEN s.call.op \o "_result" \o feat
         ELSE FsJudge(a, Tail(steps))
=============================================================================
