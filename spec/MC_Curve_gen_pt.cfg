CONSTANTS Kinds = {"pt", "vec"}
          Wide = FALSE
INIT Init
NEXT EvalGen
