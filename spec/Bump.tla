------------------------------- MODULE Bump -------------------------------
(* Property C09: what dt_bump(t, bump) denotes.                                                  *)
(*                                                                                               *)
(* An instant is <<ordinal, second of day, microsecond>> (Civil!Ord, 0..86399, 0..999999).       *)
(* A bump is a tagged pair                                                                       *)
(*    <<"int", k>>                      an integer: k days                                       *)
(*    <<"td", <<days, secs, micros>>>>  a timedelta in Python's normal form (secs, micros >= 0)  *)
(*    <<"tenor", <<<<n1, u1>>, ...>>>>  a period string: parts <<n, unit letter>> applied left   *)
(*                                      to right ('1y-3m2d' = <<<<1,"y">>, <<-3,"m">>, <<2,"d">>>>)*)
(* Law-level operators are written from the property statement: BDayLaw (the n-th weekday by     *)
(* counting), BDayStep (unit steps from the roll-forward of a weekend start), AddDur (exact      *)
(* time arithmetic), AddMonths (keep the day of month if it exists, else roll the excess days    *)
(* into the following month), ApplyTenor (left fold).  Mechanism models of the code              *)
(* (BDayClosed = the closed weekday formula, AddMonthsMech = the month-overflow constructor)     *)
(* are compared with the laws only inside TLC (MC_Bump).                                         *)
EXTENDS Civil, Sequences, FiniteSets, SequencesExt

Sign(k) == IF k > 0 THEN 1 ELSE IF k < 0 THEN -1 ELSE 0
Abs(k)  == IF k < 0 THEN -k ELSE k

\* ------------------------------------------------------------------ instants and durations --
Midnight(o)   == <<o, 0, 0>>
IsMidnight(t) == t[2] = 0 /\ t[3] = 0
IsInstant(t)  == t[2] \in 0..86399 /\ t[3] \in 0..999999
Before(a, b)  == \/ a[1] < b[1]
                 \/ a[1] = b[1] /\ a[2] < b[2]
                 \/ a[1] = b[1] /\ a[2] = b[2] /\ a[3] < b[3]
AtOrBefore(a, b) == a = b \/ Before(a, b)

\* t + (dd days, ds seconds, du microseconds), any signs, carried into normal form
AddDur(t, dd, ds, du) ==
    LET u == t[3] + du
        s == t[2] + ds + (u \div 1000000)
    IN  <<t[1] + dd + (s \div 86400), s % 86400, u % 1000000>>

\* time elapsed from a to b as <<whole seconds, microseconds>> (not normalised; a and b at most
\* a few years apart so that the seconds stay below 2^31)
Elapsed(a, b) == <<(b[1] - a[1]) * 86400 + (b[2] - a[2]), b[3] - a[3]>>

\* ----------------------------------------------------------------------- business days -----
IsWeekday(o) == Weekday(o) < 5
\* a weekend day first rolls forward to Monday
RollFwd(o) == IF IsWeekday(o) THEN o ELSE o + (7 - Weekday(o))

\* law, by counting: w is the n-th weekday after (before) the weekday o
WeekdaysIn(a, b) == Cardinality({x \in a..b : IsWeekday(x)})
NthWeekday(o, n) ==
    IF n = 0 THEN o
    ELSE IF n > 0 THEN CHOOSE w \in (o + 1)..(o + 2 * n + 2) : IsWeekday(w) /\ WeekdaysIn(o + 1, w) = n
    ELSE CHOOSE w \in (o + 2 * n - 2)..(o - 1) : IsWeekday(w) /\ WeekdaysIn(w, o - 1) = -n
BDayLaw(o, n) == NthWeekday(RollFwd(o), n)

\* law, by unit steps: from the rolled start, |n| times move to the adjacent weekday in the
\* direction of n (day by day over a weekend).  FoldLeft is iterative inside TLC (Java override).
NextWeekday(o, s) == IF IsWeekday(o + s) THEN o + s ELSE IF IsWeekday(o + 2 * s) THEN o + 2 * s ELSE o + 3 * s
BDayStep(o, n) == FoldLeft(LAMBDA cur, i : NextWeekday(cur, Sign(n)), RollFwd(o), [i \in 1..Abs(n) |-> i])

\* mechanism: the closed formula of _dates.dt_bump (whole weeks, then the remainder, skipping
\* the weekend when the remainder crosses it)
BDayClosed(o, n) ==
    LET wd0 == Weekday(o)
        o1  == IF wd0 > 4 THEN o + (7 - wd0) ELSE o
        wd  == IF wd0 > 4 THEN 0 ELSE wd0
        w   == n \div 5
        d   == n - 5 * w
    IN  o1 + 7 * w + (IF wd + d > 4 THEN d + 2 ELSE d)

\* ------------------------------------------------------------------------ month units -------
\* Civil date <-> ordinal in closed form (no search, no recursion; March-based years), so that
\* TLC can afford them millions of times.  MC_Bump checks them equal to Civil!YMD / Civil!Ord.
CivilOf(o) ==
    LET z   == o + 305                                   \* days since 0000-03-01
        era == z \div 146097
        doe == z % 146097
        yoe == (doe - doe \div 1460 + doe \div 36524 - doe \div 146096) \div 365
        doy == doe - (365 * yoe + yoe \div 4 - yoe \div 100)
        mp  == (5 * doy + 2) \div 153
        d   == doy - (153 * mp + 2) \div 5 + 1
        m   == IF mp < 10 THEN mp + 3 ELSE mp - 9
    IN  <<yoe + era * 400 + (IF m <= 2 THEN 1 ELSE 0), m, d>>
OrdOf(y, m, d) ==
    LET yy  == IF m <= 2 THEN y - 1 ELSE y
        era == yy \div 400
        yoe == yy % 400
        doy == (153 * (IF m > 2 THEN m - 3 ELSE m + 9) + 2) \div 5 + d - 1
    IN  era * 146097 + yoe * 365 + yoe \div 4 - yoe \div 100 + doy - 305

\* law: move the month, keep the day of month when it exists in the target month, otherwise
\* roll the excess days into the following month
AddMonths(o, k) ==
    LET cv  == CivilOf(o)
        ym  == NormYM(cv[1], cv[2] + k)
        dim == DIM(ym[1], ym[2])
    IN  IF cv[3] <= dim THEN OrdOf(ym[1], ym[2], cv[3])
        ELSE LET nx == NormYM(ym[1], ym[2] + 1) IN OrdOf(nx[1], nx[2], cv[3] - dim)
\* law for the year unit, stated on the year
AddYears(o, n) ==
    LET cv == CivilOf(o)  y == cv[1] + n  dim == DIM(y, cv[2])
    IN  IF cv[3] <= dim THEN OrdOf(y, cv[2], cv[3])
        ELSE LET nx == NormYM(y, cv[2] + 1) IN OrdOf(nx[1], nx[2], cv[3] - dim)
\* mechanism: the month-overflow constructor _ymd(y, m + k, d) = first of the target month + (d - 1) days
AddMonthsMech(o, k) ==
    LET cv == CivilOf(o)  ym == NormYM(cv[1], cv[2] + k) IN OrdOf(ym[1], ym[2], 1) + (cv[3] - 1)

\* The same law without the year: what happens to <<month, day>> depends on the start year only
\* through the leap-ness of the target year.  Result <<years moved, month, day>>.  (Used to
\* validate bulk observations grouped by this abstraction; MC_Bump proves it equal to AddMonths.)
DimL(m, leap) == IF m = 2 THEN (IF leap THEN 29 ELSE 28) ELSE DIM(1, m)
MonthShape(m, d, k, leap) ==
    LET dy  == (m + k - 1) \div 12
        tm  == ((m + k - 1) % 12) + 1
        dim == DimL(tm, leap)
    IN  IF d <= dim THEN <<dy, tm, d>>
        ELSE IF tm = 12 THEN <<dy + 1, 1, d - dim>> ELSE <<dy, tm + 1, d - dim>>

\* ------------------------------------------------------------------------------ units -------
FixedUnits == {"d", "w", "h", "n", "s"}          \* n = minute
MonthUnits == {"m", "q", "y"}
Units      == FixedUnits \cup MonthUnits \cup {"b"}
UnitSeconds(u) == CASE u = "d" -> 86400 [] u = "w" -> 604800 [] u = "h" -> 3600 [] u = "n" -> 60 [] u = "s" -> 1
MonthsOf(u)    == CASE u = "m" -> 1 [] u = "q" -> 3 [] u = "y" -> 12

\* Month units are claimed at midnight only (the code resets the time of day: outside the
\* domain, see TenorInDomain); the law below carries the time of day along for every unit.
\* Named deviation WeekendKeepsClock: a business-day bump also carries the time of day along when a
\* weekend start rolls to Monday (Sat 23:00 + 0b = Mon 23:00, Sun 01:00 + 0b = Mon 01:00), so
\* "monotone in t" is a law of the date (MonotoneB in MC_Bump), not of instants inside one weekend.
AddUnit(t, n, u) ==
    CASE u = "d" -> AddDur(t, n, 0, 0)
      [] u = "w" -> AddDur(t, 7 * n, 0, 0)
      [] u = "h" -> AddDur(t, 0, 3600 * n, 0)
      [] u = "n" -> AddDur(t, 0, 60 * n, 0)
      [] u = "s" -> AddDur(t, 0, n, 0)
      [] u = "b" -> <<BDayStep(t[1], n), t[2], t[3]>>
      [] u = "m" -> <<AddMonths(t[1], n), t[2], t[3]>>
      [] u = "q" -> <<AddMonths(t[1], 3 * n), t[2], t[3]>>
      [] u = "y" -> <<AddYears(t[1], n), t[2], t[3]>>

\* compound tenors apply their parts left to right
RECURSIVE ApplyTenor(_, _)
ApplyTenor(t, parts) == IF parts = <<>> THEN t
                        ELSE ApplyTenor(AddUnit(t, Head(parts)[1], Head(parts)[2]), Tail(parts))

Apply(t, bump) ==
    CASE bump[1] = "int"   -> AddDur(t, bump[2], 0, 0)
      [] bump[1] = "td"    -> AddDur(t, bump[2][1], bump[2][2], bump[2][3])
      [] bump[1] = "tenor" -> ApplyTenor(t, bump[2])

\* the claimed domain: every month-unit part of a tenor is applied to a midnight
RECURSIVE TenorInDomain(_, _)
TenorInDomain(t, parts) ==
    \/ parts = <<>>
    \/ /\ Head(parts)[2] \in Units
       /\ Head(parts)[2] \in MonthUnits => IsMidnight(t)
       /\ TenorInDomain(AddUnit(t, Head(parts)[1], Head(parts)[2]), Tail(parts))
InDomain(t, bump) == IsInstant(t) /\ (bump[1] = "tenor" => TenorInDomain(t, bump[2]))

\* a bump that moves nothing (excluded from drange)
IsZeroBump(bump) ==
    CASE bump[1] = "int"   -> bump[2] = 0
      [] bump[1] = "td"    -> bump[2] = <<0, 0, 0>>
      [] bump[1] = "tenor" -> \A i \in 1..Len(bump[2]) : bump[2][i][1] = 0
=============================================================================
