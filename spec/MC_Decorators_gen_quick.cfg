CONSTANTS MaxWraps = 4
          LastOnlyFrom = 4
          MaxChain = 4
          MaxCalls = 4
          Wide = FALSE
          FixedCode = TRUE
          Modes = {"bind", "heap", "memo", "chain"}
INIT Init
NEXT NextGen
INVARIANT MemoIsLaw
