CONSTANTS MaxWraps = 4
          LastOnlyFrom = 4
          MaxChain = 4
          MaxCalls = 4
          Wide = FALSE
          FixedCode = TRUE
          Modes = {"bind", "heap", "memo", "chain", "exc", "args", "deco", "order"}
          MaxExcChain = 2
          MaxBindings = 2
          MaxArgSteps = 3
          MaxDecoObjs = 3
          MaxDecoCalls = 2
          MaxOrdChain = 2
          TwoDecos = FALSE
INIT Init
NEXT NextGen
INVARIANT MemoIsLaw
INVARIANT MemoScalesMC
