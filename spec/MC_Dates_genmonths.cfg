CONSTANTS DayYears <- QuickYears
          OvfYears <- QuickOvfYears
          OvfD = 400
          GenYears = {2000}
          GenOvfYears = {2000}
INIT GenMonthsInit
NEXT GenMonthsNext
