---------------------------- MODULE MC_FramesFold ----------------------------
(* Extension X06-c on the specification, and the source of its S2C cases and histories.           *)
(* Function-like part (INIT InitFold, NEXT Eval): reducer(f, xs, default) for every f of the menu   *)
(* and every sequence of 0..MaxLen members of f's universe.                                       *)
(* History part (INIT InitObj, NEXT ObjNext): ONE reducing object is called again and again - with *)
(* a sequence, with a sequence and a default, with two operands, with and without a keyword        *)
(* argument.  Every answer is the law of that call alone; the object is the same afterwards.       *)
(* Leaky = TRUE models an implementation that remembers the keyword arguments of an earlier call:  *)
(* it violates AnswerIsLaw (must_fail configuration) - the histories tell the two apart.           *)
EXTENDS FramesFold, TLC, Json
CONSTANTS MaxLen, NStamps, Leaky, Depth

VARIABLES cs, done,                 \* function-like part
          obj, mem, call, last, n, hist
vars == <<cs, done, obj, mem, call, last, n, hist>>
NoCase == [op |-> "none"]
NoCall == [form |-> "none"]

\* ---- universes: the members a function of the menu is folded over ----------------------------------
Seqs(S, m) == UNION {[1..k -> S] : k \in 0..m}
SerOn(i, I, M) == MkS(I, LAMBDA x : IF x \in M THEN NaNC ELSE VFlt(4 * i + x, 1))
SerU(i) == UNION {{SerOn(i, I, M) : M \in SUBSET I} : I \in SUBSET (1..NStamps)}
IdxU == {Idx(S) : S \in SUBSET (1..(NStamps + 1))}
Members(fn) ==
    CASE fn \in {"pair", "sub", "add"} -> {VInt(k) : k \in 1..3}
      [] fn = "cat" -> {VLst(<<>>), VLst(<<VInt(1)>>), VLst(<<VInt(2), VInt(3)>>)}
      [] fn = "tsadd" -> SerU(1)
      [] fn \in {"union", "inter"} -> IdxU
NoneLeaf == [k |-> "x", id |-> 0]                  \* None among the objects of Series.tla (a leaf known by identity)
Defaults(fn) == IF fn \in {"tsadd", "union", "inter"} THEN {NoneLeaf, Idx({})} ELSE {None, VInt(0)}
Kws(fn) == CASE fn \in {"pair", "sub", "add"} -> {NoKw, VInt(5)}
             [] fn = "tsadd" -> {NoKw, <<"join", "oj">>}
             [] OTHER -> {NoKw}
\* sequences of timeseries: member i comes from universe i (different values), up to MaxLen - 1 of them
TsSeqs == UNION {{[i \in 1..k |-> s[i]] : s \in [1..k -> SerU(1)]} : k \in 0..(MaxLen - 1)}
SeqsOf(fn) == IF fn = "tsadd" THEN TsSeqs ELSE IF fn \in {"union", "inter"} THEN Seqs(IdxU, MaxLen - 1) ELSE Seqs(Members(fn), MaxLen)

InitFold == /\ done = FALSE /\ obj = NoCase /\ mem = NoKw /\ call = NoCall /\ last = None /\ n = 0 /\ hist = <<>>
            /\ \E fn \in Fns : \E xs \in SeqsOf(fn), d \in Defaults(fn), kw \in Kws(fn) :
                  cs = [op |-> "fold", fn |-> fn, xs |-> xs, dflt |-> d, kw |-> kw]
Eval == cs.op = "fold" /\ done = FALSE /\ done' = TRUE /\ UNCHANGED <<cs, obj, mem, call, last, n, hist>>
FoldExpect(c) == [v |-> Fold(c.fn, c.xs, c.dflt, c.kw), calls |-> Calls(c.fn, c.xs, c.kw), origin |-> Origin(c.xs)]
EvalGen == Eval /\ PrintT(ToJson([case |-> cs, want |-> FoldExpect(cs)]))

\* ---- the reducing object ----------------------------------------------------------------------------
\* obj = [fn, by]: by = "callable" (a function) | "method" (the name of a method of the left operand)
ObjFns == {"pair", "sub"}
CallsOf(fn) == {[form |-> "seq", xs |-> xs, dflt |-> d, kw |-> kw] : xs \in Seqs(Members(fn), 2) \cup {<<VInt(3), VInt(1), VInt(2)>>}, d \in {None, VInt(0)}, kw \in Kws(fn)}
               \cup {[form |-> "two", a |-> a, b |-> b, kw |-> kw] : a \in Members(fn), b \in {VInt(2)}, kw \in Kws(fn)}
InitObj == /\ cs = NoCase /\ done = TRUE /\ mem = NoKw /\ call = NoCall /\ last = None /\ n = 0 /\ hist = <<>>
           /\ \E fn \in ObjFns, by \in {"callable", "method"} : obj = [fn |-> fn, by |-> by]
DoCall(c) == /\ call' = c /\ last' = Mech(obj.fn, c, mem, Leaky) /\ mem' = (IF Leaky /\ c.kw # NoKw THEN c.kw ELSE mem)
             /\ n' = n + 1 /\ UNCHANGED <<cs, done, obj>>
CallSeq == cs.op = "none" /\ n < Depth /\ \E c \in CallsOf(obj.fn) : c.form = "seq" /\ DoCall(c) /\ hist' = hist
CallTwo == cs.op = "none" /\ n < Depth /\ \E c \in CallsOf(obj.fn) : c.form = "two" /\ DoCall(c) /\ hist' = hist
ObjNext == CallSeq \/ CallTwo
GenNext == /\ cs.op = "none" /\ n < Depth
           /\ \E c \in CallsOf(obj.fn) : /\ DoCall(c)
                                         /\ hist' = Append(hist, [c |-> c, want |-> CallLaw(obj.fn, c), calls |-> CallLog(obj.fn, c)])
           /\ (n' = Depth => PrintT(ToJson([obj |-> obj, hist |-> hist'])))

\* ---- clauses: the fold --------------------------------------------------------------------------------
IsFold == done /\ cs.op = "fold"
X == cs.xs
FoldOf(xs) == Fold(cs.fn, xs, cs.dflt, cs.kw)
\* empty: the default; one member: that member; one more member: one more call of f on the result so far
FoldEnds == IsFold => /\ (X = <<>> => FoldOf(X) = cs.dflt)
                      /\ (Len(X) = 1 => FoldOf(X) = X[1])
                      /\ (Len(X) >= 2 => FoldOf(X) = F(cs.fn, FoldOf(SubSeq(X, 1, Len(X) - 1)), X[Len(X)], cs.kw))
\* n - 1 calls; call i receives the result of call i - 1 (the first member for i = 1) and member i + 1; the result is the last call's
FoldCalls == IsFold =>
    LET cl == Calls(cs.fn, X, cs.kw) IN
    /\ Len(cl) = (IF X = <<>> THEN 0 ELSE Len(X) - 1)
    /\ \A i \in 1..Len(cl) : /\ cl[i].b = X[i + 1]
                             /\ cl[i].a = (IF i = 1 THEN X[1] ELSE F(cs.fn, cl[i - 1].a, cl[i - 1].b, cs.kw))
    /\ Len(cl) >= 1 => FoldOf(X) = F(cs.fn, cl[Len(cl)].a, cl[Len(cl)].b, cs.kw)
\* the default plays no part unless the sequence is empty (reduce() with a start value would fold it in)
DefaultOnlyIfEmpty == (IsFold /\ X # <<>>) => \A d \in Defaults(cs.fn) : Fold(cs.fn, X, d, cs.kw) = FoldOf(X)
\* the free constructor shows the shape: every left argument but the first is a tuple made by the call before
LeftNested == (IsFold /\ cs.fn = "pair" /\ cs.kw = NoKw) =>
    LET cl == Calls("pair", X, NoKw) IN \A i \in 2..Len(cl) : cl[i].a = VTup(<<cl[i - 1].a, cl[i - 1].b>>)
\* lists of timeseries: the fold of add_ is C08's reduction; of unions / intersections C03's joint index
TsFoldIsReduce == (IsFold /\ cs.fn = "tsadd" /\ X # <<>>) => FoldOf(X) = Reduce("add", X, IF cs.kw = NoKw THEN "ij" ELSE "oj", "ij")
IndexFoldIsJoint == (IsFold /\ cs.fn \in {"union", "inter"} /\ X # <<>>) =>
    FoldOf(X) = Idx(Joint(IF cs.fn = "union" THEN "oj" ELSE "ij", [i \in 1..Len(X) |-> Range(X[i].t)]))

\* ---- clauses: the object -------------------------------------------------------------------------------
InObj == cs.op = "none"
AnswerIsLaw == (InObj /\ n > 0 /\ FoldCallDomain(call)) => last = CallLaw(obj.fn, call)
NothingRemembered == (InObj /\ ~Leaky) => mem = NoKw
ObjectUnchanged == [][obj' = obj]_vars
=============================================================================
