CONSTANTS Big = FALSE
          Strata = {}
          MaxOps = 3
INIT InitInst
NEXT NextInst
INVARIANT ItemsAreADict
PROPERTY OnlyTargetChanges
