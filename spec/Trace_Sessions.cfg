INIT Init
NEXT Next
