\* MC: every clause on the session machine, 10 scenarios, free histories of 5 steps, lists of <= 2 bumps
CONSTANTS Variant = "code"
          MaxSteps = 5
          MaxLen = 2
          Shape = "free"
          Scope = "thorough"
          Emitting = FALSE
INIT Init
NEXT Next
INVARIANT ArgumentsUntouched
INVARIANT ResultIsLaw
INVARIANT NoMemory
INVARIANT SpellingIrrelevant
INVARIANT RealisationIrrelevant
INVARIANT ListIsCompound
PROPERTY CallsOwnNothing
VIEW View
