\* MC: every clause on the session machine, 10 scenarios, free histories of 6 steps, lists of <= 3 bumps
CONSTANTS Variant = "code"
          MaxSteps = 6
          MaxLen = 3
          Shape = "free"
          Scope = "thorough"
          Emitting = FALSE
INIT Init
NEXT Next
INVARIANT ArgumentsUntouched
INVARIANT ResultIsLaw
INVARIANT NoMemory
INVARIANT SpellingIrrelevant
INVARIANT RealisationIrrelevant
INVARIANT ListIsCompound
PROPERTY CallsOwnNothing
VIEW View
