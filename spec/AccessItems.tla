---------------------------- MODULE AccessItems ----------------------------
(* Extension X07-b: the small access / normalising helpers, as laws over tagged values (Values.tla).              *)
(*   getitem(value, key, *default)                         GetItem                                                *)
(*   callitem / callattr(value, keys, args, kwargs)        ChainOutcome (over a recording object, see Node)       *)
(*   getattrs(obj, attrs, base, *default)                  GetAttrs                                               *)
(*   relabel(keys, *args, **relabels), d.relabel(...)      RelabelMaps, RelabelDicts  (SETS: named deviations)    *)
(*   dict_invert(d)                                        Invert                                                 *)
(*   as_list / as_tuple / first / last / unique            AsList, First, Last, UniqueOutcomes                    *)
(*   tree_repr(tree, offset)                               Renderings (SET), MechRender (today's 80-column rule)  *)
EXTENDS Values, SequencesExt, FiniteSetsExt, TLC

IsExc(r) == r[1] = "exc"
StartsWith(s, pre) == Len(s) >= Len(pre) /\ SubSeq(s, 1, Len(pre)) = pre
EndsWith(s, suf)   == Len(s) >= Len(suf) /\ SubSeq(s, Len(s) - Len(suf) + 1, Len(s)) = suf
\* association lists  << <<key, value>>, ... >>
Keys(items)      == [i \in 1..Len(items) |-> items[i][1]]
HasKey(items, k) == \E i \in 1..Len(items) : items[i][1] = k
Get(items, k)    == items[CHOOSE i \in 1..Len(items) : items[i][1] = k][2]
\* d[k] = x on an ordered dict: an existing key keeps its place
SetKey(items, k, x) == IF HasKey(items, k) THEN [i \in 1..Len(items) |-> IF items[i][1] = k THEN <<k, x>> ELSE items[i]]
                       ELSE Append(items, <<k, x>>)
RECURSIVE SetAll(_, _)
SetAll(items, more) == IF more = <<>> THEN items ELSE SetAll(SetKey(items, more[1][1], more[1][2]), Tail(more))

\* ---------------------------------------------------------------------------------------------
\* getitem: value[key]; with a default, ANY failure of the lookup yields the (first) default
\* ---------------------------------------------------------------------------------------------
RECURSIVE Hashable(_)
Hashable(v) == IF Tag(v) \in {"l", "m"} THEN FALSE
               ELSE IF Tag(v) = "t" THEN \A i \in 1..Len(Pay(v)) : Hashable(Pay(v)[i]) ELSE TRUE
IndexOf(k)  == Pay(k)                                                   \* an int, or a bool (an int in Python)
Lookup(c, k) ==
    CASE Tag(c) = "m" -> IF ~Hashable(k) THEN Raises("TypeError")
                         ELSE IF Tag(k) = "s" /\ HasKey(Pay(c), Pay(k)) THEN Get(Pay(c), Pay(k)) ELSE Raises("KeyError")
      [] Tag(c) \in {"l", "t", "s"} ->
            LET n == Len(Pay(c)) IN
            IF Tag(k) \notin {"i", "b"} THEN Raises("TypeError")
            ELSE IF IndexOf(k) >= n \/ IndexOf(k) < -n THEN Raises("IndexError")
            ELSE LET j == IF IndexOf(k) >= 0 THEN IndexOf(k) + 1 ELSE n + IndexOf(k) + 1 IN
                 IF Tag(c) = "s" THEN VStr(SubSeq(Pay(c), j, j)) ELSE Pay(c)[j]
      [] OTHER -> Raises("TypeError")                                   \* not subscriptable
GetItem(c, k, d) == LET r == Lookup(c, k) IN IF Len(d) = 0 THEN r ELSE IF IsExc(r) THEN d[1] ELSE r

\* ---------------------------------------------------------------------------------------------
\* callitem / callattr.  The value is a recording object (Node): node["push"] / node.push accepts any arguments and
\* returns a node that remembers the call; "need" takes exactly one argument x (by position or by name), "peek" takes
\* none and returns the calls so far as a plain tuple; "nope" does not exist.
\*   keys   = [sp |-> "one" | "many", k |-> <<names>>]
\*   args   = [sp |-> "none" | "tuple" | "list", a |-> <<values>> | << <<values>>, ... >>]
\*   kwargs = [sp |-> "none" | "dict" | "list", k |-> items | << <<"d", items>> | <<"n", <<>> >>, ... >>]
\* A tuple is ONE call's arguments, a dict ONE call's keywords; lists give them step by step; a single one serves
\* every step (zipper's law, C19); None stands for "no arguments" also inside a list of keywords.
\* ---------------------------------------------------------------------------------------------
ArgSteps(args) == CASE args.sp = "none" -> << <<>> >> [] args.sp = "tuple" -> <<args.a>> [] OTHER -> args.a
KwSteps(kw)    == CASE kw.sp = "none" -> << <<>> >>
                    [] kw.sp = "dict" -> <<kw.k>>
                    [] OTHER -> IF kw.k = <<>> THEN << <<>> >> ELSE [i \in 1..Len(kw.k) |-> IF kw.k[i][1] = "n" THEN <<>> ELSE kw.k[i][2]]
Lens(c)        == {Len(c.keys.k), Len(ArgSteps(c.args)), Len(KwSteps(c.kwargs))} \ {1}
NSteps(c)      == IF Lens(c) = {} THEN 1 ELSE CHOOSE n \in Lens(c) : TRUE
Bc(s, i)       == IF Len(s) = 1 THEN s[1] ELSE s[i]
Entry(m, a, k) == [m |-> m, a |-> a, k |-> k]
StepOn(fn, st, m, a, k) ==
    IF st[1] = "val" THEN Raises(IF fn = "callitem" THEN "TypeError" ELSE "AttributeError")
    ELSE CASE m = "push" -> <<"node", Append(st[2], Entry("push", a, k))>>
           [] m = "need" -> IF Len(a) = 1 /\ k = <<>> THEN <<"node", Append(st[2], Entry("need", a, <<>>))>>
                            ELSE IF a = <<>> /\ Len(k) = 1 /\ k[1][1] = "x" THEN <<"node", Append(st[2], Entry("need", <<k[1][2]>>, <<>>))>>
                            ELSE Raises("TypeError")
           [] m = "peek" -> IF a = <<>> /\ k = <<>> THEN <<"val", st[2]>> ELSE Raises("TypeError")
           [] OTHER -> Raises(IF fn = "callitem" THEN "KeyError" ELSE "AttributeError")
RECURSIVE RunFrom(_, _, _)
RunFrom(c, st, i) ==
    IF IsExc(st) \/ i > NSteps(c) THEN st
    ELSE RunFrom(c, StepOn(c.fn, st, Bc(c.keys.k, i), Bc(ArgSteps(c.args), i), Bc(KwSteps(c.kwargs), i)), i + 1)
ChainOutcome(c) == IF Cardinality(Lens(c)) > 1 THEN Raises("ValueError") ELSE RunFrom(c, <<"node", <<>>>>, 1)

\* ---------------------------------------------------------------------------------------------
\* getattrs(obj, attrs, base, *default)
\*   obj   = the instance's own attributes, in order (association list); its class also has the attribute "kind" = "K"
\*   want  = [sp |-> "none" | "one" | "many", a |-> <<names>>]
\*   base  = [sp |-> "none" | "true" | "_" | "__" | "inst" | "type", cls, items]
\* result  <<"ok", [cls, items]>> or an exception: base first, then the wanted attributes in order
\* ---------------------------------------------------------------------------------------------
ClassAttrs == << <<"kind", VStr("K")>> >>
AttrOf(obj, name, d) == IF HasKey(obj, name) THEN Get(obj, name)
                        ELSE IF HasKey(ClassAttrs, name) THEN Get(ClassAttrs, name)
                        ELSE IF Len(d) > 0 THEN d[1] ELSE Raises("AttributeError")
Start(obj, base) ==
    CASE base.sp = "none" -> [cls |-> "dictattr", items |-> <<>>]
      [] base.sp = "true" -> [cls |-> "dictattr", items |-> obj]
      [] base.sp \in {"_", "__"} -> [cls |-> "dictattr", items |-> SelectSeq(obj, LAMBDA p : ~StartsWith(p[1], base.sp))]
      [] base.sp = "inst" -> [cls |-> base.cls, items |-> base.items]
      [] OTHER -> [cls |-> base.cls, items |-> <<>>]
RECURSIVE AddAttrs(_, _, _, _)
AddAttrs(res, obj, names, d) ==
    IF names = <<>> THEN <<"ok", res>>
    ELSE LET x == AttrOf(obj, names[1], d) IN
         IF IsExc(x) THEN x ELSE AddAttrs([res EXCEPT !.items = SetKey(res.items, names[1], x)], obj, Tail(names), d)
GetAttrs(c) == AddAttrs(Start(c.obj, c.base), c.obj, IF c.want.sp = "none" THEN <<>> ELSE c.want.a, c.d)

\* ---------------------------------------------------------------------------------------------
\* relabel(keys, *args, **relabels) -> mapping old -> new, as a SET of pairs
\*   form = [sp |-> "none" | "affix" | "fn" | "dict" | "names" | "pos", s |-> string, items |-> pairs, names |-> <<strings>>]
\* ---------------------------------------------------------------------------------------------
UpperOf == [a |-> "A", b |-> "B", c |-> "C", k1 |-> "K1", x_ |-> "X_"]
Fn(name, k) == CASE name = "upper" -> UpperOf[k] [] name = "dbl" -> k \o k [] OTHER -> "z"     \* "const": everything becomes z
PairSet(items) == {items[i] : i \in 1..Len(items)}
MapOver(keys, F(_)) == {<<keys[i], F(keys[i])>> : i \in 1..Len(keys)}
\* later pairs replace earlier ones with the same old key
Override(m, items) == {p \in m : ~HasKey(items, p[1])} \cup {items[i] : i \in {j \in 1..Len(items) : \A l \in (j + 1)..Len(items) : items[l][1] # items[j][1]}}
Prefixed(keys, s) == MapOver(keys, LAMBDA k : s \o k)
Suffixed(keys, s) == MapOver(keys, LAMBDA k : k \o s)
Renamed(keys, names) == {<<keys[i], names[i]>> : i \in 1..Len(keys)}
\* NAMED DEVIATIONS  BothEnds: "_x_" starts AND ends with an underscore - prefix or suffix;
\*                   SingleKeyAffix: ONE key and ONE string with an underscore at an end - affix, or the new name
Affixed(keys, s) == (IF StartsWith(s, "_") THEN {Suffixed(keys, s)} ELSE {}) \cup (IF EndsWith(s, "_") THEN {Prefixed(keys, s)} ELSE {})
BaseMaps(keys, form) ==
    CASE form.sp = "none"  -> {{}}
      [] form.sp = "affix" -> Affixed(keys, form.s) \cup (IF Len(keys) = 1 THEN {Renamed(keys, <<form.s>>)} ELSE {})
      [] form.sp = "fn"    -> {MapOver(keys, LAMBDA k : Fn(form.s, k))}
      [] form.sp = "dict"  -> {Override({}, form.items)}
      \* "names" (one list of new names) and "pos" (the new names one by one); ONE new name for ONE key is the very call
      \* of the affix form
      [] OTHER             -> {Renamed(keys, form.names)} \cup (IF Len(keys) = 1 THEN Affixed(keys, form.names[1]) ELSE {})
RelabelInDomain(keys, form) ==
    /\ form.sp \in {"names", "pos"} => Len(form.names) = Len(keys)
    /\ form.sp = "affix" => (Len(keys) = 1 \/ StartsWith(form.s, "_") \/ EndsWith(form.s, "_"))
RelabelMaps(keys, form, kw) == {Override(m, kw) : m \in BaseMaps(keys, form)}

\* d.relabel(...): the items of d in order, every key replaced by its new name.
\* NAMED DEVIATION Collision: when two keys get one name, the name appears once (where the first was) with either value
NewKey(m, k) == IF \E p \in m : p[1] = k THEN (CHOOSE p \in m : p[1] = k)[2] ELSE k
RelabelWith(m, items) ==
    LET nk   == [i \in 1..Len(items) |-> NewKey(m, items[i][1])]
        firsts == SelectSeq([i \in 1..Len(items) |-> i], LAMBDA i : \A j \in 1..(i - 1) : nk[j] # nk[i])
        cands(i) == {items[j][2] : j \in {l \in 1..Len(items) : nk[l] = nk[i]}}
        vals == {items[i][2] : i \in 1..Len(items)}
    IN  {[q \in 1..Len(firsts) |-> <<nk[firsts[q]], f[q]>>] : f \in {g \in [1..Len(firsts) -> vals] : \A q \in 1..Len(firsts) : g[q] \in cands(firsts[q])}}
RelabelDicts(items, form, kw) == UNION {RelabelWith(m, items) : m \in RelabelMaps(Keys(items), form, kw)}

\* ---------------------------------------------------------------------------------------------
\* dict_invert(d): value -> [keys], values in order of first appearance (the first representative of a class of
\* values a dict cannot tell apart: 1, 1.0, True), keys in order
\* ---------------------------------------------------------------------------------------------
Invert(items) ==
    IF \E i \in 1..Len(items) : ~Hashable(items[i][2]) THEN Raises("TypeError")
    ELSE LET firsts == SelectSeq([i \in 1..Len(items) |-> i], LAMBDA i : \A j \in 1..(i - 1) : ~SameForSet(items[j][2], items[i][2]))
         IN  <<"ok", [q \in 1..Len(firsts) |-> <<items[firsts[q]][2],
                 [r \in 1..Cardinality({j \in 1..Len(items) : SameForSet(items[j][2], items[firsts[q]][2])}) |->
                     items[CHOOSE j \in 1..Len(items) : /\ SameForSet(items[j][2], items[firsts[q]][2])
                                                        /\ Cardinality({l \in 1..j : SameForSet(items[l][2], items[firsts[q]][2])}) = r][1]]>>]>>

\* ---------------------------------------------------------------------------------------------
\* as_list / as_tuple / first / last / unique.  input  [sp, xs]:
\*   "none"; "list" "tuple" "range" "keys" "values" "zip": the elements xs; "tuple1list": a 1-tuple holding the list xs
\*   (the *args idiom); "scalar" "str" "set" "dict" "gen" "array": ONE thing - <<"self", 0>> stands for that very object
\* ---------------------------------------------------------------------------------------------
Self == <<"self", 0>>
ManyKinds == {"list", "tuple", "range", "keys", "values", "zip", "tuple1list"}
AsList(inp, none) == IF inp.sp = "none" THEN (IF none THEN <<None>> ELSE <<>>)
                     ELSE IF inp.sp \in ManyKinds THEN inp.xs ELSE <<Self>>
First(inp) == LET s == AsList(inp, FALSE) IN IF s = <<>> THEN None ELSE s[1]
LastOf(inp) == LET s == AsList(inp, FALSE) IN IF s = <<>> THEN None ELSE s[Len(s)]
\* NAMED DEVIATION WhichEquality: values that Python's == calls equal although they are of different kinds (1, 1.0, True),
\* and NaNs, may or may not count as "the same value"
SurelySame(u, v)   == u = v /\ ~IsNaN(u)
SurelyDiffer(u, v) == ~PyEq(u, v) /\ ~(IsNaN(u) /\ IsNaN(v))
UniqueOutcomes(inp) ==
    LET s == AsList(inp, FALSE) IN
    IF s = <<>> THEN {None} ELSE IF Len(s) = 1 THEN {s[1]}
    ELSE IF \A i \in 2..Len(s) : SurelySame(s[1], s[i]) THEN {s[1]}
    ELSE IF \E i, j \in 1..Len(s) : SurelyDiffer(s[i], s[j]) THEN {Raises("ValueError")}
    ELSE {s[1], Raises("ValueError")}

\* ---------------------------------------------------------------------------------------------
\* tree_repr.  node = [t |-> "d" | "l" | "s" | "i", cls, kids |-> << <<key, node>>, ... >> (key "" in a list), s, n]
\* A rendering is a sequence of lines [ind, txt].  Any node may be shown on ONE line as Python prints it (str);
\* a non-empty dict may instead be opened: its class name if it is not a plain dict, then per key in order "key:" and the
\* child four columns deeper; a non-empty list may be opened: its elements one after the other.
\* ---------------------------------------------------------------------------------------------
Leaf(s)  == [t |-> "s", cls |-> "", kids |-> <<>>, s |-> s, n |-> 0]
LeafI(n) == [t |-> "i", cls |-> "", kids |-> <<>>, s |-> "", n |-> n]
DictN(cls, kids) == [t |-> "d", cls |-> cls, kids |-> kids, s |-> "", n |-> 0]
ListN(xs) == [t |-> "l", cls |-> "list", kids |-> [i \in 1..Len(xs) |-> <<"", xs[i]>>], s |-> "", n |-> 0]
RECURSIVE Rep(_, _)
Rep(s, n) == IF n = 0 THEN "" ELSE s \o Rep(s, n - 1)
RECURSIVE JoinStr(_, _)
JoinStr(ss, sep) == IF ss = <<>> THEN "" ELSE IF Len(ss) = 1 THEN ss[1] ELSE ss[1] \o sep \o JoinStr(Tail(ss), sep)
RECURSIVE Repr(_)
Repr(nd) == CASE nd.t = "s" -> "'" \o nd.s \o "'"
              [] nd.t = "i" -> ToString(nd.n)
              [] nd.t = "d" -> "{" \o JoinStr([i \in 1..Len(nd.kids) |-> "'" \o nd.kids[i][1] \o "': " \o Repr(nd.kids[i][2])], ", ") \o "}"
              [] OTHER      -> "[" \o JoinStr([i \in 1..Len(nd.kids) |-> Repr(nd.kids[i][2])], ", ") \o "]"
Str(nd) == IF nd.t = "s" THEN nd.s ELSE Repr(nd)
Line(ind, txt) == [ind |-> ind, txt |-> txt]
RECURSIVE Concat(_)
Concat(ss) == IF ss = <<>> THEN <<>> ELSE ss[1] \o Concat(Tail(ss))
\* all ways to pick one rendering per child
RECURSIVE Picks(_)
Picks(sets) == IF sets = <<>> THEN {<<>>} ELSE {<<h>> \o t : h \in sets[1], t \in Picks(Tail(sets))}
RECURSIVE Renderings(_, _)
Renderings(nd, ind) ==
    {<<Line(ind, Str(nd))>>}
    \cup (IF nd.t = "d" /\ nd.kids # <<>>
          THEN {(IF nd.cls = "dict" THEN <<>> ELSE <<Line(ind, nd.cls)>>)
                  \o Concat([i \in 1..Len(nd.kids) |-> <<Line(ind, nd.kids[i][1] \o ":")>> \o pick[i]])
                : pick \in Picks([i \in 1..Len(nd.kids) |-> Renderings(nd.kids[i][2], ind + 4)])}
          ELSE IF nd.t = "l" /\ nd.kids # <<>>
          THEN {Concat(pick) : pick \in Picks([i \in 1..Len(nd.kids) |-> Renderings(nd.kids[i][2], ind)])}
          ELSE {})
\* the mechanism as written today: open what does not fit into 80 columns
RECURSIVE MechRender(_, _)
MechRender(nd, ind) ==
    IF nd.t = "d" /\ nd.kids # <<>> /\ Len(Str(nd)) > 80
    THEN (IF nd.cls = "dict" THEN <<>> ELSE <<Line(ind, nd.cls)>>)
         \o Concat([i \in 1..Len(nd.kids) |-> <<Line(ind, nd.kids[i][1] \o ":")>> \o MechRender(nd.kids[i][2], ind + 4)])
    ELSE IF nd.t = "l" /\ nd.kids # <<>> /\ Len(Str(nd)) > 80
    THEN Concat([i \in 1..Len(nd.kids) |-> MechRender(nd.kids[i][2], ind)])
    ELSE <<Line(ind, Str(nd))>>
\* what a rendering shows: the leaves (nodes printed on one line) with the keys above them, in order
RECURSIVE Shown(_, _, _)
Shown(lines, i, path) ==      \* path = << <<ind, key>>, ... >> of the "key:" lines above line i
    IF i > Len(lines) THEN <<>>
    ELSE LET ln == lines[i]
             up == SelectSeq(path, LAMBDA p : p[1] < ln.ind) IN
         IF EndsWith(ln.txt, ":") THEN Shown(lines, i + 1, SelectSeq(path, LAMBDA p : p[1] < ln.ind) \o << <<ln.ind, ln.txt>> >>)
         ELSE << <<[k \in 1..Len(up) |-> up[k][2]], ln.txt>> >> \o Shown(lines, i + 1, path)
=============================================================================
