\* S2C generator (thorough): simulated long sessions (run with -simulate -depth 9)
CONSTANTS Variant = "code"
          MaxSteps = 8
          MaxLen = 5
          Shape = "free"
          Scope = "thorough"
          Emitting = TRUE
INIT Init
NEXT Next
