CONSTANTS
 NS = 3
 NT = 3
 ND = 5
 SfTop = 400
 MaxNaN = 3
INIT Init
NEXT EvalGen
