CONSTANTS
 NS = 3
 NT = 3
 ND = 5
 SfTop = 400
 MaxNaN = 3
INIT Init
NEXT EvalGen
INVARIANT AllInDomain
INVARIANT CatIndex
INVARIANT CatThenColumn
INVARIANT CatInnerIsOuterCut
INVARIANT CatFillIsAsOf
INVARIANT CatFillKeeps
INVARIANT CatAssociates
INVARIANT StackRows
INVARIANT StackThenDropIsUpdate
INVARIANT AsSeriesRoundTrip
INVARIANT AsSeriesList
INVARIANT ColumnByName
INVARIANT ColumnByPosition
INVARIANT ColumnPassesThrough
INVARIANT ColumnsOrdered
INVARIANT RecolumnLaw
INVARIANT RecolumnIsSeriesLaw
INVARIANT NpReindexAtEnd
INVARIANT DropDupLaw
INVARIANT MaskLaw
INVARIANT ApplyIsAggregate
INVARIANT ApplyNaNOnlyWhereNoEntry
INVARIANT SfLaw
