------------------------------- MODULE MC_Fill -------------------------------
(* Property C12 on the specification.  One behaviour per case  (f, ms, lim) --Eval--> done;     *)
(* the clauses are examined in the done-state so that TLC's workers share the work.             *)
(* every NaN mask of a vector of length <= MaxLen1 and of a MaxRows2 x 2 frame, every list of   *)
(* at most MaxList methods, every limit of Lims (0 = None).  The invariants are the clauses of  *)
(* the property, stated independently of the defining equations of Fill.tla where possible.     *)
(* The same state space is the source of the S2C replay: EvalGen prints every case with the set *)
(* of outcomes the specification admits.                                                        *)
EXTENDS Fill, TLC, Json, SequencesExt
CONSTANTS MaxLen1, MaxRows2, MaxList, Lims

VARIABLES f, ms, lim, done, outs      \* outs: the admitted outcomes, computed once by Eval
vars == <<f, ms, lim, done, outs>>

Code(j, i) == 100 * j + i
FrameOf(n, masks) ==       \* masks: one function [1..n -> BOOLEAN] per column, TRUE = valid
    [rows |-> Idx(n), cols |-> [j \in 1..Len(masks) |-> [i \in 1..n |-> IF masks[j][i] THEN Code(j, i) ELSE NaN]]]
Frames1 == UNION {{FrameOf(n, <<m>>) : m \in [1..n -> BOOLEAN]} : n \in 0..MaxLen1}
Frames2 == UNION {{FrameOf(n, <<m1, m2>>) : m1 \in [1..n -> BOOLEAN], m2 \in [1..n -> BOOLEAN]} : n \in 0..MaxRows2}
FrameU  == Frames1 \cup Frames2

CONSTV  == 7
Methods == {<<"ffill", 0>>, <<"bfill", 0>>, <<"const", CONSTV>>, <<"nona", 0>>, <<"fnna", 0>>,
            <<"ffill_na", 0>>, <<"ffill_0", 0>>}
ListU   == UNION {[1..k -> Methods] : k \in 0..MaxList}

Init == f \in FrameU /\ ms \in ListU /\ lim \in Lims /\ done = FALSE /\ outs = {}
Eval == done = FALSE /\ done' = TRUE /\ outs' = Fillna(f, ms, lim) /\ UNCHANGED <<f, ms, lim>>

Outs == outs
EvalGen == Eval /\ PrintT(ToJson([f |-> f, ms |-> ms, lim |-> lim, want |-> SetToSeq(outs'),
                                  nonafn |-> IF ms = <<>> /\ lim = 0
                                             THEN <<NonaFn(f, 0), NonaFn(f, 1), NonaFn(f, -1)>> ELSE <<>>]))

Has(name)  == \E x \in 1..Len(ms) : ms[x][1] = name
Only(names)== \A x \in 1..Len(ms) : ms[x][1] \in names
n0 == NRows(f)

\* results are frames over the same columns whose rows are a sub-sequence of the input's rows
Shape == done => \A g \in Outs :
    /\ WellFormed(g) /\ NCols(g) = NCols(f)
    /\ \A k \in 1..NRows(g) : g.rows[k] \in 1..n0
    /\ \A k \in 1..(NRows(g) - 1) : g.rows[k] < g.rows[k + 1]
\* df_fillna never changes a non-NaN cell
NonNaNKept == done => \A g \in Outs : \A k \in 1..NRows(g), j \in 1..NCols(f) :
    f.cols[j][g.rows[k]] # NaN => g.cols[j][k] = f.cols[j][g.rows[k]]
\* a filled cell holds a constant of the method list or a copy of the nearest valid neighbour of
\* its own column: an earlier one only if the list forward-fills, a later one only if it back-fills
ConstsOf == {ms[x][2] : x \in {y \in 1..Len(ms) : ms[y][1] = "const"}} \cup (IF Has("ffill_0") THEN {0} ELSE {})
FilledAreCopies == done =>
    \A g \in Outs : \A k \in 1..NRows(g), j \in 1..NCols(f) :
        LET r == g.rows[k]  v == g.cols[j][k]  s == f.cols[j] IN
        (s[r] = NaN /\ v # NaN) =>
            \/ v \in ConstsOf
            \/ \E p \in 1..n0 : /\ s[p] = v /\ p # r
                                /\ \A q \in 1..n0 : ((p < q /\ q < r) \/ (r < q /\ q < p)) => s[q] = NaN
                                /\ p < r => (Has("ffill") \/ Has("ffill_na") \/ Has("ffill_0"))
                                /\ p > r => Has("bfill")
\* a single ffill / bfill reaches exactly the NaNs within `lim` positions of the valid neighbour
RunBefore(s, i) == Cardinality({q \in 1..i : \A x \in q..i : s[x] = NaN})     \* length of the NaN run ending at i
RunAfter(s, i)  == Cardinality({q \in i..Len(s) : \A x \in i..q : s[x] = NaN})
Reach == done =>
    /\ ms = <<<<"ffill", 0>>>> => \A g \in Outs, j \in 1..NCols(f), i \in 1..n0 : LET s == f.cols[j] IN
          s[i] = NaN => (g.cols[j][i] # NaN <=> (RunBefore(s, i) < i /\ Within(RunBefore(s, i), lim)))
    /\ ms = <<<<"bfill", 0>>>> => \A g \in Outs, j \in 1..NCols(f), i \in 1..n0 : LET s == f.cols[j] IN
          s[i] = NaN => (g.cols[j][i] # NaN <=> (i + RunAfter(s, i) <= n0 /\ Within(RunAfter(s, i), lim)))
\* limit = None is the same as any limit >= the length
LimitNone == (done /\ lim = 0) => \A L \in {IF n0 = 0 THEN 1 ELSE n0, n0 + 1} : Fillna(f, ms, L) = Outs
\* the scanning mechanism equals the law
MechIsLaw == done => \A j \in 1..NCols(f) :
    FfillScan(f.cols[j], lim) = Ffill(f.cols[j], lim) /\ BfillScan(f.cols[j], lim) = Bfill(f.cols[j], lim)
\* fills keep every row; nona / fnna change no cell
FillKeepsRows == (done /\ ~Has("nona") /\ ~Has("fnna")) => \A g \in Outs : g.rows = f.rows
DropOnly  == (done /\ Only({"nona", "fnna"})) =>
    \A g \in Outs : \A k \in 1..NRows(g), j \in 1..NCols(f) : g.cols[j][k] = f.cols[j][g.rows[k]]
RowSet(g) == {g.rows[k] : k \in 1..NRows(g)}
NonaExact == (done /\ ms = <<<<"nona", 0>>>>) => \A g \in Outs : RowSet(g) = {i \in 1..n0 : ~AllNaN(f, i)}
FnnaExact == (done /\ ms = <<<<"fnna", 0>>>>) => \A g \in Outs :
    LET V == {i \in 1..n0 : ~AllNaN(f, i)} IN RowSet(g) = IF V = {} THEN {} ELSE MinS(V)..n0
RevRows(g) == [rows |-> Rev(g.rows), cols |-> [j \in 1..NCols(g) |-> Rev(g.cols[j])]]
DropAlgebra == done =>
    /\ Nona(Nona(f)) = Nona(f) /\ Fnna(Nona(f)) = Nona(f) /\ Nona(Fnna(f)) = Nona(f) /\ Fnna(Fnna(f)) = Fnna(f)
    /\ Lnna(f) = RevRows(Fnna(RevRows(f))) /\ Nona(Lnna(f)) = Nona(f)
\* ffill_na / ffill_0 = ffill wherever a later valid observation exists, the tail value elsewhere
FfillXLaw == (done /\ (ms = <<<<"ffill_na", 0>>>> \/ ms = <<<<"ffill_0", 0>>>>)) =>
    \A g \in Outs, j \in 1..NCols(f) : LET s == f.cols[j]  tail == IF ms[1][1] = "ffill_0" THEN 0 ELSE NaN IN
        Valid(s) # {} => g.cols[j] = [i \in 1..n0 |-> IF Bfill(s, 0)[i] = NaN THEN tail ELSE Ffill(s, lim)[i]]
\* without a limit every method is idempotent, and ffill followed by bfill leaves no NaN in a
\* column that has an observation
Idempotent == (done /\ lim = 0 /\ Len(ms) = 1) => UNION {Apply(ms[1], g, 0) : g \in Outs} = Outs
Complete   == (done /\ lim = 0 /\ ms = <<<<"ffill", 0>>, <<"bfill", 0>>>>) =>
    \A g \in Outs, j \in 1..NCols(f) : Valid(f.cols[j]) # {} => Valid(g.cols[j]) = 1..n0
\* the deviations never widen the outcome set beyond one choice per column and constant
FewOutcomes == done => (Cardinality(Outs) <= 16 /\ Outs # {})
=============================================================================
