--------------------------- MODULE MC_CalendarReg ---------------------------
(* Property C05, the registry: calendar(key, ...) as a state machine over a heap of calendar   *)
(* objects and the module-level map  key -> object.  One action per public call:               *)
(*   Register(k, H, w)          calendar(k, H, w, t0, t1)           new object, replaces        *)
(*   Construct(k, H, w, a)      Calendar(k, H, w, t0, t1, a)        object outside the registry *)
(*   RegisterObject(o)          calendar(obj)                       the object itself, replaces *)
(*   RegisterObjectWith(o, H)   calendar(obj, holidays = H)         new object under obj's key  *)
(*   Fetch(k)                   calendar(k)                         on a registered key         *)
(*   Query(k, q)                calendar(k).<op>(...)               builds the table when the   *)
(*   QueryObj(o, q)             obj.<op>(...) on a loose object     code would                  *)
(* `last` is a ghost: the holidays each key was last registered with (from the statement).     *)
(* `hist` is kept by the generator configurations only (KeepHist): the events with the outcome  *)
(* the specification expects, printed when a history is complete, for replay into the code.     *)
EXTENDS Calendar, TLC, Json, FiniteSetsExt
CONSTANTS Keys, NHol, NWk, Rich, MaxObj, Depth, KeepHist

VARIABLES st, last, hist
vars == <<st, last, hist>>

\* ---- menus ------------------------------------------------------------------------------------
E  == Ord(2000, 1, 31)                       \* a Monday, the month end;  E - 3 Fri, E - 2 Sat, E - 1 Sun
Lo == E - 25
Hi == E + 27
HolMenu == <<{}, {E}, {E - 3, E, E + 1}, {E - 4, E - 3}>>          \* none / month end / run across weekend and month end / Thu-Fri
WkMenu  == <<{5, 6}, {4, 5}, {}>>
Hols == {HolMenu[i] : i \in 1..NHol}
Wks  == {WkMenu[i] : i \in 1..NWk}
Cfg(H, w, a) == [hol |-> H, wk |-> w, adj |-> a, lo |-> Lo, hi |-> Hi]
Q(op, t, n, u, a) == [op |-> op, t |-> t, n |-> n, u |-> u, a |-> a]
\* both paths of add from a Friday and a Saturday, and the table-only queries
QSmall == {Q("add", E - 2, 1, 0, ""), Q("add", E - 2, 2, 0, ""), Q("add", E - 3, -2, 0, ""), Q("drange", E - 4, 0, E + 2, "")}
QRich  == QSmall \cup {Q("add", E - 2, -1, 0, ""), Q("add", E - 3, 1, 0, ""), Q("add", E - 3, 2, 0, ""), Q("add", E - 2, -2, 0, ""),
                       Q("add", E - 2, 0, 0, ""), Q("add", E - 2, 2, 0, "f"), Q("add", E - 2, 1, 0, "p"),
                       Q("is_bday", E, 0, 0, ""), Q("is_bday", E - 3, 0, 0, ""), Q("adjust", E - 1, 0, 0, ""), Q("adjust", E - 1, 0, 0, "f"),
                       Q("bdays", E - 4, 0, E + 2, ""), Q("bdays_add", E - 2, 3, 0, ""), Q("add_twice", E - 2, 1, 0, ""),
                       Q("add_inv", E - 5, 4, 0, ""), Q("dt_bump", E - 1, -3, 0, ""), Q("clock_diff", E - 5, 0, E + 2, "")}
QM == IF Rich THEN QRich ELSE QSmall

\* ---- helpers ----------------------------------------------------------------------------------
NObj == Len(st.heap)
Objs == 1..NObj
AdjKnown(ob) == ob.cfg.adj # "?"
\* a query the statement pins down on this object
Askable(ob, q) == /\ (q.a = "" /\ q.op \notin {"is_bday", "is_holiday"}) => AdjKnown(ob)
                  /\ InDomain(ob.cfg, q) /\ Pinned(ob.cfg, q)
HolSeq(H) == SetToSortSeq(H, <)
Log(ev) == hist' = IF KeepHist THEN Append(hist, ev) ELSE hist
Room == (KeepHist => Len(hist) < Depth)
Want(ob, q) == SetToSeq(AcceptedAnswers(ob.cfg, q))

Init == /\ st = [heap |-> <<>>, reg |-> [k \in Keys |-> 0]]
        /\ last = [k \in Keys |-> <<"none">>]
        /\ hist = <<>>

Register(k, H, w) ==
    /\ Room /\ NObj < MaxObj
    /\ st' = DoRegister(st, k, Cfg(H, w, "m"))
    /\ last' = [last EXCEPT ![k] = <<"hol", H>>]
    /\ Log([op |-> "Register", k |-> k, hol |-> HolSeq(H), wk |-> HolSeq(w), want |-> HolSeq(H)])
Construct(k, H, w, a) ==
    /\ Room /\ NObj < MaxObj
    /\ st' = DoConstruct(st, k, Cfg(H, w, a))
    /\ UNCHANGED last
    /\ Log([op |-> "Construct", k |-> k, hol |-> HolSeq(H), wk |-> HolSeq(w), adj |-> a, want |-> HolSeq(H)])
RegisterObject(o) ==
    /\ Room /\ st.heap[o].status \in {"loose", "live"}
    /\ st' = DoRegisterObject(st, o)
    /\ last' = [last EXCEPT ![st.heap[o].key] = <<"hol", st.heap[o].cfg.hol>>]
    /\ Log([op |-> "RegisterObject", o |-> o, want |-> HolSeq(st.heap[o].cfg.hol)])
\* the convention of the new object is not pinned ("?"): only queries that name one are asked of it
RegisterObjectWith(o, H) ==
    /\ Room /\ NObj < MaxObj /\ st.heap[o].status \in {"loose", "live"}
    /\ LET s2 == DoRegisterObjectWith(st, o, H) IN st' = [s2 EXCEPT !.heap[Len(s2.heap)].cfg.adj = "?"]
    /\ last' = [last EXCEPT ![st.heap[o].key] = <<"hol", H>>]
    /\ Log([op |-> "RegisterObjectWith", o |-> o, hol |-> HolSeq(H), want |-> HolSeq(H)])
Fetch(k) ==
    /\ Room /\ st.reg[k] # 0
    /\ UNCHANGED <<st, last>>
    /\ Log([op |-> "Fetch", k |-> k, want |-> View(st, k).hol])
Query(k, q) ==
    /\ Room /\ st.reg[k] # 0 /\ Askable(st.heap[st.reg[k]], q)
    /\ st' = DoQuery(st, st.reg[k], q)
    /\ UNCHANGED last
    /\ Log([op |-> "Query", k |-> k, q |-> q, want |-> Want(st.heap[st.reg[k]], q)])
QueryObj(o, q) ==
    /\ Room /\ st.heap[o].status = "loose" /\ Askable(st.heap[o], q)
    /\ st' = DoQuery(st, o, q)
    /\ UNCHANGED last
    /\ Log([op |-> "QueryObj", o |-> o, q |-> q, want |-> Want(st.heap[o], q)])

Next == \/ \E k \in Keys, H \in Hols, w \in Wks : Register(k, H, w)
        \/ \E k \in Keys, H \in Hols, w \in Wks, a \in {"f", "p", "m"} : Construct(k, H, w, a)
        \/ \E o \in Objs : RegisterObject(o)
        \/ \E o \in Objs, H \in Hols : RegisterObjectWith(o, H)
        \/ \E k \in Keys : Fetch(k)
        \/ \E k \in Keys, q \in QM : Query(k, q)
        \/ \E o \in Objs, q \in QM : QueryObj(o, q)
\* generator: print the complete histories
NextGen == Next /\ (Len(hist') = Depth => PrintT(ToJson([hist |-> hist'])))

\* ---- invariants -------------------------------------------------------------------------------
Live(k) == {o \in Objs : st.heap[o].key = k /\ st.heap[o].status = "live"}
WellFormed == \A k \in Keys : IF st.reg[k] = 0 THEN Live(k) = {} ELSE Live(k) = {st.reg[k]}
\* a calendar fetched by key reflects the holidays it was last registered with
FetchReflectsLast == \A k \in Keys : IF st.reg[k] = 0 THEN last[k] = <<"none">>
                                     ELSE last[k] = <<"hol", st.heap[st.reg[k]].cfg.hol>>
\* a populated table was built from the holidays of the object that holds it: it never outlives
\* a re-registration (every registration with holidays makes a new, unpopulated object)
TableFresh == \A o \in Objs : LET ob == st.heap[o] IN
                 IF ob.pop THEN ob.tab = BTable(ob.cfg) ELSE ob.tab = <<>>
\* with the table each object holds (or would build now), every askable query - loop path,
\* table path, interleaved in any order on the same object - is answered as the law level says
PathsAgree == \A o \in Objs : LET ob == st.heap[o] IN ob.status # "dead" =>
                 \A q \in QM : Askable(ob, q) => MechAnswer(ob.cfg, TabFor(ob), q) \in AcceptedAnswers(ob.cfg, q)
\* a step changes the entry of at most one key
OneKeyPerStep == [][Cardinality({k \in Keys : st'.reg[k] # st.reg[k]}) <= 1]_vars
=============================================================================
