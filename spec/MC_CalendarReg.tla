--------------------------- MODULE MC_CalendarReg ---------------------------
(* Property C05, the registry: calendar(key, ...) as a state machine over a heap of calendar   *)
(* objects and the module-level map  key -> object.  One action per public call; every one of  *)
(* the four parameters holidays / weekend / t0 / t1 is NOT GIVEN, GIVEN EMPTY (holidays = [],   *)
(* weekend = []) or GIVEN (P = [hol, wk, lo, hi], <<>> = not given, <<v>> = given):             *)
(*   Register(k, P)             calendar(k, <what P gives>)         new object, replaces        *)
(*   Construct(k, P, a)         Calendar(k, <what P gives>, adj=a)  object outside the registry *)
(*   RegisterObject(o)          calendar(obj)                       the object itself, replaces *)
(*                              (obj loose, live, or an old handle displaced earlier)           *)
(*   RegisterObjectWith(o, P)   calendar(obj, <what P gives>)       new object under obj's key, *)
(*                                                                  derived from obj            *)
(*   Fetch(k)                   calendar(k)                         on a registered key         *)
(*   Query(k, q)                calendar(k).<op>(...)               builds the table when the   *)
(*   QueryObj(o, q)             obj.<op>(...) on a loose object     code would                  *)
(*   AskAll(o) / AskAllKey(k)   every askable question of the menu put to one object, one after  *)
(*                              the other (so that every question precedes every later one)      *)
(* and the CALLER'S OWN actions on a handle it holds (a loose object):                           *)
(*   SetAdj(o, a)               obj.adj = a                         the object now has convention a *)
(*   Copy(o) / CopyKey(k)       Calendar(obj) / Calendar(calendar(k))  an independent object, same configuration *)
(*   CopyWith(o, a)             obj(adj = a)                        a copy with convention a     *)
(* Law: a call has no memory - what an object answers depends on the configuration it has NOW,   *)
(* not on what it (or the object it was copied from) was asked before.  The questions name the   *)
(* day through several REALISATIONS (field r: datetime at midnight / with a time of day, pandas  *)
(* Timestamp, datetime.date) and also leave the range (narrow ranges of the menu): there a       *)
(* refusal is accepted next to the answer by counting (RefusalBeyondRange).                      *)
(* The menus change the HOLIDAYS (also to none, also to holidays on old-weekend days), the      *)
(* WEEKEND (also to none) and the RANGE (first / last day a holiday or a weekend day) of a key; *)
(* the queries name a per-call convention or use the calendar's own, on both paths of add.      *)
(* `last` is a ghost: the configuration each key was last registered with, computed from the    *)
(* statement (RegisteredCfg / DerivedCfg) - never from the heap.                                *)
(* `hist` is kept by the generator configurations only (KeepHist): the events with the outcome  *)
(* the specification expects, printed when a history is complete, for replay into the code.     *)
EXTENDS Calendar, TLC, Json, FiniteSetsExt, Randomization
CONSTANTS Keys, NHol, NWk, NLo, NHi, ConAdjs, ConFull, Rich, MaxObj, Depth, KeepHist,
          SetAdjs,       \* the conventions the caller may set on a handle ({} = the caller never does)
          Fan            \* generator: at most Fan randomly drawn parameter choices per step (0 = all)

VARIABLES st, last, hist
vars == <<st, last, hist>>

\* ---- menus ------------------------------------------------------------------------------------
E  == Ord(2000, 1, 31)        \* a Monday, the month end;  E - 4 Thu, E - 3 Fri, E - 2 Sat, E - 1 Sun, E + 1 Tue, E + 5 Sat
\* none / a Saturday and the Tuesday / run across weekend and month end / Thu-Fri / month end
HolMenu == <<{}, {E - 2, E + 1}, {E - 3, E, E + 1}, {E - 4, E - 3}, {E}>>
WkMenu  == <<{6}, {}, {4, 5}, {5, 6}>>
\* first day: weeks before / the Thursday (a holiday of menu 4) / the Saturday;  last day: the Tuesday (a holiday of menus
\* 2, 3) / weeks after / a Saturday
LoMenu  == <<E - 25, E - 4, E - 2>>
HiMenu  == <<E + 1, E + 27, E + 5>>
Opt(menu, n) == {<<>>} \cup {<<menu[i]>> : i \in 1..n}
AllParams == {[hol |-> h, wk |-> w, lo |-> l, hi |-> u] : h \in Opt(HolMenu, NHol), w \in Opt(WkMenu, NWk),
                                                          l \in Opt(LoMenu, NLo), u \in Opt(HiMenu, NHi)}
Params == AllParams \ {NoParams}
\* Calendar(...): any of the parameters, or (ConFull, to keep the model checker's state space small) all four of them
ConParams == IF ConFull THEN {P \in AllParams : Given(P.hol) /\ Given(P.wk) /\ Given(P.lo) /\ Given(P.hi)} ELSE AllParams
Q(op, t, n, u, a) == [op |-> op, t |-> t, n |-> n, u |-> u, a |-> a, r |-> "dt"]
QR(op, t, n, u, a, r) == [op |-> op, t |-> t, n |-> n, u |-> u, a |-> a, r |-> r]
\* both paths of add from a Friday and a Saturday, with the calendar's own and with a passed convention; the table-only
\* queries; the days whose status the menus change (the Saturday, the last day of the narrow range); a single-day range
QSmall == {Q("add", E - 2, 1, 0, ""), Q("add", E - 2, 2, 0, ""), Q("add", E - 3, -2, 0, ""), Q("drange", E - 4, 0, E + 2, ""),
           Q("add", E - 2, 1, 0, "p"), Q("add", E - 2, 2, 0, "p"), Q("is_bday", E - 2, 0, 0, ""), Q("is_bday", E + 1, 0, 0, ""),
           Q("adjust", E + 1, 0, 0, "p"), Q("drange", E - 2, 0, E - 2, ""), Q("drange", E - 3, 0, E + 1, ""),
           \* the calendar's own convention on the days where f, p and m all differ (Saturday / Sunday before the month end on Monday)
           Q("adjust", E - 2, 0, 0, "")}
QRich  == QSmall \cup {Q("add", E - 2, -1, 0, ""), Q("add", E - 3, 1, 0, ""), Q("add", E - 3, 2, 0, ""), Q("add", E - 2, -2, 0, ""),
                       Q("add", E - 2, 0, 0, ""), Q("add", E - 2, 2, 0, "f"), Q("add", E - 2, -2, 0, "f"), Q("add", E - 1, -3, 0, "m"),
                       Q("add", E - 2, -1, 0, "f"), Q("add", E, 2, 0, "p"), Q("add", E + 1, -2, 0, "p"), Q("add", E + 1, -1, 0, "p"),
                       Q("is_bday", E, 0, 0, ""), Q("is_bday", E - 3, 0, 0, ""), Q("is_bday", E - 4, 0, 0, ""), Q("is_bday", E - 1, 0, 0, ""),
                       Q("is_bday", E + 5, 0, 0, ""), Q("is_holiday", E - 2, 0, 0, ""),
                       Q("adjust", E - 1, 0, 0, ""), Q("adjust", E - 1, 0, 0, "f"), Q("adjust", E - 2, 0, 0, "p"), Q("adjust", E - 4, 0, 0, "f"),
                       Q("adjust", E - 2, 0, 0, "f"), Q("adjust", E + 5, 0, 0, "p"), Q("adjust", E, 0, 0, "m"),
                       Q("bdays", E - 4, 0, E + 2, ""), Q("bdays", E - 2, 0, E + 1, "p"), Q("bdays", E - 3, 0, E - 1, "f"),
                       Q("bdays_add", E - 2, 3, 0, ""), Q("bdays_add", E - 2, 2, 0, "p"), Q("add_twice", E - 2, 1, 0, ""),
                       Q("add_twice", E - 2, 1, 0, "p"), Q("add_split", E - 2, 3, 0, "p"), Q("add_split", E - 1, -2, 0, "f"),
                       Q("add_inv", E - 5, 4, 0, ""), Q("dt_bump", E - 1, -3, 0, ""), Q("dt_bump", E - 2, 2, 0, "p"),
                       Q("dt_bump", E - 2, 1, 0, "p"), Q("bump0", E - 2, 1, 0, "p"), Q("clock_diff", E - 5, 0, E + 2, ""),
                       Q("drange", E - 1, 0, E - 2, ""), Q("drange", E + 1, 0, E - 3, ""), Q("drange", E + 1, 0, E + 1, ""),
                       Q("drange", E - 2, 0, E + 5, ""), Q("drange", E - 4, 0, E - 4, ""),
                       \* the own convention on the Sunday; forwards beyond the last day of the narrow ranges (E + 1, E + 5)
                       Q("add", E - 1, 0, 0, ""), Q("add", E, 3, 0, ""), Q("add", E + 1, 5, 0, "p")}
\* the generators (KeepHist) add: the day carried by other realisations (the mechanism level never reads r, so the model
\* checker has nothing to learn from them) and more questions that leave the narrow ranges at either end
QGen   == QRich \cup {
                       \* a stamp with a time of day / a date as the day: a business day of every menu (the Wednesday), the Saturday, a day the menus change
                       QR("is_bday", E - 5, 0, 0, "", "tod"), QR("is_bday", E - 2, 0, 0, "", "tstod"), QR("is_bday", E + 1, 0, 0, "", "date"),
                       QR("adjust", E - 1, 0, 0, "", "tod"), QR("add", E - 5, 2, 0, "f", "tod"),
                       QR("is_bday", E - 5, 0, 0, "", "ts"), QR("is_bday", E - 4, 0, 0, "", "tod"), QR("is_bday", E + 2, 0, 0, "", "tstod"),
                       QR("is_bday", E, 0, 0, "", "tod"), QR("is_bday", E - 3, 0, 0, "", "date"), QR("is_holiday", E - 5, 0, 0, "", "tod"),
                       QR("adjust", E - 2, 0, 0, "f", "tstod"), QR("adjust", E - 5, 0, 0, "p", "tod"), QR("adjust", E, 0, 0, "", "date"),
                       QR("add", E - 2, 1, 0, "", "tod"), QR("add", E - 2, -2, 0, "p", "tstod"), QR("add", E - 5, 0, 0, "", "ts"),
                       QR("dt_bump", E - 1, 2, 0, "", "tod"), QR("bump0", E - 2, -1, 0, "", "tod"), QR("bdays", E - 5, 0, E + 2, "", "tod"),
                       QR("drange", E - 5, 0, E + 2, "", "tod"), QR("drange", E - 2, 0, E + 1, "", "date"), QR("clock_diff", E - 5, 0, E + 2, "", "tstod"),
                       \* backwards from / forwards to the ends of the narrow ranges (first day E - 4 or E - 2, last day E + 1 or E + 5)
                       Q("add", E - 3, -3, 0, ""), Q("add", E - 2, -4, 0, "f"), Q("add", E - 1, -6, 0, "p"), Q("add", E + 1, -8, 0, "f"),
                       Q("add", E + 2, 2, 0, "f"), Q("dt_bump", E - 3, -2, 0, "f"),
                       Q("add_inv", E - 3, -3, 0, "f"), Q("bdays_add", E - 3, -3, 0, "f"), Q("add_split", E - 3, -3, 0, "p")}
QM == IF KeepHist THEN QGen ELSE IF Rich THEN QRich ELSE QSmall

\* ---- helpers ----------------------------------------------------------------------------------
NObj == Len(st.heap)
Objs == 1..NObj
\* a query the statement pins down on this object (calendars with the default range of 400 years are asked
\* loop-path questions only: their table is not written down - an economy of the generator, not of the law)
AskableCfg(c, q) == /\ (q.a = "" /\ q.op \notin {"is_bday", "is_holiday"}) => c.adj # "?"
                    /\ Populates(q) => Bounded(c)
                    /\ Posed(c, q) /\ Pinned(c, q)
Askable(ob, q) == AskableCfg(ob.cfg, q)
HolSeq(H) == SetToSortSeq(H, <)
PJson(P) == [hol |-> IF Given(P.hol) THEN <<HolSeq(P.hol[1])>> ELSE <<>>, wk |-> IF Given(P.wk) THEN <<HolSeq(P.wk[1])>> ELSE <<>>,
             lo |-> P.lo, hi |-> P.hi]
Log(ev) == hist' = IF KeepHist THEN Append(hist, ev) ELSE hist
Room == (KeepHist => Len(hist) < Depth)
Want(ob, q) == SetToSeq(AcceptedAnswers(ob.cfg, q))
Refuse(ob, q) == SetToSeq(RefusalsFor(ob.cfg, q))
AskedOf(c) == {q \in QM : AskableCfg(c, q)}
QsJson(c) == SetToSeq({[q |-> q, want |-> Want([cfg |-> c], q), refuse |-> Refuse([cfg |-> c], q)] : q \in AskedOf(c)})
DoAskAll(s, o, c) == IF \E q \in AskedOf(c) : Populates(q) THEN [s EXCEPT !.heap[o] = Populate(s.heap[o])] ELSE s
Loose == {o \in Objs : st.heap[o].status = "loose"}

Init == /\ st = [heap |-> <<>>, reg |-> [k \in Keys |-> 0]]
        /\ last = [k \in Keys |-> <<>>]
        /\ hist = <<>>

Register(k, P) ==
    /\ Room /\ NObj < MaxObj /\ AnyGiven(P) /\ WellCfg(RegisteredCfg(P))
    /\ st' = DoRegisterKey(st, k, P)
    /\ last' = [last EXCEPT ![k] = <<RegisteredCfg(P)>>]
    /\ Log([op |-> "Register", k |-> k, p |-> PJson(P), want |-> HolSeq(RegisteredCfg(P).hol)])
Construct(k, P, a) ==
    /\ Room /\ NObj < MaxObj /\ WellCfg(RegisteredCfg(P))
    /\ st' = DoConstruct(st, k, [RegisteredCfg(P) EXCEPT !.adj = a])
    /\ UNCHANGED last
    /\ Log([op |-> "Construct", k |-> k, p |-> PJson(P), adj |-> a, want |-> HolSeq(RegisteredCfg(P).hol)])
RegisterObject(o) ==
    /\ Room
    /\ st' = DoRegisterObject(st, o)
    /\ last' = [last EXCEPT ![st.heap[o].key] = <<st.heap[o].cfg>>]
    /\ Log([op |-> "RegisterObject", o |-> o, was |-> st.heap[o].status, want |-> HolSeq(st.heap[o].cfg.hol)])
\* the convention of the new object is not pinned ("?"): only queries that name one are asked of it
RegisterObjectWith(o, P) ==
    /\ Room /\ NObj < MaxObj /\ AnyGiven(P) /\ WellCfg(DerivedCfg(st.heap[o].cfg, P))
    /\ st' = DoRegisterObjectWith(st, o, P)
    /\ last' = [last EXCEPT ![st.heap[o].key] = <<DerivedCfg(st.heap[o].cfg, P)>>]
    /\ Log([op |-> "RegisterObjectWith", o |-> o, p |-> PJson(P), want |-> HolSeq(DerivedCfg(st.heap[o].cfg, P).hol)])
Fetch(k) ==
    /\ Room /\ st.reg[k] # 0
    /\ UNCHANGED <<st, last>>
    /\ Log([op |-> "Fetch", k |-> k, want |-> HolSeq(last[k][1].hol)])
Query(k, q) ==
    /\ Room /\ st.reg[k] # 0 /\ AskableCfg(last[k][1], q)          \* (asked and answered from the ghost: the law)
    /\ st' = DoQuery(st, st.reg[k], q)
    /\ UNCHANGED last
    /\ Log([op |-> "Query", k |-> k, q |-> q, want |-> Want([cfg |-> last[k][1]], q), refuse |-> Refuse([cfg |-> last[k][1]], q)])
QueryObj(o, q) ==
    /\ Room /\ st.heap[o].status = "loose" /\ Askable(st.heap[o], q)
    /\ st' = DoQuery(st, o, q)
    /\ UNCHANGED last
    /\ Log([op |-> "QueryObj", o |-> o, q |-> q, want |-> Want(st.heap[o], q), refuse |-> Refuse(st.heap[o], q)])
\* every askable question of the menu, one after the other, on one object
AskAll(o) ==
    /\ Room /\ st.heap[o].status = "loose" /\ AskedOf(st.heap[o].cfg) # {}
    /\ st' = DoAskAll(st, o, st.heap[o].cfg)
    /\ UNCHANGED last
    /\ Log([op |-> "AskAll", o |-> o, cfg |-> st.heap[o].cfg])          \* (the questions are written out by Finish)
AskAllKey(k) ==
    /\ Room /\ st.reg[k] # 0 /\ AskedOf(last[k][1]) # {}
    /\ st' = DoAskAll(st, st.reg[k], last[k][1])
    /\ UNCHANGED last
    /\ Log([op |-> "AskAllKey", k |-> k, cfg |-> last[k][1]])
\* ---- the caller's own actions -------------------------------------------------------------------
SetAdj(o, a) ==
    /\ Room /\ st.heap[o].status = "loose" /\ st.heap[o].cfg.adj # a
    /\ st' = DoSetAdj(st, o, a)
    /\ UNCHANGED last
    /\ Log([op |-> "SetAdj", o |-> o, adj |-> a, want |-> a])
Copy(o) ==
    /\ Room /\ NObj < MaxObj /\ st.heap[o].status = "loose"
    /\ st' = DoCopy(st, o)
    /\ UNCHANGED last
    /\ Log([op |-> "Copy", o |-> o, want |-> HolSeq(st.heap[o].cfg.hol)])
\* (the configuration of the copy is the one the key was last registered with: the ghost, not the heap)
CopyKey(k) ==
    /\ Room /\ NObj < MaxObj /\ st.reg[k] # 0
    /\ st' = [st EXCEPT !.heap = Append(st.heap, [st.heap[st.reg[k]] EXCEPT !.status = "loose", !.cfg = last[k][1]])]
    /\ UNCHANGED last
    /\ Log([op |-> "CopyKey", k |-> k, want |-> HolSeq(last[k][1].hol)])
CopyWith(o, a) ==
    /\ Room /\ NObj < MaxObj /\ st.heap[o].status = "loose"
    /\ st' = DoCopyWith(st, o, a)
    /\ UNCHANGED last
    /\ Log([op |-> "CopyWith", o |-> o, adj |-> a, want |-> HolSeq(st.heap[o].cfg.hol)])

\* (the actions over the objects of the heap - a set that depends on the state - get a definition of their own, so
\*  that TLC's coverage names them one by one)
AnyRegisterObject     == \E o \in Objs : RegisterObject(o)
AnyRegisterObjectWith == \E o \in Objs, P \in Params : RegisterObjectWith(o, P)
AnyQueryObj           == \E o \in Objs, q \in QM : QueryObj(o, q)
AnySetAdj             == \E o \in Objs, a \in SetAdjs : SetAdj(o, a)
AnyCopy               == \E o \in Objs : Copy(o)
AnyCopyWith           == \E o \in Objs, a \in SetAdjs : CopyWith(o, a)
\* the registry alone (thorough2: all conventions, the rich menu, without the caller's own actions)
NextReg == \/ \E k \in Keys, P \in Params : Register(k, P)
           \/ \E k \in Keys, P \in ConParams, a \in ConAdjs : Construct(k, P, a)
           \/ AnyRegisterObject
           \/ AnyRegisterObjectWith
           \/ \E k \in Keys : Fetch(k)
           \/ \E k \in Keys, q \in QM : Query(k, q)
           \/ AnyQueryObj
Next == \/ \E k \in Keys, P \in Params : Register(k, P)
        \/ \E k \in Keys, P \in ConParams, a \in ConAdjs : Construct(k, P, a)
        \/ AnyRegisterObject
        \/ AnyRegisterObjectWith
        \/ \E k \in Keys : Fetch(k)
        \/ \E k \in Keys, q \in QM : Query(k, q)
        \/ AnyQueryObj
        \/ AnySetAdj
        \/ AnyCopy
        \/ AnyCopyWith
        \/ \E k \in Keys : CopyKey(k)

\* ---- generator (simulation) --------------------------------------------------------------------
\* A history of Depth randomly drawn calls (a few randomly drawn argument choices of every kind of call per step -
\* Fan shapes for the registrations, 8 Fan for the queries - one of them taken), printed when complete together with `finals`: every question the statement pins down
\* about the state reached - each registered key fetched, each askable query of the menu by key and on each loose
\* object.  Queries and fetches leave `last` and every configuration unchanged (UNCHANGED last; DoQuery only builds
\* tables), so the expected answers of the finals hold in whatever order they are asked after the history.
\* (TLC evaluates constant-level expressions once and for all: the draw is made to depend on the state, so that it is
\*  repeated at every step)
Pick(n, S) == IF Fan = 0 \/ Cardinality(S) <= n THEN S ELSE RandomSubset(n, {x \in S : NObj >= 0})
\* the parameters of a registration are drawn by SHAPE first (which of the four are given: all 15 shapes are equally
\* likely, "only t0" as likely as "all four"), then by value
ShapeOf(P) == {i \in 1..4 : Given(<<P.hol, P.wk, P.lo, P.hi>>[i])}
Shapes == {ShapeOf(P) : P \in Params}
PickParams(n) == UNION {Pick(1, {P \in Params : ShapeOf(P) = g}) : g \in Pick(n, Shapes)}
FinalsOf(s, l) ==
    LET ff == {[op |-> "Fetch", k |-> k, want |-> HolSeq(l[k][1].hol)] : k \in {k \in Keys : s.reg[k] # 0}}
        fq == {[op |-> "Query", k |-> x[1], q |-> x[2], want |-> Want([cfg |-> l[x[1]][1]], x[2]), refuse |-> Refuse([cfg |-> l[x[1]][1]], x[2])] :
                  x \in {y \in Keys \X QM : s.reg[y[1]] # 0 /\ AskableCfg(l[y[1]][1], y[2])}}
        fo == {[op |-> "QueryObj", o |-> x[1], q |-> x[2], want |-> Want(s.heap[x[1]], x[2]), refuse |-> Refuse(s.heap[x[1]], x[2])] :
                  x \in {y \in (1..Len(s.heap)) \X QM : s.heap[y[1]].status = "loose" /\ Askable(s.heap[y[1]], y[2])}}
    IN  [fetch |-> SetToSeq(ff), query |-> SetToSeq(fq), queryobj |-> SetToSeq(fo)]
Complete == KeepHist /\ Len(hist) = Depth
\* (the questions of an AskAll and the answers the law expects are written out only when the history is printed: the
\*  simulator evaluates every successor of every step, chosen or not)
Written(ev) == IF ev.op = "AskAll" THEN [op |-> ev.op, o |-> ev.o, qs |-> QsJson(ev.cfg)]
               ELSE IF ev.op = "AskAllKey" THEN [op |-> ev.op, k |-> ev.k, qs |-> QsJson(ev.cfg)] ELSE ev
Finish  == Complete /\ PrintT(ToJson([hist |-> [i \in 1..Len(hist) |-> Written(hist[i])], finals |-> FinalsOf(st, last)])) /\ UNCHANGED vars
NextGen == \/ \E k \in Pick(1, Keys), P \in PickParams(Fan) : Register(k, P)
           \/ \E x \in Pick(1, Keys \X ConParams \X ConAdjs) : Construct(x[1], x[2], x[3])
           \/ \E o \in Pick(2, Objs) : RegisterObject(o)
           \/ \E o \in Pick(2, Objs), P \in PickParams(Fan) : RegisterObjectWith(o, P)
           \/ \E k \in Pick(1, Keys) : Fetch(k)
           \/ \E x \in Pick(8 * Fan, Keys \X QM) : Query(x[1], x[2])
           \/ \E x \in Pick(4 * Fan, Objs \X QM) : QueryObj(x[1], x[2])
           \/ \E o \in Pick(1, Loose) : AskAll(o)
           \/ \E k \in Pick(1, Keys) : AskAllKey(k)
           \/ \E x \in Pick(2, Loose \X SetAdjs) : SetAdj(x[1], x[2])
           \/ \E o \in Pick(1, Loose) : Copy(o)
           \/ \E k \in Pick(1, Keys) : CopyKey(k)
           \/ \E x \in Pick(1, Loose \X SetAdjs) : CopyWith(x[1], x[2])
           \/ Finish

\* ---- generator (sessions, breadth first) ----------------------------------------------------------
\* Every session of the shape  Calendar(k, ...) ; ask everything ; the caller's edit ; a second edit that touches what the
\* first left behind ; (finals: everything asked again of every object and key)  over the menus of the configuration:
\* each question of the menu is put before and after each edit, to the edited object and to its copies.
Newest == NObj
SesEdit1 == \/ \E a \in SetAdjs : SetAdj(1, a)
            \/ Copy(1)
            \/ \E a \in SetAdjs : CopyWith(1, a)
            \/ RegisterObject(1)
SesEdit2 == LET e == hist[3].op IN
            \/ e = "Copy" /\ \E o \in {1, 2}, a \in SetAdjs : SetAdj(o, a)
            \/ e = "SetAdj" /\ (Copy(1) \/ RegisterObject(1) \/ AskAll(1))
            \/ e = "CopyWith" /\ hist[3].adj # st.heap[1].cfg.adj /\ (\E a \in SetAdjs : SetAdj(1, a))
            \/ e = "RegisterObject" /\ \E k \in Keys : CopyKey(k)
SesParams == {P \in AllParams : Given(P.lo) /\ Given(P.hi)}
NextSes == \/ Len(hist) = 0 /\ \E k \in Keys, P \in SesParams, a \in ConAdjs : Construct(k, P, a)
           \/ Len(hist) = 1 /\ AskAll(1)
           \/ Len(hist) = 2 /\ SesEdit1
           \/ Len(hist) = 3 /\ SesEdit2
           \/ Finish

\* ---- invariants -------------------------------------------------------------------------------
Live(k) == {o \in Objs : st.heap[o].key = k /\ st.heap[o].status = "live"}
WellFormed == \A k \in Keys : IF st.reg[k] = 0 THEN Live(k) = {} ELSE Live(k) = {st.reg[k]}
\* a calendar fetched by key reflects the holidays it was last registered with
FetchReflectsLast == \A k \in Keys : IF st.reg[k] = 0 THEN last[k] = <<>>
                                     ELSE last[k] # <<>> /\ st.heap[st.reg[k]].cfg.hol = last[k][1].hol
\* ... and the weekend and the range it was last registered with (the configurations the statement quantifies over)
FetchReflectsConfig == \A k \in Keys : st.reg[k] # 0 =>
                          LET c == st.heap[st.reg[k]].cfg  l == last[k][1] IN c.wk = l.wk /\ c.lo = l.lo /\ c.hi = l.hi /\ c.adj = l.adj
\* every object of the heap is a configuration the statement speaks about
WellConfigured == \A o \in Objs : WellCfg(st.heap[o].cfg)
\* a populated table was built from the configuration of the object that holds it: it never outlives
\* a re-registration (every registration that gives something makes a new, unpopulated object)
TableFresh == \A o \in Objs : LET ob == st.heap[o] IN
                 IF ob.pop THEN ob.tab = BTable(ob.cfg) ELSE ob.tab = <<>>
\* with the table each object holds (or would build now), every askable query - loop path,
\* table path, own or passed convention, interleaved in any order on the same object - is answered as the law level says
PathsAgree == \A o \in Objs : LET ob == st.heap[o] IN ob.status # "dead" =>
                 \A q \in QM : Askable(ob, q) => LET m == MechAnswer(ob.cfg, IF Populates(q) THEN TabFor(ob) ELSE <<>>, q) IN
                                                    m \in AcceptedAnswers(ob.cfg, q) \/ (~InDomain(ob.cfg, q) /\ MRefused(m))
\* a step changes the entry of at most one key
OneKeyPerStep == [][Cardinality({k \in Keys : st'.reg[k] # st.reg[k]}) <= 1]_vars
=============================================================================
