CONSTANTS SessCfg <- SessSmall
          OneCfg <- SessOneBig
          HeapKind = "near"
          Alias = FALSE
          Forms <- FormsPairs
          MaxSteps = 4
          Gen = TRUE
          Memo = "none"
          AllPairs = TRUE
          Erase = TRUE
          EditStride = 4
          SliceStride = 6
INIT Init
NEXT Next
INVARIANT TypeOK
INVARIANT StitchedCanUnstitch
INVARIANT UnsliceNoMemory
INVARIANT StitchNoMemory
PROPERTY CorrectionKeepsStitched
PROPERTY CallsOwnNothing
