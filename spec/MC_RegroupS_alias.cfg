CONSTANTS Scope = "quick"
          Mech = "alias"
          Loose = FALSE
          PlanSet = {"FII"}
INIT Init
NEXT Next
INVARIANT StepLaw
