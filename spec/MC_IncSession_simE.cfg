CONSTANTS MaxCalls = 5
          MaxArgs = 3
          FreeCalls = 5
          Scope = "all"
          Adopt = FALSE
          MaxEdits = 2
          MinEdits = 1
          Probes = TRUE
          FirstOps = {"inc", "exc", "find", "one"}
          Srcs = {"live", "old"}
          Ons = {"t", "last", "u"}
          NameIds = {0, 1, 2, 3, 4, 5, 6, 7, 8, 9}
          Gen = TRUE
INIT Init
NEXT Next
CONSTRAINT GenBound
