--------------------------- MODULE MC_CfgStoreReg ---------------------------
(* X04-b on the specification and the source of its S2C replay: every history of at most MaxLen   *)
(* calls over the menu below.  MC: the laws hold (hist hidden by the VIEW).  GEN: every expanded   *)
(* state prints its history with what each event is expected to show.                              *)
EXTENDS CfgStoreReg, Json, SequencesExt, FiniteSetsExt

CONSTANTS MaxLen
VARIABLES hist
vars == <<reg, items, next, rets, last, hist>>
mcview == <<reg, items, next, rets, last, Len(hist)>>

Cfgs2 == {{}, {<<"a", 1>>}, {<<"a", 2>>, <<"b", 1>>}}
CONSTANTS Menu        \* "wide": every path up to MaxDepth (model checking); "gen": the generator's menu, short
                      \* histories; "deep": a narrow menu for longer histories
GetPaths  == CASE Menu = "wide" -> {p \in Paths : Len(p) <= MaxDepth}
               [] Menu = "gen"  -> {<<>>, <<"x">>, <<"y">>, <<"x", "y">>, <<"x", "x">>, <<"CFG">>, <<"CFG", "x">>}
               [] Menu = "deep" -> {<<"x">>, <<"x", "y">>, <<"CFG">>}
ItemPaths == CASE Menu = "wide" -> {<<>>, <<"x">>, <<"CFG">>, <<"x", "y">>}
               [] Menu = "gen"  -> {<<>>, <<"x">>, <<"CFG">>}
               [] Menu = "deep" -> {<<"x">>}
WriteCfgs == IF Menu = "deep" THEN {{<<"a", 2>>}} ELSE Cfgs2

Init == RInit /\ hist = <<>>
Shown == IF last'.kind = "obj" THEN [kind |-> "obj", tok |-> last'.tok, keys |-> SetToSeq(last'.keys)] ELSE last'
Rec(e) == hist' = Append(hist, [e EXCEPT !.want = Shown])
Bound == Len(hist) < MaxLen

AGet   == \E p \in GetPaths : GetCache(p) /\ Rec([op |-> "get", names |-> p, want |-> 0])
AStore == \E p \in ItemPaths, k \in ItemKeys, v \in ItemVals : Store(p, k, v) /\ Rec([op |-> "store", names |-> p, key |-> k, value |-> v, want |-> 0])
AFetch == \E p \in ItemPaths, k \in ItemKeys : Fetch(p, k) /\ Rec([op |-> "fetch", names |-> p, key |-> k, want |-> 0])
AWrite == \E c \in WriteCfgs : Write(c) /\ Rec([op |-> "write", cfg |-> SetToSeq(c), want |-> 0])
ARead  == Read /\ Rec([op |-> "read", want |-> 0])
MGet   == Bound /\ AGet
MStore == Bound /\ AStore
MFetch == Bound /\ AFetch
MWrite == Bound /\ AWrite
MRead  == Bound /\ ARead
NextMC == MGet \/ MStore \/ MFetch \/ MWrite \/ MRead
NextGen == /\ PrintT(ToJson([hist |-> hist]))
           /\ NextMC
=============================================================================
