CONSTANTS Keys = {"a", "b"}
          NHol = 2
          NWk = 1
          NLo = 1
          NHi = 1
          ConAdjs = {"p"}
          ConFull = TRUE
          Rich = FALSE
          MaxObj = 2
          Depth = 0
          KeepHist = FALSE
          SetAdjs = {"f"}
          Fan = 0
INIT Init
NEXT Next
INVARIANT WellFormed
INVARIANT FetchReflectsLast
INVARIANT FetchReflectsConfig
INVARIANT WellConfigured
INVARIANT TableFresh
INVARIANT PathsAgree
PROPERTY OneKeyPerStep
