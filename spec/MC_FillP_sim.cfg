CONSTANTS MaxLenP = 4
          MaxRowsP = 3
          MaxLenY = 4
          MaxRowsY = 3
          ListsP <- ListsThorough
          LimsP = {0, 1, 2}
          OtherLimsP = {0, 1, 2}
          ExtendsP = {1, 2}
          CalendarsP = {0, 1, 2}
          PokeColsP = {0, 1, 2}
          MaxCallsP = 4
          MaxDerP = 2
          Memo = FALSE
          Emit = TRUE
INIT Init
NEXT NextSim
INVARIANT PShape
INVARIANT PInputs
INVARIANT PNoCross
INVARIANT PIdem
INVARIANT PRefines
