\* S2C generator: every case of the quick menu with the outcomes the specification accepts
CONSTANTS DSpan = 12
          NDay = 7
          MJMax = 13
          MYears = {2000}
          WSpanAbs = {0, 1, 2, 5}
          WKAbs = {1, 2, 3}
INIT Init
NEXT NextGen
