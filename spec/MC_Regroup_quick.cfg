CONSTANTS MaxRows = 2
          Wide = FALSE
INIT Init
NEXT Next
INVARIANT ListbyLaw
INVARIANT UnlistLaw
INVARIANT UnlistIsSort
INVARIANT SizesAddUp
