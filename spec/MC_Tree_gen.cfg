CONSTANTS LeafSet = "small"
          RebuildWide = FALSE
          Deep = TRUE
          Wide3 = FALSE
          TableWide = FALSE
INIT Init
NEXT NextGen
