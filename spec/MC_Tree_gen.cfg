CONSTANTS LeafSet = "small"
          RebuildWide = FALSE
          Deep = TRUE
          Wide3 = FALSE
          TableWide = FALSE
          StrangeWide = FALSE
          Only = "all"
INIT Init
NEXT NextGen
