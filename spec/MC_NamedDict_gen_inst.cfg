CONSTANTS Big = FALSE
          Strata = {}
          MaxOps = 2
INIT InitInst
NEXT NextInstGen
