CONSTANTS MaxRows = 2
          Shape = "two"
INIT Init
NEXT NextGen
