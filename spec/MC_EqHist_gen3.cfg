CONSTANTS Depth = 3
          Record = TRUE
          Wide = FALSE
          Full = FALSE
INIT InitGen
NEXT NextGen
