CONSTANTS Depth = 3
          Record = TRUE
          Wide = FALSE
INIT InitGen
NEXT NextGen
