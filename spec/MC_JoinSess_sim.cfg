CONSTANTS MaxSteps = 10
          Stride = 1
          PoolStride = 5
          ZStride = 3
          Gen = TRUE
          Form = "free"
          Memo = "none"
          Variant = "plain"
INIT Init
NEXT Next
