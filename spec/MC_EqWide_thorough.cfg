CONSTANTS Widths = {2, 4, 6, 7, 8, 9, 11, 13, 20}
          Deep = TRUE
          Warm = 2
INIT Init
NEXT Step
INVARIANT WalkLaw
