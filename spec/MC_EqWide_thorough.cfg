CONSTANTS Widths = {2, 5, 7, 9, 12, 13, 20}
          Deep = TRUE
          Warm = 2
INIT Init
NEXT Step
INVARIANT WalkLaw
