--------------------------- MODULE MC_AccessTypes ---------------------------
(* X07-a on the specification: over a universe of python / numpy / pandas objects (scalars of every width,      *)
(* containers, empty containers, views, arrays, series, frames) the pinned answers of the 35 predicates satisfy   *)
(* the lattice, the lattice is not vacuous, null2none and as_primitive obey their laws (idempotence, shape,      *)
(* primitives only, untouched objects).  One behaviour  v --Eval--> done  per object; the generator              *)
(* configuration prints every object with the admitted answers and the expected results (S2C).                   *)
EXTENDS AccessTypes, Json
CONSTANTS Wide

VARIABLES v, done
vars == <<v, done>>

I(k)   == <<"i", k>>
F(p, q) == <<"f", <<p, q>>>>
S(s)   == <<"s", s>>
D0     == 737425                                    \* 2020-01-01
Dt(o, s, u) == <<"d", <<o, s, u>>>>

IntVals   == IF Wide THEN {0, 1, 100} ELSE {0, 7}
Ints      == {Sc(c, I(k)) : c \in {"int"} \cup NpSigned \cup NpUnsigned, k \in IntVals}
             \cup {Sc(c, I(-1)) : c \in {"int"} \cup NpSigned}
FloatVals == {F(1, 2), F(-3, 1), <<"nan", 0>>, <<"inf", 1>>, <<"inf", -1>>} \cup (IF Wide THEN {F(0, 1), F(5, 4)} ELSE {})
Floats    == {Sc(c, x) : c \in FloatCls, x \in FloatVals}
Bools     == {Sc(c, <<"b", k>>) : c \in BoolCls, k \in {0, 1}}
Strs      == {Sc(c, S(s)) : c \in StrCls, s \in {"", "ab"}} \cup {Sc("bytes", S(s)) : s \in {"", "ab"}}
Dates     == {Sc("date", <<"date", D0>>), Sc("datetime", Dt(D0, 0, 0)), Sc("datetime", Dt(D0 + 31, 3661, 5)),
              Sc("np.datetime64", Dt(D0, 0, 0)), Sc("np.datetime64", Dt(D0, 7200, 0)), Sc("Timestamp", Dt(D0 + 1, 60, 0)),
              Sc("NaTType", NaTVal), Sc("np.datetime64", NaTVal)}
Others    == {Sc("NoneType", NoVal), Sc("complex", I(2)), Sc("Decimal", I(3)), Sc("object", NoVal), Sc("function", NoVal),
              Sc("np.timedelta64", I(5))}
i1  == Sc("int", I(1))
u2  == Sc("np.uint8", I(2))
s1  == Sc("str", S("ab"))
ns1 == Sc("np.str_", S("c"))
nn  == Sc("NoneType", NoVal)
fn  == Sc("float", <<"nan", 0>>)
fi  == Sc("np.float32", <<"inf", 1>>)
f1  == Sc("float", F(1, 2))
f16 == Sc("np.float16", F(5, 4))
bt  == Sc("bool", <<"b", 1>>)
nbt == Sc("np.bool_", <<"b", 1>>)
dd  == Sc("date", <<"date", D0>>)
nd  == Sc("np.datetime64", Dt(D0, 0, 0))
td  == Sc("np.timedelta64", I(5))
Enums == {Obj("Enum", NoVal, <<i1>>, ""), Obj("Enum", NoVal, <<s1>>, ""), Obj("Enum", NoVal, <<Sc("np.int8", I(3))>>, ""),
          Sc("IntEnum", I(2))}
Scalars == Ints \cup Floats \cup Bools \cup Strs \cup Dates \cup Others \cup Enums

L(xs)  == Obj("list", NoVal, xs, "")
Tu(xs) == Obj("tuple", NoVal, xs, "")
Dc(xs) == Obj("dict", NoVal, xs, "str")
\* element menus: hashable scalars ...
HashMenus == {<<>>, <<i1>>, <<i1, u2>>, <<i1, s1>>, <<s1, i1>>, <<s1, ns1>>, <<nn>>, <<fn, fi>>, <<f1, f16>>, <<bt, nbt>>,
              <<dd, nd>>, <<td, i1>>, <<Tu(<<i1>>), Tu(<<>>)>>}
\* ... and containers as elements
DeepMenus == {<<L(<<i1>>), L(<<s1>>)>>, <<L(<<i1>>), i1>>, <<Dc(<<>>), Dc(<<i1>>)>>, <<L(<<>>)>>, <<Tu(<<i1>>), L(<<i1>>)>>,
              <<Sc("np.int8", I(1)), Tu(<<Sc("np.float32", F(1, 2)), L(<<nbt>>)>>)>>,
              <<Obj("Enum", NoVal, <<i1>>, ""), dd, Dc(<<Sc("np.int8", I(1))>>)>>,
              <<Obj("Series", NoVal, <<i1>>, "range"), Obj("DataFrame", I(2), <<>>, "range")>>,
              <<Obj("ndarray", NoVal, <<i1>>, "object"), Obj("ndarray", NoVal, <<>>, "object")>>,
              <<Obj("iterator", NoVal, <<i1>>, "")>>}
Menus  == HashMenus \cup DeepMenus
ScalarMenus == {m \in HashMenus : \A k \in 1..Len(m) : m[k].cls # "tuple"}
KeyMenus == {<<>>, <<i1>>, <<s1>>, <<s1, ns1>>, <<s1, i1>>}
Containers ==
    {Obj(c, NoVal, m, "") : c \in {"list", "tuple"}, m \in Menus}
    \cup {Obj(c, NoVal, m, "") : c \in (IF Wide THEN SetCls ELSE {"set"}), m \in HashMenus}
    \cup {Obj("dict", NoVal, m, "str") : m \in {<<>>, <<i1>>, <<i1, s1>>, <<Dc(<<i1>>)>>, <<L(<<i1>>)>>}}
    \cup {Obj("dict", NoVal, m, k) : m \in {<<i1>>, <<s1, i1>>}, k \in {"int0", "int5"}}
    \cup {Obj(c, NoVal, m, "str") : c \in {"dictattr", "Dict"}, m \in {<<>>, <<i1, s1>>}}
    \cup {Obj("dict_keys", NoVal, m, "") : m \in KeyMenus}
    \cup {Obj("dict_values", NoVal, m, "") : m \in KeyMenus \cup {<<L(<<i1>>)>>}}
    \cup {Obj("range", NoVal, m, "") : m \in {<<>>, <<Sc("int", I(0)), i1>>}}
    \cup {Obj("iterator", NoVal, m, "") : m \in {<<>>, <<i1, s1>>}}
    \cup {Obj("ndarray0", NoVal, <<x>>, "object") : x \in {i1, f1, s1}}
    \cup {Obj("ndarray", NoVal, m, "object") : m \in ScalarMenus}
    \cup {Obj("ndarray", NoVal, m, "native") : m \in {<<Sc("np.int64", I(1)), Sc("np.int64", I(2))>>, <<Sc("np.float64", F(1, 2))>>}}
    \cup {Obj("Series", NoVal, m, k) : m \in {<<i1, u2>>, <<f1, fn>>, <<s1, s1>>}, k \in {"range", "int5", "date", "date_desc", "str"}}
    \cup {Obj("Series", NoVal, <<>>, "range")}
    \cup {Obj("DataFrame", I(n), <<>>, k) : n \in {0, 2}, k \in {"range", "int5", "date"}}
Universe == Scalars \cup Containers

Init == v \in Universe /\ done = FALSE
Eval == done = FALSE /\ done' = TRUE /\ UNCHANGED v
EvalGen == Eval /\ PrintT(ToJson([v |-> v, admit |-> [p \in Preds |-> SetToSeq(Admit(p, v))],
                                  n2n |-> N2N(v), prim |-> Prim(v), primfree |-> HasFree(v), primsame |-> PrimSame(v)]))

\* ---- invariants (one per clause) ---------------------------------------------------------------------
\* the pinned answers form a lattice
PinnedIsLattice == Lattice(PinRow(v))
\* every object is something: a scalar kind, an iterable, or one of the objects nothing is claimed about
Classified == \/ \E p \in ScalarKinds : Pin(p, v)
              \/ Pin("is_iterable", v)
              \/ v.cls \in OtherScalar \cup {"ndarray0", "np.timedelta64", "bytes"}
\* numbers: every numpy width is a number of exactly one kind; a NaN / infinity is a float of any width
WidthsAreNumbers == (v.cls \in NpSigned \cup NpUnsigned \cup NpFloat) =>
                        Pin("is_num", v) /\ (Pin("is_int", v) # Pin("is_float", v)) /\ ~Free("is_num", v)
NanIsNull == Pin("is_nan", v) => N2N(v) = "none"
\* null2none only ever turns SCALARS into None, and every predicate-visible null
NullIsScalar == N2N(v) = "none" => ~Pin("is_iterable", v) /\ (Pin("is_none", v) \/ Pin("is_nan", v) \/ Pin("is_date", v))
\* as_primitive: idempotent; the result of a pinned input holds primitives only; containers keep their shape
RECURSIVE OnlyPrimitives(_)
OnlyPrimitives(o) == IF o.cls \in {"list", "tuple"} THEN \A k \in 1..Len(o.items) : OnlyPrimitives(o.items[k])
                     ELSE o.cls \notin (NpSigned \cup NpUnsigned \cup NpFloat \cup {"np.bool_", "Enum", "IntEnum", "date", "np.datetime64"})
PrimIdempotent == Prim(Prim(v)) = Prim(v)
PrimIsPrimitive == ~HasFree(v) => OnlyPrimitives(Prim(v))
PrimOKOfPrim == PrimOK(v, Prim(v))
PrimKeepsPredicates == (~HasFree(v) /\ v.cls # "Enum") => \A p \in {"is_bool", "is_float", "is_str", "is_date", "is_none", "is_nan", "is_list", "is_tuple", "is_dict"} :
                            Pin(p, Prim(v)) = Pin(p, v)
\* the lattice is not vacuous: each law has an object that satisfies its premise
ASSUME NonVacuous == \A p \in Preds : (\E w \in Universe : Pin(p, w) /\ ~Free(p, w)) /\ (\E w \in Universe : ~Pin(p, w) /\ ~Free(p, w))
=============================================================================
