CONSTANTS Cached = FALSE
          Size = "std"
          Hist = TRUE
INIT Init
NEXT Next
INVARIANT CallsAreMerges
INVARIANT HeapStaysOk
