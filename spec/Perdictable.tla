----------------------------- MODULE Perdictable -----------------------------
(* Property C20: perdictable evaluates a function once per row of the keyed join of its inputs. *)
(*                                                                                             *)
(* A KEY is a tuple of NK >= 0 integers (one per key column; the driver renders integers to     *)
(* Python key values by a strictly monotone map per column, so "sorted by key" is the integer   *)
(* order here).  An INPUT is a record [kind, v, map]:                                           *)
(*      kind = "scalar": the value v (map = << >>)         - broadcast to every row             *)
(*      kind = "keyed" : map, a function from a finite set of keys to cell values (v = None)    *)
(*                       - "a table keyed by keys": at most one row per key                     *)
(* A CONFIGURATION is what one public call receives:                                            *)
(*      [ins    |-> sequence of inputs (the parameters of f, in order),                         *)
(*       defs   |-> sequence, defs[i] = << >> (no default) or <<d>> (input i has default d),    *)
(*       data   |-> << >> (nothing computed before) or <<map>>: previously computed values,     *)
(*       expiry |-> << >> (no expiries), <<map>>: key -> None or a datetime, or                 *)
(*                  <<"scalar", e>>: one None / datetime for every row ("scalars broadcast"),   *)
(*       today  |-> ordinal of the day on which the call is made,                               *)
(*       spell  |-> how every table SPELLS its keys, see "Spelling of keys" below]               *)
(* The function handed to perdictable is F: it returns the tuple ("f", arguments...), so the    *)
(* value of a row tells which arguments it was computed from; the driver's F also records every *)
(* call (the library is not instrumented).                                                      *)
EXTENDS Table, SequencesExt, FiniteSetsExt, TLC

\* ---------------------------------------------------------------------------------------------
\* The statement, law level
\* ---------------------------------------------------------------------------------------------
NIn(c)          == Len(c.ins)
Tables(c)       == {i \in 1..NIn(c) : c.ins[i].kind = "keyed"}
AllScalar(c)    == Tables(c) = {}
HasDefault(c, i)== c.defs[i] # <<>>
Strict(c)       == {i \in Tables(c) : ~HasDefault(c, i)}          \* the inner-joined table inputs
Dom(c, i)       == DOMAIN c.ins[i].map

\* "one row per key present in every table input ... except that an input named in `defaults` is
\*  outer-joined: keys it lacks receive its default value".  An input with a default never removes
\*  a key; when every table input has a default nothing restricts the keys and the outer join
\*  of all of them is the union.  Without any table the join is the single row of the scalars
\*  (ScalarJoin: the unit of the join, key << >>) - perdictable then returns f(...) itself.
JoinKeys(c) == IF AllScalar(c) THEN {<<>>}
               ELSE IF Strict(c) # {} THEN {k \in UNION {Dom(c, i) : i \in Strict(c)} : \A i \in Strict(c) : k \in Dom(c, i)}
               ELSE UNION {Dom(c, i) : i \in Tables(c)}

ValueAt(c, i, k) == LET x == c.ins[i] IN
                    IF x.kind = "scalar" THEN x.v
                    ELSE IF k \in DOMAIN x.map THEN x.map[k] ELSE c.defs[i][1]
Args(c, k) == [i \in 1..NIn(c) |-> ValueAt(c, i, k)]

\* keys are compared column by column; pos is the sequence of key positions in order of priority
RECURSIVE LexLess(_, _)
LexLess(a, b) == a # <<>> /\ (a[1] < b[1] \/ (a[1] = b[1] /\ LexLess(Tail(a), Tail(b))))
Pick(k, pos) == [n \in 1..Len(pos) |-> k[pos[n]]]
KeysSortedBy(S, pos) == SetToSortSeq(S, LAMBDA a, b : LexLess(Pick(a, pos), Pick(b, pos)))
Identity(nk) == [n \in 1..nk |-> n]
SortedKeys(S, nk) == IF S = {<<>>} THEN <<<<>>>> ELSE KeysSortedBy(S, Identity(nk))

\* "sorted by key": the keys are given by `on`, so the rows are in ascending lexicographic order of
\* the key columns in the order of `on`.
\* (History: the code used to sort with dictable.sort([cols]), i.e. by the key columns in alphabetical
\* order of their names; that was a genuine defect - fixed in /repo by `res.sort(*as_list(on))` - and the
\* former named deviation KeyColumnOrder is gone: the order is pinned whatever the rendering.)
KeyOrders(S, nk, alpha) == IF S = {<<>>} THEN {<<<<>>>>} ELSE {SortedKeys(S, nk)}

\* join(inputs, on, defaults): row n = the n-th key with the value of every input at that key
JoinRowsIn(c, ks) == [n \in 1..Len(ks) |-> [key |-> ks[n], vals |-> Args(c, ks[n])]]
JoinRows(c, nk)   == JoinRowsIn(c, SortedKeys(JoinKeys(c), nk))

\* the function
F(args) == VTup(<<VStr("f")>> \o args)

\* "a previously computed value is supplied with an expiry date in the past"
IsPast(e, today) == IsDate(e) /\ Pay(e)[1] < today
Cached(c, k)     == c.data # <<>> /\ k \in DOMAIN c.data[1]
ExpiryKind(c)    == IF c.expiry = <<>> THEN "absent" ELSE IF Len(c.expiry) = 2 THEN "scalar" ELSE "keyed"
HasExpiry(c, k)  == ExpiryKind(c) = "scalar" \/ (ExpiryKind(c) = "keyed" /\ k \in DOMAIN c.expiry[1])
ExpiryAt(c, k)   == IF ExpiryKind(c) = "scalar" THEN c.expiry[2] ELSE c.expiry[1][k]      \* scalars broadcast
CachedPast(c, k) == /\ Cached(c, k)
                    /\ HasExpiry(c, k)
                    /\ IsPast(ExpiryAt(c, k), c.today)
RowValue(c, k) == IF CachedPast(c, k) THEN c.data[1][k] ELSE F(Args(c, k))
RunRowsIn(c, ks) == [n \in 1..Len(ks) |-> [key |-> ks[n], v |-> RowValue(c, ks[n])]]
RunRows(c, nk)   == RunRowsIn(c, SortedKeys(JoinKeys(c), nk))
\* the calls of f, as a bag: one per row that is not (cached and past); written in key order
CallsIn(ks, c) == LET todo == SelectSeq(ks, LAMBDA k : ~CachedPast(c, k)) IN [n \in 1..Len(todo) |-> Args(c, todo[n])]
RunCalls(c, nk) == CallsIn(SortedKeys(JoinKeys(c), nk), c)

\* ---------------------------------------------------------------------------------------------
\* Spelling of keys.  The statement speaks of KEYS ("one row per key present in every table input",
\* "keys it lacks"), not of the Python objects that sit in the key columns.  A key is what a key cell
\* DENOTES; two cells denote the same key exactly when the library's own order of keys ranks them
\* equal: 1, 1.0, numpy.int64(1), numpy.float32(1) are one key, any two NaN objects are one key
\* (the greatest number), None is one key (the least), a date, the datetime of its midnight and the
\* numpy.datetime64 of that day are one key.  Every table of a call - input t = 1..NIn, the previously
\* computed values (t = NIn + 1) and the expiries (t = NIn + 2) - holds for each of its keys one
\* concrete object, its SPELLING of the key:
\*      c.spell[t][k] = s : table t holds the object number s for key k
\*                          (equal numbers for one key = the very same Python object, different numbers =
\*                           different objects, possibly of different types, that denote k)
\* The law level is written on denotations: no operator above or below reads c.spell, i.e. which
\* rows exist, their order, their values and the calls of f do not depend on how a key is spelt
\* in the inputs, in an outer-joined (defaulted) input or in the cache.  (MC_Perdictable states this once
\* more as the invariant SpellingIsNotKey and enumerates the spellings; the driver renders them.)
\* Named deviation AnySpelling: WHICH of the supplied spellings of its key a returned row carries is not
\* pinned by the statement; results are read back as denotations.
\* ---------------------------------------------------------------------------------------------
NTab(c)         == NIn(c) + 2
TableKeys(c, t) == IF t <= NIn(c) THEN (IF c.ins[t].kind = "keyed" THEN DOMAIN c.ins[t].map ELSE {})
                   ELSE IF t = NIn(c) + 1 THEN (IF c.data = <<>> THEN {} ELSE DOMAIN c.data[1])
                   ELSE (IF ExpiryKind(c) = "keyed" THEN DOMAIN c.expiry[1] ELSE {})
\* every table spells each of its keys exactly once ("a table keyed by keys": at most one row per key)
WellSpelled(c)  == /\ Len(c.spell) = NTab(c)
                   /\ \A t \in 1..NTab(c) : /\ DOMAIN c.spell[t] = TableKeys(c, t)
                                            /\ \A k \in DOMAIN c.spell[t] : c.spell[t][k] \in Nat
\* the same call with every key spelt by one and the same object everywhere
Plain(c)        == [c EXCEPT !.spell = [t \in 1..NTab(c) |-> [k \in TableKeys(c, t) |-> 0]]]
\* the tables in which key k is spelt differently from table t (the objects an identity lookup would miss)
OtherSpellings(c, t, k) == {u \in 1..NTab(c) : k \in TableKeys(c, u) /\ k \in TableKeys(c, t) /\ c.spell[u][k] # c.spell[t][k]}

\* bags written as sequences
Count(s, x)   == Cardinality({n \in 1..Len(s) : s[n] = x})
SameBag(s, t) == Len(s) = Len(t) /\ \A x \in Range(s) \cup Range(t) : Count(s, x) = Count(t, x)

\* The quantifier's domain.  Expiries are assigned to previously computed keys only; the all-scalar
\* call has no keys, hence nothing previously computed per key.  data/expiry travel through the
\* same join as the inputs (with default None), so when *every* table input has a default the
\* code's outer join would also pick up cached keys that no input has - the statement does not
\* say whether the cache is an "input"; such configurations are outside (CacheInsideJoin).
\* A scalar expiry is assigned to every row: a None is "no expiry" spelt out; a date is inside the domain
\* when every row of the join was computed before.
ExpiryOnCachedOnly(c) ==
    CASE ExpiryKind(c) = "absent" -> TRUE
      [] ExpiryKind(c) = "keyed"  -> c.data # <<>> /\ DOMAIN c.expiry[1] \subseteq DOMAIN c.data[1]
      [] ExpiryKind(c) = "scalar" -> IsNone(c.expiry[2]) \/ (c.data # <<>> /\ JoinKeys(c) \subseteq DOMAIN c.data[1])
CacheInsideJoin(c)    == (Strict(c) = {} /\ c.data # <<>>) => DOMAIN c.data[1] \subseteq JoinKeys(c)
InDomain(c) == /\ ExpiryOnCachedOnly(c)
               /\ CacheInsideJoin(c)
               /\ WellSpelled(c)
               /\ AllScalar(c) => (c.data = <<>> /\ c.expiry = <<>>)

\* ---------------------------------------------------------------------------------------------
\* Acceptable outcomes, as the driver's projection of a returned object writes them:
\*   [kind |-> "value", v]             a plain value
\*   [kind |-> "table", cols, rows]    a table with at least one row; cols = the column roles in
\*                                     canonical order: "#1".."#nk" key columns, then "#v" the value
\*                                     column (perdictable) or "@1".."@n" the inputs (join);
\*                                     rows in the order returned: [key, v] resp. [key, vals]
\*   [kind |-> "empty"]                a table without rows (its columns are not looked at)
\*   [kind |-> "none"] / [kind |-> "data"]   None / the very object that was passed as `data`
\* Named deviation EmptyJoin: when no key survives the join perdictable returns the supplied `data`
\* (None if there was none) instead of an empty table; all three are read as "zero rows".
\* ---------------------------------------------------------------------------------------------
KeyCols(nk)    == [n \in 1..nk |-> "#" \o ToString(n)]
RunCols(nk)    == KeyCols(nk) \o <<"#v">>
JoinCols(c, nk)== (IF AllScalar(c) THEN <<>> ELSE KeyCols(nk)) \o [i \in 1..NIn(c) |-> "@" \o ToString(i)]
RunOutcomes(c, nk, alpha) ==
    IF AllScalar(c) THEN {[kind |-> "value", v |-> F(Args(c, <<>>))]}
    ELSE IF JoinKeys(c) = {} THEN {[kind |-> "none"], [kind |-> "data"], [kind |-> "empty"]}
    ELSE {[kind |-> "table", cols |-> RunCols(nk), rows |-> RunRowsIn(c, ks)] : ks \in KeyOrders(JoinKeys(c), nk, alpha)}
JoinOutcomes(c, nk, alpha) ==
    IF JoinKeys(c) = {} THEN {[kind |-> "empty"]}
    ELSE {[kind |-> "table", cols |-> JoinCols(c, nk), rows |-> JoinRowsIn(c, ks)] : ks \in KeyOrders(JoinKeys(c), nk, alpha)}

\* ---------------------------------------------------------------------------------------------
\* Mechanism of join as the code does it (compared with the law inside TLC only):
\* a keyed table is a function key -> (input index -> value)
\*   inner = product (*) of the tables without default, in order
\*   outer = fold of _join_dictable_with_defaults over the tables with default:
\*           d1 * d2  +  (d2 / d1) with the defaults gathered so far  +  (d1 / d2) with d2's default
\*   result = outer if there is no inner, inner if there is no outer,
\*            else inner * outer + (inner / outer) with all defaults; then the scalars are broadcast
\* ---------------------------------------------------------------------------------------------
Single(c, i) == [k \in Dom(c, i) |-> (i :> c.ins[i].map[k])]
Mul(t, u)    == [k \in DOMAIN t \cap DOMAIN u |-> t[k] @@ u[k]]
Div(t, u)    == [k \in DOMAIN t \ DOMAIN u |-> t[k]]
With(t, d)   == [k \in DOMAIN t |-> t[k] @@ d]
Cat(t, u)    == t @@ u
NoTable      == [some |-> FALSE, t |-> <<>>, d |-> <<>>]
Some(t, d)   == [some |-> TRUE, t |-> t, d |-> d]
JoinDef(p, q) == \* _join_dictable_with_defaults on (table or nothing, defaults gathered)
    IF ~p.some THEN [q EXCEPT !.d = p.d @@ q.d]
    ELSE IF ~q.some THEN [p EXCEPT !.d = p.d @@ q.d]
    ELSE Some(Cat(Cat(Mul(p.t, q.t), IF p.d = <<>> THEN <<>> ELSE With(Div(q.t, p.t), p.d)),
                  IF q.d = <<>> THEN <<>> ELSE With(Div(p.t, q.t), q.d)), p.d @@ q.d)
RECURSIVE MulAll(_, _), OuterAll(_, _)
MulAll(c, is)   == IF Len(is) = 1 THEN Single(c, is[1]) ELSE Mul(MulAll(c, Front(is)), Single(c, Last(is)))
OuterAll(c, is) == LET p(i) == Some(Single(c, i), (i :> c.defs[i][1])) IN
                   IF Len(is) = 1 THEN p(is[1]) ELSE JoinDef(OuterAll(c, Front(is)), p(Last(is)))
Ascending(S) == SetToSortSeq(S, <)
MechJoin(c) ==
    LET st == Ascending(Strict(c))
        df == Ascending(Tables(c) \ Strict(c))
        inner == IF st = <<>> THEN NoTable ELSE Some(MulAll(c, st), <<>>)
        outer == IF df = <<>> THEN NoTable ELSE OuterAll(c, df)
        t == JoinDef(inner, outer).t
        sc == [i \in (1..NIn(c)) \ Tables(c) |-> c.ins[i].v]
    IN  IF AllScalar(c) THEN (<<>> :> sc) ELSE With(t, sc)
JoinAsMap(c) == [k \in JoinKeys(c) |-> Args(c, k)]

\* ---------------------------------------------------------------------------------------------
\* The same mechanism on the key CELLS (see "Spelling of keys"): a table is a set of rows
\*      [k |-> key denoted, s |-> the spelling the row carries, v |-> input index -> value]
\* and the product (*) and the quotient (/) are told when two cells match.  The library matches cells that
\* rank equal ("ByRank"); a lookup of the cells in a hash set / dict matches NaN cells only when they are one
\* object, and dates only when they are of one type ("ByObject").  With "ByRank" for both operations the rows
\* are the law's - one per key (CellsJoinIsLaw in MC_Perdictable); with a quotient "ByObject" next to a
\* product "ByRank" a key that two tables spell differently is joined AND reported as lacking
\* (ObjectLookupIsLaw fails: configuration `identity`) - which is why the spellings are enumerated.
\* ---------------------------------------------------------------------------------------------
Match(how, a, b) == a.k = b.k /\ (how = "ByObject" => a.s = b.s)        \* how = "ByRank" | "ByObject"
CellRows(c, i) == {[k |-> k, s |-> c.spell[i][k], v |-> (i :> c.ins[i].map[k])] : k \in Dom(c, i)}
MulC(T, U, how) == {[k |-> p[1].k, s |-> p[1].s, v |-> p[1].v @@ p[2].v] : p \in {p \in T \X U : Match(how, p[1], p[2])}}
DivC(T, U, how) == {a \in T : \A b \in U : ~Match(how, a, b)}
WithC(T, d)     == {[a EXCEPT !.v = @ @@ d] : a \in T}
JoinDefC(p, q, mul, div) ==
    IF ~p.some THEN [q EXCEPT !.d = p.d @@ q.d]
    ELSE IF ~q.some THEN [p EXCEPT !.d = p.d @@ q.d]
    ELSE Some(MulC(p.t, q.t, mul)
              \cup (IF p.d = <<>> THEN {} ELSE WithC(DivC(q.t, p.t, div), p.d))
              \cup (IF q.d = <<>> THEN {} ELSE WithC(DivC(p.t, q.t, div), q.d)), p.d @@ q.d)
RECURSIVE MulAllC(_, _, _), OuterAllC(_, _, _, _)
MulAllC(c, is, mul) == IF Len(is) = 1 THEN CellRows(c, is[1]) ELSE MulC(MulAllC(c, Front(is), mul), CellRows(c, Last(is)), mul)
OuterAllC(c, is, mul, div) ==
    LET p(i) == Some(CellRows(c, i), (i :> c.defs[i][1])) IN
    IF Len(is) = 1 THEN p(is[1]) ELSE JoinDefC(OuterAllC(c, Front(is), mul, div), p(Last(is)), mul, div)
\* the rows of join(inputs, on, defaults) for table inputs (the scalars broadcast): a SET of rows, two rows may carry one key
MechCells(c, mul, div) ==
    LET st == Ascending(Strict(c))
        df == Ascending(Tables(c) \ Strict(c))
        inner == IF st = <<>> THEN NoTable ELSE Some(MulAllC(c, st, mul), <<>>)
        outer == IF df = <<>> THEN NoTable ELSE OuterAllC(c, df, mul, div)
        sc == [i \in (1..NIn(c)) \ Tables(c) |-> c.ins[i].v]
    IN  WithC(JoinDefC(inner, outer, mul, div).t, sc)
\* perdictable hands the previously computed values and the expiries to that join as two more inputs with default None
\* (outer-joined: inside the quantifier's domain they neither add a key nor remove one, see CacheInsideJoin)
AsJoin(c) ==
    LET d == IF c.data = <<>> THEN [kind |-> "scalar", v |-> None, map |-> <<>>] ELSE [kind |-> "keyed", v |-> None, map |-> c.data[1]]
        e == IF ExpiryKind(c) = "keyed" THEN [kind |-> "keyed", v |-> None, map |-> c.expiry[1]]
             ELSE [kind |-> "scalar", v |-> IF ExpiryKind(c) = "scalar" THEN c.expiry[2] ELSE None, map |-> <<>>]
    IN  [ins |-> c.ins \o <<d, e>>, defs |-> c.defs \o <<<<None>>, <<None>>>>, data |-> <<>>, expiry |-> <<>>, today |-> c.today,
         spell |-> c.spell \o <<<<>>, <<>>>>]
\* one row per key of the join, with that key's values, carrying a spelling that some table input supplied for the key
CellsAreLaw(c, R) == /\ {r.k : r \in R} = JoinKeys(c)
                     /\ Cardinality(R) = Cardinality(JoinKeys(c))
                     /\ \A r \in R : r.v = Args(c, r.k) /\ \E i \in Tables(c) : r.k \in Dom(c, i) /\ r.s = c.spell[i][r.k]
=============================================================================
