------------------------------- MODULE MC_TextFs -------------------------------
(* X08-c (mkdir / dictdir) on the specification, and the source of its S2C replay: histories over a menu of calls.          *)
EXTENDS TextFs, TLC, Json, SequencesExt
CONSTANTS MaxLen, Gen
VARIABLES st, n, hist
vars == <<st, n, hist>>

F == "f.txt"
Mk(p, t) == [op |-> "mkdir", path |-> p, trail |-> t, spell |-> "plain", level |-> 0]
Calls == { Mk(<<"a">>, TRUE), Mk(<<"a", "b">>, TRUE), Mk(<<"b">>, TRUE), Mk(<<"b", "a">>, TRUE), Mk(<<"a", F>>, FALSE), Mk(<<"a", "b", F>>, FALSE), Mk(<<"a", "b">>, FALSE),
           [Mk(<<"a", "b">>, TRUE) EXCEPT !.spell = "double"], [Mk(<<"b", F>>, FALSE) EXCEPT !.spell = "back"] }
         \cup {[op |-> "touch", path |-> p, trail |-> FALSE, spell |-> "plain", level |-> 0] : p \in {<<F>>, <<"a", F>>, <<"a", "b", F>>, <<"b">>}}
         \cup {[op |-> "dictdir", path |-> <<>>, trail |-> FALSE, spell |-> "plain", level |-> lv] : lv \in 0..2}
         \cup {[op |-> "dictdir", path |-> <<"a">>, trail |-> FALSE, spell |-> "plain", level |-> 1]}

Init == st = [dirs |-> {}, files |-> {}] /\ n = 0 /\ hist = <<>>
Do(call) == /\ n < MaxLen /\ FsEnabled(st, call)
            /\ st' = FsAfter(st, call)
            /\ LET o == FsObs(st, call) IN
               hist' = IF Gen THEN Append(hist, [call |-> call, obs |-> [ret |-> o.ret, dirs |-> SetToSeq(o.dirs), files |-> SetToSeq(o.files)]]) ELSE hist
            /\ (Gen /\ n + 1 = MaxLen) => PrintT(ToJson([hist |-> hist']))
            /\ n' = n + 1
Mkdir == \E call \in Calls : call.op = "mkdir" /\ Do(call)
Touch == \E call \in Calls : call.op = "touch" /\ Do(call)
List  == \E call \in Calls : call.op = "dictdir" /\ Do(call)
Next == Mkdir \/ Touch \/ List

\* ---- the laws ---------------------------------------------------------------------------------------------------
\* the tree is a tree: every directory and file hangs in a directory; nothing is both
WellFormed == /\ \A p \in st.dirs \cup st.files : FsIsDir(st, SubSeq(p, 1, Len(p) - 1))
              /\ st.dirs \cap st.files = {}
\* nothing that exists ever goes away or changes its kind
OnlyGrows == [][st.dirs \subseteq st'.dirs /\ st.files \subseteq st'.files]_vars
\* mkdir again changes nothing; its target is there afterwards; listing changes nothing
MkdirIdempotent == \A call \in Calls : (call.op = "mkdir" /\ FsEnabled(st, call)) =>
                      LET a == FsAfter(st, call) IN FsEnabled(a, call) /\ FsAfter(a, call) = a /\ FsIsDir(a, FsTarget(call))
\* the dict of a directory has one entry per child, and opening deeper never loses a name
DictShape == \A p \in st.dirs \cup {<<>>} : \A lv \in 0..2 :
                /\ DOMAIN FsDict(st, p, lv) = {q[Len(q)] : q \in FsKids(st, p)}
                /\ \A nm \in DOMAIN FsDict(st, p, lv) : FsDict(st, p, lv)[nm][1] = (IF lv > 0 /\ Append(p, nm) \in st.dirs THEN "d" ELSE "p")
=============================================================================
