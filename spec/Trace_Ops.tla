------------------------------ MODULE Trace_Ops ------------------------------
(* Trace validation for property C08: each line of the log is one public call                   *)
(*   add_ / sub_ / mul_ / div_ / pow_ / gt_ / ge_ / lt_ / le_ / min_ / max_ (op, index policy    *)
(*   join, column policy cols)  or  df_sum / df_mean / df_count (union index, column policy)     *)
(* on real operands xs (series, frames, scalars; `form` says how they were handed over: two      *)
(* arguments, one list, a list and an argument ... - the specification reduces left to right     *)
(* whatever the form), with the operands after the call, the lists handed over before and after  *)
(* the call (the numbers of the operands they hold, by identity) and the encoded outcome.        *)
(* m is the fill method of the call (OpsLaw!OpsMethods), nl the number of operands the first      *)
(* argument held (sub_ / div_ with a list on either side: OpsLaw!OpsCutOutcomes).                 *)
EXTENDS OpsLaw, Batch

CellsOf(o) == IF IsScalar(o) THEN {o.v} ELSE IF IsS(o) THEN Range(o.v) ELSE UNION {Range(o.v[j]) : j \in 1..Len(o.v)}
InDomain(o) == /\ o.op \in BinOps \cup AggOps
               /\ \A i \in 1..Len(o.xs) : IsTs(o.xs[i]) => WellFormed(o.xs[i])
               /\ o.op \in AggOps \/ OpsColsPinned(o.op, o.xs, o.cols)
               /\ OpsMethodOK(o.xs, o.m) /\ (o.op \in AggOps => o.m = "none")
               /\ LET multi == SelectSeq(o.xs, IsMulti) IN         \* under "ij" the frames share a column
                  (o.cols = "ij" /\ multi # <<>>) =>
                      Cardinality(CommonCols("ij", [i \in 1..Len(multi) |-> Cols(multi[i])])) >= (IF Len(o.xs) >= 3 /\ Len(multi) >= 2 THEN 2 ELSE 1)
               /\ o.op = "pow" => Len(o.xs) = 2 /\ \A y \in CellsOf(o.xs[2]) : PowDomain(y)
               /\ o.op \in {"pow", "gt", "ge", "lt", "le"} => Len(o.xs) = 2
               /\ o.op \in {"sub", "div"} => Len(o.xs) >= 2 /\ o.nl \in 1..(Len(o.xs) - 1) /\ OpsCutDomain(o.op, o.xs)
\* the first clause on which the observed result g differs from the expected w
WhyNotOp(w, g) ==
    IF ~(g.k \in {"s", "f", "c"}) THEN "result_kind"
    ELSE IF IsScalar(w) # IsScalar(g) THEN "result_kind"
    ELSE IF IsScalar(w) THEN "values"
    ELSE IF IsF(w) /\ ~IsF(g) THEN "result_kind"
    ELSE IF g.t # w.t THEN "index"
    ELSE IF IsF(w) /\ g.c # w.c THEN "columns"
    ELSE IF IsS(w) /\ IsF(g) /\ Len(g.c) # 1 THEN "columns"
    ELSE IF \E y \in CellsOf(g) : IsInf(y) THEN "infinite"
    ELSE "values"
Verdict(o) ==
    IF o.after # o.xs THEN "operand_changed"
    ELSE IF o.lists_after # o.lists THEN "container_changed"     \* a list handed over holds the operands it held, by identity
    ELSE IF ~InDomain(o) THEN "outside_domain"
    ELSE IF o.out.kind = "exc" THEN "raised"
    ELSE LET want == IF o.op \in AggOps THEN {Agg(o.op, o.xs, o.cols)}
                     ELSE IF o.op \in {"sub", "div"} /\ Len(o.xs) > 2 THEN OpsCutOutcomes(o.op, o.xs, o.nl, o.join, o.cols)
                     ELSE OpsOutcomes(o.op, o.xs, o.join, o.cols, o.m)
             got  == o.out.v
         IN  IF \E w \in want : Matches(w, got) THEN ""
             ELSE WhyNotOp(IF o.op \in AggOps THEN Agg(o.op, o.xs, o.cols) ELSE OpsReduce(o.op, o.xs, o.join, o.cols, o.m, "row"), got)

Init == BatchInit
Next == BatchNext(Verdict)
=============================================================================
