CONSTANTS Menu = "thorough"
          Trees <- TreeMenu
          V <- Vals
INIT Init
NEXT NextGen
