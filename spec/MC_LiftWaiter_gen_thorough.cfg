CONSTANTS Menu = "thorough"
          Trees <- TreeMenu
          V <- Vals
          Concurrent = TRUE
INIT Init
NEXT NextGen
