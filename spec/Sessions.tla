------------------------------ MODULE Sessions ------------------------------
(* Extension X01: trading sessions and clocks of pyg_base._drange.                              *)
(*                                                                                             *)
(* Time is the integer grid of Civil.tla: an instant is  t = <<d, s>>,  d a proleptic ordinal   *)
(* and s the second of the day (0..86399), ordered lexicographically.  A calendar              *)
(* configuration c is the record of Calendar.tla ([hol, wk, adj, lo, hi]); the business-day     *)
(* arithmetic (IsBday, AdjF, AdjP, CountB, the guarded loops MAdjust, AddLoop, the table        *)
(* BTable) is reused from there, not restated.  A session configuration is                      *)
(*     sc = [ds |-> second of day_start, de |-> second of day_end];                             *)
(* de < ds is an overnight session: it opens on the evening before its trade date.             *)
(*                                                                                             *)
(* Part 1  TIMES OF DAY: what the spellings accepted by as_time denote.                         *)
(* Part 2  LAW LEVEL: sessions, is_trading, trade_date - written from the statement, the trade  *)
(*         date by unit steps over the days.                                                    *)
(* Part 3  MECHANISM LEVEL: the branch structure of the code (today's comparisons, and the      *)
(*         variant with closed boundaries); compared with part 2 only inside TLC.               *)
(* Part 4  QUERIES and the calendar OBJECT as pure transition functions (lazy table, module     *)
(*         defaults, in-place edits); the machine with variables is MC_SessionsObj.tla.         *)
(* Part 5  CLOCKS: units crossed between two instants, by counting days.                        *)
EXTENDS Calendar

\* =============================================================================================
\* Part 1 - times of day
\* =============================================================================================
DaySecs == 86400
SecOf(h, m, s) == h * 3600 + m * 60 + s
HMS(x) == <<x \div 3600, (x % 3600) \div 60, x % 60>>
ValidHMS(h, m, s) == h \in 0..23 /\ m \in 0..59 /\ s \in 0..59
BadTime == -1                                       \* the spelling is rejected (ValueError)
\* an integer (and the digit string that spells it) is read by its magnitude:
\* below 100 it is an hour, below 10 000 hhmm, below 1 000 000 hhmmss; everything else is rejected
ReadInt(n) ==
    IF n < 0 \/ n >= 1000000 THEN BadTime
    ELSE LET h == IF n < 100 THEN n ELSE IF n < 10000 THEN n \div 100 ELSE n \div 10000
             m == IF n < 100 THEN 0 ELSE IF n < 10000 THEN n % 100 ELSE (n \div 100) % 100
             s == IF n < 10000 THEN 0 ELSE n % 100
         IN  IF ValidHMS(h, m, s) THEN SecOf(h, m, s) ELSE BadTime
\* the integers that spell second x of the day (none for 00:mm:ss with mm:ss # 00:00 - an integer
\* has no leading zeros; named restriction IntNeedsHour)
IntSpellings(x) ==
    LET h == HMS(x)[1]  m == HMS(x)[2]  s == HMS(x)[3] IN
    (IF m = 0 /\ s = 0 THEN {h} ELSE {})
    \cup (IF s = 0 /\ h >= 1 THEN {h * 100 + m} ELSE {})
    \cup (IF h >= 1 THEN {h * 10000 + m * 100 + s} ELSE {})
\* 'h:m' and 'h:m:s' with numeric fields
ReadColon(f) == IF Len(f) = 2 THEN (IF ValidHMS(f[1], f[2], 0) THEN SecOf(f[1], f[2], 0) ELSE BadTime)
                ELSE IF Len(f) = 3 THEN (IF ValidHMS(f[1], f[2], f[3]) THEN SecOf(f[1], f[2], f[3]) ELSE BadTime)
                ELSE BadTime

\* =============================================================================================
\* Part 2 - law level
\* =============================================================================================
Le(a, b) == a[1] < b[1] \/ (a[1] = b[1] /\ a[2] <= b[2])
Lt(a, b) == a[1] < b[1] \/ (a[1] = b[1] /\ a[2] < b[2])
Overnight(sc) == sc.de < sc.ds
\* the session of trade date D, both end points included
Open(sc, D)  == IF Overnight(sc) THEN <<D - 1, sc.ds>> ELSE <<D, sc.ds>>
Close(sc, D) == <<D, sc.de>>
InSession(sc, D, t) == Le(Open(sc, D), t) /\ Le(t, Close(sc, D))
\* in trading <=> inside the session of a business day (only D = d, d + 1 can contain <<d, s>>;
\* the wider range makes that a checked lemma - SessionsDisjoint - instead of an assumption)
IsTrading(c, sc, t) == \E D \in (t[1] - 1)..(t[1] + 2) : IsBday(c, D) /\ InSession(sc, D, t)

\* 'following': the first business day whose session has not closed before t;
\* 'previous':  the last business day whose session has opened by t.  Unit steps over the days
\* (the session of d - 1 closed before <<d, s>>; the session of d + 2 opens after it).
RECURSIVE FirstOpen(_, _, _, _), LastOpened(_, _, _, _)
FirstOpen(c, sc, t, D)  == IF IsBday(c, D) /\ Le(t, Close(sc, D)) THEN D ELSE FirstOpen(c, sc, t, D + 1)
LastOpened(c, sc, t, D) == IF IsBday(c, D) /\ Le(Open(sc, D), t) THEN D ELSE LastOpened(c, sc, t, D - 1)
TdF(c, sc, t) == FirstOpen(c, sc, t, t[1] - 1)
TdP(c, sc, t) == LastOpened(c, sc, t, t[1] + 2)
TradeDate(c, sc, t, a) == IF a = "f" THEN TdF(c, sc, t) ELSE TdP(c, sc, t)

\* closed forms (lemmas checked by MC_Sessions, not used as the oracle)
TdFClosed(c, sc, t) == IF Le(t, Close(sc, t[1])) THEN AdjF(c, t[1]) ELSE AdjF(c, t[1] + 1)
TdPClosed(c, sc, t) == IF Le(Open(sc, t[1] + 1), t) THEN AdjP(c, t[1] + 1)
                       ELSE IF Le(Open(sc, t[1]), t) THEN AdjP(c, t[1]) ELSE AdjP(c, t[1] - 1)

\* where the second s lies relative to the bounds (a label for reports and known findings)
Where(sc, s) == IF s = sc.ds /\ s = sc.de THEN "open=close"
                ELSE IF s = sc.ds THEN "open" ELSE IF s = sc.de THEN "close"
                ELSE IF Overnight(sc) THEN (IF s > sc.ds THEN "evening" ELSE IF s < sc.de THEN "morning" ELSE "gap")
                ELSE (IF s < sc.ds THEN "pre" ELSE IF s > sc.de THEN "post" ELSE "in")

\* the claimed domain: the day, its neighbours and both trade dates lie inside the calendar's range
SessDomain(c, sc, t) == AllIn(c, {t[1] - 1, t[1], t[1] + 1, TdF(c, sc, t), TdP(c, sc, t)})

\* =============================================================================================
\* Part 3 - mechanism level (Calendar.is_trading / Calendar.trade_date of _drange.py)
\* =============================================================================================
\* self.add(res, n) with |n| = 1: the loop path, under the calendar's own convention
MStep(c, r, n) == AddLoop(c, r, n, c.adj)
\* closed = FALSE: today's comparisons (tod > day_start / tod < day_end in the overnight branch);
\* closed = TRUE: the boundary instants belong to the session (tod >= day_start / tod <= day_end)
MTradeDate(c, sc, t, a, closed) ==
    LET d == t[1]  s == t[2]
        After(res) == IF a = "f" THEN (IF res > d THEN res ELSE MStep(c, res, 1)) ELSE res
    IN  IF ~Overnight(sc)
        THEN LET res == MAdjust(c, d, a) IN
             IF s > sc.de THEN After(res)
             ELSE IF s < sc.ds THEN (IF a = "f" THEN res ELSE IF res < d THEN res ELSE MStep(c, res, -1))
             ELSE res
        ELSE IF (IF closed THEN s >= sc.ds ELSE s > sc.ds) THEN MAdjust(c, d + 1, a)
             ELSE IF (IF closed THEN s <= sc.de ELSE s < sc.de) THEN MAdjust(c, d, a)
             ELSE After(MAdjust(c, d, a))
MIsTrading(c, sc, t) ==
    LET d == t[1]  s == t[2] IN
    IF ~Overnight(sc) THEN s <= sc.de /\ s >= sc.ds /\ ~MIsHol(c, d)
    ELSE (s >= sc.ds /\ ~MIsHol(c, d + 1)) \/ (s <= sc.de /\ ~MIsHol(c, d))
\* where today's comparisons leave the law: exactly on the two bounds of an overnight session
TodayOff(sc, s, a) == Overnight(sc) /\ ((s = sc.ds /\ a = "p") \/ (s = sc.de /\ a = "f"))

\* =============================================================================================
\* Part 4 - queries, and the calendar object with its history
\* =============================================================================================
\* A query is a record [op, d, s, a, ex, ds, de]: the instant <<d, s>>, a \in {"f", "p", ""}, ex = 1
\* when the call names its session bounds (ds, de), ex = 0 when it leaves them to the defaults, ex = 2
\* when it names day_start only, ex = 3 day_end only (the other bound is the default's).
\* Named deviation MaskNeedsBothBounds: what mask answers when only one bound is named is not pinned
\* (today's code ignores the one bound and returns the business-day mask); such masks are not asked.
\*   trade_date(t, a, ..)   is_trading(t, ..)
\*   mask([t - 1 day, t, t + 1 day], ..)  with bounds: in trading; without bounds: business days
\* Answers are sequences of integers (days as ordinals, booleans as 0/1).
DefaultSession == [ds |-> 0, de |-> 86399]
Eff(defs, q) == CASE q.ex = 1 -> [ds |-> q.ds, de |-> q.de]
                  [] q.ex = 2 -> [ds |-> q.ds, de |-> defs.de]
                  [] q.ex = 3 -> [ds |-> defs.ds, de |-> q.de]
                  [] OTHER -> defs
QInst(q) == <<q.d, q.s>>
SAnswer(c, defs, q) ==
    LET sc == Eff(defs, q)  t == QInst(q) IN
    CASE q.op = "trade_date" -> <<TradeDate(c, sc, t, q.a)>>
      [] q.op = "is_trading" -> <<B(IsTrading(c, sc, t))>>
      [] q.op = "mask" -> IF q.ex = 1 THEN [i \in 1..3 |-> B(IsTrading(c, sc, <<q.d + i - 2, q.s>>))]
                          ELSE [i \in 1..3 |-> B(IsBday(c, q.d + i - 2))]
SQDomain(c, defs, q) ==
    LET sc == Eff(defs, q) IN
    CASE q.op = "trade_date" -> q.a \in {"f", "p"} /\ SessDomain(c, sc, QInst(q))
      [] q.op = "is_trading" -> AllIn(c, {q.d - 1, q.d, q.d + 1})
      [] q.op = "mask"       -> q.ex \in {0, 1} /\ AllIn(c, {q.d - 2, q.d - 1, q.d, q.d + 1, q.d + 2})
\* what the code computes; it never looks at the table
SMech(c, defs, q, closed) ==
    LET sc == Eff(defs, q)  t == QInst(q) IN
    CASE q.op = "trade_date" -> <<MTradeDate(c, sc, t, q.a, closed)>>
      [] q.op = "is_trading" -> <<B(MIsTrading(c, sc, t))>>
      [] q.op = "mask" -> IF q.ex = 1 THEN [i \in 1..3 |-> B(MIsTrading(c, sc, <<q.d + i - 2, q.s>>))]
                          ELSE [i \in 1..3 |-> B(~MIsHol(c, q.d + i - 2))]
\* a mechanism that would take the business days from the table once it is built (not today's code:
\* it shows what the history invariants forbid)
TabIsBday(st, d) == IF st.pop THEN PosIn(st.tab, d) # 0 ELSE IsBday(st.cfg, d)

\* the object:  st = [cfg, defs, pop, tab]
\*   cfg   holidays / weekend / convention / range as the object holds them now
\*   defs  the module's default session bounds
\*   pop / tab  the lazily built business-day table (built from cfg at the first table query,
\*         never rebuilt: it goes stale when the holidays are edited in place)
NewCal(c) == [cfg |-> c, defs |-> DefaultSession, pop |-> FALSE, tab |-> <<>>]
DoSetDefaults(st, sc) == [st EXCEPT !.defs = sc]
DoEditHolidays(st, H) == [st EXCEPT !.cfg.hol = H]
DoEditWeekend(st, w)  == [st EXCEPT !.cfg.wk = w]
DoBuildTable(st)      == IF st.pop THEN st ELSE [st EXCEPT !.pop = TRUE, !.tab = BTable(st.cfg)]

\* =============================================================================================
\* Part 5 - clocks
\* =============================================================================================
\* day of the year, and the days of the year on which a month / a quarter begins (L = 1 in a leap year);
\* MC_SessionsClock checks them against Civil!DayOf / Civil!MonthOf on the days it visits
DOY(o) == o - DaysBeforeYear(YearOf(o))
LeapNo(o) == IF IsLeap(YearOf(o)) THEN 1 ELSE 0
MonthStarts(L)   == {1, 32, 60 + L, 91 + L, 121 + L, 152 + L, 182 + L, 213 + L, 244 + L, 274 + L, 305 + L, 335 + L}
QuarterStarts(L) == {1, 91 + L, 182 + L, 274 + L}
\* does day x begin a unit?  (weeks begin on weekday p)
Begins(kind, p, x) ==
    CASE kind = "d" -> TRUE
      [] kind = "w" -> Weekday(x) = p
      [] kind = "m" -> DOY(x) \in MonthStarts(LeapNo(x))
      [] kind = "q" -> DOY(x) \in QuarterStarts(LeapNo(x))
      [] kind = "y" -> DOY(x) = 1
\* units crossed from day x to day y >= x, by counting the days that begin one
Crossed(kind, p, x, y) == Cardinality({z \in (x + 1)..y : Begins(kind, p, z)})
\* closed forms (lemmas checked by MC_SessionsClock)
MonthIdx(o)   == YearOf(o) * 12 + MonthNo(o)
QuarterIdx(o) == YearOf(o) * 4 + (MonthNo(o) - 1) \div 3
\* Named deviation WeekStart: the statement does not say on which weekday a week begins; every p is
\* accepted (today's code: ordinal \div 7 ticks on Sundays, p = 6).
WeekPhases == 0..6

\* readings with a fraction are pairs <<whole units, thousandths of a second of the day>>
MsDay == 86400000
PNorm(a, b) == IF b < 0 THEN <<a - 1, b + MsDay>> ELSE IF b >= MsDay THEN <<a + 1, b - MsDay>> ELSE <<a, b>>
PDiff(x, y) == PNorm(x[1] - y[1], x[2] - y[2])                 \* x - y
PLe(x, y) == x[1] < y[1] \/ (x[1] = y[1] /\ x[2] <= y[2])
\* fraction clock: days and the fraction of the day elapsed
FracVal(t) == <<t[1], t[2] * 1000>>
\* weekday-intraday clock relative to a reference day r (only differences are pinned): on a business
\* day the count of business days plus the fraction of the day elapsed; it stands still through
\* non-business days, at the reading of the next opening midnight - the only reading between the
\* last reading of the day before and the first of the day after
KVal(c, r, t) == IF IsBday(c, t[1]) THEN <<CountB(c, r, t[1]), t[2] * 1000>> ELSE <<CountB(c, r, AdjF(c, t[1])), 0>>
\* what the code of today computes: non-business days under the calendar's own convention
KMech(c, r, t) == IF ~MIsHol(c, t[1]) THEN <<CountB(c, r, t[1]), t[2] * 1000>> ELSE <<CountB(c, r, MAdjust(c, t[1], c.adj)), 0>>
\* business-day clock: the count of business days; a non-business day reads as the business day
\* before or after it (named deviation BClockSide: which one is not pinned)
BVals(c, r, d) == IF IsBday(c, d) THEN {CountB(c, r, d)} ELSE {CountB(c, r, AdjP(c, d)), CountB(c, r, AdjF(c, d))}
=============================================================================
