\* must violate RealisationIrrelevant: a datetime.date start bumped as it is
CONSTANTS Variant = "asis"
          MaxSteps = 3
          MaxLen = 4
          Shape = "probe"
          Scope = "quick"
          Emitting = FALSE
INIT Init
NEXT Next
INVARIANT RealisationIrrelevant
