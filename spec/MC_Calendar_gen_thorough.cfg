CONSTANTS HW = 10
          Margins = {1, 3, 4}
          Anchors = {1, 2, 3}
          NMax = 8
          MCMod = 144
          GenMod = 144
          TPad = 3
INIT Init
NEXT EvalGen
