CONSTANTS HW = 10
          Margins = {21}
          Anchors = {1, 2}
          NMax = 8
          GenMod = 24
INIT Init
NEXT EvalGen
