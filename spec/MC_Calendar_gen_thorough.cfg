CONSTANTS HW = 10
          Margins = {21, 2}
          Anchors = {1, 2}
          NMax = 8
          GenMod = 32
INIT Init
NEXT EvalGen
