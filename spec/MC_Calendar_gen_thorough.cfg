CONSTANTS HW = 10
          Margins = {21}
          Anchors = {1, 2}
          NMax = 8
          GenMod = 32
          TPad = 3
INIT Init
NEXT EvalGen
