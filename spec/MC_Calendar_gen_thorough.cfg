CONSTANTS HW = 10
          Margins = {1, 3, 4}
          Anchors = {1, 2}
          NMax = 8
          MCMod = 48
          GenMod = 48
          TPad = 3
INIT Init
NEXT EvalGen
