---------------------------- MODULE MC_CfgStore ----------------------------
(* Extension X04-a on the specification, and the source of the S2C replay.                         *)
(*                                                                                               *)
(* MC  (MC_CfgStore_quick / _thorough / _two, NEXT NextMC): every interleaving of at most          *)
(*     MaxBegin writes, MaxRead reads, MaxSpawn process starts and MaxCrash deaths of the          *)
(*     processes, with NO fault class allowed: death only where the file is whole, nobody reads    *)
(*     a file while it is torn, every value can be serialised.  There the mechanism satisfies      *)
(*     the law - one INVARIANT / PROPERTY line per clause.                                         *)
(* MC  (MC_CfgStore_faults.cfg, NEXT NextFaults): ALL fault classes allowed, every read labelled   *)
(*     with the class it happens under: reads under no fault satisfy the law (RL_none).            *)
(* MC  (MC_CfgStore_f_<class>.cfg): the same with exactly ONE fault class allowed MUST violate     *)
(*     ReadLaw: these runs say which crash points / interleavings / inputs break "old or new":     *)
(*     death (or a reader) after the truncation and before anything reached the disk, death (or    *)
(*     a reader) when a proper prefix of the text is on the disk, a value that cannot be           *)
(*     serialised.  Everything else (death before the open, with the whole text on the disk but    *)
(*     the file not yet closed, after the close) is covered by the fault-free run and holds.       *)
(* GEN (MC_CfgStore_gen*.cfg, NEXT NextGen): all fault classes allowed; hist records the steps,    *)
(*     every read with the set of outcomes THE LAW admits (and what the mechanism model predicts   *)
(*     for today's code, for information).  Every expanded state prints its history; the driver    *)
(*     replays the maximal ones against real processes.                                            *)
EXTENDS CfgStore, Json, FiniteSetsExt, SequencesExt

CONSTANTS GenFlush,    \* generator only: the prefixes (in units) that may reach the disk before the close
          WarmReads,   \* generator only: may process 2 read before the write begins (a reader that lives through it)
          InitCfgs,    \* what the files may hold at the start
          WriteCfgs,   \* what may be written
          MaxBegin, MaxRead, MaxSpawn, MaxCrash

VARIABLES cnt, hist, d0, taint   \* taint (generator only): why a file is torn at the moment, "none" if none is
vars == <<disk, proc, S, maybe, view, out, cnt, hist, d0, taint>>

Init == /\ CInitWith(InitCfgs)
        /\ cnt = [begin |-> 0, read |-> 0, spawn |-> 0, crash |-> 0]
        /\ hist = <<>>
        /\ d0 = disk
        /\ taint = "none"

Bump(f) == cnt' = [cnt EXCEPT ![f] = @ + 1]
\* processes are interchangeable: number them in the order they are first started
InOrder(p) == \A q \in Procs : q < p => (proc[q].alive \/ cnt.spawn >= q)

ASpawn(p)    == cnt.spawn < MaxSpawn /\ InOrder(p) /\ Spawn(p) /\ Bump("spawn")
ACrash(p)    == cnt.crash < MaxCrash /\ Crash(p) /\ Bump("crash")
ARead(p)     == cnt.read < MaxRead /\ Read(p) /\ Bump("read")
ABegin(p, c) == cnt.begin < MaxBegin /\ WBegin(p, c) /\ Bump("begin")
AOpen(p)     == WOpen(p) /\ cnt' = cnt
AFlush(p, k) == WFlush(p, k) /\ cnt' = cnt
AClose(p)    == WClose(p) /\ cnt' = cnt
AFail(p)     == WFail(p) /\ cnt' = cnt

Quiet == UNCHANGED <<hist, d0, taint>>
MCSpawn == \E p \in Procs : ASpawn(p) /\ Quiet
MCCrash == \E p \in Procs : ACrash(p) /\ Quiet
MCRead  == \E p \in Procs : ARead(p) /\ Quiet
MCBegin == \E p \in Procs, c \in WriteCfgs : ABegin(p, c) /\ Quiet
MCOpen  == \E p \in Procs : AOpen(p) /\ Quiet
MCFlush == \E p \in Procs, k \in 1..(Len(KeyOrd) + 2) : AFlush(p, k) /\ Quiet
MCClose == \E p \in Procs : AClose(p) /\ Quiet
MCFail  == \E p \in Procs : AFail(p) /\ Quiet
NextMC    == MCSpawn \/ MCCrash \/ MCRead \/ MCBegin \/ MCOpen \/ MCFlush \/ MCClose
NextMCBad == NextMC \/ MCFail

\* ---- generator ------------------------------------------------------------------------------------
Ev(e) == hist' = Append(hist, e) /\ d0' = d0
Same  == taint' = taint
CrashName(k)   == IF k = "truncated" THEN "crash_truncated" ELSE IF k = "partial" THEN "crash_partial" ELSE "none"
BetweenName(k) == IF k = "truncated" THEN "between_truncated" ELSE IF k = "partial" THEN "between_partial" ELSE "none"
\* the fault class under which a read happens: a live writer in the middle of its write, or what tore the file earlier
LiveTorn == {TornKind(q) : q \in {q \in Procs : proc[q].alive}} \ {"none"}
FaultNow == IF LiveTorn # {} THEN BetweenName(CHOOSE k \in LiveTorn : TRUE) ELSE taint

\* a completed write repairs the file it went to; another file may still be torn by what happened before
StillTorn == IF \E i \in 1..NPaths : disk'[i] # Absent /\ ~Parses(disk'[i]) THEN taint ELSE "none"
ReaderKind(p) == IF proc[p].cached THEN (IF cnt.begin > 0 /\ p = 1 THEN "writer" ELSE "warm") ELSE "fresh"
ReadEv(p) == [op |-> "read", p |-> p, adm |-> SetToSeq(out'.adm), fault |-> FaultNow, reader |-> ReaderKind(p),
              mech |-> [ok |-> IF out'.ok THEN 1 ELSE 0, cfg |-> out'.cfg]]
\* ---- all fault classes at once, each read labelled with the class it happens under ----------------------
\* (MC_CfgStore_faults.cfg, NEXT NextFaults, INVARIANT RL_none: with every fault class allowed, a read that
\*  happens under NO fault - before anything went wrong, or after a later complete write repaired the file -
\*  satisfies the law; RL_<class> are the per-class statements, each of them false: see MC_CfgStore_f_<class>.cfg)
FSpawn == \E p \in Procs : ASpawn(p) /\ Same /\ UNCHANGED <<hist, d0>>
FCrash == \E p \in Procs : ACrash(p) /\ UNCHANGED <<hist, d0>>
                            /\ taint' = IF TornKind(p) = "none" THEN taint ELSE CrashName(TornKind(p))
FRead  == \E p \in Procs : ARead(p) /\ Same /\ UNCHANGED <<hist, d0>>
FBegin == \E p \in Procs, c \in WriteCfgs : ABegin(p, c) /\ Same /\ UNCHANGED <<hist, d0>>
FOpen  == \E p \in Procs : AOpen(p) /\ Same /\ UNCHANGED <<hist, d0>>
FFlush == \E p \in Procs, k \in 1..(Len(KeyOrd) + 2) : AFlush(p, k) /\ Same /\ UNCHANGED <<hist, d0>>
FClose == \E p \in Procs : AClose(p) /\ taint' = StillTorn /\ UNCHANGED <<hist, d0>>
FFail  == \E p \in Procs : AFail(p) /\ taint' = "bad_value" /\ UNCHANGED <<hist, d0>>
NextFaults == FSpawn \/ FCrash \/ FRead \/ FBegin \/ FOpen \/ FFlush \/ FClose \/ FFail
\* a read changes neither the disk nor who is in the middle of a write: FaultNow after it = before it
RL(f) == (out.kind = "read" /\ FaultNow = f) => (out.ok /\ out.cfg \in out.adm)
RL_none              == RL("none")
RL_crash_truncated   == RL("crash_truncated")
RL_crash_partial     == RL("crash_partial")
RL_between_truncated == RL("between_truncated")
RL_between_partial   == RL("between_partial")
RL_bad_value         == RL("bad_value")

\* the generator does not explore every interleaving (the model checker does): one writer (process 1),
\* the text reaches the disk in at most one piece before the close, a process does not read twice in
\* a row, and before the write begins only process 2 reads (a reader that lives through the write)
LastIsReadBy(p) == hist # <<>> /\ hist[Len(hist)].op = "read" /\ hist[Len(hist)].p = p
Begun == cnt.begin > 0
GSpawn == \E p \in Procs : ASpawn(p) /\ Ev([op |-> "spawn", p |-> p]) /\ Same
GCrash == \E p \in Procs : /\ ACrash(p) /\ Begun /\ Ev([op |-> "crash", p |-> p, torn |-> TornKind(p)])
                            /\ taint' = IF TornKind(p) = "none" THEN taint ELSE CrashName(TornKind(p))
GRead  == \E p \in Procs : ARead(p) /\ ~LastIsReadBy(p) /\ (Begun \/ (p # 1 /\ WarmReads)) /\ Ev(ReadEv(p)) /\ Same
GBegin == \E c \in WriteCfgs : ABegin(1, c) /\ Ev([op |-> "begin", p |-> 1, cfg |-> c]) /\ Same
GOpen  == \E p \in Procs : AOpen(p) /\ Ev([op |-> "open", p |-> p, path |-> proc[p].path]) /\ Same
GFlush == \E p \in Procs, k \in GenFlush : proc[p].flushed = 0 /\ AFlush(p, k) /\ Ev([op |-> "flush", p |-> p, k |-> k]) /\ Same
GClose == \E p \in Procs : AClose(p) /\ Ev([op |-> "close", p |-> p]) /\ taint' = StillTorn
GFail  == \E p \in Procs : AFail(p) /\ Ev([op |-> "fail", p |-> p, more |-> IF TargetAfter(proc[p].path) = 0 THEN 0 ELSE 1]) /\ taint' = "bad_value"
\* the print comes first: once per expanded state
NextGen == /\ PrintT(ToJson([init |-> d0, hist |-> hist, disk |-> disk]))
           /\ (GSpawn \/ GCrash \/ GRead \/ GBegin \/ GOpen \/ GFlush \/ GClose \/ GFail)

\* ---- universes for the configuration files ------------------------------------------------------------
KeyAB    == <<"a", "b">>
KeyABC   == <<"a", "b", "c">>
AllCfgs  == Cfgs
AllWrite == WCfgs
\* nothing / one key / both keys - and a second value, so that "old" and "new" differ in every way
FewCfgs  == {Empty, << <<KeyOrd[1], 1>> >>, << <<KeyOrd[1], 2>>, <<KeyOrd[2], 1>> >>}
FewWrite == {<< <<KeyOrd[1], 1>>, <<KeyOrd[2], 2>> >>, << <<KeyOrd[2], 2>> >>, Empty}
BadWrite == FewWrite \cup {<< <<KeyOrd[1], 1>>, <<KeyOrd[2], Bad>> >>, << <<KeyOrd[1], Bad>> >>}

GenInit  == {<< <<KeyOrd[1], 2>>, <<KeyOrd[2], 1>> >>}
GenWrite == {<< <<KeyOrd[1], 1>>, <<KeyOrd[2], 2>> >>, << <<KeyOrd[2], 2>> >>, Empty, << <<KeyOrd[1], 1>>, <<KeyOrd[2], Bad>> >>}
TwoInit  == {<< <<KeyOrd[1], 1>> >>, << <<KeyOrd[1], 2>>, <<KeyOrd[2], 2>> >>}
OneInit  == {<< <<KeyOrd[1], 2>>, <<KeyOrd[2], 2>> >>}
TwoWrite == {<< <<KeyOrd[1], 1>>, <<KeyOrd[2], 1>> >>, << <<KeyOrd[2], 2>> >>}
TwoBadWrite == TwoWrite \cup {<< <<KeyOrd[1], 1>>, <<KeyOrd[2], Bad>> >>}

\* a generated history is a history of the specification
GenIsSpec == [][CNextWith(WriteCfgs)]_cvars
=============================================================================
