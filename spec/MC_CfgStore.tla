---------------------------- MODULE MC_CfgStore ----------------------------
(* Extension X04-a on the specification, and the source of the S2C replay.                         *)
(*                                                                                               *)
(* MC  (MC_CfgStore_quick / _thorough / _two, NEXT NextMC): every interleaving of at most          *)
(*     MaxBegin writes, MaxRead reads, MaxSpawn process starts and MaxCrash deaths of the          *)
(*     processes, with NO fault class allowed: death only where the file is whole, nobody reads    *)
(*     a file while it is torn, every value can be serialised.  There the mechanism satisfies      *)
(*     the law - one INVARIANT / PROPERTY line per clause.                                         *)
(* MC  (MC_CfgStore_f_<class>.cfg): the same with exactly ONE fault class allowed MUST violate     *)
(*     ReadLaw: these runs say which crash points / interleavings / inputs break "old or new":     *)
(*     death (or a reader) after the truncation and before anything reached the disk, death (or    *)
(*     a reader) when a proper prefix of the text is on the disk, a value that cannot be           *)
(*     serialised.  Everything else (death before the open, with the whole text on the disk but    *)
(*     the file not yet closed, after the close) is covered by the fault-free run and holds.       *)
(* GEN (MC_CfgStore_gen*.cfg, NEXT NextGen): all fault classes allowed; hist records the steps,    *)
(*     every read with the set of outcomes THE LAW admits (and what the mechanism model predicts   *)
(*     for today's code, for information).  Every expanded state prints its history; the driver    *)
(*     replays the maximal ones against real processes.                                            *)
EXTENDS CfgStore, Json, FiniteSetsExt, SequencesExt

CONSTANTS InitCfgs,    \* what the files may hold at the start
          WriteCfgs,   \* what may be written
          MaxBegin, MaxRead, MaxSpawn, MaxCrash

VARIABLES cnt, hist, d0
vars == <<disk, proc, S, maybe, view, out, cnt, hist, d0>>

Init == /\ CInitWith(InitCfgs)
        /\ cnt = [begin |-> 0, read |-> 0, spawn |-> 0, crash |-> 0]
        /\ hist = <<>>
        /\ d0 = disk

Bump(f) == cnt' = [cnt EXCEPT ![f] = @ + 1]
\* processes are interchangeable: number them in the order they are first started
InOrder(p) == \A q \in Procs : q < p => (proc[q].alive \/ cnt.spawn >= q)

ASpawn(p)    == cnt.spawn < MaxSpawn /\ InOrder(p) /\ Spawn(p) /\ Bump("spawn")
ACrash(p)    == cnt.crash < MaxCrash /\ Crash(p) /\ Bump("crash")
ARead(p)     == cnt.read < MaxRead /\ Read(p) /\ Bump("read")
ABegin(p, c) == cnt.begin < MaxBegin /\ WBegin(p, c) /\ Bump("begin")
AOpen(p)     == WOpen(p) /\ cnt' = cnt
AFlush(p, k) == WFlush(p, k) /\ cnt' = cnt
AClose(p)    == WClose(p) /\ cnt' = cnt
AFail(p)     == WFail(p) /\ cnt' = cnt

Quiet == UNCHANGED <<hist, d0>>
MCSpawn == \E p \in Procs : ASpawn(p) /\ Quiet
MCCrash == \E p \in Procs : ACrash(p) /\ Quiet
MCRead  == \E p \in Procs : ARead(p) /\ Quiet
MCBegin == \E p \in Procs, c \in WriteCfgs : ABegin(p, c) /\ Quiet
MCOpen  == \E p \in Procs : AOpen(p) /\ Quiet
MCFlush == \E p \in Procs, k \in 1..(Len(KeyOrd) + 2) : AFlush(p, k) /\ Quiet
MCClose == \E p \in Procs : AClose(p) /\ Quiet
MCFail  == \E p \in Procs : AFail(p) /\ Quiet
NextMC    == MCSpawn \/ MCCrash \/ MCRead \/ MCBegin \/ MCOpen \/ MCFlush \/ MCClose
NextMCBad == NextMC \/ MCFail

\* ---- generator ------------------------------------------------------------------------------------
Ev(e) == hist' = Append(hist, e) /\ d0' = d0
ReadEv(p) == [op |-> "read", p |-> p, adm |-> SetToSeq(out'.adm),
              mech |-> [ok |-> IF out'.ok THEN 1 ELSE 0, cfg |-> out'.cfg]]
\* the generator does not explore every interleaving (the model checker does): one writer (process 1),
\* the text reaches the disk in at most one piece before the close, a process does not read twice in
\* a row, and before the write begins only process 2 reads (a reader that lives through the write)
LastIsReadBy(p) == hist # <<>> /\ hist[Len(hist)].op = "read" /\ hist[Len(hist)].p = p
Begun == cnt.begin > 0
GSpawn == \E p \in Procs : ASpawn(p) /\ Ev([op |-> "spawn", p |-> p])
GCrash == \E p \in Procs : ACrash(p) /\ Begun /\ Ev([op |-> "crash", p |-> p, torn |-> TornKind(p)])
GRead  == \E p \in Procs : ARead(p) /\ ~LastIsReadBy(p) /\ (Begun \/ p # 1) /\ Ev(ReadEv(p))
GBegin == \E c \in WriteCfgs : ABegin(1, c) /\ Ev([op |-> "begin", p |-> 1, cfg |-> c])
GOpen  == \E p \in Procs : AOpen(p) /\ Ev([op |-> "open", p |-> p, path |-> proc[p].path])
GFlush == \E p \in Procs, k \in 1..(Len(KeyOrd) + 2) : proc[p].flushed = 0 /\ AFlush(p, k) /\ Ev([op |-> "flush", p |-> p, k |-> k])
GClose == \E p \in Procs : AClose(p) /\ Ev([op |-> "close", p |-> p])
GFail  == \E p \in Procs : AFail(p) /\ Ev([op |-> "fail", p |-> p])
\* the print comes first: once per expanded state
NextGen == /\ PrintT(ToJson([init |-> d0, hist |-> hist, disk |-> disk]))
           /\ (GSpawn \/ GCrash \/ GRead \/ GBegin \/ GOpen \/ GFlush \/ GClose \/ GFail)

\* ---- universes for the configuration files ------------------------------------------------------------
KeyAB    == <<"a", "b">>
KeyABC   == <<"a", "b", "c">>
AllCfgs  == Cfgs
AllWrite == WCfgs
\* nothing / one key / both keys - and a second value, so that "old" and "new" differ in every way
FewCfgs  == {Empty, << <<KeyOrd[1], 1>> >>, << <<KeyOrd[1], 2>>, <<KeyOrd[2], 1>> >>}
FewWrite == {<< <<KeyOrd[1], 1>>, <<KeyOrd[2], 2>> >>, << <<KeyOrd[2], 2>> >>, Empty}
BadWrite == FewWrite \cup {<< <<KeyOrd[1], 1>>, <<KeyOrd[2], Bad>> >>, << <<KeyOrd[1], Bad>> >>}

\* a generated history is a history of the specification
GenIsSpec == [][CNextWith(WriteCfgs)]_cvars
=============================================================================
