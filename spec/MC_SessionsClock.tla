-------------------------- MODULE MC_SessionsClock --------------------------
(* Extension X01, the clocks: one behaviour  (H, d0) --Eval--> done  per holiday set H of the    *)
(* default calendar (Saturday-Sunday weekend, modified following) and first day d0 of a run.     *)
(* A run is the ascending sequence of instants  <<d0 + k, s>>,  k \in Offsets, s \in RunSecs.    *)
(* Start days sit before a year end, a leap day, a quarter end, a month end that falls on a      *)
(* weekend (Sunday 2000-04-30) and one that is a Monday (2000-01-31, a holiday in some H).       *)
(* Invariants: counting unit beginnings (the law) has the closed forms, is additive and          *)
(* monotone; the weekday-intraday reading never decreases, advances by one from a business day   *)
(* to the next at the same time of day and stands still through non-business days; the           *)
(* business-day reading is monotone whichever side a non-business day takes.  Today's code for   *)
(* the weekday-intraday clock (non-business days adjusted by the calendar's modified-following   *)
(* convention) must violate monotonicity (MC_SessionsClock_today.cfg) exactly where KTodayOff    *)
(* says.                                                                                         *)
EXTENDS Sessions, TLC, Json, FiniteSetsExt, IOUtils
CONSTANTS NStart, Spread, Offsets, RunSecs, NHolDays

VARIABLES H, d0, done
vars == <<H, d0, done>>

StartMenu == <<Ord(2000, 4, 26), Ord(2000, 1, 26), Ord(1999, 12, 29), Ord(2000, 2, 26), Ord(2000, 3, 29), Ord(2004, 12, 27)>>
\* candidate holidays: Fri 28 Apr 2000, Mon 1 May 2000, Mon 31 Jan 2000 (a month end), Fri 31 Dec 1999
HolDays == <<Ord(2000, 4, 28), Ord(2000, 1, 31), Ord(2000, 5, 1), Ord(1999, 12, 31)>>
Lo == Ord(1999, 1, 1)
Hi == Ord(2007, 1, 1)
Cal(h) == [hol |-> h, wk |-> {5, 6}, adj |-> "m", lo |-> Lo, hi |-> Hi]
c == Cal(H)

Init == /\ H \in SUBSET {HolDays[i] : i \in 1..NHolDays}
        /\ \E i \in 1..NStart : d0 \in StartMenu[i]..(StartMenu[i] + Spread)
        /\ done = FALSE
Eval == done = FALSE /\ done' = TRUE /\ UNCHANGED <<H, d0>>

Offs == SetToSortSeq(Offsets, <)
Secs == SetToSortSeq(RunSecs, <)
NS == Len(Secs)
Pts == [i \in 1..(Len(Offs) * NS) |-> <<d0 + Offs[((i - 1) \div NS) + 1], Secs[((i - 1) % NS) + 1]>>]
Days == {d0 + k : k \in Offsets}
Kinds == {"d", "w", "m", "q", "y"}
R == d0 - 10                                  \* reference day of the business-day counts

\* ---- the law level ------------------------------------------------------------------------------
ClosedForms == ~done \/ \A x \in Days :
    /\ Crossed("d", 0, d0, x) = x - d0
    /\ Crossed("m", 0, d0, x) = MonthIdx(x) - MonthIdx(d0)
    /\ Crossed("q", 0, d0, x) = QuarterIdx(x) - QuarterIdx(d0)
    /\ Crossed("y", 0, d0, x) = YearOf(x) - YearOf(d0)
    /\ \A p \in WeekPhases : Crossed("w", p, d0, x) = (x + 6 - p) \div 7 - (d0 + 6 - p) \div 7
    /\ MonthNo(x) = MonthOf(x)
    /\ \A z \in {x, x + 1} : /\ Begins("m", 0, z) <=> DayOf(z) = 1
                             /\ Begins("q", 0, z) <=> (DayOf(z) = 1 /\ MonthOf(z) \in {1, 4, 7, 10})
                             /\ Begins("y", 0, z) <=> (DayOf(z) = 1 /\ MonthOf(z) = 1)
Additive == ~done \/ \A k \in Kinds :
    LET F == [x \in Days |-> Crossed(k, 6, d0, x)] IN
    \A x \in Days \cap {d0 + 1, d0 + 7}, y \in Days : x <= y => F[y] = F[x] + Crossed(k, 6, x, y) /\ F[x] <= F[y]
\* exactly one beginning of a week in any seven consecutive days, of a month in the days of a month...
OnePerUnit == ~done \/ \A x \in {d0, d0 + 5} :
    /\ \A p \in WeekPhases : Crossed("w", p, x, x + 7) = 1
    /\ Crossed("m", 0, x, x + 27) <= 1 /\ Crossed("m", 0, x, x + 31) >= 1
    /\ Crossed("q", 0, x, x + 88) <= 1 /\ Crossed("q", 0, x, x + 92) >= 1
    /\ Crossed("y", 0, x, x + 364) <= 1 /\ Crossed("y", 0, x, x + 366) >= 1
KDays == d0..(d0 + 9)
KSecs == {0, 21600, 86399}
KLaw == ~done \/ \A x \in KDays, s \in KSecs :
    LET v == KVal(c, R, <<x, s>>) IN
    /\ \A u \in KSecs : s <= u => PLe(v, KVal(c, R, <<x, u>>))                      \* within the day
    /\ PLe(KVal(c, R, <<x, 86399>>), KVal(c, R, <<x + 1, 0>>))                       \* across midnight
    /\ IsBday(c, x) => /\ \A u \in KSecs : s <= u => PDiff(KVal(c, R, <<x, u>>), v) = <<0, (u - s) * 1000>>
                       /\ PDiff(KVal(c, R, <<AdjF(c, x + 1), s>>), v) = <<1, 0>>     \* one per business day
    /\ ~IsBday(c, x) => v = KVal(c, R, <<x, 0>>) /\ (~IsBday(c, x + 1) => v = KVal(c, R, <<x + 1, s>>))
\* (a non-business day may read as either neighbour, so two readings in one non-business stretch are only
\*  bounded; the run as a whole must still never decrease - a relational clause of the trace specification)
BLaw == ~done \/ \A x \in KDays : \A v \in BVals(c, R, x), w \in BVals(c, R, x + 1) :
    /\ w - v \in {-1, 0, 1}
    /\ (IsBday(c, x) \/ IsBday(c, x + 1)) => v <= w
    /\ (IsBday(c, x) /\ IsBday(c, x + 1)) => w = v + 1
\* ---- today's weekday-intraday clock ---------------------------------------------------------------
KMechMonotone == ~done \/ \A x \in KDays, s \in KSecs :
    /\ \A u \in KSecs : s <= u => PLe(KMech(c, R, <<x, s>>), KMech(c, R, <<x, u>>))
    /\ PLe(KMech(c, R, <<x, 86399>>), KMech(c, R, <<x + 1, 0>>))
\* it leaves the law exactly on the non-business days whose next business day lies in another month
KTodayOff(x) == ~IsBday(c, x) /\ ~SameMonth(AdjF(c, x), x)
KTodayOffExactly == ~done \/ \A x \in KDays, s \in KSecs : (KMech(c, R, <<x, s>>) # KVal(c, R, <<x, s>>)) <=> KTodayOff(x)

\* ---- S2C generator: the run with the differences from its first reading that the law expects ----
FirstIsBday == IsBday(c, d0)
DaySeq == [i \in DOMAIN Pts |-> Pts[i][1]]
PerDay(F) == [i \in DOMAIN Pts |-> F[DaySeq[i]]]
Emit == LET cd == [x \in Days |-> Crossed("d", 0, d0, x)]
            cm == [x \in Days |-> Crossed("m", 0, d0, x)]
            cq == [x \in Days |-> Crossed("q", 0, d0, x)]
            cy == [x \in Days |-> Crossed("y", 0, d0, x)]
            cw == [p \in 1..7 |-> [x \in Days |-> Crossed("w", p - 1, d0, x)]]
            cb == [x \in Days |-> SetToSortSeq({v - CountB(c, R, d0) : v \in BVals(c, R, x)}, <)]
            off == [x \in Days |-> B(KTodayOff(x))]
        IN [hol |-> SetToSortSeq(H, <), lo |-> Lo, hi |-> Hi, pts |-> Pts, first |-> B(FirstIsBday),
            f |-> [i \in DOMAIN Pts |-> PDiff(FracVal(Pts[i]), FracVal(Pts[1]))],
            d |-> PerDay(cd), m |-> PerDay(cm), q |-> PerDay(cq), y |-> PerDay(cy),
            w |-> [p \in 1..7 |-> PerDay(cw[p])],
            k |-> IF FirstIsBday THEN [i \in DOMAIN Pts |-> PDiff(KVal(c, R, Pts[i]), KVal(c, R, Pts[1]))] ELSE <<>>,
            koff |-> PerDay(off),
            b |-> IF FirstIsBday THEN PerDay(cb) ELSE <<>>]
EvalGen == Eval /\ PrintT(ToJson(Emit))
=============================================================================
