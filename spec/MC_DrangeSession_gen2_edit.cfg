\* S2C generator (thorough): scripts of family edit
CONSTANTS Variant = "code"
          MaxCalls = 2
          Scope = "thorough"
          Family = "edit"
INIT InitScript
NEXT NextScript
