CONSTANTS SessYears = {2000}
          DayMod = 6
          MaxLen = 2
          Rot = 1
INIT Init
NEXT Next
