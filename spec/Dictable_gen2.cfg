CONSTANTS MaxDepth = 2
          MaxRowsC = 6
INIT Init
NEXT Next
CONSTRAINT GenBound
