CONSTANTS Fam = "keys"
          NameIds = {0, 1, 2, 3, 4, 5, 6, 7}
          Rows = 3
          Rich = TRUE
INIT Init
NEXT NextGen
INVARIANT ListbyLaw
INVARIANT UnlistLaw
INVARIANT GroupbyLaw
INVARIANT UngroupLaw
INVARIANT PivotLaw
INVARIANT UnpivotLaw
