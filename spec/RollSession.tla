----------------------------- MODULE RollSession -----------------------------
(* Extension X03-c: the protocol around df_roll_off.  The function keeps no state of its own;    *)
(* the state between two loads is what the CALLER keeps and hands back: the rolled data and the  *)
(* chain with the roll dates filled in.  The state machine below is that caller in a world of    *)
(* contracts that trade one after the other:                                                    *)
(*                                                                                              *)
(*   world w : [lives |-> <<<<first day, last day>>, ..>>, rolls0 |-> roll dates the caller wrote *)
(*             into his chain himself (0 = none)]; contract i has one row per day of its life     *)
(*             (value 1000 i + day); at clock t the loader returns the rows up to t              *)
(*   now     : the clock                                                                        *)
(*   data    : the rolled frame the caller has on file (NoFrame: nothing yet)                     *)
(*   rolls   : the roll column of the chain he has on file                                       *)
(*   Load(d, keep) : d days later he calls df_roll_off(chain, loader, data = data, n = n), with   *)
(*             the chain on file (keep) or with his original chain (not keep), and files the      *)
(*             returned data and chain                                                          *)
(*   Trunc   : he drops the tail or the head of the data on file (d.data[:t], d.data.iloc[-k:])   *)
(*                                                                                              *)
(* Property: whatever the history of (at least daily) loads and truncations, what is on file      *)
(* after a load is what one load from scratch at that moment returns (from the first row on file  *)
(* on); roll dates on file never change and are the true last days; contracts rolled off before   *)
(* the kept data are not loaded again.                                                           *)
EXTENDS Roll
CONSTANTS Worlds, Starts, Horizon, MaxStep, CutLag, ExpLag, Ns, EmptyAsNone, LiveRule, MaxTrunc, TruncBack

VARIABLES w, n, now, data, rolls, call, out, keep, daily, truncs
vars == <<w, n, now, data, rolls, call, out, keep, daily, truncs>>

Life(i) == w.lives[i]
Days(i, t) == LET s == Life(i)[1]  e == MinI(Life(i)[2], t) IN IF e < s THEN <<>> ELSE [k \in 1..(e - s + 1) |-> s + k - 1]
LoaderAt(t) == [i \in 1..Len(w.lives) |->
                  LET ds == Days(i, t) IN
                  [rows |-> ds, cols |-> <<[k \in 1..Len(ds) |-> 1000 * i + ds[k]]>>,
                   none |-> IF ds = <<>> /\ EmptyAsNone THEN 1 ELSE 0]]
CallOf(t, d, rr) == [L |-> LoaderAt(t), rolls |-> rr, now |-> t, expiry |-> t - ExpLag, cutoff |-> t - CutLag,
                     n |-> n, data |-> d, tr |-> 0, mark |-> 0, ifno |-> "no", live |-> LiveRule]
NoCall == [n |-> -1]
Fresh(t) == Apply(CallOf(t, NoFrame, w.rolls0))

Init == /\ w \in Worlds /\ n \in Ns /\ now \in Starts
        /\ data = NoFrame /\ rolls = w.rolls0 /\ call = NoCall /\ out = NoCall /\ keep = TRUE /\ daily = TRUE /\ truncs = 0

Load(d, kp) == /\ now + d <= Horizon
               /\ LET c == CallOf(now + d, data, IF kp THEN rolls ELSE w.rolls0)
                      r == Apply(c) IN
                  /\ Domain(c)
                  /\ now' = now + d /\ call' = c /\ out' = r /\ keep' = kp
                  /\ data' = r.data /\ rolls' = r.rolls
                  /\ daily' = (IF IsNoFrame(data) THEN TRUE ELSE daily /\ d <= 1)
               /\ UNCHANGED <<w, n, truncs>>
TruncAt(t, head) == /\ ~IsNoFrame(data) /\ truncs < MaxTrunc /\ truncs' = truncs + 1
                    /\ \E r \in 1..NRows(data) : data.rows[r] = t
                    /\ LET d2 == IF head THEN RowsUpTo(data, t) ELSE RowsFrom(data, t) IN
                       d2 # data /\ data' = d2
                    /\ call' = NoCall /\ out' = NoCall
                    /\ UNCHANGED <<w, n, now, rolls, keep, daily>>
\* (he cuts a few days back from the clock: the last days, or all but the last days)
TruncDays == {now - b : b \in TruncBack}
Next == (\E d \in 0..MaxStep, kp \in BOOLEAN : Load(d, kp)) \/ (\E t \in TruncDays, h \in BOOLEAN : TruncAt(t, h))

JustLoaded == call # NoCall
\* ---- the properties ----------------------------------------------------------------------------
FileOK == (IsNoFrame(data) \/ WellFormed(data)) /\ Len(rolls) = Len(w.lives)
\* what is on file after a load = one load from scratch now, from the first row on file on - as long as the caller
\* loads at least every day (`daily`): rows after a load's cutoff are provisional (a contract counted as live may end
\* before `now`), and a later load re-rolls only the rows after ITS cutoff
\* - and in a world where the contracts stop trading in the order of the chain (Orderly): skipping a rolled-off contract
\* that sits AFTER the front contract would change which contract is "the next one" in the columns of a curve.
Orderly == \A i \in 1..Len(w.lives), j \in 1..Len(w.lives) :
              (i < j /\ Life(i)[2] >= Life(i)[1] /\ Life(j)[2] >= Life(j)[1]) => Life(i)[2] <= Life(j)[2]
SavedIsFresh == (JustLoaded /\ daily /\ Orderly) =>
    LET F == Fresh(now).data IN
    IF IsNoFrame(data) \/ NRows(data) = 0 THEN IsNoFrame(F) \/ NRows(F) = 0
    ELSE data = RowsFrom(F, FirstT(data))
\* ... and the chain on file is the chain a load from scratch returns, wherever the law pins it
ChainIsFresh == (JustLoaded /\ daily /\ Orderly) => LET f == Fresh(now) IN \A i \in out.pinned \cap f.pinned : rolls[i] = f.rolls[i]
\* a roll date on file that the caller did not write himself is the true last day of the contract
RollsTrue == \A i \in 1..Len(rolls) : (rolls[i] # 0 /\ w.rolls0[i] = 0 /\ Life(i)[2] >= Life(i)[1]) => rolls[i] = Life(i)[2]
\* roll dates on file never change
RollsStable == [][\A i \in 1..Len(rolls) : rolls[i] # 0 => rolls'[i] = rolls[i]]_vars
\* a contract whose roll date on file lies before the kept data is not loaded again
OldNeverLoaded == [][(call' # NoCall /\ keep' /\ ~IsNoFrame(data) /\ NRows(data) > 0 /\ (n > 1 => NCols(data) >= n)) =>
                        \A p \in 1..Len(out'.loaded) : LET i == out'.loaded[p] IN
                            ~(rolls[i] # 0 /\ rolls[i] < MinI(LastT(data), now' - CutLag))]_vars
\* loading stops at the n-th live contract: nothing after it is touched
LoadsPrefix == JustLoaded => \A p \in 1..Len(out.loaded) :
                    Cardinality({q \in 1..(p - 1) : Live(call, out.loaded[q])}) < NEff(call)
\* the mechanism of today's code computes the law
MechanismIsLaw == JustLoaded => /\ MechLoaded(call) = LoadedSeq(call)
                                /\ MechRolls(call) = [p \in 1..Len(KeptSeq(call)) |-> RollOut(call, KeptSeq(call)[p])]
\* the stitched curve is the function  date -> contract  (front contract = first one not rolled off)
FrontIsStitch == JustLoaded =>
    LET N == New(call)  con == Contrib(call)  ubs == RawUBs(call) IN
    /\ \A r \in 1..NRows(N), j \in 1..NCols(N) : N.cols[j][r] = CellAtU(call, con, ubs, N.rows[r], j)
    /\ RangeOf(N.rows) = {t \in 1..Horizon : \E j \in 1..NEff(call) : CellAtU(call, con, ubs, t, j) # NaN}
    /\ \A r \in 1..NRows(N) : FrontPosU(ubs, N.rows[r]) # 0
=============================================================================
