CONSTANTS MaxLen = 3
          Mode = "tables"
INIT Init
NEXT NextGen
