CONSTANTS MaxLen = 3
          Gen = FALSE
          WithDicts = TRUE
INIT Init
NEXT Next
INVARIANT EqIsEquivalence
INVARIANT KeyComplete
INVARIANT MenuNotTrivial
INVARIANT MemoDistinct
