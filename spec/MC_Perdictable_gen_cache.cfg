CONSTANT Sizes <- SZ_gen_cache
INIT Init
NEXT Gen
