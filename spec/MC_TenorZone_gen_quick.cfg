CONSTANTS ZYears = {2021}
          GenZYears = {2024}
INIT GenInit
NEXT GenNext
