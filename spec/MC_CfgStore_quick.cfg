CONSTANTS KeyOrd <- KeyAB
          Vals = {1, 2}
          Bad = 0
          Procs = {1, 2}
          NPaths = 1
          Blocked = {}
          Allow = {}
          GenFlush = {1, 2, 3, 4}
          WarmReads = TRUE
          InitCfgs <- GenInit
          WriteCfgs <- TwoWrite
          MaxBegin = 2
          MaxRead = 2
          MaxSpawn = 2
          MaxCrash = 1
INIT Init
NEXT NextMC
INVARIANT TypeOK
INVARIANT ReadLaw
INVARIANT AtRestDetermined
INVARIANT ReadBackExact
INVARIANT DiskIsLaw
INVARIANT CacheIsView
PROPERTY OwnWrite
PROPERTY DeathKeepsStore
