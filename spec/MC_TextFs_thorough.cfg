CONSTANTS MaxLen = 7
          Gen = FALSE
INIT Init
NEXT Next
PROPERTY OnlyGrows
INVARIANT WellFormed
INVARIANT MkdirIdempotent
INVARIANT DictShape
