------------------------------- MODULE TextCsv -------------------------------
(* Extension X08-c, third part: a table written as csv TEXT and read back (read_csv of _file.py, dictable(path) of           *)
(* _dictable.py).  A table = [cols |-> <<name, ..>> (distinct), rows |-> <<<<cell, ..>>, ..>>], every row as long as cols;    *)
(* names and cells are strings = sequences of code points.  CsvText is the text a csv writer produces (RFC 4180: cells with    *)
(* a comma, a quote or a line break are quoted, quotes doubled, lines end in CR LF; an empty cell that is alone on its line    *)
(* is quoted too, or the line would be blank).  Law: reading that text gives back exactly the lines (read_csv: no conversion), *)
(* and the table under its column names (dictable).                                                                           *)
EXTENDS Naturals, Sequences

CsvNeedsQuote(cell, alone) == (\E i \in DOMAIN cell : cell[i] \in {44, 34, 10, 13}) \/ (cell = <<>> /\ alone)
RECURSIVE CsvDouble(_)
CsvDouble(s) == IF s = <<>> THEN <<>> ELSE (IF s[1] = 34 THEN <<34, 34>> ELSE <<s[1]>>) \o CsvDouble(Tail(s))
CsvCell(cell, alone) == IF CsvNeedsQuote(cell, alone) THEN <<34>> \o CsvDouble(cell) \o <<34>> ELSE cell
RECURSIVE CsvLineFrom(_, _)
CsvLineFrom(row, alone) == IF row = <<>> THEN <<>> ELSE CsvCell(row[1], alone) \o (IF Len(row) > 1 THEN <<44>> \o CsvLineFrom(Tail(row), FALSE) ELSE <<>>)
CsvLine(row) == CsvLineFrom(row, Len(row) = 1) \o <<13, 10>>
RECURSIVE CsvLines(_)
CsvLines(rows) == IF rows = <<>> THEN <<>> ELSE CsvLine(rows[1]) \o CsvLines(Tail(rows))
CsvAllRows(t) == <<t.cols>> \o t.rows
CsvText(t) == CsvLines(CsvAllRows(t))

\* what dictable shows: the column names (as a set) and, per column, the cells from top to bottom
CsvColumn(t, k) == [r \in DOMAIN t.rows |-> t.rows[r][k]]
CsvSameTable(t, cols, data) == /\ {cols[i] : i \in DOMAIN cols} = {t.cols[i] : i \in DOMAIN t.cols} /\ Len(cols) = Len(t.cols)
                               /\ \A k \in DOMAIN t.cols : \E j \in DOMAIN cols : cols[j] = t.cols[k] /\ data[j] = CsvColumn(t, k)
\* the domain of the round trip: a table has at least one column, distinct names; (a table without rows: see CsvEmptyDomain)
CsvInDomain(t) == /\ t.cols # <<>> /\ \A i, j \in DOMAIN t.cols : t.cols[i] = t.cols[j] => i = j
                  /\ \A r \in DOMAIN t.rows : Len(t.rows[r]) = Len(t.cols)
CsvTags(c) == [norows |-> IF c.t.rows = <<>> THEN 1 ELSE 0, capital |-> IF \E i \in DOMAIN c.fname : c.fname[i] >= 65 /\ c.fname[i] <= 90 THEN 1 ELSE 0,
               cr |-> IF \E r \in DOMAIN c.t.rows : \E k \in DOMAIN c.t.rows[r] : \E i \in DOMAIN c.t.rows[r][k] : c.t.rows[r][k][i] = 13 THEN 1 ELSE 0]

\* one observation: c = [t, fname, form], out = [kind "val", rows] (read_csv forms) or [kind "val", cols, data] (dictable) or [kind "exc", cls]
CsvVerdict(c, out) ==
    IF ~CsvInDomain(c.t) THEN "outside_domain"
    ELSE IF out.kind = "exc" THEN "csv_read_raised"
    ELSE IF c.form = "dictable" THEN (IF CsvSameTable(c.t, out.cols, out.data) THEN "" ELSE "csv_table_round_trip")
    ELSE IF out.rows = CsvAllRows(c.t) THEN "" ELSE "csv_rows_round_trip"
=============================================================================
