---------------------------- MODULE MC_TreeHist ----------------------------
(* Property C15 over HISTORIES: the operands are objects that outlive a call.  The caller owns *)
(* them, edits them between calls and hands THE SAME OBJECT to the next call (as t, as u, or   *)
(* as both).  The property statement is about every single call: whatever happened before,    *)
(* tree_update(t, u) is the merge of what t and u hold NOW, tree_items(t) lists what t holds   *)
(* NOW, and no call modifies an operand.  A call therefore has no memory - which is exactly    *)
(* what a history can refute.                                                                  *)
(*                                                                                             *)
(* State: the heap `objs` of operand objects (Tree.tla, "Trees as DAGs").  Actions:            *)
(*    Update(rt, ru, g)   tree_update(objs[rt], objs[ru], ignore = g) / Dict + dict            *)
(*    Items(rt)           tree_items / tree_keys / tree_values of objs[rt]                     *)
(*    Edit(i, k, c)       the caller writes objs[i][k] = c (a leaf, or a later object)         *)
(* Law level: the outcome of a call is a function of the current heap alone (Merge / TItems of *)
(* the unfoldings) and the heap after a call is the heap before it.  Mechanism level: the      *)
(* code's flatten-and-insert, optionally with a memo of the last update flattened, keyed on    *)
(* the identity of the object (Cached = TRUE): CallsAreMerges is refuted for it (must-fail).   *)
(* Shape fixes the kinds of the steps of a history ("call" = Update or Items, "edit").         *)
(* With Hist = TRUE the history is carried along and every complete history is printed with    *)
(* the outcome of each call: the S2C generator (the invariant is checked in the same run).     *)
EXTENDS Tree, TLC, Json
CONSTANTS Cached,   \* FALSE: every call flattens u afresh (the code today); TRUE: memo keyed on the identity of u
          Size,     \* "std": histories call ; edit ; call | "wide": call ; edit ; edit ; call
          Hist      \* TRUE: carry and print the history (generator); FALSE: model checking on the heap alone

VARIABLES objs, n, memo, ok, objs0, hist
vars == <<objs, n, memo, ok, objs0, hist>>

KeyOrder == <<"a", "ab">>
Key   == {"a", "ab"}
Leaf0 == {VInt(1)}                                                \* leaves of the initial heap
LeafE == {None, VInt(1)}                                          \* leaves an edit writes
IgnU  == {{}}
Shape == IF Size = "std" THEN <<"call", "edit", "call">> ELSE <<"call", "edit", "edit", "call">>
N     == 2

Cells(i) == Leaf0 \cup {RefCell(j) : j \in (i + 1)..N}
Nodes(i) == UNION {[S -> Cells(i)] : S \in (SUBSET Key) \ {{}}}
Nil == <<"nil", <<>>>>

Init == /\ objs \in {<<n1, n2>> : n1 \in Nodes(1), n2 \in Nodes(2)}
        /\ n = 0 /\ memo = Nil /\ ok = TRUE
        /\ objs0 = (IF Hist THEN objs ELSE <<>>) /\ hist = <<>>

Kind == Shape[n + 1]
Log(step) == /\ n' = n + 1
             /\ hist' = (IF Hist THEN Append(hist, step) ELSE hist)
             /\ (IF Hist /\ n + 1 = Len(Shape)
                 THEN PrintT(ToJson([op |-> "hhist", objs |-> objs0, steps |-> Append(hist, step)]))
                 ELSE TRUE)
             /\ UNCHANGED objs0

\* tree_update(t, u): flatten u (or take the memo), insert item by item into a copy of t
Update(rt, ru, g) ==
    LET T == Unfold(objs, rt)  U == Unfold(objs, ru)
        items == IF Cached /\ memo[1] = "obj" /\ memo[2][1] = ru THEN memo[2][2] ELSE ItemsSeq(U, KeyOrder)
    IN  /\ n < Len(Shape) /\ Kind = "call"
        /\ ok' = (InsertAll(T, items, g) = Merge(T, U, g))
        /\ memo' = (IF Cached THEN <<"obj", <<ru, items>>>> ELSE memo)
        /\ Log([kind |-> "update", rt |-> rt, ru |-> ru, ign |-> g, out |-> Merge(T, U, g), objs_after |-> objs])
        /\ UNCHANGED objs
Items(rt) ==
    LET T == Unfold(objs, rt) IN
        /\ n < Len(Shape) /\ Kind = "call"
        /\ ok' = (LET is == ItemsSeq(T, KeyOrder) IN {is[i] : i \in 1..Len(is)} = TItems(T) /\ Len(is) = Cardinality(TItems(T)))
        /\ Log([kind |-> "items", rt |-> rt, t |-> T, items |-> TItems(T), objs_after |-> objs])
        /\ UNCHANGED <<objs, memo>>
\* the caller edits one of its dicts: a new key or another value under an old one
Edit(i, k, c) ==
        /\ n < Len(Shape) /\ Kind = "edit"
        /\ (k \in DOMAIN objs[i]) => objs[i][k] # c
        /\ objs' = [objs EXCEPT ![i] = [x \in DOMAIN objs[i] \cup {k} |-> IF x = k THEN c ELSE objs[i][x]]]
        /\ Log([kind |-> "edit", obj |-> i, key |-> k, cell |-> c])
        /\ UNCHANGED <<memo, ok>>

Next == \/ \E rt \in 1..N, ru \in 1..N, g \in IgnU : Update(rt, ru, g)
        \/ \E rt \in 1..N : Items(rt)
        \/ \E i \in 1..N, k \in Key : \E c \in LeafE \cup {RefCell(j) : j \in (i + 1)..N} : Edit(i, k, c)

\* whatever the history, a call is the law applied to what the operands hold now
CallsAreMerges == ok
HeapStaysOk    == HeapOk(objs, {1, 2})
=============================================================================
