CONSTANTS MaxSteps = 2
          Shape = "focused"
          SeedNames = {"real"}
          ErrOnly = {"real"}
          Hist = TRUE
INIT Init
NEXT Next
CONSTRAINT GenEmit
