INIT Init
NEXT Next
