-------------------------------- MODULE Lift --------------------------------
(* Property C19: container lifting maps leaf-wise, preserves shape, and is schedule            *)
(* independent.  This module is the law level, written from the property statement:            *)
(*                                                                                             *)
(*   Lift(fn, x, cs)   a function lifted with loop(list, tuple, dict), applied to a nesting x  *)
(*                     of lists, tuples and dicts with companion arguments cs                  *)
(*   the leaf semantics of the library functions built that way (lower, upper, strip, proper,  *)
(*                     replace, split, f12, as_float), extensionally on small universes        *)
(*   Zipper / Lens     length reconciliation                                                   *)
(*   AsList / AsTuple  the normalisers                                                         *)
(*   awaitable trees   Fill / Subst, the data part of the waiter machine (LiftWaiter.tla)      *)
(*                                                                                             *)
(* Key order.  A plain dict is <<"m", pairs>> with the pairs in KEY order: Python's == on dicts *)
(* ignores the order of insertion, so the statement does not pin it and the encoding hides it.  *)
(* An OrderedDict (lifted by loop(.., dict) like every dict type pyg registers) is              *)
(* <<"om", pairs>> with the pairs in INSERTION order: there the order is part of the value      *)
(* (OrderedDict(b=1, a=2) # OrderedDict(a=2, b=1)), and "same shape and container types" means  *)
(* the same keys in the same order.                                                             *)
(* Values are the tagged pairs of Values.tla; a dict is <<"m", seq of <<key, value>>>> in key  *)
(* order (string keys), an awaitable leaf is <<"aw", <<id, kind, dep>>>>, a non-awaitable      *)
(* look-alike leaf is <<"look", <<id, kind>>>>.                                                 *)
EXTENDS Values, TLC

IsMap(v)  == Tag(v) \in {"m", "om"}
IsCont(v) == Tag(v) \in {"l", "t", "m", "om"}               \* the lifted container types
Width(v)  == Len(Pay(v))
KeySet(v) == {Pay(v)[i][1] : i \in 1..Len(Pay(v))}
Get(v, k) == Pay(v)[CHOOSE i \in 1..Len(Pay(v)) : Pay(v)[i][1] = k][2]
Child(v, i) == IF IsMap(v) THEN Pay(v)[i][2] ELSE Pay(v)[i]

\* ---------------------------------------------------------------------------------------------
\* Companion selection: "further arguments that are containers of the same length/keys are
\* matched element by element (dicts by key), everything else is broadcast".
\* Under a sequence (list/tuple) of length n, a companion that is a sequence of length n gives
\* its i-th element; under a dict with key set ks, a companion that is a dict with key set ks
\* gives its value at the key.  Every other companion goes down unchanged.
\*
\* Named deviation DeepMatch (deep = TRUE): the code treats a companion sequence of a *different*
\* length like a 2-d array and matches on its last axis - it looks inside it, element by
\* element, for sequences of length n (loop(list)(f)([1,2], [[1,2],[3,4],[5,6]]) calls
\* f(1, [1,3,5])); likewise a dict with other keys is searched for dicts with the matching keys.
\* This is deliberate (pyg_base._loop._item_by_i / _item_by_key recurse on purpose, mirroring
\* what they do for numpy arrays) and the statement's "everything else" does not single it out,
\* so both readings are accepted; they differ only on such companions.
\* ---------------------------------------------------------------------------------------------
RECURSIVE SelI(_, _, _, _)
SelI(c, n, i, deep) ==
    IF ~IsSeq(c) THEN c
    ELSE IF Len(Pay(c)) = n THEN Pay(c)[i]
    ELSE IF deep THEN <<Tag(c), [j \in 1..Len(Pay(c)) |-> SelI(Pay(c)[j], n, i, deep)]>>
    ELSE c

RECURSIVE SelK(_, _, _, _)
SelK(c, ks, k, deep) ==
    IF ~IsMap(c) THEN c
    ELSE IF KeySet(c) = ks THEN Get(c, k)
    ELSE IF deep THEN <<Tag(c), [j \in 1..Len(Pay(c)) |-> <<Pay(c)[j][1], SelK(Pay(c)[j][2], ks, k, deep)>>]>>
    ELSE c

\* ---------------------------------------------------------------------------------------------
\* Leaf functions.  "f" is the recording function of the driver: f(x, a, b) returns the tuple
\* ('f', x, a, b), so the specification can state the lifted result exactly.
\* ---------------------------------------------------------------------------------------------
F(x, cs) == VTup(<<VStr("f"), x>> \o cs)

\* the string universe of the unary text functions, and what each does on it
StrU == {"", "ab", "Ab C", " a b ", "THE FOX", "1.3k", "100%", "1,234", "1.5", "7", "2m"}
Except(tbl) == [s \in StrU |-> IF s \in DOMAIN tbl THEN tbl[s] ELSE s]
LowerS  == Except(("Ab C" :> "ab c") @@ ("THE FOX" :> "the fox"))                    \* str.lower
UpperS  == Except(("ab" :> "AB") @@ ("Ab C" :> "AB C") @@ (" a b " :> " A B ")       \* str.upper
                  @@ ("1.3k" :> "1.3K") @@ ("2m" :> "2M"))
StripS  == Except((" a b " :> "a b"))                                                 \* str.strip
ProperS == Except(("ab" :> "Ab") @@ (" a b " :> " A B ") @@ ("THE FOX" :> "The Fox")) \* capitalize each ' '-separated word
\* as_float: thousands separators and blanks removed, a trailing k/m/%... scales, '' -> None,
\* what is not a number comes back as it was
AsFloatS == [s \in StrU |->
    CASE s = ""      -> None
      [] s = "1.3k"  -> VFlt(1300, 1)
      [] s = "100%"  -> VFlt(1, 1)
      [] s = "1,234" -> VFlt(1234, 1)
      [] s = "1.5"   -> VFlt(3, 2)
      [] s = "7"     -> VFlt(7, 1)
      [] s = "2m"    -> VFlt(2000000, 1)
      [] OTHER       -> VStr(s)]
\* f12: '%1.2f' of a float; the floats of the universe
F12F == (<<3, 2>> :> "1.50") @@ (<<2, 1>> :> "2.00") @@ (<<-1, 4>> :> "-0.25") @@ (<<1300, 1>> :> "1300.00")
NumU == {VInt(3), VFlt(3, 2), VFlt(2, 1), VFlt(-1, 4), None, VBool(TRUE)}
UnaryU == {VStr(s) : s \in StrU} \cup NumU

Unary(fn, v) ==
    IF IsStr(v) THEN
        CASE fn = "lower"  -> VStr(LowerS[Pay(v)])
          [] fn = "upper"  -> VStr(UpperS[Pay(v)])
          [] fn = "strip"  -> VStr(StripS[Pay(v)])
          [] fn = "proper" -> VStr(ProperS[Pay(v)])
          [] fn = "as_float" -> AsFloatS[Pay(v)]
          [] fn = "f12"    -> v
    ELSE IF fn = "f12" /\ Tag(v) = "f" THEN VStr(F12F[Pay(v)])
    ELSE v                                                   \* non-strings pass through

\* replace(text, old, new): every occurrence of old (each of them, in turn, when old is a list)
\* is replaced by new (None = '') until none is left; ValueError when old occurs in new.
RepT == {"a,b", "a b", "a  b", "a,,b", "ab", ""}
RepOld == {",", " ", "  "}
RepNew == {"", " ", ","}
OldInNew(o, n) == o = n                                      \* substring test on RepOld x RepNew
Rep1(t, o, n) ==                                             \* one old string, exhaustively
    CASE o = ","  -> (CASE t = "a,b"  -> (IF n = "" THEN "ab" ELSE "a b")
                        [] t = "a,,b" -> (IF n = "" THEN "ab" ELSE "a  b")
                        [] OTHER -> t)
      [] o = " "  -> (CASE t = "a b"  -> (IF n = "" THEN "ab" ELSE "a,b")
                        [] t = "a  b" -> (IF n = "" THEN "ab" ELSE "a,,b")
                        [] OTHER -> t)
      [] o = "  " -> (CASE t = "a  b" -> (IF n = "" THEN "ab" ELSE IF n = " " THEN "a b" ELSE "a,b")
                        [] OTHER -> t)
RECURSIVE RepFold(_, _, _, _)
RepFold(t, olds, k, n) ==                                    \* t: a string of RepT, or an exception
    IF k > Len(olds) THEN VStr(t)
    ELSE IF OldInNew(olds[k], n) THEN Raises("ValueError")
    ELSE RepFold(Rep1(t, olds[k], n), olds, k + 1, n)
StrList(v) == IF IsSeq(v) THEN [i \in 1..Len(Pay(v)) |-> Pay(Pay(v)[i])] ELSE <<Pay(v)>>   \* as_list of a str / list of str
ReplaceLeaf(v, old, new) ==
    IF ~IsStr(v) THEN v
    ELSE RepFold(Pay(v), StrList(old), 1, IF IsNone(new) THEN "" ELSE Pay(new))

\* split(text, sep, dedup): text.split(sep); a list of separators is first unified to its first
\* element; dedup drops the empty words.  Universe and table:
SplT == {"a b", "a  b", "a.b c", "", "ab"}
Spl1(t, sep) ==      \* sep: " ", "." or "both" (the list [" ", "."])
    CASE t = "a b"   -> (IF sep = "." THEN <<"a b">> ELSE <<"a", "b">>)
      [] t = "a  b"  -> (IF sep = "." THEN <<"a  b">> ELSE <<"a", "", "b">>)
      [] t = "a.b c" -> (IF sep = " " THEN <<"a.b", "c">> ELSE IF sep = "." THEN <<"a", "b c">> ELSE <<"a", "b", "c">>)
      [] t = ""      -> <<"">>
      [] t = "ab"    -> <<"ab">>
SepOf(sep) == IF ~IsSeq(sep) THEN Pay(sep)
              ELSE IF Len(Pay(sep)) = 0 THEN " "
              ELSE IF Len(Pay(sep)) = 1 THEN Pay(Pay(sep)[1])
              ELSE "both"                                    \* only [" ", "."] is in the menu
SplitLeaf(v, sep, dedup) ==
    IF ~IsStr(v) THEN v
    ELSE LET ws == Spl1(Pay(v), SepOf(sep))
             ks == IF dedup = VBool(TRUE) THEN SelectSeq(ws, LAMBDA w : w # "") ELSE ws
         IN  VLst([i \in 1..Len(ks) |-> VStr(ks[i])])

Apply(fn, v, cs) ==
    CASE fn = "f"       -> F(v, cs)
      [] fn = "replace" -> ReplaceLeaf(v, cs[1], cs[2])
      [] fn = "split"   -> SplitLeaf(v, cs[1], cs[2])
      [] OTHER          -> Unary(fn, v)

\* ---------------------------------------------------------------------------------------------
\* The lifted function: same container types, lengths and keys; each leaf is the function of the
\* original leaf and of what the companions select along the way down.
\* ---------------------------------------------------------------------------------------------
RECURSIVE Lift(_, _, _, _)
Lift(fn, x, cs, deep) ==
    IF IsSeq(x) THEN
        <<Tag(x), [i \in 1..Width(x) |->
                      Lift(fn, Pay(x)[i], [j \in 1..Len(cs) |-> SelI(cs[j], Width(x), i, deep)], deep)]>>
    ELSE IF IsMap(x) THEN
        <<Tag(x), [i \in 1..Width(x) |->
                  <<Pay(x)[i][1],
                    Lift(fn, Pay(x)[i][2], [j \in 1..Len(cs) |-> SelK(cs[j], KeySet(x), Pay(x)[i][1], deep)], deep)>>]>>
    ELSE Apply(fn, x, cs)

IsExc(v) == Tag(v) = "exc"
RECURSIVE HasExc(_)
HasExc(r) == IF IsExc(r) THEN TRUE
             ELSE IF IsCont(r) THEN \E i \in 1..Width(r) : HasExc(Child(r, i))
             ELSE FALSE
\* what the call returns: the lifted structure, or the exception a leaf raised
Outcome(fn, x, cs, deep) == LET r == Lift(fn, x, cs, deep) IN IF HasExc(r) THEN Raises("ValueError") ELSE r
\* the outcomes the property admits (law, and the named deviation DeepMatch)
Outcomes(fn, x, cs) == {Outcome(fn, x, cs, FALSE), Outcome(fn, x, cs, TRUE)}

\* same container types, lengths and keys; `leaf(v)` says what counts as a leaf on the left
RECURSIVE SameShape(_, _)
SameShape(x, r) ==
    IF IsCont(x) THEN /\ Tag(r) = Tag(x) /\ Width(r) = Width(x)
                      /\ (IsMap(x) => \A i \in 1..Width(x) : Pay(r)[i][1] = Pay(x)[i][1])
                      /\ \A i \in 1..Width(x) : SameShape(Child(x, i), Child(r, i))
    ELSE TRUE

RECURSIVE NLeaves(_)
NLeaves(x) == IF ~IsCont(x) THEN 1
              ELSE LET RECURSIVE Sum(_)
                       Sum(i) == IF i = 0 THEN 0 ELSE NLeaves(Child(x, i)) + Sum(i - 1)
                   IN  Sum(Width(x))
RECURSIVE Depth(_)
Depth(x) == IF ~IsCont(x) THEN 0
            ELSE LET RECURSIVE Mx(_)
                     Mx(i) == IF i = 0 THEN 0 ELSE LET d == Depth(Child(x, i)) m == Mx(i - 1) IN IF d > m THEN d ELSE m
                 IN  1 + Mx(Width(x))

\* Mechanism of today's pyg_base._loop.loops._wrapped, as far as it matters here: the positional
\* companions are handed down as a *generator* over the level above.  Below the first level the
\* generator made for child i of the top container is shared by the whole subtree and is used up
\* by the first leaf that is evaluated; every other leaf of that subtree is called without its
\* positional companions (TypeError for a function that requires them).  Keyword companions are
\* handed down in a dict and are not affected.  GeneratorExhaustion(x, npos) is exactly the set
\* of calls on which that happens; `materialise` = the repaired mechanism (a tuple per level).
GeneratorExhaustion(x, npos) ==
    npos > 0 /\ IsCont(x) /\ \E i \in 1..Width(x) : NLeaves(Child(x, i)) >= 2
Mech(x, pos, kws, materialise) ==
    IF ~materialise /\ GeneratorExhaustion(x, Len(pos)) THEN Raises("TypeError")
    ELSE Outcome("f", x, pos \o kws, TRUE)

\* ---------------------------------------------------------------------------------------------
\* zipper / lens: a scalar (anything that is not a list or tuple, strings included) counts as a
\* sequence of length 1; the common length is the one length different from 1 (1 if there is
\* none, 0 without arguments); two different lengths other than 1: ValueError.
\* ---------------------------------------------------------------------------------------------
ZLen(a)  == IF IsSeq(a) THEN Len(Pay(a)) ELSE 1
ZLens(args) == {ZLen(args[j]) : j \in 1..Len(args)} \ {1}
ZCommon(args) == IF Len(args) = 0 THEN 0
                 ELSE IF ZLens(args) = {} THEN 1 ELSE CHOOSE m \in ZLens(args) : TRUE
ZItem(a, k) == IF ~IsSeq(a) THEN a ELSE IF Len(Pay(a)) = 1 THEN Pay(a)[1] ELSE Pay(a)[k]
Zipper(args) ==                                               \* list(zipper(args..))
    IF Cardinality(ZLens(args)) > 1 THEN Raises("ValueError")
    ELSE VLst([k \in 1..ZCommon(args) |-> VTup([j \in 1..Len(args) |-> ZItem(args[j], k)])])
Lens(args) ==                                                 \* lens(args..), all args sequences
    IF Cardinality(ZLens(args)) > 1 THEN Raises("ValueError") ELSE VInt(ZCommon(args))

\* ---------------------------------------------------------------------------------------------
\* as_list / as_tuple: None -> empty, a list/tuple -> its elements, anything else -> singleton.
\* Documented quirk StarArgs: a 1-tuple holding a list stands for that list (f(values..) called as
\* f([1,2,3])).  Because of it as_tuple has results that are not normal forms: StarArgsCorner.
\* ---------------------------------------------------------------------------------------------
IsStarArgs(v) == Tag(v) = "t" /\ Len(Pay(v)) = 1 /\ Tag(Pay(v)[1]) = "l"
AsList(v)  == IF IsNone(v) THEN VLst(<<>>)
              ELSE IF Tag(v) = "l" THEN v
              ELSE IF IsStarArgs(v) THEN Pay(v)[1]
              ELSE IF Tag(v) = "t" THEN VLst(Pay(v))
              ELSE VLst(<<v>>)
AsTuple(v) == IF IsNone(v) THEN VTup(<<>>)
              ELSE IF IsStarArgs(v) THEN VTup(Pay(Pay(v)[1]))
              ELSE IF Tag(v) = "t" THEN v
              ELSE IF Tag(v) = "l" THEN VTup(Pay(v))
              ELSE VTup(<<v>>)
\* inputs on which the documented rules do not give a normal form; there the statement pins
\* down idempotence only, not the value
StarArgsCorner(v) == IsStarArgs(AsTuple(v))

\* ---------------------------------------------------------------------------------------------
\* Trees with awaitables (waiter).  An awaitable leaf <<"aw", <<id, kind, dep>>>> stands for an
\* object that can be used in an `await` expression and will deliver V[id]; the same id may occur
\* more than once (one future / one awaitable object placed twice).  "Awaitable" is the notion of
\* the language, not a list of asyncio classes - the KIND says how the awaitable is realised:
\*   "fut"      an asyncio Future                      "task"    a running Task
\*   "coro"     an un-started coroutine object
\*   "obj"      a plain object whose __await__ is a generator that yields to the loop until released
\*   "objfut"   a plain object whose __await__ hands out the iterator of a future
\*   "objcoro"  a plain object whose __await__ hands out the iterator of a fresh coroutine
\*   "objobj"   a plain object whose __await__ delegates to another plain awaitable object
\*   "gather"   the future asyncio.gather(one future) returns: its result is the LIST of the result
\*   "shield"   the future asyncio.shield(a running task) returns
\*   "done"     a future whose result was set before waiter was called
\*   "objnow"   a plain object whose __await__ returns an already finished iterator (never suspends)
\*   "coronow"  an un-started coroutine that returns without ever suspending
\*   "gencoro"  a generator-based coroutine (types.coroutine): awaitable for the language although
\*              not an instance of collections.abc.Awaitable (legacy; see LegacyKinds)
\* What the machine needs to know about a kind:
\*   LazyKinds  run only once somebody awaits them (the driver can see them take their first step);
\*              the others make progress on their own
\*   NowKinds   are complete without anybody releasing them: they deliver as soon as they are awaited
\*   DepKinds   can, in addition, be made to wait until awaitable dep # 0 has been *started*
\*              (dep's first step releases them) before they finish
\*   Deliver    what `await` gives for the result v
\* A look-alike leaf <<"look", <<id, kind>>>> is an object that is NOT awaitable although it looks
\* the part: a generator object ("gen"), an async generator object ("agen"), an async function that
\* has not been called ("afn"), a class that defines __await__ ("cls": the class, not an instance),
\* an instance that carries __await__ as an instance attribute ("inst": `await` looks on the type),
\* an object with attributes `await`, `result`, `done` ("attr").  It is an ordinary leaf: the very
\* same object must be in the result.
\* ---------------------------------------------------------------------------------------------
EagerKinds  == {"fut", "task", "gather", "shield", "done"}
LazyKinds   == {"coro", "obj", "objfut", "objcoro", "objobj", "objnow", "coronow", "gencoro"}
NowKinds    == {"done", "objnow", "coronow"}
DepKinds    == {"coro", "obj", "objcoro", "objobj", "gencoro"}
LegacyKinds == {"gencoro"}
AllAwKinds  == EagerKinds \cup LazyKinds
LookKinds   == {"gen", "agen", "afn", "cls", "inst", "attr"}
Deliver(kind, v) == IF kind = "gather" THEN VLst(<<v>>) ELSE v

IsAw(v) == Tag(v) = "aw"
IsLook(v) == Tag(v) = "look"
AwId(v) == Pay(v)[1]
AwKind(v) == Pay(v)[2]
AwDep(v) == Pay(v)[3]
RECURSIVE AwIds(_)
AwIds(x) == IF IsAw(x) THEN {AwId(x)}
            ELSE IF IsCont(x) THEN UNION {AwIds(Child(x, i)) : i \in 1..Width(x)}
            ELSE {}
RECURSIVE AwLeaves(_)
AwLeaves(x) == IF IsAw(x) THEN {x}
               ELSE IF IsCont(x) THEN UNION {AwLeaves(Child(x, i)) : i \in 1..Width(x)}
               ELSE {}
RECURSIVE LookLeaves(_)
LookLeaves(x) == IF IsLook(x) THEN {x}
                 ELSE IF IsCont(x) THEN UNION {LookLeaves(Child(x, i)) : i \in 1..Width(x)}
                 ELSE {}
IdsOfKinds(x, K) == {AwId(a) : a \in {b \in AwLeaves(x) : AwKind(b) \in K}}
LazyIds(x)  == IdsOfKinds(x, LazyKinds)          \* not started until waiter awaits them
NowIds(x)   == IdsOfKinds(x, NowKinds)           \* complete without being released
GatedIds(x) == AwIds(x) \ NowIds(x)              \* complete when the outside world (the schedule) says so
DepIds(x)   == IdsOfKinds(x, DepKinds)           \* may be made to wait for another one to start
CoroIds(x)  == IdsOfKinds(x, {"coro"})
DepsOf(x, i) == {AwDep(a) : a \in {b \in AwLeaves(x) : AwId(b) = i}} \ {0}   \* who must have started before i can finish
\* well-formed: known kinds, one kind per id, only DepKinds wait for somebody
AwWellFormed(x) == /\ \A a \in AwLeaves(x) : AwKind(a) \in AllAwKinds /\ (AwDep(a) # 0 => AwKind(a) \in DepKinds /\ AwDep(a) \in AwIds(x))
                   /\ \A a, b \in AwLeaves(x) : AwId(a) = AwId(b) => a = b
                   /\ \A a \in LookLeaves(x) : Pay(a)[2] \in LookKinds
\* the same structure with the dependency of every awaitable that can wait set by dep (a function on DepIds)
RECURSIVE SetDep(_, _)
SetDep(x, dep) ==
    IF IsAw(x) THEN (IF AwKind(x) \in DepKinds THEN <<"aw", <<AwId(x), AwKind(x), dep[AwId(x)]>>>> ELSE x)
    ELSE IF IsSeq(x) THEN <<Tag(x), [k \in 1..Width(x) |-> SetDep(Pay(x)[k], dep)]>>
    ELSE IF IsMap(x) THEN <<Tag(x), [k \in 1..Width(x) |-> <<Pay(x)[k][1], SetDep(Pay(x)[k][2], dep)>>]>>
    ELSE x
\* the structure with awaitable i replaced, in place, by its result
RECURSIVE Fill(_, _, _)
Fill(x, i, val) ==
    IF IsAw(x) THEN (IF AwId(x) = i THEN Deliver(AwKind(x), val) ELSE x)
    ELSE IF IsSeq(x) THEN <<Tag(x), [k \in 1..Width(x) |-> Fill(Pay(x)[k], i, val)]>>
    ELSE IF IsMap(x) THEN <<Tag(x), [k \in 1..Width(x) |-> <<Pay(x)[k][1], Fill(Pay(x)[k][2], i, val)>>]>>
    ELSE x
\* law: every awaitable whose id is in `done` replaced by its result (V: id -> value)
RECURSIVE Subst(_, _, _)
Subst(x, done, V) ==
    IF IsAw(x) THEN (IF AwId(x) \in done THEN Deliver(AwKind(x), V[AwId(x)]) ELSE x)
    ELSE IF IsSeq(x) THEN <<Tag(x), [k \in 1..Width(x) |-> Subst(Pay(x)[k], done, V)]>>
    ELSE IF IsMap(x) THEN <<Tag(x), [k \in 1..Width(x) |-> <<Pay(x)[k][1], Subst(Pay(x)[k][2], done, V)>>]>>
    ELSE x
\* a whole schedule at once: the awaitables complete in the order given (Schedule: the awaitables
\* that need nobody's release have delivered, the others complete in the order of their release)
RECURSIVE RunOrder(_, _, _, _)
RunOrder(x, order, k, V) == IF k > Len(order) THEN x ELSE RunOrder(Fill(x, order[k], V[order[k]]), order, k + 1, V)
Schedule(x, order, V) == RunOrder(Subst(x, NowIds(x), V), order, 1, V)
=============================================================================
