CONSTANTS Scope = "quick"
          Mech = "law"
          Loose = FALSE
          PlanSet = {"FII", "SEFI", "FEFI", "FFII", "FRFI", "FIFI"}
INIT Init
NEXT Next
INVARIANT StepLaw
INVARIANT IdsUnique

