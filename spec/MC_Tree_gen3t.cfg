CONSTANTS LeafSet = "small"
          RebuildWide = FALSE
          Deep = TRUE
          Wide3 = FALSE
          TableWide = TRUE
INIT InitGenTable
NEXT GenTable
