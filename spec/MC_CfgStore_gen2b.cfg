CONSTANTS KeyOrd <- KeyAB
          Vals = {1, 2}
          Bad = 0
          Procs = {1, 2}
          NPaths = 2
          Blocked = {1}
          Allow = {"crash_truncated", "crash_partial", "between_truncated", "between_partial", "bad_value"}
          GenFlush = {2}
          WarmReads = FALSE
          InitCfgs <- OneInit
          WriteCfgs <- TwoBadWrite
          MaxBegin = 1
          MaxRead = 2
          MaxSpawn = 2
          MaxCrash = 1
INIT Init
NEXT NextGen
PROPERTY GenIsSpec
