CONSTANTS MaxLen = 3
          Mode = "big"
INIT Init
NEXT Next
INVARIANT BigAntisym
INVARIANT BigReflexive
INVARIANT BigTransitive
INVARIANT BigPinnedOK
INVARIANT BigSmallPinnedOK
INVARIANT BigWellFormed
INVARIANT BigCoarseTieUsed
INVARIANT BigFastPathRejected
INVARIANT BigSortLaws
INVARIANT BigTableLaws
