CONSTANTS Family = "edit"
 Depth = 3
INIT Init
NEXT NextGen
INVARIANT HeapIsHistory
