CONSTANTS Family = "mix"
 Depth = 6
INIT Init
NEXT NextGen
INVARIANT HeapIsHistory
