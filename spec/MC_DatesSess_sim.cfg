CONSTANTS SessYears = {1900, 1999, 2000, 2100, 2261, 2299}
          DayMod = 1
          MaxLen = 5
          Rot = 3
INIT Init
NEXT Next
