---------------------------- MODULE MC_Bitemporal ----------------------------
(* Property C17 on the specification, and the source of the S2C replay.                        *)
(*                                                                                             *)
(* MC   (MC_Bitemporal_quick*.cfg / _thorough*.cfg, NEXT NextMC): every history of at most      *)
(*      MaxMerges publications over the constants, with re-merges and reads; the mechanism      *)
(*      (store) refines the law (pubs) - one INVARIANT / PROPERTY line per clause.              *)
(*      hist stays <<>> there, so it does not split states.                                     *)
(* MC   (MC_Bitemporal_unstable.cfg, Stable = FALSE): the same mechanism with a sort that does  *)
(*      not keep the concat order of equal stamps MUST violate Refines - the clause "of several *)
(*      sharing a stamp the one merged last" rests on the stability of the sort.                *)
(* MC   (MC_Bitemporal_zones*.cfg, Zones with several members): stamps and read times written   *)
(*      in different zones, mixed within one history - the same clauses.                        *)
(* MC   (MC_Bitemporal_nozone.cfg, ZoneAware = FALSE): the same mechanism dropping the zone of  *)
(*      a written time without converting MUST violate Refines - two desks in two zones.        *)
(* GEN  (MC_Bitemporal_gen*.cfg, NEXT NextGen): hist records the calls; every state that is     *)
(*      expanded prints its history together with the reads the LAW admits after it, for every  *)
(*      read time and both `what`.  Exhaustive for the small constants, -simulate beyond.        *)
EXTENDS Bitemporal, TLC, Json

CONSTANTS MaxAgain     \* generator only: bound on the re-merges recorded in one history

\* zone sets for the configurations (a .cfg cannot spell a negative number)
ZonesEW  == {-1, 1}          \* one desk east, one west of the reader's clock
ZonesUEW == {-1, 0, 1}

VARIABLE hist
vars == <<pubs, store, out, hist>>

Init == BInit /\ hist = <<>>

MCMerge == DoMerge /\ UNCHANGED hist
MCAgain == DoAgain /\ UNCHANGED hist
MCRead  == DoRead  /\ UNCHANGED hist
MCReplay == DoReplay /\ UNCHANGED hist
NextMC  == MCMerge \/ MCAgain \/ MCReplay \/ MCRead
\* A query changes nothing but `out`, so the states it leads to are checked (TLC evaluates the
\* invariants on them) but need not be expanded again: everything they can do, the state they
\* were asked in can do.
ReadsAreLeaves == out = NoOut
\* ... and what the invariants say about (pubs, store) was checked in the state the query was
\* asked in; on the leaves only ReadOK has something new to say.
Quiet == out = NoOut
MCStoreShape   == Quiet => StoreShape
MCRefines      == Quiet => Refines
MCRefinesFirst == Quiet => RefinesFirst
MCNoLeak       == Quiet => NoLeak
MCLawsAgree    == Quiet => LawsAgree
MCReplayKeeps  == Quiet => ReplayKeeps

\* ---- generator --------------------------------------------------------------------------------
\* every read time in every writing: T = the instant, <<w, z>> = what is handed to bi_read
TimeSeq == SetToSortSeq(Times, <)
ZoneSeq == SetToSortSeq(Zones, <)
Expected(p) == [k \in 1..(Len(TimeSeq) * Len(ZoneSeq)) |->
                  LET T == TimeSeq[((k - 1) \div Len(ZoneSeq)) + 1]
                      z == ZoneSeq[((k - 1) % Len(ZoneSeq)) + 1] IN
                  [T |-> T, w |-> Wall(WrittenIn(T, z)), z |-> z,
                   latest |-> MapSeq(AsOf(p, T)),
                   first  |-> SetToSeq({MapSeq(f) : f \in FirstReads(p, T)})]]
\* an event of the history: s = the instant (for the reader), <<w, z>> = the written stamp handed to Bi
Event(op, s, v) == [op |-> op, s |-> Instant(s), w |-> Wall(s), z |-> ZoneOf(s), v |-> MapSeq(v)]
Agains == Cardinality({i \in DOMAIN hist : hist[i].op \in {"again", "replay"}})

GenMerge == /\ Len(pubs) < MaxMerges
            /\ \E s \in WStamps, v \in Versions :
                  Merge(s, v) /\ hist' = Append(hist, Event("merge", s, v))
GenAgain == /\ Agains < MaxAgain
            /\ \E s \in WStamps, v \in Versions :
                  MergeAgain(s, v) /\ hist' = Append(hist, Event("again", s, v))
\* replay of the store as it stood at t; the event carries the instant, the driver cuts the copy
\* out of the REAL store (rows stamped <= t) and hands it to bi_merge
GenReplay == /\ Agains < MaxAgain
             /\ \E t \in Stamps :
                  Replay(t) /\ hist' = Append(hist, [op |-> "replay", s |-> t, w |-> t, z |-> 0, v |-> <<>>])
\* the print comes first, so it happens once per expanded state (not once per successor)
NextGen == /\ PrintT(ToJson([hist |-> hist, reads |-> Expected(pubs), may_refuse |-> SetToSeq(RefusableT)]))
           /\ (GenMerge \/ GenAgain)
\* the same with replays of earlier snapshots in the place of single re-merges
NextGenR == /\ PrintT(ToJson([hist |-> hist, reads |-> Expected(pubs), may_refuse |-> SetToSeq(RefusableT)]))
            /\ (GenMerge \/ GenReplay)
\* ... and with both (simulated sessions)
NextGenAll == /\ PrintT(ToJson([hist |-> hist, reads |-> Expected(pubs), may_refuse |-> SetToSeq(RefusableT)]))
              /\ (GenMerge \/ GenAgain \/ GenReplay)

\* the histories of the generator are histories of the specification
GenIsSpec == [][BNext]_bvars
=============================================================================
