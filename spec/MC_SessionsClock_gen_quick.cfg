CONSTANTS NStart = 5
          Spread = 2
          Offsets = {0, 1, 2, 3, 4, 5, 6, 7, 9, 14, 35, 100, 400}
          RunSecs = {0, 21600, 64800, 86399}
          NHolDays = 3
INIT Init
NEXT EvalGen
