CONSTANTS MaxSteps = 3
          Shape = "focused"
          SeedNames = {"num", "nan", "mixed", "dup"}
          Hist = TRUE
INIT Init
NEXT Next
CONSTRAINT GenEmit
