CONSTANTS MaxSteps = 3
          Shape = "focused"
          SeedNames = {"num", "nan", "mixed", "dup", "real"}
          ErrOnly = {"real"}
          Hist = TRUE
INIT Init
NEXT Next
CONSTRAINT GenEmit
