CONSTANTS Tier = "thorough"
          Shape = "cec"
          Depth = 3
          Fams = {"useq", "mses"}
          MemoPolicy = "none"
          ArgPolicy = "copy"
INIT Init
NEXT Next
INVARIANT UniqueKept
INVARIANT CallsOwnNothing
INVARIANT NoMemory
INVARIANT ResultsUnique
INVARIANT MemoIsMembers
INVARIANT SameCallSameAnswer
