CONSTANTS Dates = {1, 2, 3}
          Stamps = {1, 2, 3, 4}
          Vals = {1, 2}
          MaxMerges = 4
          MaxAgain = 1
          Stable = TRUE
          Zones <- ZonesUEW
          ZoneAware = TRUE
INIT Init
NEXT NextGenAll
