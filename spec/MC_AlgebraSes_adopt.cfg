CONSTANTS Tier = "quick"
          Shape = "cec"
          Depth = 3
          Fams = {"mses"}
          MemoPolicy = "none"
          ArgPolicy = "adopt"
INIT Init
NEXT Next
INVARIANT UniqueKept
INVARIANT CallsOwnNothing
INVARIANT NoMemory
INVARIANT ResultsUnique
INVARIANT MemoIsMembers
INVARIANT SameCallSameAnswer
