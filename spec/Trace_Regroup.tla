---------------------------- MODULE Trace_Regroup ----------------------------
(* Trace validation for property C11: one line per public call chain on a real dictable:         *)
(*   listby  : d.listby(by) and .unlist() of it (with the real cmp of adjacent key cells);       *)
(*             idcol names the column that numbers the rows (the witness of stability)           *)
(*   groupby : d.groupby(by [, grp = name]) and .ungroup([name]) of it                           *)
(*   pivot   : d.pivot(x, y, z, agg) and, for agg = last, .unpivot(x, y, z) without None cells   *)
(* (the three lines above are single-call chains; sessions: see below)                           *)
(* Column names, y labels and the spelling of the key arguments (form: names / one list / a     *)
(* single name) are part of the case; column labels of results arrive encoded (Regroup!LabelEnc).*)
(*   session : one recorded HISTORY of calls and caller's edits on a store of caller-owned objects *)
(*             (RegroupSession.tla): o.init = the store as first observed, o.steps = per step the  *)
(*             call, the exception class or "", the whole store observed again after the step      *)
(*             (the result last) and for unlist the real cmp of adjacent key cells of the result.  *)
(*   scale   : a call chain on a BIG table that is described, not listed (RegroupBig.tla): o.sc =  *)
(*             pattern, copies, mode, odd row and its position; o.via = listby | groupby | pivot |  *)
(*             wide (pivot with the ids as y, then unpivot); judged by the scaling law, linear time *)
EXTENDS RegroupBig, Batch

\* a column made by the caller (constructor / setitem) under a key that is not a string: an int is rendered as its decimal
\* string, any other scalar names its column as itself (Regroup!LabelEnc)
LabelVerdict(o) == IF o.made.cols = <<"x", LabelEnc(o.key)>> THEN "" ELSE "column_label"
RECURSIVE Verdict(_)
Verdict(o) ==
    IF o.op = "session" THEN SessionVerdict(o)
    ELSE IF o.op = "scale" THEN ScaleVerdict(o)
    ELSE IF o.op = "label" THEN LabelVerdict(o)
    \* twin: two consecutive actions of one fresh process on two DIFFERENT tables whose labels are equal by == (1, 1.0, "1"):
    \* a call has no memory - each is judged on its own arguments, whatever the process has seen before
    ELSE IF o.op = "twin" THEN (LET v == Verdict(o.first) IN IF v # "" THEN "first_" \o v ELSE Verdict(o.second))
    ELSE IF o.op = "pivot" /\ LabelClash(o.t, o.x, o.y) THEN ""          \* outside the domain: two columns of one name
    ELSE IF o.raised # "" THEN o.stage \o "_raises"            \* stage = the call of the chain that raised
    ELSE IF o.after # o.t THEN "operand_changed"
    ELSE CASE o.op = "listby" ->
                LET v == ListbyVerdict(o.t, o.by, o.out) IN
                IF v # "" THEN v ELSE IF NRows(o.t) = 0 THEN "" ELSE UnlistVerdict(o.t, o.by, o.unl, o.colcmp, o.idcol)
           [] o.op = "groupby" ->
                LET v == GroupbyVerdict(o.t, o.by, o.grp, o.out) IN
                IF v # "" THEN v
                ELSE IF ~o.ung2 THEN "ungroup_twice_differs"          \* ungroup must not consume the grouped table
                ELSE UngroupVerdict(o.t, o.by, o.ung)
           [] o.op = "pivot" ->
                LET v == PivotVerdict(o.t, o.x, o.y, o.z, o.agg, o.out) IN
                IF v # "" THEN v ELSE IF o.agg = "last" THEN UnpivotVerdict(o.t, o.x, o.y, o.z, o.unp) ELSE ""
           [] OTHER -> "unknown_op"

Init == BatchInit
Next == BatchNext(Verdict)
=============================================================================
