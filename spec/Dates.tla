------------------------------- MODULE Dates -------------------------------
(* Property C04: what every supported *spelling* of an instant denotes.                          *)
(*                                                                                               *)
(* A spelling is (form, f, dialect): the name of the form, the integers that are written in it,  *)
(* in the order in which they are written, and the dialect ("uk" / "us") the reader is told to   *)
(* use.  How the integers become characters (separator, zero padding, month names, 'T' or a      *)
(* blank before the time) is rendering and is deliberately NOT an argument of Denote: all        *)
(* renderings of the same integers denote the same thing.                                        *)
(*                                                                                               *)
(* Outcomes (also the encoding of what the real code returned):                                  *)
(*    <<"ok", ordinal, second of the day, microsecond>>     a naive datetime                     *)
(*    <<"exc", "ValueError">>                               the spelling is rejected             *)
(* <<"undefined">> marks spellings outside the property's domain (not a date of 1900..2299, a    *)
(* time of day that does not exist, two numbers > 12, ...): the harness never produces them.     *)
(* The calendar arithmetic is Civil.tla (checked by MC_Civil over the 400-year cycle).           *)
EXTENDS Civil, Sequences

FirstYear == 1900
LastYear  == 2299
FirstDay  == 693596         \* Ord(1900, 1, 1), see MC_Dates!FastIsCivil
LastDay   == 839692         \* Ord(2299, 12, 31)

(* Civil!Ord and Civil!YMD recurse over the months and recompute the year several times; they    *)
(* are evaluated ~10^7 times in trace validation, so the hot paths use these table-driven        *)
(* equivalents.  MC_Dates!FastIsCivil checks them against Civil for every month and day.         *)
CumDays == <<0, 31, 59, 90, 120, 151, 181, 212, 243, 273, 304, 334, 365>>
DaysBefore(y, m) == CumDays[m] + (IF m > 2 /\ IsLeap(y) THEN 1 ELSE 0)
FastOrd(y, m, d) == DaysBeforeYear(y) + DaysBefore(y, m) + d
FastYMD(o) == LET y == YearOf(o)
                  n == o - DaysBeforeYear(y)
                  m == CHOOSE mm \in 1..12 : DaysBefore(y, mm) < n /\ n <= DaysBefore(y, mm + 1)
              IN  <<y, m, n - DaysBefore(y, m)>>

Rejected  == <<"exc", "ValueError">>
Undefined == <<"undefined">>
\* a call the API accepts but the property statement does not pin (a yyyymmdd number / an ordinal with a fraction of a day):
\* its own outcome is not judged; it only appears in sessions, BEFORE judged calls (a call has no memory)
Unpinned  == <<"unpinned">>
Ok(o, s, u) == <<"ok", o, s, u>>
\* tuples of different kinds are never compared component-wise (TLC would not compare a string with a number)
SameOutcome(x, z) == x[1] = z[1] /\ Len(x) = Len(z) /\ x = z

Sec(h, mi, s) == h * 3600 + mi * 60 + s
ValidTime(h, mi, s, us) == h \in 0..23 /\ mi \in 0..59 /\ s \in 0..59 /\ us \in 0..999999
\* the instant with these civil fields, when there is one inside the supported range
At(y, m, d, h, mi, s, us) ==
    IF y \in FirstYear..LastYear /\ ValidYMD(y, m, d) /\ ValidTime(h, mi, s, us)
    THEN Ok(FastOrd(y, m, d), Sec(h, mi, s), us) ELSE Undefined
\* a written time of day may stop after the hour, minute, second; what is not written is zero
Pad4(g) == [i \in 1..4 |-> IF i <= Len(g) THEN g[i] ELSE 0]
AtT(y, m, d, g) == LET p == Pad4(g) IN At(y, m, d, p[1], p[2], p[3], p[4])

(* The decimals of the seconds.  A string may write the fraction of the second with any number k *)
(* of decimals: the integer n written with k digits after the point means n / 10^k seconds       *)
(* (".5" = ".500" = ".500000" = half a second).  Six decimals is the microsecond of the datetime *)
(* (written as a plain 7th field); with more than six the extra digits have to be zeros to stay  *)
(* inside the property's domain ("to the microsecond").                                          *)
Pow10(k) == CASE k = 0 -> 1 [] k = 1 -> 10 [] k = 2 -> 100 [] k = 3 -> 1000 [] k = 4 -> 10000 [] k = 5 -> 100000
              [] k = 6 -> 1000000 [] k = 7 -> 10000000 [] k = 8 -> 100000000 [] k = 9 -> 1000000000
FracDigits == {1, 2, 3, 4, 5, 7, 8, 9}
FracDefined(n, k) == k \in 1..9 /\ n >= 0 /\ (k < 9 => n < Pow10(k)) /\ (k > 6 => n % Pow10(k - 6) = 0)
FracUs(n, k) == IF k <= 6 THEN n * Pow10(6 - k) ELSE n \div Pow10(k - 6)
\* the written time of day of a string: positions 4.. of f; h mi | h mi s | h mi s us | h mi s n k (n written with k decimals)
StrTimeOk(f) == Len(f) \in {3, 5, 6, 7} \/ (Len(f) = 8 /\ FracDefined(f[7], f[8]))
StrTime(f)   == IF Len(f) = 8 THEN <<f[4], f[5], f[6], FracUs(f[7], f[8])>> ELSE SubSeq(f, 4, Len(f))

-----------------------------------------------------------------------------
(* The forms.  f is what is written:                                                             *)
(*   datetime, pd_timestamp, pd_ns, np_us, dt2str   y m d h mi s us     (objects: all 7 fields)  *)
(*   date, np_D                                     y m d                                        *)
(*   np_h / np_m / np_s, pd_s                       y m d h [mi [s]]                             *)
(*   np_ms / np_ns                                  y m d h mi s ms / ns                         *)
(*   parts           dt(y, m, d) or dt(y, m, d, h, mi, s)                                        *)
(*   yyyymmdd_int, yyyymmdd_str                     one number, decimal digits yyyymmdd          *)
(*   ordinal_int                                    one number, the proleptic ordinal            *)
(*   iso_str, monthname_str                         y m d [h mi [s [us | n k]]]  (month by number/name; *)
(*                   n k = the decimals of the seconds: the integer n written with k digits)     *)
(*   numeric_str     a b y [h mi [s [us | n k]]]: two numbers and a four-digit year, read        *)
(*                   day-month-year by the UK dialect and month-day-year by the US dialect       *)
(*   dt2str          the string dt2str() makes of the datetime (round trip)                      *)
SevenForms  == {"datetime", "pd_timestamp", "pd_ns", "np_us", "dt2str"}
NsForms     == {"pd_ns", "np_ns"}          \* numpy / pandas cannot spell instants after 2262-04-11 in nanoseconds
Forms       == SevenForms \cup {"date", "np_D", "np_h", "np_m", "np_s", "pd_s", "np_ms", "np_ns", "parts",
                                "yyyymmdd_int", "yyyymmdd_str", "ordinal_int", "iso_str", "monthname_str", "numeric_str"}
Dialects    == {"uk", "us"}
\* numbers with a fraction of a day, f = <<number, numerator, denominator>>: accepted by dt(), not pinned by the statement
NoiseForms  == {"yyyymmdd_frac", "ordinal_frac"}

Denote(form, f, dl) ==
    LET n == Len(f) IN
    IF form \in NsForms /\ (n = 0 \/ f[1] > 2261) THEN Undefined ELSE
    CASE form \in SevenForms -> IF n = 7 THEN AtT(f[1], f[2], f[3], SubSeq(f, 4, 7)) ELSE Undefined
      [] form \in {"date", "np_D"} -> IF n = 3 THEN AtT(f[1], f[2], f[3], <<>>) ELSE Undefined
      [] form = "np_h" -> IF n = 4 THEN AtT(f[1], f[2], f[3], SubSeq(f, 4, 4)) ELSE Undefined
      [] form = "np_m" -> IF n = 5 THEN AtT(f[1], f[2], f[3], SubSeq(f, 4, 5)) ELSE Undefined
      [] form \in {"np_s", "pd_s"} -> IF n = 6 THEN AtT(f[1], f[2], f[3], SubSeq(f, 4, 6)) ELSE Undefined
      [] form = "np_ms" -> IF n = 7 /\ f[7] \in 0..999 THEN AtT(f[1], f[2], f[3], <<f[4], f[5], f[6], f[7] * 1000>>) ELSE Undefined
      [] form = "np_ns" -> IF n = 7 /\ f[7] \in 0..999999999 /\ f[7] % 1000 = 0
                           THEN AtT(f[1], f[2], f[3], <<f[4], f[5], f[6], f[7] \div 1000>>) ELSE Undefined
      [] form = "parts" -> IF n \in {3, 6} THEN AtT(f[1], f[2], f[3], SubSeq(f, 4, n)) ELSE Undefined
      [] form \in {"yyyymmdd_int", "yyyymmdd_str"} ->
            IF n = 1 /\ f[1] > 0 THEN AtT(f[1] \div 10000, (f[1] \div 100) % 100, f[1] % 100, <<>>) ELSE Undefined
      [] form = "ordinal_int" -> IF n = 1 /\ f[1] \in FirstDay..LastDay THEN Ok(f[1], 0, 0) ELSE Undefined
      [] form \in {"iso_str", "monthname_str"} -> IF StrTimeOk(f) THEN AtT(f[1], f[2], f[3], StrTime(f)) ELSE Undefined
      [] form = "yyyymmdd_frac" ->
            IF n = 3 /\ f[1] > 0 /\ f[2] \in 1..(f[3] - 1) /\ f[3] \in {2, 4, 8}
               /\ AtT(f[1] \div 10000, (f[1] \div 100) % 100, f[1] % 100, <<>>)[1] = "ok" THEN Unpinned ELSE Undefined
      [] form = "ordinal_frac" ->
            IF n = 3 /\ f[1] \in FirstDay..LastDay /\ f[2] \in 1..(f[3] - 1) /\ f[3] \in {2, 4, 8} THEN Unpinned ELSE Undefined
      [] form = "numeric_str" ->
            IF ~StrTimeOk(f) THEN Undefined ELSE
            LET day == IF dl = "uk" THEN f[1] ELSE f[2]
                mon == IF dl = "uk" THEN f[2] ELSE f[1]
                g   == StrTime(f) IN
            \* the cross-dialect rule: what stands where this dialect expects the month cannot be a month,
            \* while the string is a date of the other dialect: rejected, never silently swapped
            IF mon > 12 /\ day <= 12 THEN (IF AtT(f[3], day, mon, g)[1] = "ok" THEN Rejected ELSE Undefined)
            ELSE AtT(f[3], mon, day, g)
      [] OTHER -> Undefined

DropTime(r) == IF r[1] = "ok" THEN Ok(r[2], 0, 0) ELSE r
\* op = "dt": dt(spelling);  op = "ymd": ymd(spelling) - the same, without the time of day
Expected(op, form, f, dl) == IF op = "ymd" THEN DropTime(Denote(form, f, dl)) ELSE Denote(form, f, dl)

-----------------------------------------------------------------------------
(* Spelling an instant.  t = <<h, mi, s, us>>;  tl says how much of the time of day is written:  *)
(* 0 nothing, 1 hour, 2 minute, 3 second, 4 microsecond, 5 millisecond, 10 + k: the seconds with *)
(* k decimals (strings only).  wr is the convention of the writer of a numeric string: "dmy" (a  *)
(* UK writer) or "mdy" (a US writer).                                                            *)
Trunc(t, tl) == CASE tl = 0 -> <<0, 0, 0, 0>>
                  [] tl = 1 -> <<t[1], 0, 0, 0>>
                  [] tl = 2 -> <<t[1], t[2], 0, 0>>
                  [] tl = 3 -> <<t[1], t[2], t[3], 0>>
                  [] tl = 4 -> t
                  [] tl = 5 -> <<t[1], t[2], t[3], t[4] - (t[4] % 1000)>>
                  [] tl > 10 -> IF tl < 16 THEN <<t[1], t[2], t[3], t[4] - (t[4] % Pow10(16 - tl))>> ELSE t
TimeTail(w, tl) == CASE tl = 0 -> <<>>
                     [] tl = 2 -> <<w[1], w[2]>>
                     [] tl = 3 -> <<w[1], w[2], w[3]>>
                     [] tl = 4 -> w
                     [] tl > 10 -> <<w[1], w[2], w[3], IF tl <= 16 THEN w[4] \div Pow10(16 - tl) ELSE w[4] * Pow10(tl - 16), tl - 10>>
FracTls == {10 + k : k \in FracDigits}
Tls(form) == CASE form \in {"iso_str", "monthname_str", "numeric_str"} -> {0, 2, 3, 4} \cup FracTls
               [] form \in SevenForms \cup {"np_ns"} -> {0, 3, 4}
               [] form = "parts" -> {0, 3}
               [] form = "np_h" -> {1}
               [] form = "np_m" -> {2}
               [] form \in {"np_s", "pd_s"} -> {3}
               [] form = "np_ms" -> {5}
               [] OTHER -> {0}
Wrs(form) == IF form = "numeric_str" THEN {"dmy", "mdy"} ELSE {"-"}
DialectOf(wr) == IF wr = "mdy" THEN "us" ELSE "uk"

Spell(form, y, m, d, t, wr, tl) ==
    LET w == Trunc(t, tl) IN
    CASE form \in SevenForms -> <<y, m, d, w[1], w[2], w[3], w[4]>>
      [] form \in {"date", "np_D"} -> <<y, m, d>>
      [] form = "np_h" -> <<y, m, d, w[1]>>
      [] form = "np_m" -> <<y, m, d, w[1], w[2]>>
      [] form \in {"np_s", "pd_s"} -> <<y, m, d, w[1], w[2], w[3]>>
      [] form = "np_ms" -> <<y, m, d, w[1], w[2], w[3], w[4] \div 1000>>
      [] form = "np_ns" -> <<y, m, d, w[1], w[2], w[3], w[4] * 1000>>
      [] form \in {"parts", "iso_str", "monthname_str"} -> <<y, m, d>> \o TimeTail(w, tl)
      [] form \in {"yyyymmdd_int", "yyyymmdd_str"} -> <<y * 10000 + m * 100 + d>>
      [] form = "ordinal_int" -> <<FastOrd(y, m, d)>>
      [] form = "numeric_str" -> (IF wr = "dmy" THEN <<d, m, y>> ELSE <<m, d, y>>) \o TimeTail(w, tl)
\* the instant that was spelled
Meant(y, m, d, t, tl) == LET w == Trunc(t, tl) IN At(y, m, d, w[1], w[2], w[3], w[4])

\* which clause of the property statement an expectation belongs to
Clause(op, form, wr, dl, want) ==
    IF op = "ymd" THEN "ymd_drops_time"
    ELSE IF form = "dt2str" THEN "dt2str_roundtrip"
    ELSE IF form = "numeric_str" /\ DialectOf(wr) # dl
         THEN (IF want = Rejected THEN "cross_dialect_reject" ELSE "cross_dialect_swap")
    ELSE "same_instant"

-----------------------------------------------------------------------------
(* dt(y, m, d) with month or day outside the calendar range: the first day of the normalised     *)
(* month plus d - 1 days.                                                                        *)
OverflowBase(y, m)   == LET nm == NormYM(y, m) IN FastOrd(nm[1], nm[2], 1) - 1      \* the day before the first of the normalised month
YMDOverflow(y, m, d) == OverflowBase(y, m) + d
\* the successor of a civil date (MC_Dates!OverflowWalk: one more day is the next civil date)
SuccYMD(x) == IF x[3] < DIM(x[1], x[2]) THEN <<x[1], x[2], x[3] + 1>>
              ELSE IF x[2] < 12 THEN <<x[1], x[2] + 1, 1>> ELSE <<x[1] + 1, 1, 1>>
-----------------------------------------------------------------------------
(* Mechanism model of uk2dt / us2dt for "a<sep>b<sep>yyyy" (src/pyg_base/_dates.py:292-322):     *)
(* dateutil reads month first unless the first number cannot be a month; the UK reader swaps     *)
(* when the parsed day is < 13, otherwise both readers compare the integer made of the first two *)
(* characters (after deleting '-' and '/') with the parsed day / month.  Results:                *)
(* <<"ok", month, day, microseconds kept>> or <<"exc", "ValueError">>.                           *)
DuParse(x, z) == IF x <= 12 THEN [mon |-> x, day |-> z] ELSE [mon |-> z, day |-> x]
\* int(t[:2].replace('-','').replace('/','')): '1.' is not an integer literal, '1 ' is
Head2Today(x, sep, pad) == IF x >= 10 \/ pad \/ sep # "." THEN <<"int", x>> ELSE <<"raise">>
Head2Fixed(x, sep, pad) == <<"int", x>>
Mech(H(_, _, _), keepus, x, z, dl, sep, pad) ==
    LET r == DuParse(x, z)  h == H(x, sep, pad) IN
    IF dl = "uk"
    THEN IF r.day < 13 THEN <<"ok", r.day, r.mon, keepus>>       \* dt(year, day, month, h, mi, s, us): us is ignored today
         ELSE IF h[1] = "raise" THEN Rejected
         ELSE IF h[2] # r.day THEN Rejected ELSE <<"ok", r.mon, r.day, TRUE>>
    ELSE IF h[1] = "raise" THEN Rejected
         ELSE IF h[2] # r.mon THEN Rejected ELSE <<"ok", r.mon, r.day, TRUE>>
MechToday(x, z, dl, sep, pad) == Mech(Head2Today, FALSE, x, z, dl, sep, pad)
MechFixed(x, z, dl, sep, pad) == Mech(Head2Fixed, TRUE, x, z, dl, sep, pad)
\* the law, in the same vocabulary (year 2000: every month has its maximal length)
LawNumeric(x, z, dl) ==
    LET r == Denote("numeric_str", <<x, z, 2000, 1, 2, 3, 4>>, dl) IN
    IF r[1] = "ok" THEN (LET cv == FastYMD(r[2]) IN <<"ok", cv[2], cv[3], r[4] = 4>>) ELSE r
=============================================================================
