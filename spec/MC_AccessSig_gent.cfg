CONSTANTS Wide = TRUE
INIT Init
NEXT EvalGen
