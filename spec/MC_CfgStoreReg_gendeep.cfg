CONSTANTS Names = {"x", "y", "CFG"}
          ItemKeys = {"a"}
          ItemVals = {1}
          MaxDepth = 2
          MaxLen = 4
          Menu = "deep"
INIT Init
NEXT NextGen
