CONSTANTS MaxCalls = 2
          MaxArgs = 2
          FreeCalls = 1
          Scope = "quick"
          Adopt = TRUE
INIT Init
NEXT Next
VIEW View
INVARIANT PoolUntouched
