CONSTANTS MaxCalls = 2
          MaxArgs = 2
          FreeCalls = 1
          Scope = "quick"
          Adopt = TRUE
          MaxEdits = 0
          MinEdits = 0
          Probes = TRUE
          FirstOps = {"inc", "exc", "find", "one"}
          Srcs = {"live"}
          Ons = {"t", "last"}
          NameIds = {0}
          Gen = FALSE
INIT Init
NEXT NextNoEdit
VIEW View
INVARIANT PoolUntouched
