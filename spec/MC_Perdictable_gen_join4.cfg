CONSTANT Sizes <- SZ_gen_join4
INIT Init
NEXT Gen
