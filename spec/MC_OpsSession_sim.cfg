\* S2C, thorough: longer histories of arbitrary calls and caller actions, drawn by TLC's simulator
CONSTANTS MaxSteps = 6
          FreeSteps = 6
          Scope = "thorough"
          Caller = TRUE
          Edits = TRUE
          Pairs = "also"
          Extend = FALSE
          Mech = FALSE
INIT Init
NEXT NextGenE
