INIT Init
NEXT Next
