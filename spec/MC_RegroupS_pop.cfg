CONSTANTS Scope = "quick"
          Mech = "pop"
          Loose = FALSE
          PlanSet = {"FII"}
INIT Init
NEXT Next
INVARIANT StepLaw
