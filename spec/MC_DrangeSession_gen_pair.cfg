\* S2C generator (quick): scripts of family pair
CONSTANTS Variant = "code"
          MaxCalls = 2
          Scope = "quick"
          Family = "pair"
INIT InitScript
NEXT NextScript
