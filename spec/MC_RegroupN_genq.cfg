CONSTANTS Fam = "both"
          NameIds = {0, 1, 2, 3, 4, 5, 6, 7}
          Rows = 2
          Rich = FALSE
INIT Init
NEXT NextGen
INVARIANT ListbyLaw
INVARIANT UnlistLaw
INVARIANT GroupbyLaw
INVARIANT UngroupLaw
INVARIANT PivotLaw
INVARIANT UnpivotLaw
