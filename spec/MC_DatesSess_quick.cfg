CONSTANTS SessYears = {2000}
          DayMod = 122
          MaxLen = 2
          Rot = 1
INIT Init
NEXT Next
INVARIANT FullKeyIsLaw
INVARIANT EveryKeyExposed
INVARIANT InDomain
