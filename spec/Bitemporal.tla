----------------------------- MODULE Bitemporal -----------------------------
(* Property C17: a bitemporal store (pyg_base._bitemporal: Bi, bi_merge, bi_read).             *)
(*                                                                                             *)
(* A *version* of a series is a partial map  observation date -> cell,  a cell being a value   *)
(* or NaN.  Versions are published with a *stamp* and merged into the store one after the       *)
(* other, in non-decreasing order of stamp (several may share a stamp).                         *)
(*                                                                                             *)
(*   pubs   ghost variable: the publication history, the sequence of <<stamp, version>> in the  *)
(*          order in which they were merged.  The LAW LEVEL (what a read must return) is        *)
(*          written over pubs alone, from the property statement.                               *)
(*   store  the store as the code keeps it (MECHANISM): per observation date the rows           *)
(*          <<cell, stamp>> that survive bi_merge = concat + sort by stamp + _drop_repeats.     *)
(*   out    the outcome of the last pure query (Read), NoOut after a call that is not a query.  *)
(*                                                                                             *)
(* Dates and instants are small integers (the drivers map them to real datetimes,               *)
(* monotonically).  Values are positive integers, and 0 stands for NaN.                         *)
(*                                                                                             *)
(* REALISATIONS OF INSTANTS.  A stamp or a read time reaches the code *written* as a wall clock *)
(* in a time zone: <<wall, zone>>, zone = the offset from UTC, the instant being wall - zone.   *)
(* One instant has one writing per zone, and one history may mix the zones freely (one desk     *)
(* publishes in UTC, another in New York; the reader sits in a third place).  The property      *)
(* speaks of instants: the LAW sees Instant(w) only; the MECHANISM keeps what it was handed,    *)
(* the written stamp, and has to order and compare written times as instants (ZoneAware).       *)
EXTENDS Integers, Sequences, FiniteSets, FiniteSetsExt, SequencesExt

CONSTANTS Dates,       \* observation dates of the model-checked universe
          Stamps,      \* publication stamps
          Vals,        \* values (positive integers)
          MaxMerges,   \* bound on Len(pubs) for exhaustive runs
          Stable,      \* TRUE: the sort by stamp keeps the concat order of equal stamps (old rows first)
          Zones,       \* the zones (offsets from UTC, in the unit of Stamps) a stamp / read time may be written in
          ZoneAware    \* TRUE: the mechanism compares written times as instants; FALSE: it drops the zone
                       \*       without converting and compares the wall clocks (must break the law)

VARIABLES pubs, store, out
bvars == <<pubs, store, out>>

NaN  == 0
Cell == Vals \cup {NaN}

\* ---- written times ---------------------------------------------------------------------------
Wall(w)       == w[1]
ZoneOf(w)     == w[2]
Instant(w)    == w[1] - w[2]
WrittenIn(t, z) == <<t + z, z>>                        \* the instant t as the clocks of zone z show it
Writings(t)   == {WrittenIn(t, z) : z \in Zones}
\* what the mechanism orders and compares written times by
Key(w)        == IF ZoneAware THEN Instant(w) ELSE Wall(w)

NoOut == [T |-> <<0, 0>>, what |-> 1, res |-> <<>>]    \* what = 1 is not a query of this spec

\* read times (instants): before, on, between (a stamp nobody used) and after all stamps
Times == (Min(Stamps) - 1)..(Max(Stamps) + 1)
\* ... and every way of writing them
WTimes  == UNION {Writings(T) : T \in Times}
WStamps == UNION {Writings(s) : s \in Stamps}
Whats == {-1, 0}

\* all non-empty partial maps Dates -> Cell
Versions == UNION {[S -> Cell] : S \in (SUBSET Dates) \ {{}}}

\* a partial map as the sequence of <<date, cell>> in date order (what crosses the JSON boundary)
MapSeq(m) == LET ds == SetToSortSeq(DOMAIN m, <) IN [i \in 1..Len(ds) |-> <<ds[i], m[ds[i]]>>]
SeqMap(q) == [d \in {q[i][1] : i \in DOMAIN q} |-> q[CHOOSE i \in DOMAIN q : q[i][1] = d][2]]

\* =============================================================================================
\* LAW LEVEL - from the property statement, over the publication history p alone
\* (p[i] = <<written stamp, version>>; the law reads the INSTANT of the stamp and nothing else;
\*  read times T are instants here)
\* =============================================================================================
StampOf(p, i) == Instant(p[i][1])
VerOf(p, i)   == p[i][2]

\* publications of date d that had been made by time T
Cands(p, d, T) == {i \in DOMAIN p : StampOf(p, i) <= T /\ d \in DOMAIN VerOf(p, i)}
\* dates published by T; a date first published after T has no row in an as-of-T read
PublishedBy(p, T) == UNION {DOMAIN VerOf(p, i) : i \in {j \in DOMAIN p : StampOf(p, j) <= T}}

\* publication i is later than j: larger stamp, or the same stamp and merged later
Later(p, i, j) == StampOf(p, i) > StampOf(p, j) \/ (StampOf(p, i) = StampOf(p, j) /\ i > j)
Latest(p, S)   == CHOOSE i \in S : \A j \in S \ {i} : Later(p, i, j)
Earliest(p, S) == CHOOSE i \in S : \A j \in S \ {i} : Later(p, j, i)

\* what = -1: the latest value published with stamp <= T; a NaN never overrides an earlier value
\* (so NaN is read only when nothing but NaN has been published for that date)
AsOfCell(p, d, T) ==
    LET real == {i \in Cands(p, d, T) : VerOf(p, i)[d] # NaN}
    IN  IF real = {} THEN NaN ELSE VerOf(p, Latest(p, real))[d]
AsOf(p, T) == [d \in PublishedBy(p, T) |-> AsOfCell(p, d, T)]

\* what = 0: "the first value published per date".  The statement settles same-stamp
\* publications only for the latest read ("of several sharing a stamp the one merged last").
\* Named deviation FirstPerStamp: a store that keeps one row per (date, stamp) cannot tell the
\* publications of the first stamp apart, so for what = 0 both readings are admitted -
\*   FirstPublished : the cell of the very first publication of the date, NaN included;
\*   FirstSettled   : the date as it stood once its first stamp was complete (= AsOf that stamp).
\* They differ only when several publications of the date share its first stamp.
FirstPublished(p, d, T) == VerOf(p, Earliest(p, Cands(p, d, T)))[d]
FirstSettled(p, d, T)   == AsOfCell(p, d, StampOf(p, Earliest(p, Cands(p, d, T))))
FirstAdmitted(p, d, T)  == {FirstPublished(p, d, T), FirstSettled(p, d, T)}

\* does the law admit the partial map f as the outcome of the query (T, what)?
AdmitsRead(p, T, what, f) ==
    IF what = -1 THEN f = AsOf(p, T)
    ELSE /\ DOMAIN f = PublishedBy(p, T)
         /\ \A d \in DOMAIN f : f[d] \in FirstAdmitted(p, d, T)
\* the set of admitted outcomes of a what = 0 read (small universes only: the generator prints it)
FirstReads(p, T) == {f \in [PublishedBy(p, T) -> Cell] : AdmitsRead(p, T, 0, f)}

\* A second, independent formulation of AsOf, valid when stamps are non-decreasing: replay the
\* publications in merge order; a cell replaces the current one unless it is NaN and there is one.
RECURSIVE FoldTo(_, _, _, _)
FoldTo(p, T, k, cur) ==
    IF k > Len(p) THEN cur
    ELSE IF StampOf(p, k) > T THEN FoldTo(p, T, k + 1, cur)
    ELSE LET v == VerOf(p, k)
             nxt == [d \in DOMAIN cur \cup DOMAIN v |->
                        IF d \notin DOMAIN v THEN cur[d]
                        ELSE IF d \notin DOMAIN cur THEN v[d]
                        ELSE IF v[d] = NaN THEN cur[d] ELSE v[d]]
         IN  FoldTo(p, T, k + 1, nxt)
AsOfFold(p, T) == FoldTo(p, T, 1, <<>>)

NonDecreasing(p) == \A i \in 1..(Len(p) - 1) : StampOf(p, i) <= StampOf(p, i + 1)

\* =============================================================================================
\* MECHANISM - the store as bi_merge / _drop_repeats / bi_read keep and read it
\* =============================================================================================
\* rows of one date: sequence of <<cell, written stamp>>; ordered and compared by Key
RowsOf(st, d) == IF d \in DOMAIN st THEN st[d] ELSE <<>>

\* pd.concat([old, new]).sort_values('updated'): with a stable sort the new row goes behind every
\* row with a stamp <= its own.  Stable = FALSE models an unstable sort: the new row may also land
\* in front of the stored row(s) with the same stamp.
PutAfter(rows, row, k) == SubSeq(rows, 1, k) \o <<row>> \o SubSeq(rows, k + 1, Len(rows))
InsertSlots(rows, row) ==
    LET le == Cardinality({i \in DOMAIN rows : Key(rows[i][2]) <= Key(row[2])})
        lt == Cardinality({i \in DOMAIN rows : Key(rows[i][2]) <  Key(row[2])})
    IN  IF Stable THEN {le} ELSE lt..le

\* _drop_repeats on the rows of one date (already sorted by stamp):
\*   no_updated.ffill(); a row whose forward-filled cell == the forward-filled cell before it is a
\*   repeat (numpy ==, so NaN is never a repeat of NaN) and is dropped; then
\*   drop_duplicates(subset = 'updated', keep = 'last')   (two writings of one instant are duplicates).
RECURSIVE FFill(_)
FFill(cells) == IF Len(cells) <= 1 THEN cells
                ELSE LET f == FFill(Front(cells))  x == Last(cells)
                     IN  Append(f, IF x = NaN THEN Last(f) ELSE x)
DropRepeats(rows) ==
    LET ff   == FFill([i \in DOMAIN rows |-> rows[i][1]])
        keep == {i \in DOMAIN rows : i = 1 \/ ff[i] = NaN \/ ff[i] # ff[i - 1]}
        r1   == [i \in 1..Cardinality(keep) |-> rows[SetToSortSeq(keep, <)[i]]]
        last == {i \in DOMAIN r1 : \A j \in DOMAIN r1 : j > i => Key(r1[j][2]) # Key(r1[i][2])}
    IN  [i \in 1..Cardinality(last) |-> r1[SetToSortSeq(last, <)[i]]]

\* bi_merge(store, Bi(version, stamp)): every date group of the concatenation is cleaned, also
\* the dates the new version does not mention.  `slot` gives, per date of v, where the sort puts
\* the new row.
MergeWith(st, s, v, slot) ==
    [d \in DOMAIN st \cup DOMAIN v |->
        DropRepeats(IF d \in DOMAIN v THEN PutAfter(RowsOf(st, d), <<v[d], s>>, slot[d]) ELSE st[d])]
SlotChoices(st, s, v) == {f \in [DOMAIN v -> 0..Max({Len(RowsOf(st, d)) : d \in DOMAIN v})] :
                            \A d \in DOMAIN v : f[d] \in InsertSlots(RowsOf(st, d), <<v[d], s>>)}
\* the deterministic (stable) merge
MergeStore(st, s, v) ==
    MergeWith(st, s, v, [d \in DOMAIN v |->
        Cardinality({i \in DOMAIN RowsOf(st, d) : Key(RowsOf(st, d)[i][2]) <= Key(s)})])

\* bi_merge(store, table) for a table with several stamps (an earlier snapshot of the store, a
\* re-delivered batch): per date the stored rows, then the table's rows, sorted by stamp with the
\* stable sort (each row of the table lands behind every row with a stamp <= its own), cleaned once.
RECURSIVE InsertAll(_, _)
InsertAll(rows, new) ==
    IF new = <<>> THEN rows
    ELSE LET row == Head(new)
             le  == Cardinality({i \in DOMAIN rows : Key(rows[i][2]) <= Key(row[2])})
         IN  InsertAll(PutAfter(rows, row, le), Tail(new))
MergeTable(st, tbl) == [d \in DOMAIN st \cup DOMAIN tbl |-> DropRepeats(InsertAll(RowsOf(st, d), RowsOf(tbl, d)))]
\* the store as it stood at the instant t: its rows stamped up to t (what a copy kept since then holds)
Snapshot(st, t) == [d \in {e \in DOMAIN st : \E i \in DOMAIN st[e] : Instant(st[e][i][2]) <= t} |->
                        SelectSeq(st[d], LAMBDA r : Instant(r[2]) <= t)]
StoredInstants(st) == UNION {{Instant(st[d][i][2]) : i \in DOMAIN st[d]} : d \in DOMAIN st}

\* bi_read(store, asof = T, what), T a written time: rows with stamp <= T, sorted by stamp, per
\* date the last (what = -1) or the first (what = 0) row; dates without such a row are absent.
Visible(rows, T) == SelectSeq(rows, LAMBDA r : Key(r[2]) <= Key(T))
ReadStore(st, T, what) ==
    [d \in {e \in DOMAIN st : Visible(st[e], T) # <<>>} |->
        LET r == Visible(st[d], T) IN IF what = -1 THEN r[Len(r)][1] ELSE r[1][1]]

\* "a version that is already in the store": every one of its rows is a stored row - the same
\* cell at the same instant, in whatever zone either stamp is written
InStore(st, s, v) == DOMAIN v # {} /\ \A d \in DOMAIN v : d \in DOMAIN st /\
                        \E i \in DOMAIN st[d] : st[d][i][1] = v[d] /\ Instant(st[d][i][2]) = Instant(s)

\* =============================================================================================
\* THE STATE MACHINE - one action per public call
\* =============================================================================================
BInit == pubs = <<>> /\ store = <<>> /\ out = NoOut

\* store = bi_merge(store, Bi(v, s))      (s a written stamp, its instant not before the last one merged)
Merge(s, v) ==
    /\ IF pubs = <<>> THEN TRUE ELSE Instant(s) >= StampOf(pubs, Len(pubs))
    /\ pubs' = Append(pubs, <<s, v>>)
    /\ IF Stable THEN store' = MergeStore(store, s, v)
       ELSE \E slot \in SlotChoices(store, s, v) : store' = MergeWith(store, s, v, slot)
    /\ out' = NoOut

\* store = bi_merge(store, Bi(v, s))      for a version already in the store: not a new publication
MergeAgain(s, v) ==
    /\ InStore(store, s, v)
    /\ pubs' = pubs
    /\ IF Stable THEN store' = MergeStore(store, s, v)
       ELSE \E slot \in SlotChoices(store, s, v) : store' = MergeWith(store, s, v, slot)
    /\ out' = NoOut

\* store = bi_merge(store, older), older = the store as it stood at the instant t (a copy kept
\* since, yesterday's file delivered again): every version in it is already in the store - not a
\* publication, and no as-of read may change.  One call, many stamps, older than what is stored.
Replay(t) ==
    /\ t \in StoredInstants(store)
    /\ pubs' = pubs
    /\ store' = MergeTable(store, Snapshot(store, t))
    /\ out' = NoOut

\* bi_read(store, asof = T, what), T a written time: a pure query
Read(T, what) ==
    /\ out' = [T |-> T, what |-> what, res |-> ReadStore(store, T, what)]
    /\ UNCHANGED <<pubs, store>>

DoMerge == Len(pubs) < MaxMerges /\ \E s \in WStamps, v \in Versions : Merge(s, v)
DoAgain == \E s \in WStamps, v \in Versions : MergeAgain(s, v)
DoReplay == \E t \in Stamps : Replay(t)
DoRead  == \E T \in WTimes, w \in Whats : Read(T, w)
BNext   == DoMerge \/ DoAgain \/ DoReplay \/ DoRead

\* =============================================================================================
\* PROPERTIES
\* =============================================================================================
\* the store is what the mechanism is meant to keep: per date strictly increasing stamps, and
\* NaN rows only before the first value
StoreShape == \A d \in DOMAIN store :
                 LET r == store[d] IN
                 /\ r # <<>>
                 /\ \A i \in 1..(Len(r) - 1) : Instant(r[i][2]) < Instant(r[i + 1][2])
                 /\ \A i \in 2..Len(r) : r[i][1] = NaN => r[i - 1][1] = NaN

\* reading as of T sees exactly what had been published by T
\* (in whatever zone T is written)
Refines      == \A T \in WTimes : ReadStore(store, T, -1) = AsOf(pubs, Instant(T))
\* what = 0 is the first value published per date
RefinesFirst == \A T \in WTimes : AdmitsRead(pubs, Instant(T), 0, ReadStore(store, T, 0))
\* no row for dates first published after T
NoLeak       == \A T \in WTimes, w \in Whats : DOMAIN ReadStore(store, T, w) = PublishedBy(pubs, Instant(T))
\* the outcome of a query is what the law says
ReadOK       == out = NoOut \/ AdmitsRead(pubs, Instant(out.T), out.what, out.res)
\* the law is consistent with itself: the two formulations agree on every history of the domain
LawsAgree    == NonDecreasing(pubs) /\ \A T \in Times : AsOf(pubs, T) = AsOfFold(pubs, T)

\* information stamped later than T never leaks into an as-of-T read: a Merge with stamp s leaves
\* every read at T < s unchanged
NoLookAhead == [][pubs' # pubs =>
                    \A T \in WTimes : Instant(T) < StampOf(pubs', Len(pubs')) =>
                        \A w \in Whats : ReadStore(store', T, w) = ReadStore(store, T, w)]_bvars
\* ... and the same of the law itself: what it admits for a read at T does not depend on
\* anything published after T
NoLookAheadLaw == [][pubs' # pubs =>
                    \A T \in Times : T < StampOf(pubs', Len(pubs')) =>
                        /\ AsOf(pubs', T) = AsOf(pubs, T)
                        /\ \A d \in PublishedBy(pubs, T) : FirstAdmitted(pubs', d, T) = FirstAdmitted(pubs, d, T)]_bvars
\* merging a version that is already in the store leaves every as-of read unchanged
\* (MergeAgain and Replay: the steps that keep pubs; ReplayKeeps says it of Replay by name, because
\*  a Replay that changes nothing at all is a stuttering step and invisible to AgainNoop)
ReplayKeeps == \A t \in StoredInstants(store) :
                  \A T \in WTimes, w \in Whats : ReadStore(MergeTable(store, Snapshot(store, t)), T, w) = ReadStore(store, T, w)
AgainNoop   == [][(pubs' = pubs /\ store' # store) =>
                    \A T \in WTimes, w \in Whats : ReadStore(store', T, w) = ReadStore(store, T, w)]_bvars

\* Named deviation DateRefused: a read time handed over as a plain calendar date (datetime.date,
\* not a datetime) is not an instant.  bi_read may refuse it (pandas will not compare its
\* timestamps with a date); when it answers, the answer must be the law at that day's midnight
\* (how the library itself reads a date: dt(date), and how Bi stamps with one).
RefusableT == {"date"}
=============================================================================
