CONSTANTS Names = {"x", "y", "z", "CFG"}
          ItemKeys = {"a", "b", "c"}
          ItemVals = {1, 2, 3, 4, 5}
          MaxDepth = 3
INIT Init
NEXT Next
