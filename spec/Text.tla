-------------------------------- MODULE Text --------------------------------
(* Extension X08-a: the text helpers of pyg_base (_txt.py) as laws over strings.                       *)
(* A string is a SEQUENCE OF CODE POINTS (naturals); a list of words is a sequence of such sequences.   *)
(* Law level, written from the docstrings / tests:                                                       *)
(*   prefix order IsPre, common prefix = the MEET of the values in that order (CommonPre), deprefix =     *)
(*   what is left after the meet (Deprefix; with a separator the same on whole words: DeprefixSep),       *)
(*   split / join (SplitOn, JoinWith: inverse of each other), replace = "continues to replace until no    *)
(*   more is found" (TxReplaceAll, a fixpoint; refused with ValueError when the old text occurs in the new  *)
(*   one), split with several separators and with dedup (SplitChars), and the character maps lower /      *)
(*   upper / capitalize / as_ascii / relabel_lower / bbgcase.                                             *)
(* Mechanism shaped twins (MechCommon, SplitMech) are compared with the law level inside TLC only.        *)
EXTENDS Naturals, Integers, Sequences, FiniteSets

\* ---- sequences -----------------------------------------------------------------------------------
TxTake(s, n) == SubSeq(s, 1, n)
TxDrop(s, n) == SubSeq(s, n + 1, Len(s))
IsPre(p, s)  == Len(p) <= Len(s) /\ \A i \in 1..Len(p) : p[i] = s[i]
IsSuf(p, s)  == Len(p) <= Len(s) /\ TxDrop(s, Len(s) - Len(p)) = p
OccursAt(s, x, i) == i >= 1 /\ i + Len(x) - 1 <= Len(s) /\ SubSeq(s, i, i + Len(x) - 1) = x
\* Python's  x in s  (the empty string occurs in every string)
Occurs(s, x) == x = <<>> \/ \E i \in 1..Len(s) : OccursAt(s, x, i)
FirstOcc(s, x) == IF \E i \in 1..Len(s) : OccursAt(s, x, i)
                  THEN CHOOSE i \in 1..Len(s) : OccursAt(s, x, i) /\ \A j \in 1..(i - 1) : ~OccursAt(s, x, j)
                  ELSE 0
RECURSIVE TxFlat(_)
TxFlat(ss) == IF ss = <<>> THEN <<>> ELSE ss[1] \o TxFlat(Tail(ss))

\* ---- the prefix order and its meet -----------------------------------------------------------------
\* vs: a non-empty sequence of sequences.  The common prefix is the longest p with p <= v for every v.
CommonLen(vs) == CHOOSE n \in 0..Len(vs[1]) :
                    /\ \A i \in DOMAIN vs : IsPre(TxTake(vs[1], n), vs[i])
                    /\ \A m \in 0..Len(vs[1]) : (\A i \in DOMAIN vs : IsPre(TxTake(vs[1], m), vs[i])) => m <= n
CommonPre(vs) == TxTake(vs[1], CommonLen(vs))
\* the loop of the code: advance while every value agrees with the first at position i
RECURSIVE MechScan(_, _)
MechScan(vs, i) == IF (\A k \in DOMAIN vs : i + 1 <= Len(vs[k]) /\ vs[k][i + 1] = vs[1][i + 1]) THEN MechScan(vs, i + 1) ELSE i
MechCommon(vs) == TxTake(vs[1], MechScan(vs, 0))
\* one remainder per value; nothing to do for no value at all
Deprefix(vs) == IF vs = <<>> THEN <<>> ELSE [i \in DOMAIN vs |-> TxDrop(vs[i], CommonLen(vs))]

\* ---- split and join ---------------------------------------------------------------------------------
\* Python's  s.split(x)  for a non-empty x: cut at the leftmost occurrences, left to right
RECURSIVE SplitOn(_, _)
SplitOn(s, x) == LET i == FirstOcc(s, x) IN
                 IF i = 0 THEN <<s>> ELSE <<SubSeq(s, 1, i - 1)>> \o SplitOn(TxDrop(s, i + Len(x) - 1), x)
RECURSIVE JoinWith(_, _)
JoinWith(ws, x) == IF ws = <<>> THEN <<>> ELSE IF Len(ws) = 1 THEN ws[1] ELSE ws[1] \o x \o JoinWith(Tail(ws), x)
\* the words of s when every character of the set S separates
RECURSIVE SplitChars(_, _)
SplitChars(s, S) == IF \E i \in 1..Len(s) : s[i] \in S
                    THEN LET i == CHOOSE i \in 1..Len(s) : s[i] \in S /\ \A j \in 1..(i - 1) : s[j] \notin S
                         IN <<SubSeq(s, 1, i - 1)>> \o SplitChars(TxDrop(s, i), S)
                    ELSE <<s>>
NonEmpty(ws) == SelectSeq(ws, LAMBDA w : w # <<>>)

\* deprefix with a separator: the common prefix of the WORD lists is removed, the rest is joined again
DeprefixSep(vs, x) == IF vs = <<>> THEN <<>>
                      ELSE LET ws == [i \in DOMAIN vs |-> SplitOn(vs[i], x)]
                               n == CommonLen(ws)
                           IN [i \in DOMAIN vs |-> JoinWith(TxDrop(ws[i], n), x)]

\* ---- replace ----------------------------------------------------------------------------------------
\* Python's  s.replace(old, new)  for a non-empty old
ReplaceOnce(s, old, new) == JoinWith(SplitOn(s, old), new)
Diverged == <<-1>>
RECURSIVE ReplFix(_, _, _, _)
ReplFix(s, old, new, fuel) == IF FirstOcc(s, old) = 0 THEN s
                              ELSE IF fuel = 0 THEN Diverged
                              ELSE ReplFix(ReplaceOnce(s, old, new), old, new, fuel - 1)
Fuel == 12
TxReplaceAll(s, old, new) == ReplFix(s, old, new, Fuel)
\* several old texts: one after the other, each to its fixpoint
RECURSIVE ReplaceList(_, _, _)
ReplaceList(s, olds, new) == IF olds = <<>> \/ s = Diverged THEN s
                             ELSE ReplaceList(TxReplaceAll(s, olds[1], new), Tail(olds), new)
\* "cannot replace indefinitely": some old text occurs in the new one (the empty text occurs in everything)
Refused(olds, new) == \E k \in DOMAIN olds : Occurs(new, olds[k])

\* ---- characters -------------------------------------------------------------------------------------
IsUpperC(c) == (c >= 65 /\ c <= 90) \/ (c >= 192 /\ c <= 222 /\ c # 215)
IsLowerC(c) == (c >= 97 /\ c <= 122) \/ (c >= 224 /\ c <= 254 /\ c # 247)
LowerC(c) == IF IsUpperC(c) THEN c + 32 ELSE c
UpperC(c) == IF IsLowerC(c) THEN c - 32 ELSE c
Lower(s) == [i \in DOMAIN s |-> LowerC(s[i])]
Upper(s) == [i \in DOMAIN s |-> UpperC(s[i])]
Capitalize(s) == IF s = <<>> THEN <<>> ELSE <<UpperC(s[1])>> \o Lower(Tail(s))
Lo26 == [i \in 1..26 |-> 96 + i]
Up26 == [i \in 1..26 |-> 64 + i]

IsPrintable(c) == c >= 32 /\ c <= 126          \* the characters an ASCII text shows
IsControl(c)   == c < 32 \/ c = 127            \* not pinned by the name "as_ascii" (named deviation ControlChars)
\* as_ascii keeps the ASCII characters, in order, and drops everything else
AsAscii(s) == SelectSeq(s, IsPrintable)
NoControl(s) == SelectSeq(s, LAMBDA c : ~IsControl(c))

IsSpaceC(c) == c \in {32, 9, 10, 11, 12, 13}
RECURSIVE LStrip(_)
LStrip(s) == IF s # <<>> /\ IsSpaceC(s[1]) THEN LStrip(Tail(s)) ELSE s
RECURSIVE RStrip(_)
RStrip(s) == IF s # <<>> /\ IsSpaceC(s[Len(s)]) THEN RStrip(TxTake(s, Len(s) - 1)) ELSE s
Strip(s) == RStrip(LStrip(s))
Punct  == {34, 39, 44, 59, 46, 40, 41, 163, 36, 35, 58, 63}       \*  " ' , ; . ( ) pound $ # : ?   are dropped
ToUnder == {47, 32, 38}                                           \*  / space &                    become _
RelabelLower(s) == LET t == SelectSeq(Strip(s), LAMBDA c : c \notin Punct)
                   IN Lower([i \in DOMAIN t |-> IF t[i] \in ToUnder THEN 95 ELSE t[i]])

\* Bloomberg case: everything upper case, except that a yellow key standing as a word after the ticker is
\* written Comdty / Index / ...
YellowKeys == << <<67, 111, 109, 100, 116, 121>>, <<73, 110, 100, 101, 120>>, <<67, 117, 114, 110, 99, 121>>, <<67, 111, 114, 112>>,
                 <<80, 102, 100>>, <<69, 113, 117, 105, 116, 121>>, <<71, 111, 118, 116>>, <<77, 116, 103, 101>> >>
IsYellow(w) == \E k \in DOMAIN YellowKeys : Upper(YellowKeys[k]) = w
YellowOf(w) == YellowKeys[CHOOSE k \in DOMAIN YellowKeys : Upper(YellowKeys[k]) = w]
BbgCase(s) == LET ws == SplitOn(Upper(s), <<32>>)
              IN JoinWith([i \in DOMAIN ws |-> IF i > 1 /\ IsYellow(ws[i]) THEN YellowOf(ws[i]) ELSE ws[i]], <<32>>)
\* the domain in which the rule above is all there is to say: at most one kind of yellow key among the words, and no
\* other word merely beginning with one
BbgDomain(s) == LET ws == SplitOn(Upper(s), <<32>>) IN
                /\ Cardinality({ws[i] : i \in {j \in DOMAIN ws : j > 1 /\ IsYellow(ws[j])}}) <= 1
                /\ \A i \in DOMAIN ws : \A k \in DOMAIN YellowKeys :
                      (i > 1 /\ IsPre(Upper(YellowKeys[k]), ws[i])) => ws[i] = Upper(YellowKeys[k])

\* proper: every word (between single blanks) capitalised
Proper(s) == LET ws == SplitOn(s, <<32>>) IN JoinWith([i \in DOMAIN ws |-> Capitalize(ws[i])], <<32>>)
\* the characters whose case maps are the ones written above: Latin-1 without the three letters whose capital is not
\* in Latin-1 (micro sign, sharp s, y with diaeresis) and a few characters without case from elsewhere
Caseless == {8364, 20013, 8211}
CaseDomain(s) == \A i \in DOMAIN s : (s[i] < 256 /\ s[i] \notin {181, 223, 255}) \/ s[i] \in Caseless
\* strip knows more blanks than IsSpaceC: texts holding those are outside the domain
OtherSpace == {28, 29, 30, 31, 133, 160}
SpaceDomain(s) == \A i \in DOMAIN s : s[i] \notin OtherSpace /\ (s[i] < 256 \/ s[i] \in Caseless)

\* f12: a float written with two decimals, the nearest such decimal (ties to the even one).  x = num / den, den a power of two
\* (such a float is exact, so "nearest" is about the number itself)
RECURSIVE DigitsOf(_)
DigitsOf(n) == IF n < 10 THEN <<48 + n>> ELSE DigitsOf(n \div 10) \o <<48 + (n % 10)>>
F12(num, den) == LET a  == IF num < 0 THEN -num ELSE num
                     q  == (a * 100) \div den
                     r  == (a * 100) % den
                     h  == IF 2 * r > den \/ (2 * r = den /\ q % 2 = 1) THEN q + 1 ELSE q
                 IN (IF num < 0 THEN <<45>> ELSE <<>>) \o DigitsOf(h \div 100) \o <<46, 48 + ((h % 100) \div 10), 48 + (h % 10)>>

\* ---- values and outcomes as they cross the boundary ----------------------------------------------------
TStr(s)   == <<"s", s>>
TNone     == <<"n", 0>>
TInt(k)   == <<"i", k>>
TStrs(ws) == <<"ls", ws>>                \* a list of strings
TInts(s)  == <<"li", s>>                 \* a list of ints (common_prefix works on any sequences)
TFlt(n, d) == <<"f", <<n, d>>>>          \* a float, exactly n / d
Val(v)    == [kind |-> "val", v |-> v]
Exc(cls)  == [kind |-> "exc", cls |-> cls]
IsStrV(x) == x[1] = "s"

\* the separators of one split call as the set of characters, when all of them are single characters
SepChars(seps) == {seps[k][1] : k \in DOMAIN seps}
SingleChars(seps) == \A k \in DOMAIN seps : Len(seps[k]) = 1
\* the code's way: the other separators are first replaced by the first one
SplitMech(s, seps, dedup) == LET t  == IF Len(seps) > 1 THEN ReplaceList(s, Tail(seps), seps[1]) ELSE s
                                 ws == SplitOn(t, seps[1])
                             IN IF dedup THEN NonEmpty(ws) ELSE ws
SplitLaw(s, seps, dedup) == LET sp == IF seps = <<>> THEN << <<32>> >> ELSE seps          \* no separator given: a blank
                                ws == IF Len(sp) = 1 THEN SplitOn(s, sp[1]) ELSE SplitChars(s, SepChars(sp))
                            IN IF dedup THEN NonEmpty(ws) ELSE ws

\* ---- what a call must show: the SET of admitted outcomes ------------------------------------------------
\* c = [op, ...]; non-strings pass through every helper unchanged ("does not throw on non-string")
TextInDomain(c) ==
    CASE c.op = "common_prefix" -> c.vs # <<>> \/ c.form = "args"
      [] c.op = "deprefix" -> TRUE
      [] c.op = "replace" -> IsStrV(c.x) => (Refused(c.olds, c.new) \/ ReplaceList(c.x[2], c.olds, c.new) # Diverged)
      [] c.op = "split" -> IsStrV(c.x) => /\ \A k \in DOMAIN c.seps : c.seps[k] # <<>>
                                          /\ Len(c.seps) > 1 => (SingleChars(c.seps) /\ Cardinality(SepChars(c.seps)) = Len(c.seps))
      [] c.op = "bbgcase" -> IsStrV(c.x) => BbgDomain(c.x[2])
      [] c.op = "as_ascii" -> IsStrV(c.x) => \A i \in DOMAIN c.x[2] : ~IsControl(c.x[2][i])
      [] c.op \in {"lower", "upper", "capitalize", "proper"} -> IsStrV(c.x) => CaseDomain(c.x[2])
      [] c.op = "relabel_lower" -> IsStrV(c.x) => (CaseDomain(c.x[2]) /\ SpaceDomain(c.x[2]))
      [] c.op = "strip" -> IsStrV(c.x) => SpaceDomain(c.x[2])
      [] c.op = "f12" -> c.x[1] = "f" => (c.x[2][2] \in {1, 2, 4, 8, 16, 32, 64} /\ c.x[2][1] < 1000000 /\ c.x[2][1] > -1000000)
      [] OTHER -> TRUE

TextWant(c) ==
    CASE c.op = "common_prefix" ->
           IF c.vs = <<>> THEN {Val(TNone)}
           ELSE {Val(IF c.elem = "s" THEN TStr(CommonPre(c.vs)) ELSE TInts(CommonPre(c.vs)))}
      [] c.op = "deprefix" ->
           {Val(TStrs(IF c.sep = <<>> THEN Deprefix(c.vs) ELSE DeprefixSep(c.vs, c.sep)))}
      [] c.op = "replace" ->
           IF ~IsStrV(c.x) THEN {Val(c.x)}
           ELSE IF Refused(c.olds, c.new) THEN {Exc("ValueError")}
           ELSE {Val(TStr(ReplaceList(c.x[2], c.olds, c.new)))}
      [] c.op = "split" ->
           IF ~IsStrV(c.x) THEN {Val(c.x)} ELSE {Val(TStrs(SplitLaw(c.x[2], c.seps, c.dedup)))}
      [] c.op = "as_ascii"      -> IF ~IsStrV(c.x) THEN {Val(c.x)} ELSE {Val(TStr(AsAscii(c.x[2])))}
      [] c.op = "capitalize"    -> IF ~IsStrV(c.x) THEN {Val(c.x)} ELSE {Val(TStr(Capitalize(c.x[2])))}
      [] c.op = "lower"         -> IF ~IsStrV(c.x) THEN {Val(c.x)} ELSE {Val(TStr(Lower(c.x[2])))}
      [] c.op = "upper"         -> IF ~IsStrV(c.x) THEN {Val(c.x)} ELSE {Val(TStr(Upper(c.x[2])))}
      [] c.op = "proper"        -> IF ~IsStrV(c.x) THEN {Val(c.x)} ELSE {Val(TStr(Proper(c.x[2])))}
      [] c.op = "strip"         -> IF ~IsStrV(c.x) THEN {Val(c.x)} ELSE {Val(TStr(Strip(c.x[2])))}
      [] c.op = "f12"           -> IF c.x[1] # "f" THEN {Val(c.x)} ELSE {Val(TStr(F12(c.x[2][1], c.x[2][2])))}
      [] c.op = "relabel_lower" -> IF ~IsStrV(c.x) THEN {Val(c.x)} ELSE {Val(TStr(RelabelLower(c.x[2])))}
      [] c.op = "bbgcase"       -> IF ~IsStrV(c.x) THEN {Val(c.x)} ELSE {Val(TStr(BbgCase(c.x[2])))}
      [] c.op = "alphabet"      -> {Val(TStr(Lo26))}
      [] c.op = "ALPHABET"      -> {Val(TStr(Up26))}

\* the clause a wrong outcome is reported under
TextClause(c, out) ==
    IF out.kind = "exc" /\ \A w \in TextWant(c) : w.kind # "exc" THEN c.op \o "_raised" ELSE c.op \o "_result"
=============================================================================
