CONSTANTS MaxCalls = 5
          MaxArgs = 3
          FreeCalls = 5
          Scope = "thorough"
          Adopt = FALSE
INIT Init
NEXT Next
CONSTRAINT GenBound
