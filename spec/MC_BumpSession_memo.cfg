\* must violate NoMemory: memoised parser whose compound tails share the list of the shorter tenor
CONSTANTS Variant = "memo"
          MaxSteps = 3
          MaxLen = 4
          Shape = "collide"
          Scope = "quick"
          Emitting = FALSE
INIT Init
NEXT NextCollide
INVARIANT NoMemory
