----------------------------- MODULE Trace_Curve -----------------------------
(* Trace validation for extension X03-a: each line of the log is one public call                 *)
(*     interpolate(a, y, x, fill_value = .., assume_sorted = ..)                                 *)
(* with its operands as abstract objects (see Curve.tla) before and after the call and the       *)
(* encoded outcome (an object, or [k |-> "exc", cls |-> ..]).                                    *)
EXTENDS Curve, Batch

Distinct(s) == \A i \in 1..Len(s), j \in 1..Len(s) : i # j => s[i] # s[j]
IncreasingQ(s) == \A i \in 1..(Len(s) - 1) : Lt(s[i], s[i + 1])
KnotRows(o) == CASE o.x.k = "v" -> <<o.x.v>>
                 [] o.x.k \in {"m", "f"} -> o.x.v
                 [] o.x.k = "none" -> <<o.y.c>>
WellObs(o) == /\ o.fill \in Fills
              /\ \A r \in 1..Len(KnotRows(o)) : LET kr == KnotRows(o)[r] IN
                    /\ \A i \in 1..Len(kr) : IsV(kr[i])
                    /\ Distinct(kr) /\ (o.sorted = 1 => IncreasingQ(kr))

Verdict(o) ==
    IF ~WellObs(o) THEN "malformed_observation"
    ELSE IF ~FloatExact(o.a, o.y, o.x, o.fill) THEN "outside_float_exact_domain"      \* the driver's mistake, not the code's
    ELSE IF o.a_after # o.a \/ o.y_after # o.y \/ o.x_after # o.x THEN "operand_changed"
    ELSE IF o.out.k = "exc" THEN "raised"
    ELSE LET w == Interp(o.a, o.y, o.x, o.fill) IN
         IF o.out.k # w.k THEN "shape"
         ELSE IF w.k \in {"s", "f"} /\ o.out.t # w.t THEN "dates"
         ELSE IF w.k = "f" /\ o.a.k = "f" /\ o.out.c # w.c THEN "labels"
         ELSE IF o.out.v # w.v THEN "values" ELSE ""

Init == BatchInit
Next == BatchNext(Verdict)
=============================================================================
