CONSTANTS Dates = {1}
          Stamps = {1, 2, 3, 4}
          Vals = {1, 2}
          MaxMerges = 6
          MaxAgain = 0
          Stable = TRUE
          Zones = {0}
          ZoneAware = TRUE
INIT Init
NEXT NextMC
CONSTRAINT ReadsAreLeaves
INVARIANT MCStoreShape
INVARIANT MCRefines
INVARIANT MCRefinesFirst
INVARIANT MCNoLeak
INVARIANT ReadOK
INVARIANT MCLawsAgree
INVARIANT MCReplayKeeps
PROPERTY NoLookAhead
PROPERTY NoLookAheadLaw
PROPERTY AgainNoop
