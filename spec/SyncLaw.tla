------------------------------- MODULE SyncLaw -------------------------------
(* Property C03, the part of the law that Series.tla (shared with C08, C12, C13) does not carry: *)
(*                                                                                             *)
(*  1. Column policies.  "multi-column frames onto the matching common column set": the column  *)
(*     policy is a record [how |-> "ij" | "oj" | "lj" | "rj" | "ex" | "none", c |-> <<names>>]:   *)
(*     the intersection, the union, the columns of the first / of the last multi-column frame    *)
(*     met, or the column set explicitly supplied (c, used by "ex" only); "none" = the index only *)
(*     (df_reindex; df_sync(columns = None / False)).  Series.tla's CommonCols knows ij / oj.      *)
(*                                                                                             *)
(*  2. Dict containers are ORDERED and have a CLASS.  "the container structure is preserved":    *)
(*     a dict node is [k |-> "d", cls |-> "dict" | "odict" | "Dict" | "dictattr", keys |-> <<..>>, *)
(*     items |-> <<..>>] with keys in the order a user observes by iteration (insertion order,    *)
(*     not sorted); the result must list the same keys in the same order in a container of the    *)
(*     same class, at every nesting level, and a presync-decorated function receives its keyword  *)
(*     arguments in the order of the call.  "First / last timeseries (frame) met" of the lj / rj  *)
(*     policies follows that order too.  All operators of Series.tla that walk a tree rebuild a   *)
(*     node with EXCEPT !.items, so the order and the class travel with the node; what changes    *)
(*     here is that observations are no longer brought into a canonical key order before they     *)
(*     are compared (Series!Canon is not used any more).                                         *)
(*                                                                                             *)
(*  3. Bare arrays of any dtype.  A cell of a boolean array is VBool; an array that is NaN-padded *)
(*     cannot stay boolean (or integer): named deviation BoolAsNumber - in a padded array True /   *)
(*     False may come back as 1 / 0.  The padding itself must be NaN whatever the dtype was.       *)
(*                                                                                             *)
(*  4. A presync-decorated function is an OBJECT whose state is the policy it was decorated with  *)
(*     [join, m, cols].  A call may carry call-time overrides (join = / method = / columns =); the  *)
(*     policy in force for that call is the override where given, the decoration elsewhere, and    *)
(*     the call leaves the object's policy as it was.  The variants f.ij / .oj / .lj / .rj /       *)
(*     .ffill / .bfill are NEW objects; the object they were derived from keeps its policy.        *)
EXTENDS Series

\* ---------------------------------------------------------------------------------------------
\* column policies
\* ---------------------------------------------------------------------------------------------
NoCols == [how |-> "none", c |-> <<>>]
ColPol(h) == [how |-> h, c |-> <<>>]
ColEx(cs) == [how |-> "ex", c |-> cs]
\* colsets: the column sets of the multi-column frames in the order in which they are met
CommonColsX(cp, colsets) ==
    CASE cp.how = "ij" -> InterAll(colsets)
      [] cp.how = "oj" -> UnionAll(colsets)
      [] cp.how = "lj" -> colsets[1]
      [] cp.how = "rj" -> colsets[Len(colsets)]
      [] cp.how = "ex" -> Range(cp.c)
ColsOfX(tree, cp) == LET fs == MultiLeaves(tree) IN CommonColsX(cp, [i \in 1..Len(fs) |-> Cols(fs[i])])
Recolumns(tree, cp) == cp.how # "none" /\ MultiLeaves(tree) # <<>>

\* The law of df_sync (df_reindex: cp = NoCols) for one reading of "observation" of a frame.
SyncX(tree, pol, m, cp, reading) ==
    IF TsLeaves(tree) # <<>> THEN
        LET recol == Recolumns(tree, cp)
        IN  MapTs(tree, IndexOf(tree, pol), m, recol, IF recol THEN ColsOfX(tree, cp) ELSE {}, reading)
    ELSE Sync(tree, pol, m, "none", reading)          \* bare arrays / nothing to align: no columns involved
\* BoolAsNumber: the booleans of the arrays that were padded, as numbers
NumCell(x) == IF Tag(x) = "b" THEN VFlt(Pay(x), 1) ELSE x
RECURSIVE MapArrNum(_, _, _)
MapArrNum(x, n, m) ==
    IF IsCont(x) THEN [x EXCEPT !.items = [i \in 1..Len(x.items) |-> MapArrNum(x.items[i], n, m)]]
    ELSE IF IsArr(x) THEN (LET r == AlignEnd(x, n, m) IN IF n > Len(x.v) THEN [r EXCEPT !.v = [p \in 1..n |-> NumCell(r.v[p])]] ELSE r)
    ELSE x
IsArraysX(tree, pol) == TsLeaves(tree) = <<>> /\ ArrLeaves(tree) # <<>> /\ (pol.how # "ex" \/ "n" \in DOMAIN pol)
SyncOutcomesX(tree, pol, m, cp) ==
    {SyncX(tree, pol, m, cp, rd) : rd \in Readings}
    \cup (IF IsArraysX(tree, pol) THEN LET as == ArrLeaves(tree) IN {MapArrNum(tree, JointLen(pol, [i \in 1..Len(as) |-> Len(as[i].v)]), m)} ELSE {})

\* presync: the call disciplines of Series!PresyncOutcomes, for every column policy
PresyncOutcomesX(tree, pol, m, cp) ==
    IF ~Recolumns(tree, cp) \/ TsLeaves(tree) = <<>>
    THEN {{Collapse(w)} : w \in SyncOutcomesX(tree, pol, m, NoCols)}
    ELSE {{Collapse(SyncX(tree, pol, m, cp, rd))} : rd \in Readings}
         \cup {{ColView(SyncX(tree, pol, m, NoCols, rd), c, sc) : c \in ColsOfX(tree, cp)} : rd \in Readings, sc \in BOOLEAN}

\* ---------------------------------------------------------------------------------------------
\* presync-decorated functions as objects: decoration, call-time overrides, derived variants
\* ---------------------------------------------------------------------------------------------
\* a policy: [join |-> "ij" | "oj" | "lj" | "rj", m |-> "none" | "ffill" | "bfill", cols |-> "ij" | "oj" | "lj" | "rj"]
\* an override: the same record, "-" where the call gives nothing
NoOverride == [join |-> "-", m |-> "-", cols |-> "-"]
Effective(dec, ov) == [join |-> IF ov.join = "-" THEN dec.join ELSE ov.join,
                       m    |-> IF ov.m = "-" THEN dec.m ELSE ov.m,
                       cols |-> IF ov.cols = "-" THEN dec.cols ELSE ov.cols]
AfterCall(dec, ov) == dec                                  \* a call, with or without overrides, leaves the decoration as it is
Variants == {"ij", "oj", "lj", "rj", "ffill", "bfill"}
Variant(dec, v) == IF v \in {"ffill", "bfill"} THEN [dec EXCEPT !.m = v] ELSE [dec EXCEPT !.join = v]
\* the admissible sets of calls of the decorated function for a call under policy p
CallOutcomes(tree, p) == PresyncOutcomesX(tree, [how |-> p.join, t |-> <<>>], p.m, ColPol(p.cols))
\* a history: <<step>>, step = [op |-> "call", f |-> object number, ov |-> override] | [op |-> "derive", f |-> object number, v |-> variant]
\* (objects are numbered in the order of their creation, 1 = the decorated function itself)
RECURSIVE ObjectsAfter(_, _, _)
ObjectsAfter(objs, hist, n) ==          \* the policies of the objects after the first n steps
    IF n = 0 THEN objs
    ELSE LET before == ObjectsAfter(objs, hist, n - 1)  st == hist[n] IN
         IF st.op = "derive" THEN Append(before, Variant(before[st.f], st.v))
         ELSE [before EXCEPT ![st.f] = AfterCall(before[st.f], st.ov)]
\* the policy in force for step n (a call) of the history of a function decorated with dec
InForce(dec, hist, n) == Effective(ObjectsAfter(<<dec>>, hist, n - 1)[hist[n].f], hist[n].ov)

\* ---------------------------------------------------------------------------------------------
\* ordered dicts with a class
\* ---------------------------------------------------------------------------------------------
DictClasses == {"dict", "odict", "Dict", "dictattr"}
RECURSIVE DictNodes(_)
\* <<class, keys>> of every dict node, in the order in which the nodes are met
DictNodes(x) == IF ~IsCont(x) THEN <<>>
                ELSE (IF x.k = "d" THEN <<<<x.cls, x.keys>>>> ELSE <<>>) \o FlattenSeq([i \in 1..Len(x.items) |-> DictNodes(x.items[i])])
RECURSIVE Reorder(_, _)
\* g with the members of its dicts listed in the order of w's, wherever they hold the same keys
Reorder(g, w) ==
    IF g.k = "d" /\ w.k = "d" /\ Len(g.keys) = Len(w.keys) /\ Range(g.keys) = Range(w.keys)
    THEN [g EXCEPT !.keys = w.keys,
                   !.items = [i \in 1..Len(w.keys) |-> Reorder(g.items[CHOOSE j \in 1..Len(g.keys) : g.keys[j] = w.keys[i]], w.items[i])]]
    ELSE IF g.k = "l" /\ w.k = "l" /\ Len(g.items) = Len(w.items)
    THEN [g EXCEPT !.items = [i \in 1..Len(w.items) |-> Reorder(g.items[i], w.items[i])]]
    ELSE g
RECURSIVE Reclass(_, _)
\* g with its dicts given the class of w's, wherever the two trees have the same build
Reclass(g, w) ==
    IF g.k = "d" /\ w.k = "d" /\ Len(g.items) = Len(w.items) /\ "cls" \in DOMAIN g
    THEN [g EXCEPT !.cls = w.cls, !.items = [i \in 1..Len(w.items) |-> Reclass(g.items[i], w.items[i])]]
    ELSE IF g.k = "l" /\ w.k = "l" /\ Len(g.items) = Len(w.items)
    THEN [g EXCEPT !.items = [i \in 1..Len(w.items) |-> Reclass(g.items[i], w.items[i])]]
    ELSE g

\* the first clause on which the observed collection g differs from the expected w
WhyNotX(w, g) ==
    IF ShapeOnly(g) = ShapeOnly(w) THEN WhyNot(w, g)
    ELSE IF ShapeOnly(Reorder(g, w)) = ShapeOnly(w) THEN "dict_order"
    ELSE IF ShapeOnly(Reclass(g, w)) = ShapeOnly(w) THEN "container_class"
    ELSE IF ShapeOnly(Reclass(Reorder(g, w), w)) = ShapeOnly(w) THEN "dict_order"
    ELSE "structure"
=============================================================================
