------------------------------- MODULE Civil -------------------------------
(* Proleptic Gregorian calendar arithmetic on integers, independent of Python's datetime.      *)
(* Ord(y, m, d) is Python's date.toordinal(): 0001-01-01 is day 1.  Weekday: Monday = 0.       *)
EXTENDS Integers

IsLeap(y) == (y % 4 = 0 /\ y % 100 # 0) \/ y % 400 = 0
DIM(y, m) == CASE m \in {1, 3, 5, 7, 8, 10, 12} -> 31
               [] m \in {4, 6, 9, 11} -> 30
               [] m = 2 -> IF IsLeap(y) THEN 29 ELSE 28
DaysInYear(y) == IF IsLeap(y) THEN 366 ELSE 365

\* days before January 1st of year y  (y >= 1)
DaysBeforeYear(y) == LET z == y - 1 IN z * 365 + z \div 4 - z \div 100 + z \div 400
\* days before the first of month m in year y
RECURSIVE DaysBeforeMonth(_, _)
DaysBeforeMonth(y, m) == IF m = 1 THEN 0 ELSE DaysBeforeMonth(y, m - 1) + DIM(y, m - 1)

ValidYMD(y, m, d) == y >= 1 /\ m \in 1..12 /\ d \in 1..DIM(y, m)
Ord(y, m, d) == DaysBeforeYear(y) + DaysBeforeMonth(y, m) + d

\* inverse: civil date from ordinal, by search inside the 400-year arithmetic (no recursion on days)
YearOf(o) == LET g == (o - 1) \div 146097            \* 400-year cycles
                 r == (o - 1) % 146097
                 guess == g * 400 + r \div 365 + 1    \* never too small, at most one too large
             IN  IF DaysBeforeYear(guess) >= o THEN guess - 1 ELSE guess
MonthOf(o) == LET y == YearOf(o)  k == o - DaysBeforeYear(y)
              IN  CHOOSE m \in 1..12 : DaysBeforeMonth(y, m) < k /\ k <= DaysBeforeMonth(y, m) + DIM(y, m)
DayOf(o)   == LET y == YearOf(o) IN o - DaysBeforeYear(y) - DaysBeforeMonth(y, MonthOf(o))
YMD(o)     == <<YearOf(o), MonthOf(o), DayOf(o)>>

Weekday(o) == (o + 6) % 7                              \* ordinal 1 (0001-01-01) is a Monday

\* normalise a month count outside 1..12 into <<year, month>>
NormYM(y, m) == <<y + (m - 1) \div 12, ((m - 1) % 12) + 1>>
=============================================================================
