CONSTANTS
 NS = 4
 NT = 3
 ND = 5
 SfTop = 400
 MaxNaN = 4
INIT Init
NEXT Eval
INVARIANT AllInDomain
INVARIANT CatIndex
INVARIANT CatThenColumn
INVARIANT CatInnerIsOuterCut
INVARIANT CatFillIsAsOf
INVARIANT CatFillKeeps
INVARIANT CatAssociates
INVARIANT StackRows
INVARIANT StackThenDropIsUpdate
INVARIANT AsSeriesRoundTrip
INVARIANT AsSeriesList
INVARIANT ColumnByName
INVARIANT ColumnByPosition
INVARIANT ColumnPassesThrough
INVARIANT ColumnsOrdered
INVARIANT RecolumnLaw
INVARIANT RecolumnIsSeriesLaw
INVARIANT NpReindexAtEnd
INVARIANT DropDupLaw
INVARIANT MaskLaw
INVARIANT ApplyIsAggregate
INVARIANT ApplyNaNOnlyWhereNoEntry
INVARIANT SfLaw
