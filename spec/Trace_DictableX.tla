--------------------------- MODULE Trace_DictableX ---------------------------
(* Trace validation for extension X02: every line is one recorded history of public calls on real *)
(* dictables with arbitrary arguments (random functions of random columns, relabel maps, if_none  *)
(* fills, pivots, construction forms, values incl. floats, NaN objects and dates).  After every    *)
(* call the driver logged the outcome (ok / exception class / the value a read returned) and the   *)
(* projection of all registers; the trace specification steps the operators of DictableXOps.tla    *)
(* over the events and compares outcome, every live table (column ORDER included, four observation *)
(* channels) and the aliasing structure.                                                            *)
EXTENDS DictableXOps, Batch

St0 == [heap |-> <<>>, reg |-> [r \in Regs |-> 0]]
TT(st, r) == st.heap[st.reg[r]]
XOutOf(res) == IF res.ok THEN XOutOk ELSE XOutExc(res.err)
DoAlloc(st, rd, res) == IF res.ok THEN [heap |-> Append(st.heap, res.t), reg |-> [st.reg EXCEPT ![rd] = Len(st.heap) + 1], out |-> XOutOk]
                        ELSE [heap |-> st.heap, reg |-> st.reg, out |-> XOutExc(res.err)]
\* rejected in-place calls of C01 leave the target alone; UpdateT hands back the partially updated target
DoInPlace(st, r, res, partial) == [heap |-> [st.heap EXCEPT ![st.reg[r]] = IF res.ok \/ partial THEN res.t ELSE @], reg |-> st.reg, out |-> XOutOf(res)]
DoRead(st, q) == [heap |-> st.heap, reg |-> st.reg, out |-> IF q.ok THEN XOutVal(q.v) ELSE XOutExc(q.err)]
DoIfNone(st, e) ==
    LET res == XIfNoneT(TT(st, e.r), e.none, e.kws)
        h1  == [st.heap EXCEPT ![st.reg[e.r]] = res.self] IN
    IF res.err # "ok" THEN [heap |-> h1, reg |-> st.reg, out |-> XOutExc(res.err)]
    ELSE IF res.alias THEN [heap |-> h1, reg |-> [st.reg EXCEPT ![e.rd] = st.reg[e.r]], out |-> XOutOk]
    ELSE [heap |-> Append(h1, res.res), reg |-> [st.reg EXCEPT ![e.rd] = Len(st.heap) + 1], out |-> XOutOk]
Apply(st, e) ==
    CASE e.op = "NewX"       -> DoAlloc(st, e.rd, XConstruct(e.seed))
      [] e.op = "Extend"     -> DoAlloc(st, e.rd, XExtendT(TT(st, e.r), e.extra))
      [] e.op = "Get"        -> DoRead(st, XGetT(TT(st, e.r), e.c, e.dflt))
      [] e.op = "GetAttr"    -> DoRead(st, XGetAttrT(TT(st, e.r), e.c, e.dflt))
      [] e.op = "TupleGet"   -> DoRead(st, XTupleGetT(TT(st, e.r), e.items))
      [] e.op = "Apply"      -> DoRead(st, XApplyT(TT(st, e.r), e.fn, e.defs))
      [] e.op = "IfElse"     -> DoRead(st, XIfElseT(TT(st, e.r), e.cond, e.a, e.b, e.defs))
      [] e.op = "Repr"       -> DoRead(st, XReprT(TT(st, e.r)))
      [] e.op = "DictConcat" -> DoRead(st, XQOk(XDictConcatV(e.recs)))
      [] e.op = "DictConcatRows" -> DoRead(st, XQOk(XDictConcatRowsV(TT(st, e.r))))
      [] e.op = "Call"       -> DoAlloc(st, e.rd, XCallT(TT(st, e.r), e.kws))
      [] e.op = "DoX"        -> DoAlloc(st, e.rd, XDoXT(TT(st, e.r), e.fs, e.cs, e.star))
      [] e.op = "Relabel"    -> DoAlloc(st, e.rd, XRelabelT(TT(st, e.r), e.form))
      [] e.op = "Unpivot"    -> DoAlloc(st, e.rd, XUnpivotT(TT(st, e.r), e.xs, e.y, e.z, e.ysel))
      [] e.op = "Xyz"        -> DoAlloc(st, e.rd, XyzT(TT(st, e.r), e.xs, e.y, e.z, e.agg))
      [] e.op = "UpdateFrom" -> DoInPlace(st, e.r, XUpdateFromT(TT(st, e.r), TT(st, e.r2)), TRUE)
      [] e.op = "IfNone"     -> DoIfNone(st, e)
      [] e.op = "SetCol"     -> DoInPlace(st, e.r, SetColT(TT(st, e.r), e.c, e.arg), FALSE)
      [] e.op = "DelCol"     -> DoInPlace(st, e.r, DelColT(TT(st, e.r), e.c), FALSE)
      [] e.op = "Copy"       -> DoAlloc(st, e.rd, Ok(TT(st, e.r)))

\* the specification judging itself on the recorded arguments: the mechanism model of d(..) must stay within
\* the law, and the recorded call must be inside the domain of the operator (a SPEC verdict is a failure of the
\* machinery, never a violation)
SpecVerdict(st, e) ==
    IF e.op = "Call" /\ XCallT(TT(st, e.r), e.kws) \notin XCallLaw(TT(st, e.r), e.kws) THEN "SPEC_call_mechanism_vs_law"
    ELSE IF e.op = "Xyz" /\ ~XyzDomain(TT(st, e.r), e.xs, e.y) THEN "SPEC_xyz_outside_domain"
    ELSE IF e.op = "DoX" /\ ~(Range(e.cs) \subseteq ColSet(TT(st, e.r))) THEN "SPEC_do_outside_domain"
    ELSE ""

\* the logged projection of one register against the abstract table
RegVerdict(st, r, p) ==
    IF st.reg[r] = 0 THEN (IF p.live THEN "register_should_be_empty" ELSE "")
    ELSE IF ~p.live THEN "register_lost"
    ELSE LET t == TT(st, r)  g == p.table IN
         IF g.ragged THEN "not_rectangular"
         ELSE IF Range(g.cols) # ColSet(t) THEN "columns"
         ELSE IF g.cols # t.cols THEN "column_order"
         ELSE IF g.rows # (IF t.cols = <<>> THEN <<>> ELSE t.rows) THEN "rows"
         ELSE IF g.len # NR(t) \/ g.shape # <<NR(t), Len(t.cols)>> THEN "len_or_shape"
         ELSE IF g.iter # g.rows THEN "iteration"
         ELSE IF g.cells # g.rows \/ g.bycol # g.rows THEN "cell_access"
         ELSE IF {s \in Regs : st.reg[s] = st.reg[r]} # Range(p.same) THEN "aliasing"
         ELSE ""
RECURSIVE FirstBad(_, _, _)
FirstBad(st, p, rs) == IF rs = <<>> THEN "" ELSE LET v == RegVerdict(st, Head(rs), p[Head(rs)]) IN IF v # "" THEN v ELSE FirstBad(st, p, Tail(rs))
RECURSIVE Run(_, _, _)
Run(st, events, k) ==
    IF k > Len(events) THEN ""
    ELSE LET e == events[k]  sv == SpecVerdict(st, e) IN
         IF sv # "" THEN "step" \o ToString(k) \o ":" \o sv
         ELSE LET nx == Apply(st, e) IN
              IF e.out # nx.out THEN "step" \o ToString(k) \o ":outcome"
              ELSE LET v == FirstBad(nx, e.post, <<"r1", "r2", "r3">>) IN
                   IF v # "" THEN "step" \o ToString(k) \o ":" \o v ELSE Run([heap |-> nx.heap, reg |-> nx.reg], events, k + 1)
Verdict(o) == Run(St0, o.events, 1)

Init == BatchInit
Next == BatchNext(Verdict)
=============================================================================
