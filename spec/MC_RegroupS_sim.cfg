CONSTANTS Scope = "sim"
          Mech = "law"
          Loose = TRUE
          PlanSet = {"XXXXXX"}
INIT Init
NEXT Next
INVARIANT StepLaw
INVARIANT IdsUnique
CONSTRAINT GenDone
