CONSTANTS MaxRows = 2
          Wide = FALSE
INIT Init
NEXT NextGen
