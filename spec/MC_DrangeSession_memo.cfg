\* must violate NoMemory: heading of a compound bump memoised per bump string
CONSTANTS Variant = "memo"
          MaxCalls = 2
          Scope = "quick"
          Family = "none"
INIT Init
NEXT Next
INVARIANT NoMemory
