------------------------- MODULE Trace_DecoratorsLong -------------------------
(* Trace validation of LONG histories for property C18 (Decorators.tla (c'): the laws of a cached function and of a      *)
(* wrapper object hold for histories of any length).  The observations are those of Trace_Decorators (parts "memo",      *)
(* "hist", "deco", every call with the order its keywords were written in), but with hundreds and thousands of events    *)
(* on ONE object: n distinct combinations of arguments, then repeats of early, middle and late ones.  Here a recorded     *)
(* history is a BEHAVIOUR: one initial state per line of the log, one step per block of recorded events, the abstract state of      *)
(* Trace_Decorators' folds (memo machine / heap and first results / decorated functions) carried as the variable st,     *)
(* every event judged by the very clause operators of Trace_Decorators (MemoStep, WrapClause / CallClause / HistNext,    *)
(* DecoClause / DecoNext).  The first event the specification cannot explain is reported; the rest of that history is    *)
(* consumed without a verdict (dead).                                                                                    *)
EXTENDS Trace_Decorators
VARIABLES i,        \* the next event of line l
          st,       \* the abstract state before it
          dead      \* an earlier event of this history was rejected

StartOf(o) == CASE o.part = "memo" -> [m |-> <<>>, ev |-> 0]
                [] o.part = "hist" -> [heap |-> <<>>, nev |-> 0, seen |-> <<>>]
                [] OTHER -> <<>>
\* [v = clause the event breaks, st = the state after it]
StepOf(o, s, e) ==
    CASE o.part = "memo" -> (LET r == MemoStep(o.sig, e, s.m, s.ev) IN [v |-> r.v, st |-> [m |-> r.m, ev |-> r.ev]])
      [] o.part = "hist" -> (LET v == IF e.op = "wrap" THEN WrapClause(o.sig, s, e) ELSE IF e.op = "mutate" THEN "" ELSE CallClause(o.sig, s, e) IN
                             [v |-> v, st |-> IF v = "" THEN HistNext(o.sig, s, e) ELSE s])
      [] o.part = "deco" -> (LET v == DecoClause(o, s, e) IN [v |-> v, st |-> IF v = "" THEN DecoNext(o, s, e) ELSE s])
      [] OTHER -> [v |-> "spec_unknown_part", st |-> s]
WellFormedObs(o) == IF o.part = "deco" THEN \A j \in 1..Len(o.sigs) : WellFormed(o.sigs[j]) ELSE WellFormed(o.sig)

LongInit == /\ c = 0 /\ l \in 1..N /\ i = 1 /\ st = StartOf(Obs[l]) /\ dead = FALSE
            /\ SessionInit([npos |-> 0, ndef |-> 0, varargs |-> FALSE, varkw |-> FALSE, alt |-> FALSE])
\* a step of the behaviour consumes a BLOCK of events (a short fold: states stay few, the recursion shallow)
BlockSize == 32
RECURSIVE Block(_, _, _, _)
Block(o, s, j, hi) == IF j > hi THEN [v |-> "", st |-> s]
                      ELSE LET r == StepOf(o, s, o.events[j]) IN
                           IF r.v # "" THEN [v |-> r.v \o "@" \o ToString(j), st |-> s] ELSE Block(o, r.st, j + 1, hi)
LongNext == /\ i <= Len(Obs[l].events)
            /\ LET o == Obs[l]  hi == IF i + BlockSize - 1 < Len(o.events) THEN i + BlockSize - 1 ELSE Len(o.events)
                   r == IF dead THEN [v |-> "", st |-> st]
                        ELSE IF ~WellFormedObs(o) THEN [v |-> "spec_bad_signature", st |-> st]
                        ELSE Block(o, st, i, hi) IN
               /\ IF r.v = "" THEN TRUE ELSE Reject(l, r.v)
               /\ st' = r.st /\ dead' = (dead \/ r.v # "")
               /\ i' = hi + 1
            /\ UNCHANGED <<c, l>> /\ UNCHANGED vars
=============================================================================
