------------------------------ MODULE MC_Order ------------------------------
(* (1) The documented mechanism CmpModel satisfies every axiom of property C07 on an abstract  *)
(*     universe of scalars and containers (all pairs as states, all triples inside invariants),*)
(*     and its stable sort is sorted, a permutation, stable and idempotent.                    *)
(* (2) Generator configurations enumerate the inputs of the S2C replay: lists for sort() and   *)
(*     small tables with key choices for dictable.sort(), each with the result CmpModel gives. *)
(* (3) Mode "big": the same two things over numbers of large magnitude (OrderBig: ints beyond  *)
(*     2^53 that share a double, floats at the edge of integer precision, huge / tiny floats,  *)
(*     negatives, containers of them): CmpModelExact and CmpModelX (through the doubles) both  *)
(*     satisfy the axioms and pinned entries, the exact-int fast path CmpModelFast does not; lists, *)
(*     tuples and tables over such numbers are enumerated for the S2C replay, and with them    *)
(*     lists of tuples / tables one longer over numbers and NaNs only (no TypeError fallback). *)
EXTENDS OrderBig, Json, SequencesExt
CONSTANTS MaxLen, Mode     \* Mode: "laws" | "lists" | "tuples" | "tables" | "big"

VARIABLES x, y, done
vars == <<x, y, done>>

D1 == <<"d", <<730120, 0, 0>>>>          \* 2000-01-01
D2 == <<"d", <<730120, 3600, 5>>>>
Scalars == {None, VBool(FALSE), VBool(TRUE), VInt(0), VInt(1), VInt(2), VFlt(1, 1), VFlt(5, 2), VFlt(-1, 2),
            VNaN(1), VNaN(2), VInf(1), VInf(-1), VStr(""), VStr("a"), VStr("b"), VStr("ab"), VStr("B"), D1, D2}
Few == {None, VInt(1), VFlt(1, 1), VNaN(1), VStr("a"), VInt(2)}
Containers == {VTup(<<>>), VLst(<<>>), <<"m", <<>>>>, VTup(<<VBool(TRUE)>>), VTup(<<VBool(FALSE)>>), VTup(<<VInt(0)>>), VLst(<<VBool(TRUE)>>)}
              \cup {VTup(<<a>>) : a \in Few} \cup {VLst(<<a>>) : a \in Few}
              \cup {VTup(<<a, b>>) : a \in Few, b \in {None, VInt(1), VNaN(2)}}
              \cup {VLst(<<a, b>>) : a \in {VInt(1), VStr("a")}, b \in Few}
              \cup {<<"m", <<<<"k", a>>>>>> : a \in Few} \cup {<<"m", <<<<"j", VInt(1)>>>>>>}
              \cup {<<"m", <<<<"j", a>>, <<"k", b>>>>>> : a \in {VInt(1), None}, b \in {VInt(1), VNaN(1)}}
              \cup {VTup(<<VTup(<<a>>), b>>) : a \in {VInt(1), VNaN(1)}, b \in {None, VInt(2)}}
U == Scalars \cup Containers

\* ---- (1) laws ---------------------------------------------------------------------------------
\* (every invariant is guarded by `done`: TLC evaluates invariants of initial states in one thread, those of
\*  successor states on all workers; each input is one initial state and its one successor)
C(u, v) == IF Mode = "big" THEN CmpModelExact(u, v) ELSE CmpModel(u, v)
Antisym   == (Mode = "laws" /\ done) => C(x, y) = -C(y, x)
Reflexive == (Mode = "laws" /\ done) => C(x, x) = 0
Transitive == (Mode = "laws" /\ done) => \A z \in U : (C(x, y) <= 0 /\ C(y, z) <= 0) => (C(x, z) <= 0 /\ ((C(x, y) < 0 \/ C(y, z) < 0) => C(x, z) < 0))
PinnedOK  == (Mode = "laws" /\ done) => (Pinned(x, y) => C(x, y) = PinnedValue(x, y))
NaNTop    == (Mode = "laws" /\ done) => ((IsNaN(x) /\ IsFinNum(y) /\ ~IsBool(y)) => C(x, y) = 1)
ModelXAgrees == (Mode = "laws" /\ done) => CmpModelX(x, y) = CmpModel(x, y)      \* OrderBig's mechanism is CmpModel on the old universe

\* sorting laws for the lists of the generator universes
SortU == {None, VInt(1), VInt(2), VFlt(1, 1), VFlt(5, 2), VNaN(1), VNaN(2), VStr("a"), VStr("b"), D1, D2, VInt(0)}
TupU  == {VTup(<<a, b>>) : a \in {None, VInt(1), VFlt(1, 1), VNaN(1), VStr("a")}, b \in {VInt(1), VNaN(2), VStr("b")}}
SeqsUpTo(S, n) == UNION {[1..k -> S] : k \in 0..n}
Sorted(xs) == \A i \in 1..(Len(xs) - 1) : C(xs[i], xs[i + 1]) <= 0
SortLaws == (Mode \in {"lists", "tuples"} /\ done) =>
              LET s == StableSort(C, x) IN Sorted(s) /\ IsPerm(x, s) /\ StableSort(C, s) = s

\* ---- tables for dictable.sort: key columns a, b and a row id ----------------------------------
KeyU == {None, VInt(1), VFlt(1, 1), VNaN(1), VStr("a"), VInt(2)}
RowsUpTo(n) == UNION {[1..k -> [a : KeyU, b : KeyU]] : k \in 0..n}
WithIds(rows) == [i \in 1..Len(rows) |-> [a |-> rows[i].a, b |-> rows[i].b, id |-> VInt(i)]]
Bys == {<<"a">>, <<"b">>, <<"a", "b">>, <<"b", "a">>}
KeyOf(row, by) == VTup([k \in 1..Len(by) |-> row[by[k]]])
TableSort(rows, by) == LET RC(r, s) == C(KeyOf(r, by), KeyOf(s, by)) IN StableSort(RC, rows)

\* ---- (3) numbers of large magnitude -------------------------------------------------------------
\* sign * (2^n + k), 0 <= k < 2^n (k a TLC int); sign * (2^n - 1)
XPlus(kind, sign, n, k) == VX(kind, sign, n, IF k = 0 THEN <<1>>
                                             ELSE <<1>> \o [j \in 1..(n - Len(XBitsOf(k))) |-> 0] \o XStrip(XBitsOf(k)))
XOnes(kind, sign, n) == VX(kind, sign, n - 1, [j \in 1..n |-> 1])
B53   == XPlus("i", 1, 53, 0)         \* 2^53, 2^53 + 1 and 2^53 + 2 ... : 2^53 + 1 is not a double
B53p1 == XPlus("i", 1, 53, 1)
B53f  == XPlus("f", 1, 53, 0)
BigInts == {XOnes("i", 1, 53), B53, B53p1, XPlus("i", 1, 53, 2), XPlus("i", 1, 53, 3), XPlus("i", 1, 54, 2), XPlus("i", 1, 31, 0),
            XPlus("i", -1, 53, 0), XPlus("i", -1, 53, 1), XPlus("i", -1, 53, 2), XPlus("i", 1, 100, 0), XPlus("i", 1, 100, 1),
            VX("i", 1, 1023, [j \in 1..54 |-> 1]), XPlus("i", 1, 1024, 0), XPlus("i", 1, 1100, 1), XPlus("i", -1, 1100, 1)}     \* the last four: no double holds them
BigFlts == {XOnes("f", 1, 53), B53f, XPlus("f", 1, 53, 2), XPlus("f", 1, 53, 4), XPlus("f", -1, 53, 0), XPlus("f", -1, 53, 2),
            XPlus("f", 1, 100, 0), XPlus("f", 1, 1000, 0), XPlus("f", 1, -1000, 0), XPlus("f", -1, -1000, 0), XPlus("f", 1, 31, 0),
            XPlus("f", 1, -1074, 0), XPlus("f", -1, 1023, 0)}
BigContainers == {VTup(<<B53>>), VTup(<<B53p1>>), VTup(<<B53f>>), VLst(<<B53p1>>), VLst(<<B53f>>), <<"m", <<<<"k", B53p1>>>>>>, <<"m", <<<<"k", B53f>>>>>>,
                  <<"m", <<<<"k", B53>>>>>>, VTup(<<B53p1, VInt(1)>>), VTup(<<B53f, VInt(2)>>), VTup(<<B53, VInt(2)>>), VTup(<<VTup(<<B53p1>>), None>>)}
UX == BigInts \cup BigFlts \cup BigContainers \cup
      {None, VBool(TRUE), VInt(0), VInt(1), VInt(-1), VFlt(5, 2), VFlt(-1, 2), VNaN(1), VNaN(2), VInf(1), VInf(-1), VStr("a"), VTup(<<VInt(1)>>)}
\* the mechanisms' whole comparison matrices over UX (constant level: computed once), judged by the very
\* operators the trace specification applies to the matrix observed from the code
UXSeq == SetToSeq(UX)
MatOf(F(_, _)) == [i \in 1..Len(UXSeq) |-> [j \in 1..Len(UXSeq) |-> F(UXSeq[i], UXSeq[j])]]
MXd == MatOf(CmpModelX)          \* through the doubles (the code before repair f59ec17)
MXe == MatOf(CmpModelExact)      \* exact (the code today)
MXf == MatOf(CmpModelFast)       \* two ints exactly, the rest through the doubles
PairwiseOK(M, i) == /\ RaisedRow(UXSeq, M, i) = {} /\ NotAntisymRow(UXSeq, M, i) = {} /\ M[i][i] = 0
                    /\ NotPinnedRow(UXSeq, M, i) = {} /\ NotPinnedBigRow(UXSeq, M, i) = {}
RowOK(M, i) == PairwiseOK(M, i) /\ NotTransRow(UXSeq, M, i) = {}
IsLaw == Mode = "big" /\ done /\ x.kind = "law"
BigLawsDouble == IsLaw => RowOK(MXd, x.i)          \* both are lawful
BigLawsExact  == IsLaw => RowOK(MXe, x.i)
BigWellFormed == IsLaw => XAllWellFormed(UXSeq[x.i])
\* the mechanism through the doubles ties ints exactly when they round to one double: CoarseTie is used; the exact one never ties them
BigCoarseTieUsed == (IsLaw /\ UXSeq[x.i] = B53) => (CmpModelX(B53, B53p1) = 0 /\ ExactCmp(B53, B53p1) = -1 /\ CmpModelExact(B53, B53p1) = -1)
\* the exact-int fast path passes every pairwise clause and is rejected by transitivity alone
BigFastPathRejected == IsLaw => (PairwiseOK(MXf, x.i) /\ (UXSeq[x.i] = B53p1 => NotTransRow(UXSeq, MXf, x.i) # {}))
SortBigU == {None, VInt(1), VFlt(5, 2), VNaN(1), VStr("a"), B53, B53p1, XPlus("i", 1, 53, 2), B53f, XPlus("f", 1, 53, 2),
             XPlus("i", -1, 53, 1), XPlus("f", -1, 53, 0), XPlus("f", 1, 1000, 0), XPlus("f", 1, -1000, 0)}
TupBigU  == {VTup(<<a, b>>) : a \in {None, B53, B53p1, B53f, VNaN(1)}, b \in {XPlus("i", 1, 53, 2), XPlus("f", 1, 53, 2), VInt(1)}}
KeyBigU  == {None, VInt(1), B53, B53p1, B53f}
BigRowsUpTo(n) == UNION {[1..k -> [a : KeyBigU, b : KeyBigU]] : k \in 0..n}
\* numbers and NaNs only, one row / tuple more: Python's own order never raises TypeError on these, so the choice sort()
\* itself makes between the native order and the Cmp key decides, and a NaN can sit in any row but the first
TupNumU  == {VTup(<<a, b>>) : a \in {VInt(1), VInt(2), VNaN(1)}, b \in {VInt(1), VNaN(2)}}
KeyNumU  == {VInt(1), VInt(2), VNaN(1)}
NumRowsUpTo(n) == UNION {[1..k -> [a : KeyNumU, b : KeyNumU]] : k \in 0..n}
\* (MaxLen = 4 deepens the tuples and the number-only families; scalar lists stay <= 3 and big-key tables <= 2 rows,
\*  which is where the state count would otherwise go: 14^4 lists, 25^3 x 4 tables)
AtMost(n, m) == IF n < m THEN n ELSE m
BigInit == {[kind |-> "law", i |-> i] : i \in 1..Len(UXSeq)}
           \cup {[kind |-> "list", xs |-> s] : s \in SeqsUpTo(SortBigU, AtMost(MaxLen, 3)) \cup SeqsUpTo(TupBigU, MaxLen - 1)}
           \cup {[kind |-> "table", rows |-> WithIds(r), by |-> b] : r \in BigRowsUpTo(AtMost(MaxLen - 1, 2)), b \in Bys}
           \cup {[kind |-> "list", xs |-> s] : s \in SeqsUpTo(TupNumU, MaxLen)}
           \cup {[kind |-> "table", rows |-> WithIds(r), by |-> b] : r \in NumRowsUpTo(MaxLen), b \in {<<"a">>, <<"b", "a">>}}
BigSortLaws == (Mode = "big" /\ done /\ x.kind = "list") =>
                 LET s == StableSort(C, x.xs) IN Sorted(s) /\ IsPerm(x.xs, s) /\ StableSort(C, s) = s
BigTableLaws == (Mode = "big" /\ done /\ x.kind = "table") =>
                 LET s == TableSort(x.rows, x.by) IN IsPerm(x.rows, s) /\ TableSort(s, x.by) = s

Init == /\ done = FALSE
        /\ CASE Mode = "laws"   -> x \in U /\ y \in U
             [] Mode = "lists"  -> x \in SeqsUpTo(SortU, MaxLen) /\ y = 0
             [] Mode = "tuples" -> x \in SeqsUpTo(TupU, MaxLen) /\ y = 0
             [] Mode = "tables" -> x \in {WithIds(r) : r \in RowsUpTo(MaxLen)} /\ y \in Bys
             [] Mode = "big"    -> x \in BigInit /\ y = 0
Emit == CASE Mode \in {"lists", "tuples"} -> PrintT(ToJson([kind |-> "sort", xs |-> x, model |-> StableSort(C, x)]))
          [] Mode = "tables" -> PrintT(ToJson([kind |-> "dsort", rows |-> x, by |-> y, model |-> TableSort(x, y)]))
          [] Mode = "big" /\ x.kind = "list"  -> PrintT(ToJson([kind |-> "sort", xs |-> x.xs, model |-> StableSort(C, x.xs)]))
          [] Mode = "big" /\ x.kind = "table" -> PrintT(ToJson([kind |-> "dsort", rows |-> x.rows, by |-> x.by, model |-> TableSort(x.rows, x.by)]))
          [] OTHER -> TRUE
Next    == done = FALSE /\ done' = TRUE /\ UNCHANGED <<x, y>>
NextGen == Next /\ Emit
=============================================================================
