------------------------------ MODULE MC_Order ------------------------------
(* (1) The documented mechanism CmpModel satisfies every axiom of property C07 on an abstract  *)
(*     universe of scalars and containers (all pairs as states, all triples inside invariants),*)
(*     and its stable sort is sorted, a permutation, stable and idempotent.                    *)
(* (2) Generator configurations enumerate the inputs of the S2C replay: lists for sort() and   *)
(*     small tables with key choices for dictable.sort(), each with the result CmpModel gives. *)
EXTENDS Order, Json, SequencesExt
CONSTANTS MaxLen, Mode     \* Mode: "laws" | "lists" | "tuples" | "tables"

VARIABLES x, y, done
vars == <<x, y, done>>

D1 == <<"d", <<730120, 0, 0>>>>          \* 2000-01-01
D2 == <<"d", <<730120, 3600, 5>>>>
Scalars == {None, VBool(FALSE), VBool(TRUE), VInt(0), VInt(1), VInt(2), VFlt(1, 1), VFlt(5, 2), VFlt(-1, 2),
            VNaN(1), VNaN(2), VInf(1), VInf(-1), VStr(""), VStr("a"), VStr("b"), VStr("ab"), VStr("B"), D1, D2}
Few == {None, VInt(1), VFlt(1, 1), VNaN(1), VStr("a"), VInt(2)}
Containers == {VTup(<<>>), VLst(<<>>), <<"m", <<>>>>, VTup(<<VBool(TRUE)>>), VTup(<<VBool(FALSE)>>), VTup(<<VInt(0)>>), VLst(<<VBool(TRUE)>>)}
              \cup {VTup(<<a>>) : a \in Few} \cup {VLst(<<a>>) : a \in Few}
              \cup {VTup(<<a, b>>) : a \in Few, b \in {None, VInt(1), VNaN(2)}}
              \cup {VLst(<<a, b>>) : a \in {VInt(1), VStr("a")}, b \in Few}
              \cup {<<"m", <<<<"k", a>>>>>> : a \in Few} \cup {<<"m", <<<<"j", VInt(1)>>>>>>}
              \cup {<<"m", <<<<"j", a>>, <<"k", b>>>>>> : a \in {VInt(1), None}, b \in {VInt(1), VNaN(1)}}
              \cup {VTup(<<VTup(<<a>>), b>>) : a \in {VInt(1), VNaN(1)}, b \in {None, VInt(2)}}
U == Scalars \cup Containers

\* ---- (1) laws ---------------------------------------------------------------------------------
C(u, v) == CmpModel(u, v)
Antisym   == Mode = "laws" => C(x, y) = -C(y, x)
Reflexive == Mode = "laws" => C(x, x) = 0
Transitive == Mode = "laws" => \A z \in U : (C(x, y) <= 0 /\ C(y, z) <= 0) => (C(x, z) <= 0 /\ ((C(x, y) < 0 \/ C(y, z) < 0) => C(x, z) < 0))
PinnedOK  == Mode = "laws" => (Pinned(x, y) => C(x, y) = PinnedValue(x, y))
NaNTop    == Mode = "laws" => ((IsNaN(x) /\ IsFinNum(y) /\ ~IsBool(y)) => C(x, y) = 1)

\* sorting laws for the lists of the generator universes
SortU == {None, VInt(1), VInt(2), VFlt(1, 1), VFlt(5, 2), VNaN(1), VNaN(2), VStr("a"), VStr("b"), D1, D2, VInt(0)}
TupU  == {VTup(<<a, b>>) : a \in {None, VInt(1), VFlt(1, 1), VNaN(1), VStr("a")}, b \in {VInt(1), VNaN(2), VStr("b")}}
SeqsUpTo(S, n) == UNION {[1..k -> S] : k \in 0..n}
Sorted(xs) == \A i \in 1..(Len(xs) - 1) : C(xs[i], xs[i + 1]) <= 0
SortLaws == Mode \in {"lists", "tuples"} =>
              LET s == StableSort(C, x) IN Sorted(s) /\ IsPerm(x, s) /\ StableSort(C, s) = s

\* ---- tables for dictable.sort: key columns a, b and a row id ----------------------------------
KeyU == {None, VInt(1), VFlt(1, 1), VNaN(1), VStr("a"), VInt(2)}
RowsUpTo(n) == UNION {[1..k -> [a : KeyU, b : KeyU]] : k \in 0..n}
WithIds(rows) == [i \in 1..Len(rows) |-> [a |-> rows[i].a, b |-> rows[i].b, id |-> VInt(i)]]
Bys == {<<"a">>, <<"b">>, <<"a", "b">>, <<"b", "a">>}
KeyOf(row, by) == VTup([k \in 1..Len(by) |-> row[by[k]]])
TableSort(rows, by) == LET RC(r, s) == C(KeyOf(r, by), KeyOf(s, by)) IN StableSort(RC, rows)

Init == /\ done = FALSE
        /\ CASE Mode = "laws"   -> x \in U /\ y \in U
             [] Mode = "lists"  -> x \in SeqsUpTo(SortU, MaxLen) /\ y = 0
             [] Mode = "tuples" -> x \in SeqsUpTo(TupU, MaxLen) /\ y = 0
             [] Mode = "tables" -> x \in {WithIds(r) : r \in RowsUpTo(MaxLen)} /\ y \in Bys
Emit == CASE Mode \in {"lists", "tuples"} -> PrintT(ToJson([kind |-> "sort", xs |-> x, model |-> StableSort(C, x)]))
          [] Mode = "tables" -> PrintT(ToJson([kind |-> "dsort", rows |-> x, by |-> y, model |-> TableSort(x, y)]))
          [] OTHER -> TRUE
Next    == done = FALSE /\ done' = TRUE /\ UNCHANGED <<x, y>>
NextGen == Next /\ Emit
=============================================================================
