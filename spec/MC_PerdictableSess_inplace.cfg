CONSTANT SSizes <- SS_mc
INIT Init
NEXT Next
INVARIANT InPlaceIsLaw
