CONSTANTS MaxRows = 3
          MaxRowsY = 2
          MaxSteps = 6
          NKeys = 4
          Stride = 8
          Gen = TRUE
          Emit = "end"
          Variant = "plain"
INIT Init
NEXT Next
