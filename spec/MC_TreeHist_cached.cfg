CONSTANTS Cached = TRUE
          Size = "std"
          Hist = FALSE
INIT Init
NEXT Next
INVARIANT CallsAreMerges
INVARIANT HeapStaysOk
