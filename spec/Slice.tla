-------------------------------- MODULE Slice --------------------------------
(* Property C13: df_slice keeps exactly the rows in the interval; stitching switches at bounds. *)
(*                                                                                              *)
(* Time is a grid of positive integers.  A timeseries is a frame                                 *)
(*     [rows |-> strictly increasing sequence of timestamps, cols |-> sequence of columns]       *)
(* (a pd.Series has one column); cells are integers, NaN (= -1) is the missing value.            *)
(* A bound is a grid position, 0 stands for None (unbounded).  The bracket pair is a sequence    *)
(* of two characters, <<"(", "]">> etc.                                                          *)
(* In mode "date" a bound is compared with the timestamp itself.  In mode "tod" (bounds given    *)
(* as datetime.time) a timestamp is  day * B + time-of-day  with the time of day in 1..B-1, and  *)
(* a bound is compared with the row's time of day.                                               *)
EXTENDS Integers, Sequences, FiniteSets, SequencesExt

NaN == -1
NRows(f) == Len(f.rows)
NCols(f) == Len(f.cols)
Idx(n)   == [i \in 1..n |-> i]
RangeOf(s) == {s[i] : i \in 1..Len(s)}
Rev(s)   == [i \in 1..Len(s) |-> s[Len(s) + 1 - i]]
MinI(a, b) == IF a < b THEN a ELSE b
WellFormed(f) == /\ \A j \in 1..NCols(f) : Len(f.cols[j]) = NRows(f)
                 /\ \A i \in 1..(NRows(f) - 1) : f.rows[i] < f.rows[i + 1]

KeepRows(f, Keep(_)) ==
    LET ix == SelectSeq(Idx(NRows(f)), Keep) IN
    [rows |-> [k \in 1..Len(ix) |-> f.rows[ix[k]]],
     cols |-> [j \in 1..NCols(f) |-> [k \in 1..Len(ix) |-> f.cols[j][ix[k]]]]]

\* ---------------------------------------------------------------------------------------------
\* one slice
\* ---------------------------------------------------------------------------------------------
Closed(ch) == ch \in {"[", "]"}
Key(t, mode, B) == IF mode = "tod" THEN t % B ELSE t
LowerOK(k, lb, closed) == lb = 0 \/ (IF closed THEN lb <= k ELSE lb < k)
UpperOK(k, ub, closed) == ub = 0 \/ (IF closed THEN k <= ub ELSE k < ub)
\* a window of times of day whose start is later than its end wraps past midnight
Wraps(lb, ub, mode) == mode = "tod" /\ lb # 0 /\ ub # 0 /\ lb > ub
InSlice(t, lb, ub, oc, mode, B) ==
    LET k  == Key(t, mode, B)
        lo == LowerOK(k, lb, Closed(oc[1]))
        hi == UpperOK(k, ub, Closed(oc[2]))
    IN  IF Wraps(lb, ub, mode) THEN lo \/ hi ELSE lo /\ hi
\* exactly the rows in the interval, rows and values otherwise untouched
Slice(s, lb, ub, oc, mode, B) == KeepRows(s, LAMBDA i : InSlice(s.rows[i], lb, ub, oc, mode, B))

\* mechanism of today's wrap-around branch (df_slice calls itself for the two halves without
\* handing the brackets on, so both halves use the default "(]"); compared with the law in TLC
WrapAsCoded(s, lb, ub, oc, mode, B) ==
    KeepRows(s, LAMBDA i : LET k == Key(s.rows[i], mode, B) IN UpperOK(k, ub, TRUE) \/ LowerOK(k, lb, FALSE))

\* ---------------------------------------------------------------------------------------------
\* stitching: series i supplies the timestamps in (ub[i-1], ub[i]]; with n columns, column j
\* comes from series i+j-1
\* ---------------------------------------------------------------------------------------------
Increasing(xs) == \A i \in 1..(Len(xs) - 1) : xs[i] < xs[i + 1]
Decreasing(xs) == \A i \in 1..(Len(xs) - 1) : xs[i] > xs[i + 1]
LoOf(ubs, i)   == IF i = 1 THEN 0 ELSE ubs[i - 1]
InInterval(t, ubs, i) == LowerOK(t, LoOf(ubs, i), FALSE) /\ UpperOK(t, ubs[i], TRUE)
HasT(s, t)  == \E r \in 1..NRows(s) : s.rows[r] = t
ValAt(s, t) == s.cols[1][CHOOSE r \in 1..NRows(s) : s.rows[r] = t]

RECURSIVE ConcatFrames(_, _)
ConcatFrames(pieces, n) ==       \* pieces with n columns each, in time order
    IF pieces = <<>> THEN [rows |-> <<>>, cols |-> [j \in 1..n |-> <<>>]]
    ELSE LET rest == ConcatFrames(Tail(pieces), n)  h == Head(pieces) IN
         [rows |-> h.rows \o rest.rows, cols |-> [j \in 1..n |-> h.cols[j] \o rest.cols[j]]]

StitchInc(ss, ubs, n) ==
    LET nS == Len(ss)
        Width(i) == MinI(n, nS - i + 1)                         \* series i .. i+Width(i)-1 exist
        TimesOf(i) == {t \in UNION {RangeOf(ss[i + j].rows) : j \in 0..(Width(i) - 1)} : InInterval(t, ubs, i)}
        Piece(i) == LET ts == SetToSortSeq(TimesOf(i), <) IN
                    [rows |-> ts,
                     cols |-> [j \in 1..n |-> [r \in 1..Len(ts) |->
                                 IF j <= Width(i) /\ HasT(ss[i + j - 1], ts[r]) THEN ValAt(ss[i + j - 1], ts[r]) ELSE NaN]]]
    IN  ConcatFrames([i \in 1..nS |-> Piece(i)], n)
\* decreasing bound lists are reversed together with the series
Stitch(ss, ubs, n) == IF Increasing(ubs) THEN StitchInc(ss, ubs, n) ELSE StitchInc(Rev(ss), Rev(ubs), n)

\* df_unslice: any family of series, one per bound, whose stitching reproduces the frame
IsUnstitch(U, F, ubs, n) == Len(U) = Len(ubs) /\ (\A i \in 1..Len(U) : NCols(U[i]) = 1 /\ WellFormed(U[i]))
                            /\ StitchInc(U, ubs, n) = F
\* the canonical one: series i is what the frame shows of it - column j+1 of interval i-j
IntervalOf(t, ubs) == CHOOSE i \in 1..Len(ubs) : InInterval(t, ubs, i)
Unstitch(F, ubs, n) ==
    [i \in 1..Len(ubs) |->
        LET Mine(r) == LET x == IntervalOf(F.rows[r], ubs) IN x <= i /\ i - x < n /\ F.cols[i - x + 1][r] # NaN
            ix == SelectSeq(Idx(NRows(F)), Mine)
        IN  [rows |-> [k \in 1..Len(ix) |-> F.rows[ix[k]]],
             cols |-> <<[k \in 1..Len(ix) |-> F.cols[i - IntervalOf(F.rows[ix[k]], ubs) + 1][ix[k]]]>>]]
=============================================================================
