-------------------------------- MODULE Slice --------------------------------
(* Property C13: df_slice keeps exactly the rows in the interval; stitching switches at bounds. *)
(*                                                                                              *)
(* Time is a grid of positive integers.  A timeseries is a frame                                 *)
(*     [rows |-> non-decreasing sequence of timestamps, cols |-> sequence of columns]            *)
(* (a pd.Series has one column); cells are integers, NaN (= -1) is the missing value.  An index  *)
(* may carry the same timestamp on several consecutive rows (two prints at one time); every row  *)
(* is judged on its own, so rows with equal timestamps are all inside or all outside.  Stitching *)
(* and unstitching speak of strictly increasing series (WellFormed).                             *)
(* A bound is a grid position, 0 stands for None (unbounded).  The bracket pair is a sequence    *)
(* of two characters, <<"(", "]">> etc.                                                          *)
(* In mode "date" a bound is compared with the timestamp itself (an instant).  In mode "tod"     *)
(* (bounds given as datetime.time, naive index) a timestamp is  day * B + time-of-day  with the  *)
(* time of day in 1..B-1, and a bound is compared with the row's time of day.  In mode "ltod"    *)
(* (datetime.time bounds, index in a time zone) a timestamp is the instant  day * B + e  where   *)
(* e - 1 is the time ELAPSED since the local midnight of the row's civil day, and the frame has  *)
(* a third field  tod  with each row's LOCAL wall-clock time of day: that is what a time-of-day  *)
(* bound is compared with.  On the day the clocks change it is not a function of e (LocalTod).   *)
EXTENDS Integers, Sequences, FiniteSets, SequencesExt

NaN == -1
NRows(f) == Len(f.rows)
NCols(f) == Len(f.cols)
Idx(n)   == [i \in 1..n |-> i]
RangeOf(s) == {s[i] : i \in 1..Len(s)}
Rev(s)   == [i \in 1..Len(s) |-> s[Len(s) + 1 - i]]
MinI(a, b) == IF a < b THEN a ELSE b
WellFormed(f) == /\ \A j \in 1..NCols(f) : Len(f.cols[j]) = NRows(f)
                 /\ \A i \in 1..(NRows(f) - 1) : f.rows[i] < f.rows[i + 1]
\* sorted, repeated timestamps allowed (the domain of a single slice)
SortedFrame(f) == /\ \A j \in 1..NCols(f) : Len(f.cols[j]) = NRows(f)
                  /\ \A i \in 1..(NRows(f) - 1) : f.rows[i] <= f.rows[i + 1]
HasDupRows(f)  == \E i \in 1..(NRows(f) - 1) : f.rows[i] = f.rows[i + 1]

KeepRows(f, Keep(_)) ==
    LET ix == SelectSeq(Idx(NRows(f)), Keep) IN
    [rows |-> [k \in 1..Len(ix) |-> f.rows[ix[k]]],
     cols |-> [j \in 1..NCols(f) |-> [k \in 1..Len(ix) |-> f.cols[j][ix[k]]]]]

\* ---------------------------------------------------------------------------------------------
\* one slice
\* ---------------------------------------------------------------------------------------------
Closed(ch) == ch \in {"[", "]"}
TodMode(mode) == mode \in {"tod", "ltod"}
Key(t, mode, B) == IF mode = "tod" THEN t % B ELSE t
\* what row i is compared with: the instant, the time of day of a naive timestamp, or the row's own
\* local wall-clock time of day (never derived from the instant)
KeyAt(s, i, mode, B) == IF mode = "ltod" THEN s.tod[i] ELSE Key(s.rows[i], mode, B)
LowerOK(k, lb, closed) == lb = 0 \/ (IF closed THEN lb <= k ELSE lb < k)
UpperOK(k, ub, closed) == ub = 0 \/ (IF closed THEN k <= ub ELSE k < ub)
\* a window of times of day whose start is later than its end wraps past midnight
Wraps(lb, ub, mode) == TodMode(mode) /\ lb # 0 /\ ub # 0 /\ lb > ub
InSliceK(k, lb, ub, oc, mode) ==
    LET lo == LowerOK(k, lb, Closed(oc[1]))
        hi == UpperOK(k, ub, Closed(oc[2]))
    IN  IF Wraps(lb, ub, mode) THEN lo \/ hi ELSE lo /\ hi
InSlice(t, lb, ub, oc, mode, B) == InSliceK(Key(t, mode, B), lb, ub, oc, mode)
\* exactly the rows in the interval, rows and values otherwise untouched
Slice(s, lb, ub, oc, mode, B) == KeepRows(s, LAMBDA i : InSliceK(KeyAt(s, i, mode, B), lb, ub, oc, mode))

\* A civil day of a time zone, z = [kind, G, H]: kind "n" = an ordinary day; "s" = the clocks go forward
\* by H slots at the moment G - 1 slots have elapsed since midnight (the local times G .. G+H-1 do not
\* exist); "f" = they go back by H slots (the local times G-H .. G-1 happen twice).  The wall-clock
\* time of day of the row at elapsed slot e:
LocalTod(z, e) == IF z.kind = "n" \/ e < z.G THEN e ELSE IF z.kind = "s" THEN e + z.H ELSE e - z.H

\* mechanism of today's wrap-around branch (df_slice calls itself for the two halves without
\* handing the brackets on, so both halves use the default "(]"); compared with the law in TLC
WrapAsCoded(s, lb, ub, oc, mode, B) ==
    KeepRows(s, LAMBDA i : LET k == Key(s.rows[i], mode, B) IN UpperOK(k, ub, TRUE) \/ LowerOK(k, lb, FALSE))

\* mechanism models of plausible re-implementations, compared with the law in TLC so that the generated
\* universes are known to contain the cases that tell them apart:
\* (a) the time of day taken as the time elapsed since the row's midnight
SliceElapsed(s, lb, ub, oc, B) == KeepRows(s, LAMBDA i : InSliceK(s.rows[i] % B, lb, ub, oc, "ltod"))
\* (b) a closed-closed cut from which ONE row is taken off again at an open bound
SliceTrimOne(s, lb, ub, oc) ==
    LET ix  == SelectSeq(Idx(NRows(s)), LAMBDA i : LowerOK(s.rows[i], lb, TRUE) /\ UpperOK(s.rows[i], ub, TRUE))
        ix1 == IF ~Closed(oc[1]) /\ lb # 0 /\ ix # <<>> /\ s.rows[ix[1]] = lb THEN Tail(ix) ELSE ix
        ix2 == IF ~Closed(oc[2]) /\ ub # 0 /\ ix1 # <<>> /\ s.rows[ix1[Len(ix1)]] = ub THEN SubSeq(ix1, 1, Len(ix1) - 1) ELSE ix1
    IN  KeepRows(s, LAMBDA i : i \in RangeOf(ix2))

\* ---------------------------------------------------------------------------------------------
\* stitching: series i supplies the timestamps in (ub[i-1], ub[i]]; with n columns, column j
\* comes from series i+j-1
\* ---------------------------------------------------------------------------------------------
Increasing(xs) == \A i \in 1..(Len(xs) - 1) : xs[i] < xs[i + 1]
Decreasing(xs) == \A i \in 1..(Len(xs) - 1) : xs[i] > xs[i + 1]
LoOf(ubs, i)   == IF i = 1 THEN 0 ELSE ubs[i - 1]
InInterval(t, ubs, i) == LowerOK(t, LoOf(ubs, i), FALSE) /\ UpperOK(t, ubs[i], TRUE)
HasT(s, t)  == \E r \in 1..NRows(s) : s.rows[r] = t
ValAt(s, t) == s.cols[1][CHOOSE r \in 1..NRows(s) : s.rows[r] = t]

RECURSIVE ConcatFrames(_, _)
ConcatFrames(pieces, n) ==       \* pieces with n columns each, in time order
    IF pieces = <<>> THEN [rows |-> <<>>, cols |-> [j \in 1..n |-> <<>>]]
    ELSE LET rest == ConcatFrames(Tail(pieces), n)  h == Head(pieces) IN
         [rows |-> h.rows \o rest.rows, cols |-> [j \in 1..n |-> h.cols[j] \o rest.cols[j]]]

StitchInc(ss, ubs, n) ==
    LET nS == Len(ss)
        Width(i) == MinI(n, nS - i + 1)                         \* series i .. i+Width(i)-1 exist
        TimesOf(i) == {t \in UNION {RangeOf(ss[i + j].rows) : j \in 0..(Width(i) - 1)} : InInterval(t, ubs, i)}
        Piece(i) == LET ts == SetToSortSeq(TimesOf(i), <) IN
                    [rows |-> ts,
                     cols |-> [j \in 1..n |-> [r \in 1..Len(ts) |->
                                 IF j <= Width(i) /\ HasT(ss[i + j - 1], ts[r]) THEN ValAt(ss[i + j - 1], ts[r]) ELSE NaN]]]
    IN  ConcatFrames([i \in 1..nS |-> Piece(i)], n)
\* decreasing bound lists are reversed together with the series
Stitch(ss, ubs, n) == IF Increasing(ubs) THEN StitchInc(ss, ubs, n) ELSE StitchInc(Rev(ss), Rev(ubs), n)

\* Stitching (one column) series that carry repeated timestamps.  The statement pins where the data of a
\* timestamp comes from ("every timestamp in (ub[i-1], ub[i]] takes its data from series i"), not how many of
\* its rows are shown ("covering each timestamp at most once").  Named deviation DupMultiplicityFree: a result
\* is accepted when it is sorted, every row of it is one of the rows that the owner of its timestamp has
\* at that timestamp, and every timestamp the owner has in its interval is shown.
ValsAt(s, t) == {s.cols[1][r] : r \in {q \in 1..NRows(s) : s.rows[q] = t}}
StitchDupOK(ss, ubs, out) ==
    /\ SortedFrame(out) /\ NCols(out) = 1
    /\ \A r \in 1..NRows(out) : \E i \in 1..Len(ubs) :
          InInterval(out.rows[r], ubs, i) /\ out.cols[1][r] \in ValsAt(ss[i], out.rows[r])
    /\ \A i \in 1..Len(ss) : \A r \in 1..NRows(ss[i]) : InInterval(ss[i].rows[r], ubs, i) => HasT(out, ss[i].rows[r])

\* df_unslice: any family of series, one per bound, whose stitching reproduces the frame
IsUnstitch(U, F, ubs, n) == Len(U) = Len(ubs) /\ (\A i \in 1..Len(U) : NCols(U[i]) = 1 /\ WellFormed(U[i]))
                            /\ StitchInc(U, ubs, n) = F
\* the canonical one: series i is what the frame shows of it - column j+1 of interval i-j
IntervalOf(t, ubs) == CHOOSE i \in 1..Len(ubs) : InInterval(t, ubs, i)
Unstitch(F, ubs, n) ==
    [i \in 1..Len(ubs) |->
        LET Mine(r) == LET x == IntervalOf(F.rows[r], ubs) IN x <= i /\ i - x < n /\ F.cols[i - x + 1][r] # NaN
            ix == SelectSeq(Idx(NRows(F)), Mine)
        IN  [rows |-> [k \in 1..Len(ix) |-> F.rows[ix[k]]],
             cols |-> <<[k \in 1..Len(ix) |-> F.cols[i - IntervalOf(F.rows[ix[k]], ubs) + 1][ix[k]]]>>]]
=============================================================================
