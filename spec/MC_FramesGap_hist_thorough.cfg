CONSTANTS
 N = 8
 Ahead = 2
 G = {0}
 HistG = 3
 HistLen = 6
INIT InitHist
NEXT HistNext
INVARIANT KeptGapFree
INVARIANT KeptWithinFull
INVARIANT InOrderExact
PROPERTY LateRowsOnlyAdd
PROPERTY NewRowKept
