CONSTANTS NP = 3
 NT = 2
 NF = 0
 NA = 2
 NC = 0
 NS = 5
 Light = FALSE
INIT InitGen
NEXT EvalGen
