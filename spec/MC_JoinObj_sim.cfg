CONSTANTS MaxRows = 2
          MaxRowsY = 1
          MaxSteps = 4
          NKeys = 6
          Stride = 8
          Gen = TRUE
          Emit = "end"
          Variant = "plain"
INIT Init
NEXT Next
