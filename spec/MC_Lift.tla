------------------------------- MODULE MC_Lift -------------------------------
(* Property C19, input part, on the specification: for every small nesting x of lists, tuples  *)
(* and dicts and every companion menu the lifted function keeps the shape, is leaf-wise (an    *)
(* independent, path-by-path formulation agrees with the structural recursion of Lift), does   *)
(* not depend on positional/keyword passing, and the named deviation DeepMatch is confined to  *)
(* companions of a different shape; zipper / lens / as_list / as_tuple satisfy their clauses.  *)
(* One behaviour  case --Eval--> done  per case; the generator configurations print every case *)
(* with the outcomes the specification admits, for replay into pyg_base (S2C).                 *)
EXTENDS LiftShapes, Json, SequencesExt, FiniteSetsExt
CONSTANTS D, W,            \* depth / width of the exhaustively enumerated shapes
          DD,              \* depth of the restricted deep families (uniform trees, spines)
          Part,            \* which cases: "all", "lift", "deep", "lib", "zip", "pairs", "wide"
          Materialise      \* mechanism model: TRUE = companions materialised per level, FALSE = today's generators

VARIABLES desc,      \* the small description of a case
          case,      \* the case itself, built by Eval
          res,       \* what the specification says the call returns: [law, deep] structures for lift/lib cases
          done
vars == <<desc, case, res, done>>

RECURSIVE Swap(_)
Swap(s) == IF s[1] = "o" THEN s
           ELSE <<IF s[1] = "l" THEN "t" ELSE IF s[1] = "t" THEN "l" ELSE "m", [i \in 1..Len(s[2]) |-> Swap(s[2][i])]>>

\* companions derived from x
TopFlat(x, b) == IF IsSeq(x) THEN <<Tag(x), [i \in 1..Width(x) |-> VInt(b + i)]>>
                 ELSE IF IsMap(x) THEN <<"m", [i \in 1..Width(x) |-> <<Pay(x)[i][1], VInt(b + i)>>]>>
                 ELSE VInt(b)
Longer(x)  == IF IsSeq(x) THEN VLst([i \in 1..(Width(x) + 1) |-> VInt(600 + i)])
              ELSE IF IsMap(x) THEN <<"m", Pay(TopFlat(x, 600)) \o << <<"z", VInt(699)>> >> >>
              ELSE VLst(<<VInt(601)>>)
\* a companion of another length/other keys that holds containers of the matching length/keys: DeepMatch
DeepC(x)   == IF IsSeq(x) THEN VLst([r \in 1..(Width(x) + 1) |-> VTup([i \in 1..Width(x) |-> VInt(700 + 10 * r + i)])])
              ELSE IF IsMap(x) THEN <<"m", << <<"p", TopFlat(x, 710)>>, <<"q", VInt(720)>>, <<"r", <<"m", << <<"s", TopFlat(x, 730)>> >> >> >> >> >>
              ELSE VLst(<<VTup(<<VInt(711)>>)>>)
\* matched at the top, of another length below
Ragged(x)  == IF IsSeq(x) THEN <<Tag(x), [i \in 1..Width(x) |-> VLst(<<VInt(800 + 10 * i), VInt(801 + 10 * i), VInt(802 + 10 * i), VInt(803 + 10 * i)>>)]>>
              ELSE IF IsMap(x) THEN <<"m", [i \in 1..Width(x) |-> <<Pay(x)[i][1], <<"m", << <<"zz", VInt(800 + i)>> >> >> >>]>>
              ELSE VTup(<<>>)

Scalars  == {VInt(7), VStr("ab"), None}
CFlat    == {Build(s, "int", 500, 0) : s \in Shapes(1, 3) \ {LeafS}}
AltDicts == { <<"m", << <<"b", VInt(901)>> >> >>,
              <<"m", << <<"b", VInt(902)>>, <<"c", VInt(903)>> >> >>,
              <<"m", << <<"a", VInt(904)>>, <<"c", VInt(905)>> >> >> }
\* companion descriptors: a value, or a companion derived from x (built when the case is built)
Derived == {"same", "swap", "top", "longer", "deep", "ragged"}
CompOf(cd, s) == LET x == X(s) IN
    CASE cd[1] = "val"    -> cd[2]
      [] cd[1] = "same"   -> Same(s)
      [] cd[1] = "swap"   -> Same(Swap(s))
      [] cd[1] = "top"    -> TopFlat(x, 500)
      [] cd[1] = "longer" -> Longer(x)
      [] cd[1] = "deep"   -> DeepC(x)
      [] cd[1] = "ragged" -> Ragged(x)
V(v) == <<"val", v>>
N(n) == <<n, None>>
Menu1 == {V(v) : v \in Scalars \cup CFlat \cup AltDicts} \cup {N(n) : n \in Derived}
Menu2 == {V(VInt(7)), N("same"), N("top"), N("longer"), N("deep")}
Menu3 == {V(VStr("ab")), N("swap"), N("ragged"), N("deep")}
Menu4 == {V(VInt(7)), N("same"), N("deep")}
Menu5 == {V(VStr("ab")), N("ragged"), N("swap")}

LiftOn(S, full) ==
    {[k |-> "lift", s |-> s, cd |-> <<>>] : s \in S}
    \cup {[k |-> "lift", s |-> s, cd |-> <<c>>] : s \in S, c \in (IF full THEN Menu1 ELSE Menu2 \cup Menu3)}
    \cup {[k |-> "lift", s |-> s, cd |-> <<c1, c2>>] : s \in S, c1 \in (IF full THEN Menu2 ELSE Menu4), c2 \in (IF full THEN Menu2 ELSE Menu5)}
LiftCases(u) == LiftOn(Shapes(D, W), TRUE)
DeepCases(u) == LiftOn((Uniform(DD) \cup Spine(DD) \cup Chain(DD)) \ Shapes(D, W), FALSE)
\* every pair (x, companion) of enumerated shapes: "all companion arguments (same-shape, different-shape)"
PairCases(u) == {[k |-> "pair", s |-> s, c |-> c] : s \in Shapes(D, W), c \in Shapes(D, W)}

\* --- library functions ----------------------------------------------------------------------
LibShapes(u) == Shapes(D, W)
RepOlds == {VStr(","), VStr(" "), VStr("  "), VLst(<<VStr(","), VStr(" ")>>), VTup(<<VStr("  "), VStr(",")>>)}
Seps    == {VStr(" "), VStr("."), VLst(<<VStr(" "), VStr(".")>>), VTup(<<VStr(".")>>), VLst(<<>>)}
RepNews == {None, VStr(" "), VStr(",")}
\* (the rotations make every leaf of a universe occur at the leaf positions of the shapes of depth <= 2)
LibCases(u) ==
    {[k |-> "lib", fn |-> fn, s |-> s, menu |-> "unary", rot |-> rot, cs |-> <<>>] :
        fn \in {"lower", "upper", "strip", "proper", "f12", "as_float"}, s \in LibShapes(0), rot \in {0, 1, 3, 14}}
    \cup {[k |-> "lib", fn |-> "replace", s |-> s, menu |-> "rep", rot |-> 0, cs |-> <<o, n>>] : s \in LibShapes(0), o \in RepOlds, n \in RepNews}
    \cup {[k |-> "lib", fn |-> "replace", s |-> s, menu |-> "rep", rot |-> 2, cs |-> <<o, n>>] :
              s \in LibShapes(0), o \in {VStr(","), VLst(<<VStr(","), VStr(" ")>>)}, n \in RepNews}
    \cup {[k |-> "lib", fn |-> "split", s |-> s, menu |-> "spl", rot |-> 0, cs |-> <<sp, VBool(dd)>>] : s \in LibShapes(0), sp \in Seps, dd \in BOOLEAN}
    \cup {[k |-> "lib", fn |-> "split", s |-> s, menu |-> "spl", rot |-> 1, cs |-> <<sp, VBool(dd)>>] :
              s \in LibShapes(0), sp \in {VStr(" "), VLst(<<VStr(" "), VStr(".")>>)}, dd \in BOOLEAN}

\* --- zipper / lens / as_list / as_tuple -----------------------------------------------------
ZArg(j) == Scalars \cup {<<t, [i \in 1..n |-> VInt(10 * j + i)]>> : t \in {"l", "t"}, n \in 0..3}
ZipCases(u) == {[k |-> "zip", args |-> <<>>]}
            \cup {[k |-> "zip", args |-> <<a>>] : a \in ZArg(1)}
            \cup {[k |-> "zip", args |-> <<a, b>>] : a \in ZArg(1), b \in ZArg(2)}
            \cup {[k |-> "zip", args |-> <<a, b, c>>] : a \in ZArg(1), b \in ZArg(2), c \in ZArg(3)}
NormExtra == Scalars \cup {VTup(<<VLst(<<VInt(1), VInt(2)>>)>>), VTup(<<VTup(<<VInt(1), VInt(2)>>)>>),
                           VLst(<<None>>), VTup(<<None>>), VTup(<<VLst(<<>>)>>), VLst(<<VLst(<<>>)>>),
                           VTup(<<VLst(<<VLst(<<VInt(1)>>)>>)>>), VLst(<<VLst(<<VLst(<<VInt(1)>>)>>)>>)}
NormCases(u) == {[k |-> "norm", x |-> v] : v \in NormExtra \cup {X(s) : s \in Shapes(2, 2)}}

\* OrderedDicts with keys inserted in non-sorted order: the result keeps that order
OrdCases(u) == LET S == {s \in Shapes(D, W) : HasWideDict(s)} IN
    {[k |-> "olift", s |-> s, cd |-> cd] : s \in S, cd \in {<<>>, <<N("same")>>, <<V(VInt(7))>>, <<N("top"), N("deep")>>}}
    \cup {[k |-> "olib", fn |-> fn[1], s |-> s, menu |-> fn[2], rot |-> 0, cs |-> fn[3]] :
              s \in S, fn \in {<<"lower", "unary", <<>>>>, <<"split", "spl", <<VStr(" "), VBool(FALSE)>>>>}}

\* the case a description stands for
CaseOf(d) ==
    CASE d.k = "lift" -> [k |-> "lift", fn |-> "f", x |-> X(d.s), cs |-> [j \in 1..Len(d.cd) |-> CompOf(d.cd[j], d.s)]]
      [] d.k = "olift" -> [k |-> "lift", fn |-> "f", x |-> Ord(X(d.s)), cs |-> [j \in 1..Len(d.cd) |-> CompOf(d.cd[j], d.s)]]
      [] d.k = "olib" -> [k |-> "lib", fn |-> d.fn, x |-> Ord(Build(d.s, d.menu, d.rot, 0)), cs |-> d.cs]
      [] d.k = "pair" -> [k |-> "lift", fn |-> "f", x |-> X(d.s), cs |-> <<Same(d.c)>>]
      [] d.k = "lib"  -> [k |-> "lib", fn |-> d.fn, x |-> Build(d.s, d.menu, d.rot, 0), cs |-> d.cs]
      [] OTHER        -> d

\* (an operator with a dummy parameter on purpose: TLC evaluates an expensive zero-arity constant
\*  definition eagerly and once per worker, which made the 16-worker run 12 times slower than 1 worker)
Descs(u) == CASE Part = "lift"  -> LiftCases(0)
           [] Part = "deep"  -> DeepCases(0)
           [] Part = "lib"   -> LibCases(0)
           [] Part = "zip"   -> ZipCases(0) \cup NormCases(0)
           [] Part = "pairs" -> PairCases(0)
           [] Part = "wide"  -> LiftOn(Shapes(D, W) \ Shapes(2, 2), FALSE)
           [] Part = "ord"   -> OrdCases(0)
           [] Part = "all"   -> LiftCases(0) \cup DeepCases(0) \cup LibCases(0) \cup ZipCases(0) \cup NormCases(0) \cup OrdCases(0)

ResOf(c) == IF c.k \in {"lift", "lib"} THEN [law |-> Lift(c.fn, c.x, c.cs, FALSE), deep |-> Lift(c.fn, c.x, c.cs, TRUE)] ELSE None
OutcomeOf(r) == IF HasExc(r) THEN Raises("ValueError") ELSE r          \* = Outcome(..) of Lift.tla
Want == {OutcomeOf(res.law), OutcomeOf(res.deep)}                      \* = Outcomes(case.fn, case.x, case.cs)

Init == desc \in Descs(0) /\ case = None /\ res = None /\ done = FALSE
Eval == /\ done = FALSE /\ done' = TRUE
        /\ case' = CaseOf(desc)
        /\ res' = ResOf(case')
        /\ UNCHANGED desc

AllSeqs(args) == \A j \in 1..Len(args) : IsSeq(args[j])
Emit(c, r) ==
    CASE c.k \in {"lift", "lib"} ->
            [k |-> c.k, fn |-> c.fn, x |-> c.x, cs |-> c.cs, want |-> SetToSeq({OutcomeOf(r.law), OutcomeOf(r.deep)}),
             exh |-> GeneratorExhaustion(c.x, 1), deep |-> r.law # r.deep]
      [] c.k = "zip"  -> [k |-> "zip", args |-> c.args, want |-> Zipper(c.args),
                          lens |-> IF AllSeqs(c.args) THEN <<Lens(c.args)>> ELSE <<>>]
      [] c.k = "norm" -> [k |-> "norm", x |-> c.x, aslist |-> AsList(c.x), astuple |-> AsTuple(c.x), corner |-> StarArgsCorner(c.x)]
EvalGen == Eval /\ PrintT(ToJson(Emit(case', res')))

\* ---------------------------------------------------------------------------------------------
\* Clauses
\* ---------------------------------------------------------------------------------------------
IsL == done /\ case.k \in {"lift", "lib"}
\* leaf paths of x, the node at a path, and - formulated along the path, not by structural
\* recursion on the result - what a companion has become when the path has been walked
RECURSIVE Paths(_)
Paths(x) == IF ~IsCont(x) THEN {<<>>}
            ELSE UNION {{<<i>> \o p : p \in Paths(Child(x, i))} : i \in 1..Width(x)}
RECURSIVE At(_, _)
At(x, p) == IF p = <<>> THEN x ELSE At(Child(x, Head(p)), Tail(p))
RECURSIVE CompAt(_, _, _, _)
CompAt(c, x, p, deep) ==
    IF p = <<>> THEN c
    ELSE LET i == Head(p)
             ci == IF IsSeq(x) THEN SelI(c, Width(x), i, deep) ELSE SelK(c, KeySet(x), Pay(x)[i][1], deep)
         IN  CompAt(ci, Child(x, i), Tail(p), deep)
\* the node of c that corresponds to path p of x (dicts by key, whatever their order)
RECURSIVE AtLike(_, _, _)
AtLike(c, x, p) == IF p = <<>> THEN c
                   ELSE AtLike(IF IsMap(x) THEN Get(c, Pay(x)[Head(p)][1]) ELSE Pay(c)[Head(p)], Child(x, Head(p)), Tail(p))
\* lists and tuples match each other; dicts match dicts with the same keys; leaves match leaves
RECURSIVE Congruent(_, _)
Congruent(x, c) ==
    IF IsSeq(x) THEN IsSeq(c) /\ Width(c) = Width(x) /\ \A i \in 1..Width(x) : Congruent(Pay(x)[i], Pay(c)[i])
    ELSE IF IsMap(x) THEN IsMap(c) /\ KeySet(c) = KeySet(x) /\ \A i \in 1..Width(x) : Congruent(Pay(x)[i][2], Get(c, Pay(x)[i][1]))
    ELSE ~IsCont(c)

ResIsLift == IsL => res.law = Lift(case.fn, case.x, case.cs, FALSE) /\ Want = Outcomes(case.fn, case.x, case.cs)
ShapePreserved == IsL => SameShape(case.x, res.law) /\ SameShape(case.x, res.deep)
LeafWise == IsL => \A deep \in BOOLEAN :
                LET r == IF deep THEN res.deep ELSE res.law IN
                \A p \in Paths(case.x) :
                    At(r, p) = Apply(case.fn, At(case.x, p), [j \in 1..Len(case.cs) |-> CompAt(case.cs[j], case.x, p, deep)])
ScalarsBroadcast == (IsL /\ \A j \in 1..Len(case.cs) : ~IsCont(case.cs[j])) =>
                        \A p \in Paths(case.x) : At(res.law, p) = Apply(case.fn, At(case.x, p), case.cs)
SameShapeMatches == IsL => \A j \in 1..Len(case.cs) : Congruent(case.x, case.cs[j]) =>
                        \A deep \in BOOLEAN : \A p \in Paths(case.x) : CompAt(case.cs[j], case.x, p, deep) = AtLike(case.cs[j], case.x, p)
DeepMatchConfined == (IsL /\ \A j \in 1..Len(case.cs) : ~IsCont(case.cs[j]) \/ Congruent(case.x, case.cs[j])) => res.law = res.deep
\* positional = keyword: the mechanism, for every split of the companions into positional and
\* keyword ones, gives an outcome of the law - and the same one
PosEqKw == (done /\ case.k = "lift") =>
               LET allkw == Mech(case.x, <<>>, case.cs, Materialise) IN
               /\ allkw \in Want
               /\ \A n \in 1..Len(case.cs) :
                     Mech(case.x, SubSeq(case.cs, 1, n), SubSeq(case.cs, n + 1, Len(case.cs)), Materialise) = allkw

IsZ == done /\ case.k = "zip"
ZipRaises == IsZ => (IsExc(Zipper(case.args)) <=>
                        \E i, j \in 1..Len(case.args) :
                            /\ IsSeq(case.args[i]) /\ IsSeq(case.args[j])
                            /\ Width(case.args[i]) # Width(case.args[j]) /\ Width(case.args[i]) # 1 /\ Width(case.args[j]) # 1)
ZipRows == (IsZ /\ ~IsExc(Zipper(case.args))) =>
              LET z == Pay(Zipper(case.args)) IN
              /\ \A j \in 1..Len(case.args) : (IsSeq(case.args[j]) /\ Width(case.args[j]) # 1) => Len(z) = Width(case.args[j])
              /\ \A r \in 1..Len(z) : /\ Tag(z[r]) = "t" /\ Len(Pay(z[r])) = Len(case.args)
                                      /\ \A j \in 1..Len(case.args) :
                                            Pay(z[r])[j] = IF IsSeq(case.args[j]) /\ Width(case.args[j]) # 1 THEN Pay(case.args[j])[r]
                                                           ELSE IF IsSeq(case.args[j]) THEN Pay(case.args[j])[1] ELSE case.args[j]
LensAgrees == (IsZ /\ AllSeqs(case.args)) =>
                 IF IsExc(Zipper(case.args)) THEN IsExc(Lens(case.args)) ELSE Lens(case.args) = VInt(Len(Pay(Zipper(case.args))))

IsN == done /\ case.k = "norm"
AsListIdempotent  == IsN => Tag(AsList(case.x)) = "l" /\ AsList(AsList(case.x)) = AsList(case.x)
AsTupleIdempotent == (IsN /\ ~StarArgsCorner(case.x)) => Tag(AsTuple(case.x)) = "t" /\ AsTuple(AsTuple(case.x)) = AsTuple(case.x)
NormKeepsElements == (IsN /\ IsSeq(case.x) /\ ~IsStarArgs(case.x)) => Pay(AsList(case.x)) = Pay(case.x) /\ Pay(AsTuple(case.x)) = Pay(case.x)
=============================================================================
