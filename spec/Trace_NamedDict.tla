--------------------------- MODULE Trace_NamedDict ---------------------------
(* Trace validation for extension X04-c, construction: every line of the log is one declaration of  *)
(* a class with the real named_dict and one call of it:                                              *)
(*   decl      [keys, defaults, types, casts]  as handed to named_dict (dicts = sequences of pairs)  *)
(*   fns       the tables of the user functions named by types / casts (the driver built the real     *)
(*             callables from these very tables)                                                      *)
(*   declares  "class" or the exception class the declaration raised                                  *)
(*   call      [form |-> "args", pos, kw] / [form |-> "mapping", pos |-> <<>>, kw]                    *)
(*   out       [kind |-> "inst", cls |-> "", items] / [kind |-> "exc", cls, items |-> <<>>]           *)
(*   attrs_same  1 when for every key getattr(x, key) is x[key]                                       *)
(*   arg_same    1 when the mapping handed in equals itself before the call                           *)
(*   is_dict     1 when the instance is a dict, an instance of the class, and equal to a plain dict    *)
(*               of its items                                                                         *)
EXTENDS NamedDict, Batch

Verdict(o) ==
    LET want == DeclOutcome(o.fns, o.decl) IN
    IF o.declares # want THEN "declaration_outcome"
    ELSE IF want # "class" THEN ""
    ELSE IF ~DeclInDomain(o.fns, o.decl) THEN "harness_case_outside_the_domain"
    ELSE LET got == [kind |-> o.out.kind, cls |-> o.out.cls, items |-> SeqSet(o.out.items)] IN
         IF got \notin Outcomes(o.fns, o.decl, o.call)
         THEN (IF got.kind = "exc" THEN "construct_raised" ELSE "construct_items")
         ELSE IF got.kind = "exc" THEN (IF o.arg_same = 1 THEN "" ELSE "mapping_argument_changed")
         ELSE IF o.attrs_same # 1 THEN "attribute_is_item"
         ELSE IF o.is_dict # 1 THEN "instance_is_a_dict"
         ELSE IF o.arg_same # 1 THEN "mapping_argument_changed"
         ELSE ""

Init == BatchInit
Next == BatchNext(Verdict)
=============================================================================
