----------------------------- MODULE Trace_Lift -----------------------------
(* Trace validation for property C19.  Each line of the log is one observation of pyg_base:    *)
(*   k = "lift"    loop(list, tuple, dict)(f)(x, companions..) with the recording function f,  *)
(*                 in one of the passing forms (positional, keyword, mixed, all keyword)       *)
(*   k = "lib"     lower / upper / strip / proper / f12 / as_float / replace / split           *)
(*   k = "zip"     list(zipper(args..))            k = "lens"   lens(args..)                     *)
(*   k = "norm"    as_list / as_tuple applied once and twice                                   *)
(*   k = "waiter"  one schedule: the structure, the results, the order in which the driver     *)
(*                 released the awaitables (coroutines are un-started when handed over and may *)
(*                 wait for another one to start; awaitables of every kind of Lift.tla, and    *)
(*                 non-awaitable look-alikes), which coroutines / objects were running before the *)
(*                 first release, whether the waiter task was done before each release and     *)
(*                 after the last one, and what it returned                                    *)
(* with the encoded outcome (a value or <<"exc", class>>).  Verdict(o) = "" when the           *)
(* specification explains the observation, otherwise the name of the failing clause.           *)
EXTENDS Lift, Batch

RECURSIVE Leaves(_)
Leaves(x) == IF IsCont(x) THEN UNION {Leaves(Child(x, i)) : i \in 1..Width(x)} ELSE {x}

\* the extensional leaf tables cover these inputs only (anything else is a fault of the driver)
StrsOf(v) == IF IsSeq(v) THEN {Pay(v)[i] : i \in 1..Len(Pay(v))} ELSE {v}
InDomain(o) ==
    CASE o.fn = "f" -> TRUE
      [] o.fn = "replace" -> /\ \A v \in Leaves(o.x) : IsStr(v) => Pay(v) \in RepT
                             /\ \A v \in StrsOf(o.cs[1]) : IsStr(v) /\ Pay(v) \in RepOld
                             /\ (IsNone(o.cs[2]) \/ (IsStr(o.cs[2]) /\ Pay(o.cs[2]) \in RepNew))
      [] o.fn = "split"   -> /\ \A v \in Leaves(o.x) : IsStr(v) => Pay(v) \in SplT
                             /\ o.cs[1] \in {VStr(" "), VStr("."), VLst(<<VStr(" "), VStr(".")>>), VTup(<<VStr(" "), VStr(".")>>),
                                             VTup(<<VStr(".")>>), VLst(<<VStr(".")>>), VLst(<<>>), VTup(<<>>)}
                             /\ Tag(o.cs[2]) = "b"
      [] OTHER -> \A v \in Leaves(o.x) : /\ IsStr(v) => Pay(v) \in StrU
                                         /\ (o.fn = "f12" /\ Tag(v) = "f") => Pay(v) \in DOMAIN F12F

VLift(o) ==
    IF ~InDomain(o) THEN "harness_domain"
    ELSE LET want == Outcomes(o.fn, o.x, o.cs) IN
         IF o.out \in want THEN ""
         \* the failure class of today's mechanism (see GeneratorExhaustion in Lift.tla) gets its own name
         ELSE IF o.out = Raises("TypeError") /\ o.fn = "f" /\ GeneratorExhaustion(o.x, o.npos) THEN "lift_generator_exhaustion"
         ELSE IF IsExc(o.out) THEN o.k \o "_raised"
         ELSE IF \A w \in want : IsExc(w) THEN o.k \o "_not_raised"
         ELSE IF ~SameShape(o.x, o.out) THEN o.k \o "_shape"
         ELSE o.k \o "_leaves"

VZip(o) == LET want == IF o.k = "zip" THEN Zipper(o.args) ELSE Lens(o.args) IN
    IF o.out = want THEN ""
    ELSE IF IsExc(o.out) THEN o.k \o "_raised"
    ELSE IF IsExc(want) THEN o.k \o "_not_raised"
    ELSE o.k \o "_value"

VNorm(o) ==
    IF o.fn = "as_list" THEN
        IF Tag(o.once) # "l" THEN "as_list_not_a_list"
        ELSE IF o.twice # o.once THEN "as_list_idempotent"
        ELSE IF o.once # AsList(o.x) THEN "as_list_value" ELSE ""
    ELSE
        IF Tag(o.once) # "t" THEN "as_tuple_not_a_tuple"
        ELSE IF o.twice # o.once THEN "as_tuple_idempotent"
        ELSE IF ~StarArgsCorner(o.x) /\ o.once # AsTuple(o.x) THEN "as_tuple_value" ELSE ""

\* o.order is the order in which the driver released the awaitables that need a release (GatedIds:
\* every kind but the NowKinds, which nobody releases); o.started the LazyKinds awaitables - coroutines
\* and plain objects with __await__ - that had taken their first step before the first release
VWaiter(o) ==
    LET ids   == AwIds(o.tree)
        gated == GatedIds(o.tree)
        n     == Len(o.order)
        Vf    == [i \in ids |-> o.vals[CHOOSE k \in 1..Len(o.vals) : o.vals[k][1] = i][2]]
    IN  IF ~AwWellFormed(o.tree) \/ LegacyKinds \cap {AwKind(a) : a \in AwLeaves(o.tree)} # {} THEN "harness_kinds"
        ELSE IF {o.order[k] : k \in 1..n} # gated \/ n # Cardinality(gated) \/ Len(o.done) # n + 1 THEN "harness_schedule"
        ELSE IF \E k \in 1..n : o.done[k] THEN "waiter_returned_early"          \* done[k]: after k-1 completions
        \* every awaitable has been released and the loop stepped: waiter must be back
        ELSE IF ~o.done[n + 1] THEN "waiter_never_returns"
        \* "every awaitable replaced": whatever its kind, no awaitable is left in what came back
        ELSE IF ~IsExc(o.out) /\ AwLeaves(o.out) # {} THEN "waiter_awaitable_left"
        \* the law: once waiter has been called every awaitable is running
        ELSE IF {o.started[k] : k \in 1..Len(o.started)} # LazyIds(o.tree) THEN "waiter_not_all_started"
        ELSE IF o.out # Schedule(o.tree, o.order, Vf) THEN
                 (IF IsExc(o.out) THEN "waiter_raised" ELSE IF ~SameShape(o.tree, o.out) THEN "waiter_shape"
                  ELSE IF LookLeaves(o.out) # LookLeaves(o.tree) THEN "waiter_lookalike_touched" ELSE "waiter_result")
        ELSE IF o.out # Subst(o.tree, ids, Vf) THEN "waiter_order_dependent"
        ELSE ""

Verdict(o) ==
    CASE o.k \in {"lift", "lib"} -> VLift(o)
      [] o.k \in {"zip", "lens"} -> VZip(o)
      [] o.k = "norm"            -> VNorm(o)
      [] o.k = "waiter"          -> VWaiter(o)
      [] OTHER                   -> "unknown_kind"

Init == BatchInit
Next == BatchNext(Verdict)
=============================================================================
