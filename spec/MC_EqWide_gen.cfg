CONSTANTS Widths = {3, 10}
          Deep = FALSE
          Warm = 2
INIT Init
NEXT EvalGen
INVARIANT WideOK
INVARIANT WidePinned
INVARIANT WideAt
INVARIANT PositionFree
