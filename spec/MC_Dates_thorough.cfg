CONSTANTS DayYears <- ThoroughYears
          OvfYears <- ThoroughOvfYears
          OvfD = 400
          GenYears = {2000}
          GenOvfYears = {2000}
INIT Init
NEXT Step
INVARIANT FastIsCivil
INVARIANT SpellDenote
INVARIANT DialectRule
INVARIANT CrossDialect
INVARIANT YmdDropsTime
INVARIANT OverflowInRange
INVARIANT OverflowWalk
INVARIANT OverflowCarry
INVARIANT MechFixedIsLaw
