--------------------------- MODULE Trace_Sessions ---------------------------
(* Trace validation for extension X01.  Each line of the log is one of                           *)
(*   k = "sess"   a real calendar (cfg), session bounds (ds, de: seconds) and the instants put to *)
(*                it, ascending:  obs = << [d, s, f, p, tr], ... >>  with the encoded outcomes of *)
(*                trade_date(t, 'f'), trade_date(t, 'p'), is_trading(t);                          *)
(*   k = "hist"   one history on one calendar object: cfg0 and the events with their outcomes,    *)
(*                ending with an observation of the object's configuration;                       *)
(*   k = "clock"  one ascending run of instants and the readings clock(ts, kind) returned;        *)
(*   k = "astime" one spelling of a time of day and what as_time made of it.                      *)
(* Outcomes are  [kind |-> "val", v |-> <<ints>>]  or  [kind |-> "exc", cls |-> class name].      *)
(* Everything is recomputed from the law level of Sessions.tla.  The verdict names the first     *)
(* element the specification does not explain, as "<clause>:<position>".                         *)
(* Named deviation SecondResolution: the law is stated on whole seconds; the sub-second part of  *)
(* an instant is not part of an observation (the code drops it).                                 *)
EXTENDS Sessions, Batch, FiniteSetsExt

CfgOf(k) == [hol |-> ToSet(k.hol), wk |-> ToSet(k.wk), adj |-> k.adj, lo |-> k.lo, hi |-> k.hi]
GoodCfg(k) == /\ k.adj \in {"f", "p", "m"} /\ k.wk \in {{5, 6}, {4, 5}, {6}, {}}
              /\ k.lo <= k.hi /\ \A x \in k.hol : InRange(k, x)
GoodSession(sc) == sc.ds \in 0..86399 /\ sc.de \in 0..86399
Val(out, v) == out.kind = "val" /\ out.v = v
Tag(clause, i) == clause \o ":" \o ToString(i)
FirstBad(J(_), n) == LET bad == {i \in 1..n : J(i) # ""} IN IF bad = {} THEN "" ELSE LET i == Min(bad) IN Tag(J(i), i)

\* ---- sessions -------------------------------------------------------------------------------------
JudgeSess(k, sc, e) ==
    LET t == <<e.d, e.s>> IN
    IF ~(e.s \in 0..86399 /\ SessDomain(k, sc, t)) THEN "out_of_domain"
    ELSE IF ~Val(e.f, <<TdF(k, sc, t)>>) THEN (IF TodayOff(sc, e.s, "f") THEN "trade_date_on_overnight_bound" ELSE "trade_date")
    ELSE IF ~Val(e.p, <<TdP(k, sc, t)>>) THEN (IF TodayOff(sc, e.s, "p") THEN "trade_date_on_overnight_bound" ELSE "trade_date")
    ELSE IF ~Val(e.tr, <<B(IsTrading(k, sc, t))>>) THEN "is_trading"
    \* the statement's relations on the recorded values themselves (implied by the clauses above:
    \* a failure here would be an inconsistency of the specification, reported as machinery failure)
    ELSE IF (e.tr.v[1] = 1) # (e.f.v[1] = e.p.v[1]) THEN "spec_inconsistent"
    ELSE ""
VerdictSess(o) ==
    LET k == CfgOf(o.cfg)  sc == [ds |-> o.ds, de |-> o.de] IN
    IF ~GoodCfg(k) \/ ~GoodSession(sc) THEN "bad_config:0"
    ELSE LET v == FirstBad(LAMBDA i : JudgeSess(k, sc, o.obs[i]), Len(o.obs)) IN
         IF v # "" THEN v
         ELSE IF \E i \in 1..(Len(o.obs) - 1) :
                    LET a == o.obs[i]  b == o.obs[i + 1] IN
                    Le(<<a.d, a.s>>, <<b.d, b.s>>) /\ (a.f.v[1] > b.f.v[1] \/ a.p.v[1] > b.p.v[1])
              THEN "spec_inconsistent:0" ELSE ""

\* ---- histories ------------------------------------------------------------------------------------
\* the object after event e
StepObj(st, e) ==
    CASE e.op = "SetDefaults"  -> DoSetDefaults(st, [ds |-> e.ds, de |-> e.de])
      [] e.op = "EditHolidays" -> DoEditHolidays(st, ToSet(e.hol))
      [] e.op = "EditWeekend"  -> DoEditWeekend(st, ToSet(e.wk))
      [] e.op = "BuildTable"   -> DoBuildTable(st)
      [] OTHER -> st
JudgeEvent(st, e) ==
    IF e.op = "Ask" THEN
        (IF ~SQDomain(st.cfg, st.defs, e.q) THEN "out_of_domain"
         ELSE IF Val(e.out, SAnswer(st.cfg, st.defs, e.q)) THEN ""
         ELSE IF e.q.op = "trade_date" /\ TodayOff(Eff(st.defs, e.q), e.q.s, e.q.a) THEN "trade_date_on_overnight_bound"
         ELSE "history_" \o e.q.op)
    ELSE IF e.op = "Config" THEN
        (IF /\ Val(e.hol, SetToSortSeq(st.cfg.hol, <)) /\ Val(e.wk, SetToSortSeq(st.cfg.wk, <))
            /\ Val(e.defs, <<st.defs.ds, st.defs.de>>) THEN "" ELSE "history_config_changed")
    ELSE IF e.op \in {"SetDefaults", "EditHolidays", "EditWeekend", "BuildTable"} THEN
        (IF e.out.kind = "val" THEN "" ELSE "history_" \o e.op)
    ELSE "bad_event"
RECURSIVE FoldEvents(_, _, _)
FoldEvents(st, evs, i) == IF i > Len(evs) THEN ""
                    ELSE LET v == JudgeEvent(st, evs[i]) IN
                         IF v # "" THEN Tag(v, i) ELSE FoldEvents(StepObj(st, evs[i]), evs, i + 1)
VerdictHist(o) ==
    LET k == CfgOf(o.cfg) IN
    IF ~GoodCfg(k) THEN "bad_config:0" ELSE FoldEvents(NewCal(k), o.events, 1)

\* ---- clocks ---------------------------------------------------------------------------------------
Asc(pts) == \A i \in 1..(Len(pts) - 1) : Le(pts[i], pts[i + 1])
ClockCore(o) ==
    LET pts == o.pts  out == o.out  n == Len(pts)
        k == [hol |-> ToSet(o.hol), wk |-> {5, 6}, adj |-> "m", lo |-> o.lo, hi |-> o.hi]
        r == pts[1][1] - 10
        d1 == pts[1][1]
        Rd(i) == out[i][1]
    IN
    IF n = 0 \/ Len(out) # n \/ ~Asc(pts) \/ \E i \in 1..n : ~(InRange(k, pts[i][1] - 40) /\ InRange(k, pts[i][1] + 40)) THEN "bad_config:0"
    ELSE IF \E i \in 1..n : Len(out[i]) # 2 \/ out[i][2] \notin 0..(MsDay - 1) THEN "clock_shape:0"
    ELSE IF o.kind \notin {"f", "k"} /\ \E i \in 1..n : out[i][2] # 0 THEN "clock_shape:0"
    ELSE IF \E i \in 1..(n - 1) : ~PLe(out[i], out[i + 1]) THEN Tag("clock_decreases", CHOOSE i \in 1..(n - 1) : ~PLe(out[i], out[i + 1]))
    ELSE LET J(i) ==
             CASE o.kind = "f" -> IF PDiff(out[i], out[1]) = PDiff(FracVal(pts[i]), FracVal(pts[1])) THEN "" ELSE "clock_units"
               [] o.kind = "k" -> IF PDiff(out[i], out[1]) = PDiff(KVal(k, r, pts[i]), KVal(k, r, pts[1])) THEN "" ELSE "clock_units"
               [] o.kind \in {"d", "m", "q", "y"} -> IF Rd(i) - Rd(1) = Crossed(o.kind, 0, d1, pts[i][1]) THEN "" ELSE "clock_units"
               [] OTHER -> ""
         IN  IF o.kind = "w"
             THEN (IF \E p \in WeekPhases : \A i \in 1..n : Rd(i) - Rd(1) = Crossed("w", p, d1, pts[i][1]) THEN "" ELSE "clock_units:0")
             ELSE IF o.kind = "b"
             THEN (IF \E base \in BVals(k, r, d1) : \A i \in 1..n : Rd(i) - Rd(1) + base \in BVals(k, r, pts[i][1]) THEN "" ELSE "clock_units:0")
             ELSE IF o.kind \in {"f", "k", "d", "m", "q", "y"} THEN FirstBad(J, n)
             ELSE "bad_config:0"

\* a rejected weekday-intraday run is attributed: its first instant falls on a non-business day (the whole
\* run then comes back in whole numbers), or it visits a non-business stretch whose next business day lies
\* in another month; the position is kept
VerdictClock(o) ==
    LET v == ClockCore(o) IN
    IF v = "" \/ o.kind # "k" \/ SelectSeq(<<"bad_config:0", "clock_shape:0">>, LAMBDA x : x = v) # <<>> THEN v
    ELSE LET k == [hol |-> ToSet(o.hol), wk |-> {5, 6}, adj |-> "m", lo |-> o.lo, hi |-> o.hi] IN
         IF ~IsBday(k, o.pts[1][1]) THEN "clock_k_first_nonbusiness:0"
         ELSE IF \E i \in 1..Len(o.pts) : ~IsBday(k, o.pts[i][1]) /\ ~SameMonth(AdjF(k, o.pts[i][1]), o.pts[i][1]) THEN "clock_k_month_end:0"
         ELSE v

\* ---- times of day ---------------------------------------------------------------------------------
VerdictAsTime(o) ==
    LET want == IF o.form \in {"int", "digits"} THEN ReadInt(o.n) ELSE ReadColon(o.f) IN
    IF o.form \notin {"int", "digits", "colon"} THEN "bad_config:0"
    ELSE IF want = BadTime THEN (IF o.out.kind = "exc" /\ o.out.cls = "ValueError" THEN "" ELSE "as_time:0")
    ELSE IF Val(o.out, <<want>>) THEN "" ELSE "as_time:0"

Verdict(o) == CASE o.k = "sess"   -> VerdictSess(o)
                [] o.k = "hist"   -> VerdictHist(o)
                [] o.k = "clock"  -> VerdictClock(o)
                [] o.k = "astime" -> VerdictAsTime(o)
                [] OTHER -> "bad_config:0"

Init == BatchInit
Next == BatchNext(Verdict)
=============================================================================
