CONSTANT Sizes <- SZ_gen_values
INIT Init
NEXT Gen
