CONSTANTS Depth = 5
          Record = TRUE
          Wide = TRUE
INIT InitGen
NEXT NextGen
