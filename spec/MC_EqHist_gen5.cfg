CONSTANTS Depth = 5
          Record = TRUE
          Wide = TRUE
          Full = FALSE
INIT InitGen
NEXT NextGen
