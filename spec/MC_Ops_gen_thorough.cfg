CONSTANTS NS = 4
 NT = 3
 NF = 0
 Fill = FALSE
INIT InitGen
NEXT EvalGen
