CONSTANTS NS = 4
 NT = 3
 NF = 0
INIT InitGen
NEXT EvalGen
