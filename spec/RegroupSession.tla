--------------------------- MODULE RegroupSession ---------------------------
(* Property C11 over SESSIONS: the regroupings as calls on objects the caller owns and keeps.    *)
(*                                                                                               *)
(* A session is a STORE of caller-owned objects, <<o1, o2, ...>>, each [kind |-> k, val |-> v]:   *)
(*     "table"   a table with scalar cells (the table the session starts from, and every result   *)
(*               of sort / unlist / ungroup / unpivot: results are ordinary tables of the caller)*)
(*     "listed" / "grouped" / "pivoted"   the result of listby / groupby / pivot                 *)
(*     "names"   a list of column names, handed over as the keys (by / x) of a call              *)
(*     "ydict"   the {name: columns} spelling of unpivot's y, val = <<<<name, <<labels>>>>>>     *)
(* and a history of STEPS.  A step is a public call on objects of the store                      *)
(*     sort / listby / groupby / pivot   on a "table",  keys = a "names" object of the store      *)
(*     unlist / ungroup / unpivot        on a result of listby / groupby / pivot                  *)
(* (its result becomes a new object of the store), or an action of the caller between calls:     *)
(*     edit    a column of a table object is re-assigned in place (d[col] = vals, d.col = vals)   *)
(*     respec  a names object is re-filled in place (by[:] = names)                               *)
(* After every step EVERY object of the store is observed again.                                 *)
(*                                                                                               *)
(* LAW (the statement, read for calls that share objects): a call has no memory and owns nothing *)
(* of the caller.  (1) Its result is what the statement says for the arguments AS THEY ARE AT    *)
(* THE MOMENT OF THE CALL (whatever was called before, however the objects came to be what they  *)
(* are); for the inverse calls "the original table" is the operand of the forward call as it was *)
(* when that call was made.  (2) No object of the store is different after the call; an action   *)
(* of the caller changes the object it names and no other.                                       *)
(* sort is a call of the session like the others (its result is an ordinary table; what a sorted *)
(* table is, is property C07's business: the result is not judged here, only clause (2)).        *)
EXTENDS Regroup

TableKinds == {"table", "listed", "grouped", "pivoted"}
Creates(op) == op \notin {"edit", "respec"}
ResultKind(op) == CASE op = "listby" -> "listed" [] op = "groupby" -> "grouped" [] op = "pivot" -> "pivoted" [] OTHER -> "table"
Forward(op) == op \in {"listby", "groupby", "pivot"}
InverseOf(op) == CASE op = "unlist" -> "listby" [] op = "ungroup" -> "groupby" [] op = "unpivot" -> "pivot" [] OTHER -> ""

\* A call (every field always present; the ones an operation does not use hold "" / 0 / <<>>):
\*   op, on = slot of the table object the call is made on, key = slot of the names object (0: none),
\*   form = how the names are handed over: "names" (one by one, *by), "list" (the list object itself), "name" (its only element)
\*   yk = 0 (y is given as the plain name y) or the slot of the ydict object;  y, z, agg (pivot / unpivot);  grp (groupby / ungroup)
\*   col, vals, how (edit: how = "setitem" | "setattr" | "update");  names (respec);  res = the slot the result gets (0: none)
NoCall == [op |-> "", on |-> 0, key |-> 0, form |-> "", yk |-> 0, y |-> "", z |-> "", agg |-> "", grp |-> "",
           col |-> "", vals |-> <<>>, how |-> "", names |-> <<>>, res |-> 0]

\* what an inverse call inverts: the forward call and its operand as they were (ok = FALSE: nothing to judge the call by,
\* e.g. the caller edited the regrouped table in place - it is no longer the regrouping of anything)
NoProv == [ok |-> FALSE, t |-> [cols |-> <<>>, rows |-> <<>>], key |-> <<>>, y |-> "", z |-> "", agg |-> "", grp |-> ""]

\* the labels a call of unpivot asks for, and the name it gives to the label column
YName(S, cl) == IF cl.yk = 0 THEN cl.y ELSE S[cl.yk].val[1][1]
YSel(S, cl, pv) == IF cl.yk = 0 THEN AllLabels(pv.t, pv.y) ELSE Range(S[cl.yk].val[1][2])

\* ---- clause (2): nobody's object is different after the step ----------------------------------
Touched(cl) == IF cl.op = "edit" THEN cl.on ELSE IF cl.op = "respec" THEN cl.key ELSE 0
\* kin = the slots that are exempt at an edit: a table and the table sort made of it (whether sort hands back a table of its
\* own is not this property's business: a caller's edit of one may be seen in the other)
ChangedSlots(S, cl, post, kin) == {s \in 1..Len(S) : s # Touched(cl) /\ s \notin kin /\ (s > Len(post) \/ post[s] # S[s])}
MinOf(X) == CHOOSE x \in X : \A y \in X : x <= y
ChangedClause(S, cl, post, kin) ==
    LET ch == ChangedSlots(S, cl, post, kin) IN
    IF ch = {} THEN ""
    ELSE IF ~Creates(cl.op) THEN "caller_edit_seen_in_another_object"
    ELSE LET s == MinOf(ch) IN
         IF s = cl.on THEN "operand_changed"
         ELSE IF s = cl.key \/ s = cl.yk THEN "argument_changed"
         ELSE IF S[s].kind \in TableKinds THEN "other_table_changed" ELSE "other_argument_changed"

\* ---- clause (1): the result, judged with the arguments as they are at the moment of the call ----
ResultClause(S, cl, out, colcmp, idcol, pv) ==
    LET T == S[cl.on].val
        by == IF cl.key = 0 THEN <<>> ELSE S[cl.key].val IN
    CASE cl.op = "listby"  -> ListbyVerdict(T, by, out)
      [] cl.op = "groupby" -> GroupbyVerdict(T, by, cl.grp, out)
      [] cl.op = "pivot"   -> IF LabelClash(T, by, cl.y) THEN "" ELSE PivotVerdict(T, by, cl.y, cl.z, cl.agg, out)
      [] cl.op = "unlist"  -> IF ~pv.ok \/ NRows(pv.t) = 0 THEN "" ELSE UnlistVerdictG(pv.t, pv.key, out, colcmp, idcol)
      [] cl.op = "ungroup" -> IF ~pv.ok THEN "" ELSE UngroupVerdict(pv.t, pv.key, out)
      [] cl.op = "unpivot" -> IF ~pv.ok \/ pv.agg # "last" \/ by # pv.key \/ (cl.yk # 0 /\ S[cl.yk].val = <<>>) THEN ""
                              ELSE UnpivotVerdictSel(pv.t, by, YName(S, cl), cl.z, YSel(S, cl, pv), out)
      [] OTHER -> ""        \* sort, edit, respec

\* S = the store before the step, post = the store after it (with the result, if any, as its last object)
StepVerdict(S, cl, raised, post, colcmp, idcol, pv, kin) ==
    IF raised # "" THEN cl.op \o "_raises"
    ELSE IF Len(post) # Len(S) + (IF Creates(cl.op) THEN 1 ELSE 0) THEN "store_shape"
    ELSE LET v == ChangedClause(S, cl, post, kin) IN
         IF v # "" THEN v
         ELSE IF Creates(cl.op) THEN ResultClause(S, cl, post[Len(post)].val, colcmp, idcol, pv) ELSE ""

\* ---- a recorded session: o = [init |-> store, idcol |-> name, steps |-> <<[call, raised, post, colcmp], ...>>] ----
PreOf(o, k) == IF k = 1 THEN o.init ELSE o.steps[k - 1].post
\* the forward call that made object s, looked up in the history before step k
ProvOf(o, k) ==
    LET cl == o.steps[k].call
        js == {j \in 1..(k - 1) : o.steps[j].call.res = cl.on} IN
    IF js = {} THEN NoProv
    ELSE LET j == MinOf(js)
             fc == o.steps[j].call
             S == PreOf(o, j) IN
         IF fc.op # InverseOf(cl.op) THEN NoProv
         ELSE [ok |-> ~\E m \in (j + 1)..(k - 1) : o.steps[m].call.op = "edit" /\ o.steps[m].call.on = cl.on,
               t |-> S[fc.on].val, key |-> S[fc.key].val, y |-> fc.y, z |-> fc.z, agg |-> fc.agg, grp |-> fc.grp]
SortKin(o, k) ==
    LET cl == o.steps[k].call IN
    IF cl.op # "edit" THEN {}
    ELSE {o.steps[j].call.res : j \in {j \in 1..(k - 1) : o.steps[j].call.op = "sort" /\ o.steps[j].call.on = cl.on}}
         \cup {o.steps[j].call.on : j \in {j \in 1..(k - 1) : o.steps[j].call.op = "sort" /\ o.steps[j].call.res = cl.on}}
RECURSIVE SessionFrom(_, _)
SessionFrom(o, k) ==
    IF k > Len(o.steps) THEN ""
    ELSE LET e == o.steps[k]
             v == StepVerdict(PreOf(o, k), e.call, e.raised, e.post, e.colcmp, o.idcol, ProvOf(o, k), SortKin(o, k)) IN
         IF v # "" THEN v ELSE SessionFrom(o, k + 1)
SessionVerdict(o) == SessionFrom(o, 1)

\* =================================================================================================
\* MECHANISM: one way to run a session (the constructive level of Regroup.tla applied to the store),
\* with the variants the law forbids (Mech):
\*   "law"   : every call works on the contents of its arguments and builds its result afresh
\*   "tag"   : sort marks its result "sorted by these columns", listby / groupby trust the mark and skip their own
\*             sort; an edit in place does not clear it                                   (a memo that outlives its truth)
\*   "alias" : unlist appends the other rows' lists to the first row's lists, and those are the listed table's cells
\*   "pop"   : unpivot takes the {name: columns} object apart                             (consumes an argument)
\*   "keys"  : listby pops the names off the caller's list                                  (consumes an argument)
\* aux[s] = what the mechanism keeps about object s: tag (the mark), pv (what an inverse call inverts)
\* =================================================================================================
NoAux == [tag |-> <<>>, pv |-> NoProv]
GroupRows(mech, T, by, tag) == IF mech = "tag" /\ tag # <<>> /\ IsPrefix(by, tag) THEN T.rows ELSE SortedRows(T, by)
MListby(T, by, rows) ==
    LET runs == RunsOf(rows, by, 1, <<>>) IN
    [cols |-> T.cols,
     rows |-> [n \in 1..Len(runs) |-> [cc \in ColSet(T) |->
                 IF cc \in Range(by) THEN Last(runs[n])[cc] ELSE VLst([m \in 1..Len(runs[n]) |-> runs[n][m][cc]])]]]
MGroupby(T, by, grp, rows) ==
    LET runs == RunsOf(rows, by, 1, <<>>)  nk == NonKeys(T, by) IN
    [cols |-> by \o <<grp>>,
     rows |-> [n \in 1..Len(runs) |-> [cc \in Range(by) \cup {grp} |->
                 IF cc = grp THEN <<"tbl", [cols |-> SelectSeq(T.cols, LAMBDA x : x \in nk),
                                            rows |-> [m \in 1..Len(runs[n]) |-> [x \in nk |-> runs[n][m][x]]]]>>
                 ELSE Last(runs[n])[cc]]]]
SetColumn(T, col, vals) == [cols |-> T.cols, rows |-> [i \in 1..NRows(T) |-> [T.rows[i] EXCEPT ![col] = vals[i]]]]
\* the listed table after the aliasing unlist: the first row's lists have grown by the lists of all the other rows
AliasGrown(L, by) ==
    IF NRows(L) = 0 \/ Len(Pay(L.rows[1][CHOOSE cc \in Range(L.cols) \ Range(by) : TRUE])) < 2 THEN L
    ELSE [cols |-> L.cols,
          rows |-> [n \in 1..NRows(L) |-> IF n > 1 THEN L.rows[n]
                       ELSE [cc \in Range(L.cols) |-> IF cc \in Range(by) THEN L.rows[1][cc]
                                ELSE VLst(FlattenSeq([m \in 1..NRows(L) |-> Pay(L.rows[m][cc])]))]]]

\* the result of call cl on store S (a table value), given the mechanism's memory
MResult(mech, S, aux, cl) ==
    LET T == S[cl.on].val
        by == IF cl.key = 0 THEN <<>> ELSE S[cl.key].val
        pv == aux[cl.on].pv IN
    CASE cl.op = "sort"    -> [cols |-> T.cols, rows |-> SortedRows(T, by)]
      [] cl.op = "listby"  -> MListby(T, by, GroupRows(mech, T, by, aux[cl.on].tag))
      [] cl.op = "groupby" -> MGroupby(T, by, cl.grp, GroupRows(mech, T, by, aux[cl.on].tag))
      [] cl.op = "pivot"   -> CPivot(T, by, cl.y, cl.z, cl.agg)
      [] cl.op = "unlist"  -> CUnlist(T, pv.key)
      [] cl.op = "ungroup" -> [cols |-> pv.t.cols, rows |-> CUngroup(T, pv.key, pv.grp)]
      [] cl.op = "unpivot" -> CUnpivotBy(LAMBDA cc : cc \notin Range(by) /\ cc \in YSel(S, cl, pv), pv.t, T, by, YName(S, cl), cl.z)
\* the store and the mechanism's memory after the step
MStep(mech, S, aux, cl) ==
    IF cl.op = "edit" THEN [store |-> [S EXCEPT ![cl.on].val = SetColumn(@, cl.col, cl.vals)],
                            aux |-> [aux EXCEPT ![cl.on].pv = NoProv]]              \* (the mark stays: nobody clears it)
    ELSE IF cl.op = "respec" THEN [store |-> [S EXCEPT ![cl.key].val = cl.names], aux |-> aux]
    ELSE LET out == MResult(mech, S, aux, cl)
             S1 == IF mech = "alias" /\ cl.op = "unlist" THEN [S EXCEPT ![cl.on].val = AliasGrown(@, aux[cl.on].pv.key)]
                   ELSE IF mech = "pop" /\ cl.op = "unpivot" /\ cl.yk # 0 THEN [S EXCEPT ![cl.yk].val = <<>>]
                   ELSE IF mech = "keys" /\ cl.op = "listby" /\ cl.form = "list" THEN [S EXCEPT ![cl.key].val = <<>>]
                   ELSE S
             a1 == [tag |-> IF cl.op = "sort" THEN S[cl.key].val ELSE <<>>,
                    pv |-> IF Forward(cl.op) THEN [ok |-> TRUE, t |-> S[cl.on].val, key |-> S[cl.key].val, y |-> cl.y, z |-> cl.z,
                                                    agg |-> cl.agg, grp |-> cl.grp]
                           ELSE NoProv] IN
         [store |-> Append(S1, [kind |-> ResultKind(cl.op), val |-> out]), aux |-> Append(aux, a1)]
=============================================================================
