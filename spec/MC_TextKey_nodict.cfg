CONSTANTS MaxLen = 1
          Gen = FALSE
          WithDicts = FALSE
INIT Init
NEXT Next
INVARIANT KeySound
