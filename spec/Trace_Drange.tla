----------------------------- MODULE Trace_Drange -----------------------------
(* Trace validation for property C10: every line is one real call                                *)
(*     drange(t0, t1, bump)  ->  out                                                              *)
(* with t0, t1, bump as in Drange.tla and out = <<"ok", list of instants>>, <<"exc", class>>,      *)
(* <<"timeout">> (the CPU-time watchdog fired: the call did not terminate) or <<"other", type>>.   *)
(* Verdict names the first clause of the statement that the returned value breaks.                 *)
EXTENDS Drange, Batch

(* A line may carry `reals` (how each argument was realised: Drange!RealsOk says which realisations   *)
(* the quantifier admits) and `before` (what the same process did earlier: calls, edits of the default *)
(* calendar through the public calendar API, in-place changes of lists returned earlier).  The verdict *)
(* reads neither beyond the domain test: what a call must return is the law of the VALUES its          *)
(* arguments denote - a call has no memory, knows no registry and no realisation.                      *)
HasReals(o) == "reals" \in DOMAIN o
Verdict(o) == IF ~CaseInDomain(o.t0, o.t1, o.bump) THEN "domain"
              ELSE IF HasReals(o) /\ ~RealsOk(o.reals, o.t0, o.t1, o.bump) THEN "domain"
              ELSE IF o.out[1] \notin {"ok", "exc", "timeout"} THEN "not_a_list"
              ELSE Explain(o.t0, o.t1, o.bump, o.out)

\* the variables of the drange machine are not used here
Init == BatchInit /\ t0 = 0 /\ t1 = 0 /\ bump = 0 /\ cur = 0 /\ out = 0 /\ st = "idle"
Next == BatchNext(Verdict) /\ UNCHANGED drvars
=============================================================================
