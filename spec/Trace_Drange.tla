----------------------------- MODULE Trace_Drange -----------------------------
(* Trace validation for property C10: every line is one real call                                *)
(*     drange(t0, t1, bump)  ->  out                                                              *)
(* with t0, t1, bump as in Drange.tla and out = <<"ok", list of instants>>, <<"exc", class>>,      *)
(* <<"timeout">> (the CPU-time watchdog fired: the call did not terminate) or <<"other", type>>.   *)
(* Verdict names the first clause of the statement that the returned value breaks.                 *)
EXTENDS Drange, Batch

Verdict(o) == IF ~CaseInDomain(o.t0, o.t1, o.bump) THEN "domain"
              ELSE IF o.out[1] \notin {"ok", "exc", "timeout"} THEN "not_a_list"
              ELSE Explain(o.t0, o.t1, o.bump, o.out)

\* the variables of the drange machine are not used here
Init == BatchInit /\ t0 = 0 /\ t1 = 0 /\ bump = 0 /\ cur = 0 /\ out = 0 /\ st = "idle"
Next == BatchNext(Verdict) /\ UNCHANGED drvars
=============================================================================
