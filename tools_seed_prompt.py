#!/venv/bin/python
"""tools_seed_prompt.py <property> <worktree>: prints the seeding prompt (harness/SEEDING_BRIEF.md) for one property."""
import json, glob, sys
pid, wt = sys.argv[1], sys.argv[2]
p = [json.loads(l) for l in open('/verif/properties.jsonl') if l.strip()]
p = [x for x in p if x['id'] == pid][0]
prop = '%s - %s\nStatement: %s\nQuantified over: %s\nAnchors (where to look): files %s; %s' % (
    p['id'], p['title'], p['statement'], p['quantifier'].get('text', ''), ', '.join(p['anchors']['files']), p['anchors'].get('mechanism', ''))
avoid = []
for d in sorted(glob.glob('/verif/seeded/%s-*' % pid), key=lambda s: int(s.split('-')[-1])):
    n = json.load(open(d + '/meta.json')).get('needs_to_manifest', '')
    first = [l for l in n.splitlines() if l.strip()][:1]
    if first:
        avoid.append('   - ' + first[0].lstrip('# ').strip()[:160])
brief = open('/verif/harness/SEEDING_BRIEF.md').read().split('\n\n', 1)[1]
print(brief.replace('{WT}', wt).replace('{PROP}', prop).replace('{AVOID}', '\n'.join(avoid) or '   (none)'))
