"""C11 size thresholds (spec/RegroupBig.tla, MC_RegroupB.tla): a small TLC-enumerated pattern is SCALED UP by the rule the
specification states (k copies of the pattern rows, repeated or in blocks, one odd row at a given position, id columns that
number the rows), the real regroupings are called on the real table and everything that came back is recorded.
Nothing is judged here: Trace_Regroup (op = "scale") judges the record by the scaling law, and its clause operand_changed also
says that the table built here is the one the rule describes.
"""
from harness.enc import IdMap, untag, proj_table
from pyg_base import dictable, cmp, first, last

AGG = {'list': None, 'len': len, 'first': first, 'last': last}
SIZES = (20, 68, 104, 130, 260, 1030)      # n = the first m * k + 1 >= size
THRESHOLDS = (16, 64, 100, 128, 256, 1024)  # 'past:T' = row T + 2: the odd row just beyond the first T rows
VIAS = ('listby', 'groupby', 'pivot', 'wide')


def safe_cmp(x, y):
    try:
        c = cmp(x, y)
        return int(c) if c in (-1, 0, 1) else 9
    except Exception:
        return 9


def describe(d, size, mode, posc):
    """the description sc of RegroupBig for pattern / odd row d, about `size` rows (MC_RegroupB!ScOf, PosOf)"""
    m = len(d['pat']['rows'])
    k = max(1, -(-(size - len(d['odd'])) // m))
    n = m * k + len(d['odd'])
    if not d['odd']: pos = 0
    elif posc.startswith('past:'): pos = min(n, int(posc[5:]) + 2)
    else: pos = {'early': 2 if n > 1 else 1, 'middle': (n + 1) // 2, 'late': n - 2 if n > 2 else n, 'last': n}[posc]
    return {'pat': d['pat'], 'k': k, 'mode': mode, 'odd': d['odd'], 'pos': pos, 'ids': ['p', 'q']}


def build(sc, ids):
    """the real table of the description (RegroupBig!ScaledTable): one Python object per cell of the small table"""
    m = len(sc['pat']['rows'])
    small = [{c: untag(r[c], ids) for c in sc['pat']['cols']} for r in sc['pat']['rows'] + sc['odd']]
    n = m * sc['k'] + len(sc['odd'])
    src = []
    for i in range(1, n + 1):
        if sc['odd'] and i == sc['pos']:
            src.append(m)
        else:
            j = i - 1 if (sc['odd'] and i > sc['pos']) else i
            src.append((j - 1) % m if sc['mode'] == 'repeat' else (j - 1) // sc['k'])
    data = {c: [small[s][c] for s in src] for c in sc['pat']['cols']}
    for c in sc['ids']:
        data[c] = list(range(1, n + 1))
    return dictable(data)


def obs_scale(sc, via, by, form, proj, agg='last', grp='grp', k=0):
    ids = IdMap(); d = build(sc, ids)
    empty = {'cols': [], 'rows': []}
    y = ('q' if via == 'wide' else ('b' if by == ['a'] else 'a'))
    o = {'op': 'scale', 'sc': sc, 'via': via, 'by': by, 'form': form, 'grp': grp, 'y': y, 'z': 'p', 'agg': agg, 'raised': '', 'stage': via,
         'out': empty, 'inv': empty, 'colcmp': [], 'after': {}}
    a = tuple(by) if form == 'names' else (list(by),)
    try:
        if via == 'listby':
            res = d.listby(*a); o['out'] = proj(res, ids)
            o['stage'] = 'unlist'
            u = res.unlist(); o['inv'] = proj(u, ids)
            o['colcmp'] = [[safe_cmp(dict.__getitem__(u, c)[p], dict.__getitem__(u, c)[p + 1]) for c in by] for p in range(len(u) - 1)]
        elif via == 'groupby':
            res = d.groupby(*a) if grp == 'grp' else d.groupby(*a, grp=grp); o['out'] = proj(res, ids)
            o['stage'] = 'ungroup'
            o['inv'] = proj(res.ungroup() if grp == 'grp' else res.ungroup(grp), ids)
        else:
            xa = by[0] if (form == 'names' and len(by) == 1) else list(by)
            res = (d.pivot if k % 2 else d.xyz)(xa, y, 'p', AGG[agg]); o['out'] = proj(res, ids)
            if via == 'wide':
                o['stage'] = 'unpivot'
                o['inv'] = proj(res.unpivot(xa, y, 'p').exc(p=None), ids)
    except Exception as e:
        o['raised'] = type(e).__name__
    o['after'] = proj_table(d, ids)
    return o
