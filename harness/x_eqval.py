"""Value descriptors of spec/Eq.tla <-> concrete Python / numpy / pandas values (property C14).

realise(desc, ids): descriptor -> a fresh concrete value (fresh containers; one NaN object per NaN
                    identity of `ids`, a new `ids` gives new NaN objects: a structural copy).
project(value, ids): concrete value -> descriptor (the abstraction function).
Rendering and projecting only - nothing here decides anything.

Realisation variants (concrete descriptors of spec/Eq.tla, Norm gives the value):
  ["mo", [perm, kvs]] / ["Mo", [cls, perm, kvs]]   a dict whose keys were inserted in the order kvs[perm[0]-1], ...
                    (kvs in sorted key order); project() reads the insertion order back from the object
  ["v", [dtype, buf, bufcells, offset, shape, strides]]   an ndarray that is a view into buffer `buf` of the
                    Heap of `ids` (all values realised with one Heap share its buffers: aliasing between
                    operands); project() reads buffer, offset and strides back from the data pointer
  ["Sv", [index, view]] / ["Fv", [index, columns, view]]   a Series / DataFrame built on a view, copy=False
"""
import datetime, math
import numpy as np
import pandas as pd

LIMIT = 2 ** 31 - 1
NP_TYPES = {'int64': np.int64, 'int32': np.int32, 'float64': np.float64, 'float32': np.float32,
            'bool_': np.bool_, 'str_': np.str_}
LEAF_TAGS = ('n', 'b', 'i', 'f', 'nan', 'inf', 's', 'd', 'ts', 'd64', 'date', 'np', 'nat')


class Heap(object):
    """the buffers of one world: buffer number -> the 1-d ndarray that owns the cells (kept alive).
    Values realised with the same Heap share these buffers; another Heap is other memory."""
    def __init__(self):
        self.by_id = {}
        self.ids = None           # the NaN objects held by object-dtype buffers

    def buffer(self, k, dt, cells):
        if self.ids is None:
            self.ids = Ids(self)
        if k not in self.by_id:
            self.by_id[k] = (_ndarray(dt, (len(cells),), cells, self.ids), dt, cells)
        b, dt0, cells0 = self.by_id[k]
        if dt0 != dt or cells0 != cells:
            raise ValueError('buffer %r described in two ways: %r / %r' % (k, (dt0, cells0), (dt, cells)))
        return b

    def locate(self, a):
        """(buffer number, buffer) of the registered buffer the data of `a` lives in, or None"""
        if a.size == 0:
            return None
        ptr = a.__array_interface__['data'][0]
        for k, (b, _, _) in self.by_id.items():
            lo = b.__array_interface__['data'][0]
            if a.dtype == b.dtype and lo <= ptr < lo + b.nbytes:
                return k, b
        return None


class Ids(object):
    """NaN *objects* of one realised value: abstract identity <-> object (kept alive); and the Heap
    its views live in."""
    def __init__(self, heap=None):
        self.by_id = {}
        self.by_obj = {}
        self.fresh = 500
        self.heap = heap if heap is not None else Heap()

    def obj(self, k, make):
        if k not in self.by_id:
            o = make()
            self.by_id[k] = o
            self.by_obj[id(o)] = k
        return self.by_id[k]

    def ident(self, o):
        k = self.by_obj.get(id(o))
        if k is None:
            k = self.fresh
            self.fresh += 1
            self.by_id[k] = o
            self.by_obj[id(o)] = k
        return k


def _dt(p):
    return datetime.datetime.fromordinal(p[0]) + datetime.timedelta(seconds=p[1], microseconds=p[2])


def _subclass(name):
    import pyg_base
    return {'Dict': pyg_base.Dict, 'dictattr': pyg_base.dictattr}[name]


def _index(leaves, ids):
    vals = [realise(x, ids) for x in leaves]
    tags = {x[0] for x in leaves}
    if not vals:
        return pd.RangeIndex(0)
    if tags == {'i'}:
        if vals == list(range(len(vals))):
            return pd.RangeIndex(len(vals))
        return pd.Index(vals, dtype='int64')
    if tags <= {'f', 'i'}:
        return pd.Index(vals, dtype='float64')
    if tags == {'ts'}:
        return pd.DatetimeIndex(vals)
    return pd.Index(vals, dtype=object)


def _ndarray(dt, shape, cells, ids):
    shape = tuple(shape)
    vals = [realise(c, ids) for c in cells]
    if dt == 'object':
        a = np.empty(shape, dtype=object)
        for k, idx in enumerate(np.ndindex(*shape)):
            a[idx] = vals[k]
        return a
    if dt == 'str':
        return np.array(vals, dtype='<U4').reshape(shape)
    if dt.startswith('datetime64'):
        return np.array(vals, dtype=dt).reshape(shape)
    return np.array(vals, dtype=dt).reshape(shape)


def _view(p, ids):
    dt, buf, bc, off, shape, strides = p
    b = ids.heap.buffer(buf, dt, bc)
    return np.lib.stride_tricks.as_strided(b[off:], shape=tuple(shape), strides=tuple(st * b.itemsize for st in strides))


def _ordered(perm, kvs, ids):
    out = {}
    for i in perm:
        out[kvs[i - 1][0]] = realise(kvs[i - 1][1], ids)
    return out


def realise(d, ids):
    k, p = d[0], d[1]
    if k == 'n': return None
    if k == 'nat': return pd.NaT
    if k == 'mo': return _ordered(p[0], p[1], ids)
    if k == 'Mo':
        return _subclass(p[0])(_ordered(p[1], p[2], ids))
    if k == 'v': return _view(p, ids)
    if k == 'Sv':
        return pd.Series(_view(p[1][1], ids), index=_index(p[0], ids), copy=False)
    if k == 'Fv':
        return pd.DataFrame(_view(p[2][1], ids), index=_index(p[0], ids), columns=_index(p[1], ids), copy=False)
    if k == 'b': return bool(p)
    if k == 'i': return int(p)
    if k == 'f': return p[0] / p[1]
    if k == 'nan': return ids.obj(p, lambda: float('nan')) if p else float('nan')
    if k == 'inf': return float('inf') if p > 0 else float('-inf')
    if k == 's': return str(p)
    if k == 'd': return _dt(p)
    if k == 'ts': return pd.Timestamp(_dt(p))
    if k == 'd64': return np.datetime64(_dt(p))
    if k == 'date': return datetime.date.fromordinal(p)
    if k == 'np':
        dt, leaf = p
        t = NP_TYPES[dt]
        if leaf[0] == 'nan':
            return ids.obj(leaf[1], lambda: t('nan'))
        return t(realise(leaf, ids))
    if k == 't': return tuple(realise(x, ids) for x in p)
    if k == 'l': return [realise(x, ids) for x in p]
    if k == 'm': return {kk: realise(x, ids) for kk, x in p}
    if k == 'M':
        return _subclass(p[0])({kk: realise(x, ids) for kk, x in p[1]})
    if k == 'a':
        return _ndarray(p[0], p[1], p[2], ids)
    if k == 'S':
        dt, index, cells = p
        return pd.Series(_ndarray(dt, (len(cells),), cells, ids), index=_index(index, ids), dtype=dt)
    if k == 'F':
        dt, index, cols, cells = p
        return pd.DataFrame(_ndarray(dt, (len(index), len(cols)), cells, ids), index=_index(index, ids),
                            columns=_index(cols, ids), dtype=dt)
    raise ValueError('cannot realise %r' % (d,))


def _num(v, ids, boxed):
    v = float(v)
    if math.isnan(v):
        return None
    if math.isinf(v):
        return ['inf', 1 if v > 0 else -1]
    a, b = v.as_integer_ratio()
    if abs(a) > LIMIT or b > LIMIT:
        raise OverflowError('float not exactly representable for TLC: %r' % v)
    return ['f', [a, b]]


def _instant(v):
    return [v.toordinal(), v.hour * 3600 + v.minute * 60 + v.second, v.microsecond]


def project_leaf(v, ids, boxed=True):
    """boxed: v is an object held by a Python container (its NaN has an identity)"""
    if v is None:
        return ['n', 0]
    if v is pd.NaT:
        return ['nat', 0]
    if isinstance(v, bool):
        return ['b', int(v)]
    if isinstance(v, np.bool_):
        return ['np', ['bool_', ['b', int(v)]]]
    if isinstance(v, np.integer):
        return ['np', [type(v).__name__, ['i', int(v)]]]
    if isinstance(v, int):
        if abs(v) > LIMIT:
            raise OverflowError(v)
        return ['i', v]
    if isinstance(v, np.floating):
        inner = _num(v, ids, boxed)
        if inner is None:
            inner = ['nan', ids.ident(v) if boxed else 0]
        return ['np', [type(v).__name__, inner]]
    if isinstance(v, float):
        inner = _num(v, ids, boxed)
        return inner if inner is not None else ['nan', ids.ident(v) if boxed else 0]
    if isinstance(v, np.str_):
        return ['np', ['str_', ['s', str(v)]]]
    if isinstance(v, str):
        return ['s', v]
    if isinstance(v, pd.Timestamp):
        return ['ts', _instant(v)]
    if isinstance(v, datetime.datetime):
        return ['d', _instant(v)]
    if isinstance(v, datetime.date):
        return ['date', v.toordinal()]
    if isinstance(v, np.datetime64):
        return ['d64', _instant(v.astype('datetime64[us]').item())]
    return None


def _dtype(dt):
    if dt.kind == 'U':
        return 'str'
    return dt.name


def _cells(a, ids):
    """cells of an ndarray in row-major order; cells of a typed array are plain unboxed leaves"""
    out = []
    for idx in np.ndindex(*a.shape):
        c = a[idx]
        if a.dtype == object:
            out.append(project(c, ids))
        elif a.dtype.kind == 'M':
            out.append(project_leaf(c, ids))
        else:
            out.append(project_leaf(c.item(), ids, boxed=False))
    return out


def _index_leaves(ix, ids):
    return [project_leaf(v if not isinstance(v, (np.integer, np.floating)) else v.item(), ids, boxed=False) for v in ix]


def _project_view(a, ids):
    """the view descriptor of an ndarray whose cells live in a buffer of the Heap, else None"""
    hit = ids.heap.locate(a)
    if hit is None:
        return None
    k, b = hit
    off = (a.__array_interface__['data'][0] - b.__array_interface__['data'][0]) // b.itemsize
    return ['v', [_dtype(a.dtype), k, _cells(b, ids.heap.ids), int(off), [int(n) for n in a.shape], [int(st // b.itemsize) for st in a.strides]]]


def _project_dict(v, ids):
    """kvs in sorted key order, and the insertion order as a permutation when it is another one"""
    ins = [str(k) for k in dict.keys(v)]
    kvs = [[str(k), project(x, ids)] for k, x in sorted(dict.items(v))]
    keys = [k for k, _ in kvs]
    return kvs, (None if ins == keys else [keys.index(k) + 1 for k in ins])


def project(v, ids):
    leaf = project_leaf(v, ids)
    if leaf is not None:
        return leaf
    if isinstance(v, tuple) and type(v) is tuple:
        return ['t', [project(x, ids) for x in v]]
    if type(v) is list:
        return ['l', [project(x, ids) for x in v]]
    if type(v) is dict:
        kvs, perm = _project_dict(v, ids)
        return ['m', kvs] if perm is None else ['mo', [perm, kvs]]
    if isinstance(v, dict):
        kvs, perm = _project_dict(v, ids)
        return ['M', [type(v).__name__, kvs]] if perm is None else ['Mo', [type(v).__name__, perm, kvs]]
    if isinstance(v, np.ndarray):
        return _project_view(v, ids) or ['a', [_dtype(v.dtype), [int(n) for n in v.shape], _cells(v, ids)]]
    if isinstance(v, (pd.Series, pd.DataFrame)) and isinstance(v.values, np.ndarray) and _project_view(v.values, ids) is not None:
        w = _project_view(v.values, ids)
        if isinstance(v, pd.Series):
            return ['Sv', [_index_leaves(v.index, ids), w]]
        return ['Fv', [_index_leaves(v.index, ids), _index_leaves(v.columns, ids), w]]
    if isinstance(v, pd.Series):
        return ['S', [_dtype(v.dtype), _index_leaves(v.index, ids), _cells(np.asarray(v), ids)]]
    if isinstance(v, pd.DataFrame):
        dts = {_dtype(t) for t in v.dtypes} or {'object'}
        return ['F', [dts.pop() if len(dts) == 1 else 'mixed', _index_leaves(v.index, ids), _index_leaves(v.columns, ids),
                      _cells(np.asarray(v), ids)]]
    return ['o', type(v).__name__]


def is_leaf(d):
    return d[0] in LEAF_TAGS


def view_cells(w):
    """the cells a view descriptor addresses, row-major (for reports and generators only - verdicts use Eq!ViewCells)"""
    dt, buf, bc, off, shape, strides = w[1]
    return [bc[off + sum(i * st for i, st in zip(idx, strides))] for idx in np.ndindex(*shape)]


def items(d):
    k, p = d[0], d[1]
    if k in ('t', 'l'): return p
    if k == 'm': return [x for _, x in p]
    if k == 'M': return [x for _, x in p[1]]
    if k == 'mo': return [x for _, x in p[1]]
    if k == 'Mo': return [x for _, x in p[2]]
    if k in ('a', 'S'): return p[2]
    if k == 'F': return p[3]
    if k == 'v': return view_cells(d)
    if k == 'Sv': return view_cells(p[1])
    if k == 'Fv': return view_cells(p[2])
    return []


def dmap(d, nan=None, buf=None):
    """the descriptor with every NaN identity k replaced by nan(k) and every buffer number b by buf(b)"""
    k, p = d[0], d[1]
    f = lambda x: dmap(x, nan, buf)
    kv = lambda kvs: [[kk, f(x)] for kk, x in kvs]
    if k == 'nan': return [k, nan(p) if nan else p]
    if k == 'np': return [k, [p[0], f(p[1])]]
    if k in ('t', 'l'): return [k, [f(x) for x in p]]
    if k == 'm': return [k, kv(p)]
    if k == 'M': return [k, [p[0], kv(p[1])]]
    if k == 'mo': return [k, [p[0], kv(p[1])]]
    if k == 'Mo': return [k, [p[0], p[1], kv(p[2])]]
    if k in ('a', 'S'): return [k, [p[0], p[1], [f(x) for x in p[2]]]]
    if k == 'F': return [k, [p[0], p[1], p[2], [f(x) for x in p[3]]]]
    if k == 'v': return [k, [p[0], buf(p[1]) if buf else p[1], [f(x) for x in p[2]], p[3], p[4], p[5]]]
    if k == 'Sv': return [k, [p[0], f(p[1])]]
    if k == 'Fv': return [k, [p[0], p[1], f(p[2])]]
    return d


def has_tag(d, tags):
    return any(n[0] in tags for n in walk(d))


def coarse(d):
    """a stable, coarse name of the sort of value a descriptor describes (for reports and for the
    matching of known findings - never for verdicts)"""
    k, p = d[0], d[1]
    if k == 'np':
        return 'np.' + p[0] + (':nan' if p[1][0] == 'nan' else '')
    if k in LEAF_TAGS:
        return {'n': 'None', 'b': 'bool', 'i': 'int', 'f': 'float', 'nan': 'float:nan', 'inf': 'float:inf', 's': 'str',
                'd': 'datetime', 'ts': 'Timestamp', 'd64': 'np.datetime64', 'date': 'date', 'nat': 'NaT'}[k]
    if k == 't': return 'tuple'
    if k == 'l': return 'list'
    if k in ('m', 'mo'): return 'dict'
    if k in ('M', 'Mo'): return p[0]
    if k == 'a': return 'array%dd' % len(p[1])
    if k == 'v': return 'array%dd' % len(p[4])
    if k in ('S', 'Sv'): return 'Series'
    if k in ('F', 'Fv'): return 'DataFrame'
    return k


def fine(d):
    """coarse name plus dtype / emptiness / the sorts of the direct items"""
    k, p = d[0], d[1]
    if is_leaf(d):
        return coarse(d)
    its = items(d)
    inner = ','.join(sorted({coarse(x) for x in its}))
    if k == 'a':
        return 'array%dd:%s:%s[%s]' % (len(p[1]), p[0], 'x'.join(str(n) for n in p[1]), inner if p[0] == 'object' else '')
    if k == 'v':
        return 'array%dd:%s:%s[%s]:view' % (len(p[4]), p[0], 'x'.join(str(n) for n in p[4]), inner if p[0] == 'object' else '')
    if k in ('S', 'F'):
        return '%s:%s%s' % (coarse(d), p[0], ':empty' if not its else '')
    if k in ('Sv', 'Fv'):
        return '%s:%s:view' % (coarse(d), p[-1][1][0])
    if k in ('mo', 'Mo'):
        return '%s[%s]:reordered' % (coarse(d), inner)
    return '%s[%s]' % (coarse(d), inner)


def klass(d):
    """the class of value a defect pattern is keyed on: scalar / npscalar / list / tuple / dict / dictsub /
    array0d / array / Series / DataFrame"""
    k = d[0]
    if k in ('np', 'd64'):
        return 'npscalar'
    if k in LEAF_TAGS:
        return 'scalar'
    return {'t': 'tuple', 'l': 'list', 'm': 'dict', 'M': 'dictsub', 'mo': 'dict', 'Mo': 'dictsub', 'S': 'Series', 'F': 'DataFrame',
            'Sv': 'Series', 'Fv': 'DataFrame', 'v': 'array0d' if k == 'v' and len(d[1][4]) == 0 else 'array',
            'a': 'array0d' if k == 'a' and len(d[1][1]) == 0 else 'array'}[k]


def walk(d):
    yield d
    if d[0] == 'np':
        return
    for x in items(d):
        for y in walk(x):
            yield y


def features(descs):
    """ingredients anywhere inside the values that single out a defect family"""
    f = {'nan32': False, 'zerod': False, 'empty': False, 'reordered': False, 'view': False, 'nat': False}
    for d in descs:
        for n in walk(d):
            if n[0] == 'np' and n[1][0] == 'float32' and n[1][1][0] == 'nan':
                f['nan32'] = True
            if (n[0] == 'a' and len(n[1][1]) == 0) or (n[0] == 'v' and len(n[1][4]) == 0):
                f['zerod'] = True
            if n[0] in ('a', 'S', 'F') and len(items(n)) == 0:
                f['empty'] = True
            if n[0] in ('mo', 'Mo'):
                f['reordered'] = True
            if n[0] in ('v', 'Sv', 'Fv'):
                f['view'] = True
            if n[0] == 'nat':
                f['nat'] = True
    return f
