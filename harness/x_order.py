"""Encoding of numbers beyond TLC's 32-bit integers for property C07 (spec/OrderBig.tla).

An int with |v| >= 2**31, or a finite float whose exact ratio does not fit, crosses as its exact binary
expansion  ["x", [kind, sign, e, bits]]  =  sign * 2**e * (1.b2 b3 ...)_2 ,  kind "i" | "f", bits from the
leading one to the last one.  Rendering only (Python's exact int / float.as_integer_ratio()): order and
numeric equality of such numbers are decided by the specification.  A dict with a key that is not a string
crosses as ["mk", [[key, value], ...]] (insertion order).  Everything else is harness.enc.
"""
import math
import numpy as np
from harness import enc


def _x(kind, p, q):
    """p / q exactly, q a power of two, p != 0"""
    sign = 1 if p > 0 else -1
    p = abs(p)
    bits = bin(p)[2:]
    e = len(bits) - 1 - (q.bit_length() - 1)
    return ["x", [kind, sign, e, [int(c) for c in bits.rstrip('0')]]]


def xtag(v, ids=None):
    if isinstance(v, tuple):
        return ["t", [xtag(x, ids) for x in v]]
    if isinstance(v, list):
        return ["l", [xtag(x, ids) for x in v]]
    if isinstance(v, dict):
        if all(isinstance(k, str) for k in v):
            return ["m", [[str(k), xtag(x, ids)] for k, x in sorted(v.items())]]
        return ["mk", [[xtag(k, ids), xtag(x, ids)] for k, x in v.items()]]      # keys of any kind, in insertion order
    try:
        return enc.tag(v, ids)
    except OverflowError:
        if isinstance(v, (bool, np.bool_)):
            raise
        if isinstance(v, (int, np.integer)):
            return _x("i", int(v), 1)
        p, q = float(v).as_integer_ratio()      # numpy floats of every width convert exactly
        return _x("f", p, q)


def xuntag(t, ids=None):
    k, p = t[0], t[1]
    if k == "x":
        kind, sign, e, bits = p
        m = int(''.join(str(b) for b in bits), 2)
        sh = e - (len(bits) - 1)
        if kind == "i":
            assert sh >= 0
            return sign * (m << sh)
        v = math.ldexp(float(sign * m), sh)
        assert xtag(v) == t, 'not a double in canonical encoding: %r' % (t,)
        return v
    if k == "t": return tuple(xuntag(x, ids) for x in p)
    if k == "l": return [xuntag(x, ids) for x in p]
    if k == "m": return {kk: xuntag(x, ids) for kk, x in p}
    if k == "mk": return {xuntag(kk, ids): xuntag(x, ids) for kk, x in p}
    return enc.untag(t, ids)
