"""Ordered parallel map for replaying many independent cases into the real code (used by C12/C13).

The function is applied to consecutive chunks of the item list in forked worker processes and the
per-chunk result lists are concatenated in the original order, so the outcome does not depend on
the number of workers.  Randomness must be drawn by the caller (from ctx.rng) before the call.
VERIF_PY_WORKERS overrides the number of processes (1 = run in-process)."""
import multiprocessing, os


def nprocs():
    return max(1, int(os.environ.get('VERIF_PY_WORKERS', min(16, os.cpu_count() or 1))))


def pmap(fn, items, chunk=300):
    items = list(items)
    chunks = [items[i:i + chunk] for i in range(0, len(items), chunk)]
    out = []
    if nprocs() <= 1 or len(chunks) <= 1:
        for c in chunks:
            out.extend(fn(c))
        return out
    with multiprocessing.get_context('fork').Pool(nprocs()) as pool:
        for part in pool.imap(fn, chunks, chunksize=1):
            out.extend(part)
    return out
