"""Start TLC runs that do not depend on each other together (extension X04).

The check of X04 needs some twenty small TLC runs; one after the other most of the wall time is JVM
start-up.  Prefetch starts them in threads ahead of time and stands in for harness.tlc.run while the
driver runs: when ctx.mc / ctx.generate / ctx.validate later ask for a run that was started ahead, they
get its result (or its exception) - all the checks of harness.core on the result stay in force.  A run
that was not started ahead is executed as usual.
"""
import json
import os
from concurrent.futures import ThreadPoolExecutor

from harness import tlc as _tlc


class Prefetch(object):
    def __init__(self, tmp, parallel=None):
        self.orig = _tlc.run
        self.tmp = tmp
        self.fut = {}
        n = parallel or int(os.environ.get('VERIF_X04_PARALLEL', '6'))
        self.pool = ThreadPoolExecutor(max(1, n))
        self.k = 0

    def submit(self, module, cfg, **kw):
        kw.setdefault('workers', 4)
        self.fut[(module, cfg)] = self.pool.submit(self.orig, module, cfg, **kw)

    def submit_validate(self, module, cfg, obs):
        """the same run ctx.validate(module, obs, cfg=cfg) will ask for"""
        self.k += 1
        path = os.path.join(self.tmp, 'ahead-%s-%d.ndjson' % (module, self.k))
        with open(path, 'w') as f:
            for o in obs:
                f.write(json.dumps(o, separators=(',', ':')) + '\n')
        self.submit(module, cfg, env={'OBS_FILE': path}, coverage=False)

    def run(self, module, cfg=None, **kw):
        f = self.fut.pop((module, cfg or module + '.cfg'), None)
        if f is None:
            return self.orig(module, cfg, **kw)
        return f.result()

    def __enter__(self):
        _tlc.run = self.run
        return self

    def __exit__(self, *a):
        _tlc.run = self.orig
        for f in self.fut.values():
            f.cancel()
        self.pool.shutdown(wait=True)
        return False
