"""Real processes for the configuration-store check (extension X04, spec/CfgStore.tla).

Nothing here decides anything.  This file
  * lays out a scratch WORLD (a directory with the files PYG_CFG lists; a "blocked" file is one whose
    parent is a regular file, so that it can neither be created nor opened),
  * starts real PROCESSES (os.fork of the driver, which has pyg_base imported; the child sets PYG_CFG,
    re-executes pyg_base._cfg - so the module reads its environment and starts with an empty CACHE -
    and then serves commands over a pipe: read / write / get_cache / ...),
  * lets a process perform the REAL cfg_write one step at a time, exactly as a TLC behaviour says:
    the builtin `open` seen by pyg_base._cfg is wrapped so that the process reports "before the open",
    "opened" (the file now exists and is empty), "k characters reached the disk" and waits for the
    driver to say go on - or to kill it with SIGKILL, which is a real process death: whatever the
    process had not handed to the operating system is lost,
  * or kills a process at the n-th traced event (Python line or builtin call) inside an unwrapped
    cfg_write - process death between any two steps of the code as it is, with the runtime's own
    buffering (C2S),
  * encodes file contents and read results for the specification.
"""
import datetime, importlib, json, os, select, signal, sys, time, traceback

BAD = datetime.datetime(2020, 1, 1)        # a value json cannot serialise (the specification's Bad = 0)


# ---- rendering: the specification's configurations <-> real dicts and file texts ---------------------
class Palette(object):
    """values 1, 2, 3.. of the specification as real JSON values: small ints, or long strings (so that
    a configuration is larger than the runtime's buffer and parts of it really reach the disk early)"""
    def __init__(self, kind='int', width=3000):
        self.kind, self.width = kind, width

    def val(self, v):
        if v == 0:
            return BAD
        if self.kind == 'int':
            return v
        return ('%d.' % v) * (self.width // (len(str(v)) + 1))

    def back(self, x):
        if isinstance(x, datetime.datetime):
            return 0
        if self.kind == 'int':
            return x if isinstance(x, int) and not isinstance(x, bool) else -99
        if isinstance(x, str) and x.endswith('.') and x == self.val_str(x):
            return int(x.split('.')[0])
        return -99

    def val_str(self, x):
        try:
            return self.val(int(x.split('.')[0]))
        except Exception:
            return None

    def cfg(self, pairs):
        return {k: self.val(v) for k, v in pairs}

    def enc_cfg(self, d, keyord):
        """real dict -> pairs in the specification's key order (unknown keys last, value -99 = not of the palette)"""
        known = [[k, self.back(d[k])] for k in keyord if k in d]
        other = [[str(k), -98] for k in d if k not in keyord]
        return known + sorted(other)

    def unit_texts(self, pairs):
        """the text of a configuration, cut into the specification's units: '{', one per pair, '}';
        a pair with the Bad value is the key without a value"""
        out = ['{']
        for i, (k, v) in enumerate(pairs):
            sep = ', ' if i else ''
            if v == 0:
                out.append(sep + json.dumps(k) + ': ')
                return out
            out.append(sep + json.dumps(k) + ': ' + json.dumps(self.val(v)))
        out.append('}')
        return out

    def text(self, units):
        """file content (units of the specification) -> text; None = the file does not exist"""
        if units == [['!', 0]]:
            return None
        pairs = [u for u in units if u[0] not in ('{', '}')]
        ts = self.unit_texts(pairs)
        n = len(units)
        if units and units[-1][0] == '}':
            return ''.join(ts)
        return ''.join(ts[:n])

    def enc_file(self, text, keyord, candidates=()):
        """text of a file (None = absent) -> units.  A complete JSON object is decoded as such; a torn
        file is recognised as a prefix (at a unit boundary) of one of the configurations written in this
        history, or else reported as ragged: the complete units followed by ['~', number of characters]."""
        if text is None:
            return [['!', 0]]
        if text == '':
            return []
        try:
            d = json.loads(text)
            if isinstance(d, dict):
                return [['{', 0]] + self.enc_cfg(d, keyord) + [['}', 0]]
        except ValueError:
            pass
        best = None
        for pairs in candidates:
            ts = self.unit_texts(pairs)
            full = ''.join(ts)
            if full.startswith(text):
                pos, k = 0, 0
                while k < len(ts) and pos + len(ts[k]) <= len(text):
                    pos += len(ts[k]); k += 1
                units = [['{', 0]] + [list(p) for p in pairs]
                got = units[:k]
                if pos < len(text):
                    got = got + [['~', len(text)]]
                rank = (0 if pos < len(text) else 1, len(got))      # an exact cut at a unit boundary is preferred
                if best is None or rank > best_rank:
                    best, best_rank = got, rank
        return best if best is not None else [['~', len(text)]]


# ---- the world: a scratch directory with the configured files ------------------------------------------
class World(object):
    def __init__(self, root, npaths=1, blocked=()):
        self.root = root
        os.makedirs(root)
        self.paths = []
        for i in range(1, npaths + 1):
            if i in blocked:
                with open(os.path.join(root, 'notadir%d' % i), 'w') as f:
                    f.write('x')
                self.paths.append(os.path.join(root, 'notadir%d' % i, 'cfg%d.json' % i))
            else:
                # a directory that does not exist yet: cfg_write has to make it
                self.paths.append(os.path.join(root, 'etc%d' % i, 'sub', 'cfg%d.json' % i))
        self.env = ','.join(self.paths)

    def put(self, i, text):
        p = self.paths[i - 1]
        if text is None:
            if os.path.exists(p):
                os.remove(p)
            return
        os.makedirs(os.path.dirname(p), exist_ok=True)
        with open(p, 'w') as f:
            f.write(text)

    def get(self, i):
        p = self.paths[i - 1]
        if not os.path.isfile(p):
            return None
        with open(p) as f:
            return f.read()


# ---- a process ---------------------------------------------------------------------------------------------
class Died(Exception):
    pass


class Proc(object):
    """a real process serving commands; `env` is the value of PYG_CFG (None = not set)"""
    def __init__(self, env, palette=None, keyord=('a', 'b')):
        self.palette = palette or Palette()
        c2p_r, c2p_w = os.pipe()
        p2c_r, p2c_w = os.pipe()
        pid = os.fork()
        if pid == 0:
            try:
                os.close(c2p_r); os.close(p2c_w)
                _serve(env, os.fdopen(p2c_r, 'r'), os.fdopen(c2p_w, 'w'), self.palette, list(keyord))
            except BaseException:
                traceback.print_exc()
            finally:
                os._exit(0)
        os.close(c2p_w); os.close(p2c_r)
        self.pid = pid
        self.rd = os.fdopen(c2p_r, 'r')
        self.wr = os.fdopen(p2c_w, 'w')
        self.alive = True

    def send(self, msg):
        try:
            self.wr.write(json.dumps(msg) + '\n'); self.wr.flush()
        except BrokenPipeError:
            raise Died()

    def recv(self):
        line = self.rd.readline()
        if not line:
            raise Died()
        return json.loads(line)

    def call(self, msg):
        self.send(msg)
        return self.recv()

    def paused_or_reply(self, timeout=120):
        """after a write with pause_at: either the process stopped itself (SIGSTOP) at that event -> ('paused', None),
        or the write ended before that event -> ('reply', its answer)"""
        t0 = time.time()
        while True:
            r, _, _ = select.select([self.rd], [], [], 0.002)
            if r:
                return 'reply', self.recv()
            pid, status = os.waitpid(self.pid, os.WUNTRACED | os.WNOHANG)
            if pid == self.pid:
                if os.WIFSTOPPED(status):
                    return 'paused', None
                self.alive = False
                raise Died()
            if time.time() - t0 > timeout:
                raise Died()

    def resume(self):
        os.kill(self.pid, signal.SIGCONT)

    def kill(self):
        """process death: SIGKILL, nothing is flushed"""
        if self.alive:
            os.kill(self.pid, signal.SIGKILL)
            os.waitpid(self.pid, 0)
            self.alive = False
            self.rd.close()
            try:
                self.wr.close()
            except BrokenPipeError:
                pass

    def reap(self):
        """the process killed itself (or ended): collect it"""
        if self.alive:
            os.waitpid(self.pid, 0)
            self.alive = False
            self.rd.close()
            try:
                self.wr.close()
            except BrokenPipeError:
                pass

    def stop(self):
        if self.alive:
            try:
                os.kill(self.pid, signal.SIGCONT)       # (in case it is paused)
                self.send({'op': 'exit'})
                os.waitpid(self.pid, 0)
                self.alive = False
                self.rd.close(); self.wr.close()
            except Exception:
                self.kill()


class Local(object):
    """the command handlers, working on THIS process's pyg_base._cfg (re-executed at construction: a new
    process as far as the module is concerned).  Used by the served child processes and - where no
    process has to die - directly by the driver's workers."""
    def __init__(self, env, palette=None, keyord=('a', 'b'), say=None, wait_go=None):
        if env is None:
            os.environ.pop('PYG_CFG', None)
        else:
            os.environ['PYG_CFG'] = env
        import pyg_base                                    # noqa: F401
        self.mod = importlib.reload(sys.modules['pyg_base._cfg'])     # CFG from the environment, CACHE = {}
        self.palette = palette or Palette()
        self.keyord = list(keyord)
        self.ids = {}                                      # object identity -> small number (objects kept alive)
        self.keep = []
        self.say, self.wait_go = say, wait_go

    def ident(self, o):
        if id(o) not in self.ids:
            self.ids[id(o)] = len(self.ids) + 1; self.keep.append(o)
        return self.ids[id(o)]

    def handle(self, m):
        mod, palette, keyord = self.mod, self.palette, self.keyord
        op = m['op']
        if op == 'read':
            try:
                r = mod.cfg_read()
            except Exception as e:
                return {'ok': 0, 'cls': type(e).__name__, 'cfg': []}
            if not isinstance(r, dict):
                return {'ok': 0, 'cls': 'returned ' + type(r).__name__, 'cfg': []}
            return {'ok': 1, 'cfg': palette.enc_cfg(r, keyord), 'id': self.ident(r), 'keys': sorted(map(str, r.keys())),
                    'is_cache': 1 if r is mod.CACHE.get('CFG') else 0}
        if op == 'write':
            cfg = palette.cfg(m['cfg'])
            before = json.dumps(m['cfg'])
            if m.get('stepwise'):
                mod.open = _stepping_open(m.get('cuts', []), self.say, self.wait_go)
            try:
                events = -1
                if m.get('pause_at') is not None:
                    events = _die_at(mod, cfg, m['pause_at'], False, pause=True)
                elif m.get('die_at') is not None:
                    events = _die_at(mod, cfg, m['die_at'], m.get('count_only', False))
                else:
                    mod.cfg_write(cfg)
                return {'done': 1, 'events': events, 'id': self.ident(cfg), 'arg_after': palette.enc_cfg(cfg, keyord),
                        'arg_before': json.loads(before), 'cache_is_arg': 1 if mod.CACHE.get('CFG') is cfg else 0}
            except Exception as e:
                return {'done': 0, 'cls': type(e).__name__}
            finally:
                if m.get('stepwise'):
                    del mod.open
        if op == 'get_cache':
            try:
                r = mod.get_cache(*m['names'])
                if type(r) is not dict:
                    return {'ok': 0, 'cls': 'returned ' + type(r).__name__}
                return {'ok': 1, 'id': self.ident(r), 'keys': sorted(map(str, r.keys()))}
            except Exception as e:
                return {'ok': 0, 'cls': type(e).__name__}
        if op == 'store':                        # put an item into the object get_cache(*names) returns
            try:
                mod.get_cache(*m['names'])[m['key']] = m['value']
                return {'ok': 1}
            except Exception as e:
                return {'ok': 0, 'cls': type(e).__name__}
        if op == 'fetch':
            try:
                d = mod.get_cache(*m['names'])
                v = d.get(m['key'], 0)
                return {'ok': 1, 'has': 1 if m['key'] in d else 0, 'val': palette.back(v) if m['key'] in d else 0}
            except Exception as e:
                return {'ok': 0, 'cls': type(e).__name__}
        if op == 'mkdir':
            try:
                r = mod.mkdir(m['path'])
                return {'ok': 1, 'same': 1 if r == m['path'] else 0}
            except Exception as e:
                return {'ok': 0, 'cls': type(e).__name__}
        return {'error': 'unknown op %s' % op}


def _serve(env, rd, wr, palette, keyord):
    """child side"""
    def say(m):
        wr.write(json.dumps(m) + '\n'); wr.flush()

    def wait_go():
        line = rd.readline()
        if not line:
            os._exit(0)
        return json.loads(line)

    me = Local(env, palette, keyord, say, wait_go)
    while True:
        line = rd.readline()
        if not line:
            os._exit(0)
        m = json.loads(line)
        if m['op'] == 'exit':
            wr.close()
            os._exit(0)
        say(me.handle(m))


def _stepping_open(cuts, say, wait_go):
    """an `open` for pyg_base._cfg that lets the driver single-step a write; reading is not touched.
    cuts: one list per file opened for writing, in the order of the opens: the numbers of characters after
    which the text written so far is moved to the disk (and the process reports and waits), increasing."""
    import builtins
    plan = [list(c) for c in cuts]

    class F(object):
        def __init__(self, real, cuts):
            self.real = real
            self.cuts = cuts
            self.pending = ''
            self.sent = 0             # characters handed to the operating system

        def write(self, s):
            self.pending += s
            cuts = self.cuts
            while cuts and self.sent + len(self.pending) >= cuts[0]:
                n = cuts.pop(0) - self.sent
                self.real.write(self.pending[:n]); self.real.flush()
                self.sent += n
                self.pending = self.pending[n:]
                say({'at': 'flushed', 'chars': self.sent})
                wait_go()
            return len(s)

        def flush(self):
            self.real.write(self.pending); self.sent += len(self.pending); self.pending = ''
            self.real.flush()

        def close(self):
            if not self.real.closed:
                self.flush()
                self.real.close()

        def __enter__(self):
            return self

        def __exit__(self, *a):
            self.close()
            return False

        def __getattr__(self, k):
            return getattr(self.real, k)

    def opener(path, mode='r', *a, **kw):
        if 'w' not in mode and 'a' not in mode and '+' not in mode and 'x' not in mode:
            return builtins.open(path, mode, *a, **kw)
        say({'at': 'pre_open', 'path': path})
        wait_go()
        real = builtins.open(path, mode, *a, **kw)
        say({'at': 'opened', 'path': path})
        wait_go()
        return F(real, plan.pop(0) if plan else [])

    return opener


def _die_at(mod, cfg, n, count_only, pause=False):
    """run the real cfg_write and die (SIGKILL to myself) at the n-th traced event: a new line of Python
    code or a call of a builtin, anywhere below cfg_write.  count_only: run to the end and report how many
    events there were.  pause: do not die there but stop (SIGSTOP) until the driver lets me go on (SIGCONT) -
    or kills me."""
    state = {'k': 0}

    def tick():
        if not count_only and state['k'] == n:
            os.kill(os.getpid(), signal.SIGSTOP if pause else signal.SIGKILL)
        state['k'] += 1

    def tracer(frame, event, arg):
        if event == 'line':
            tick()
        return tracer

    def profiler(frame, event, arg):
        if event in ('c_call', 'c_return'):
            tick()

    sys.settrace(tracer); sys.setprofile(profiler)
    try:
        mod.cfg_write(cfg)
    finally:
        sys.settrace(None); sys.setprofile(None)
    return state['k']             # reached only when the write ended before the n-th event: it completed
