"""Abstraction function on cell values: Python object <-> tagged JSON value of spec/Values.tla.

tag():   concrete -> abstract.  NaN objects are given an identity (their position in an IdMap),
         floats cross the boundary as exact rationals, datetimes as (ordinal, second, microsecond).
untag(): abstract -> concrete, used to build the inputs of the real calls; every NaN identity is
         realised by its own float object, the same identity by the same object.
"""
import datetime, math
import numpy as np

LIMIT = 2 ** 31 - 1


class IdMap(object):
    """NaN object identities for one observation (objects are kept alive so ids are not reused)."""
    def __init__(self):
        self.by_id = {}      # abstract id -> float object
        self.by_obj = {}     # id(obj) -> abstract id
        self.keep = []
        self.fresh = 100

    def obj(self, k):
        if k not in self.by_id:
            o = float('nan') if k % 2 else np.float64('nan')   # plain and numpy NaN objects alike
            self.by_id[k] = o; self.by_obj[id(o)] = k; self.keep.append(o)
        return self.by_id[k]

    def ident(self, o):
        k = self.by_obj.get(id(o))
        if k is None:
            k = self.fresh; self.fresh += 1
            self.by_id[k] = o; self.by_obj[id(o)] = k; self.keep.append(o)
        return k


def tag(v, ids=None):
    if v is None:
        return ["n", 0]
    if isinstance(v, (bool, np.bool_)):
        return ["b", 1 if v else 0]
    if isinstance(v, (int, np.integer)):
        v = int(v)
        if abs(v) > LIMIT:
            raise OverflowError('int too large for TLC: %r' % v)
        return ["i", v]
    if isinstance(v, (float, np.floating)):
        if math.isnan(v):
            return ["nan", ids.ident(v) if ids is not None else 0]
        if math.isinf(v):
            return ["inf", 1 if v > 0 else -1]
        p, q = float(v).as_integer_ratio()
        if abs(p) > LIMIT or q > LIMIT:
            raise OverflowError('float not exactly representable for TLC: %r' % v)
        return ["f", [p, q]]
    if isinstance(v, (str, np.str_)):
        return ["s", str(v)]
    if isinstance(v, datetime.datetime):
        return ["d", [v.toordinal(), v.hour * 3600 + v.minute * 60 + v.second, v.microsecond]]
    if isinstance(v, datetime.date):
        return ["date", v.toordinal()]
    if isinstance(v, tuple):
        return ["t", [tag(x, ids) for x in v]]
    if isinstance(v, list):
        return ["l", [tag(x, ids) for x in v]]
    if isinstance(v, dict):
        return ["m", [[str(k), tag(x, ids)] for k, x in sorted(v.items())]]
    return ["o", type(v).__name__]


def untag(t, ids=None):
    k, p = t[0], t[1]
    if k == "n": return None
    if k == "b": return bool(p)
    if k == "i": return int(p)
    if k == "f": return p[0] / p[1]
    if k == "nan": return ids.obj(p) if ids is not None else float('nan')
    if k == "inf": return float('inf') if p > 0 else float('-inf')
    if k == "s": return p
    if k == "d": return datetime.datetime.fromordinal(p[0]) + datetime.timedelta(seconds=p[1], microseconds=p[2])
    if k == "date": return datetime.date.fromordinal(p)
    if k == "t": return tuple(untag(x, ids) for x in p)
    if k == "l": return [untag(x, ids) for x in p]
    if k == "m": return {kk: untag(x, ids) for kk, x in p}
    raise ValueError('cannot realise %r' % (t,))


def table_from(abs_t, ids=None, cls=None):
    """Build a real dictable from an abstract table {"cols": [...], "rows": [{col: tag}]}."""
    from pyg_base import dictable
    cls = cls or dictable
    cols = list(abs_t["cols"])
    data = {c: [untag(r[c], ids) for r in abs_t["rows"]] for c in cols}
    if not cols:
        return cls()
    if not abs_t["rows"]:
        return cls([], cols)
    return cls(data)


def proj_table(d, ids=None):
    """Project a real dictable onto the abstract table, reading the plain column lists."""
    cols = list(dict.keys(d))
    lists = {c: list(dict.__getitem__(d, c)) for c in cols}
    ns = {len(v) for v in lists.values()}
    if len(ns) > 1:
        return {"cols": cols, "rows": [], "ragged": sorted(ns)}
    n = ns.pop() if ns else 0
    return {"cols": cols, "rows": [{c: tag(lists[c][i], ids) for c in cols} for i in range(n)]}
