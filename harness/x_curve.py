"""Rendering and projection for extension X03-a (spec/Curve.tla): `interpolate`.

build():  abstract object (JSON as printed by TLC / drawn by the driver) -> Python / numpy / pandas object
proj():   what went into / came back from pyg_base -> abstract object
Nothing here knows what the right answer is.  A cell is ["nan",0] or ["f",[p,q]] (exact, lowest terms,
float.as_integer_ratio); time k <-> 2000-01-01 + k days.
"""
import numpy as np
import pandas as pd
from harness.x_series import cell, uncell, day, BASE

FILL = {'nan': None, 'extrapolate': 'extrapolate', 'bound': 'bound'}


def _num(c, how):
    v = uncell(c)
    if how == 'int' and v == v and v == int(v):
        return int(v)
    if how == 'np':
        return np.float64(v)
    return v


def build(o, sp=None):
    """sp: spelling of this operand: 'arr' (numpy, float), 'list' (Python lists), 'int' (integers where the
    values are whole), 'np' (numpy scalar)"""
    k = o['k']
    if k == 'none':
        return None
    if k == 'c':
        return _num(o['v'], sp)
    if k == 'v':
        vals = [uncell(c) for c in o['v']]
        if sp == 'list':
            return vals
        if sp == 'int' and all(v == v and v == int(v) for v in vals):
            return np.array([int(v) for v in vals], dtype='int64')
        return np.array(vals, dtype=float)
    if k == 'm':
        rows = [[uncell(c) for c in r] for r in o['v']]
        if sp == 'list':
            return rows
        return np.array(rows, dtype=float)
    if k == 's':
        return pd.Series(np.array([uncell(c) for c in o['v']], dtype=float), index=pd.DatetimeIndex([day(t) for t in o['t']]))
    if k == 'f':
        labels = [uncell(c) if isinstance(c, list) else c for c in o['c']]
        if sp == 'int' and all(isinstance(l, float) and l == int(l) for l in labels):
            labels = [int(l) for l in labels]
        rows = [[uncell(c) for c in r] for r in o['v']]
        width = len(labels) if labels else (len(rows[0]) if rows else 0)
        data = np.array(rows, dtype=float).reshape(len(o['t']), width)
        return pd.DataFrame(data, index=pd.DatetimeIndex([day(t) for t in o['t']]), columns=labels if labels else list(range(width)))
    raise ValueError(o)


def _times(index):
    if not isinstance(index, pd.DatetimeIndex):
        return None
    out = []
    for t in index:
        d = t - BASE
        if d != pd.Timedelta(days=d.days):
            return None
        out.append(int(d.days))
    return out


def _label(c, knots):
    if knots:
        return cell(c) if isinstance(c, (int, float, np.integer, np.floating)) and not isinstance(c, bool) else ['obj', type(c).__name__]
    return c if isinstance(c, str) else 'not-a-name:%r' % (c,)


def proj(o, labels=None):
    """labels: None = the column labels of a frame are no part of the object; 'knots' = they are cells; 'names' = strings"""
    if o is None:
        return {'k': 'none'}
    if isinstance(o, (bool, np.bool_)):
        return {'k': 'o', 'ty': type(o).__name__}
    if isinstance(o, (int, float, np.integer, np.floating)):
        return {'k': 'c', 'v': cell(o)}
    if isinstance(o, np.ndarray):
        if o.ndim == 0:
            return {'k': 'c', 'v': cell(o[()])}
        if o.ndim == 1:
            return {'k': 'v', 'v': [cell(v) for v in o]}
        if o.ndim == 2:
            return {'k': 'm', 'v': [[cell(v) for v in r] for r in o]}
        return {'k': 'o', 'ty': 'ndarray%dd' % o.ndim}
    if isinstance(o, list):
        if o and all(isinstance(r, list) for r in o):
            return {'k': 'm', 'v': [[cell(v) for v in r] for r in o]}
        return {'k': 'v', 'v': [cell(v) for v in o]}
    if isinstance(o, pd.Series):
        ts = _times(o.index)
        if ts is None:
            return {'k': 'o', 'ty': 'Series[%s]' % type(o.index).__name__}
        return {'k': 's', 't': ts, 'v': [cell(v) for v in o.values]}
    if isinstance(o, pd.DataFrame):
        ts = _times(o.index)
        if ts is None:
            return {'k': 'o', 'ty': 'DataFrame[%s]' % type(o.index).__name__}
        c = [] if labels is None else [_label(x, labels == 'knots') for x in o.columns]
        return {'k': 'f', 't': ts, 'c': c, 'v': [[cell(v) for v in r] for r in o.values]}
    return {'k': 'o', 'ty': type(o).__name__}


SPELLINGS = [
    # (a, y, x): how each operand is written
    ('float', 'arr', 'arr'),
    ('int', 'arr', 'list'),
    ('np', 'int', 'int'),
    ('list', 'arr', 'arr'),
]


def observe(case, sp=0, unsorted=None):
    """one public call interpolate(a, y, x, fill_value = ..); `unsorted` = a permutation of the knots: the knots and
    the values are handed over in that order together with assume_sorted = False"""
    from pyg_base import interpolate
    a0, y0, x0, fill = case['a'], case['y'], case['x'], case['fill']
    if unsorted is not None:
        def perm(o):
            if o['k'] == 'v':
                return {'k': 'v', 'v': [o['v'][i] for i in unsorted]}
            if o['k'] == 'm':
                return {'k': 'm', 'v': [[r[i] for i in unsorted] for r in o['v']]}
            if o['k'] == 'f':
                return dict(o, c=[o['c'][i] for i in unsorted] if o['c'] else [], v=[[r[i] for i in unsorted] for r in o['v']])
            return o
        y0, x0 = perm(y0), perm(x0)
    spa, spy, spx = SPELLINGS[sp % len(SPELLINGS)]
    if a0['k'] in ('v', 'm') and spa not in ('list',):
        spa = 'arr'
    a, y, x = build(a0, spa), build(y0, spy), build(x0, spx)
    lab_a = 'names' if a0['k'] == 'f' else None
    lab_y = 'knots' if y0['k'] == 'f' else None
    kw = {}
    if fill != 'nan' or sp % 2:
        kw['fill_value'] = np.nan if fill == 'nan' else fill
    if unsorted is not None:
        kw['assume_sorted'] = False
    try:
        import warnings
        with warnings.catch_warnings():
            warnings.simplefilter('ignore')
            res = interpolate(a, y, x, **kw) if x is not None else interpolate(a, y, **kw)
        out = proj(res, lab_a)
    except Exception as e:
        out = {'k': 'exc', 'cls': type(e).__name__, 'msg': str(e)[:100]}
    return {'op': 'interp', 'a': a0, 'y': y0, 'x': x0, 'fill': fill, 'sorted': 0 if unsorted is not None else 1, 'sp': sp,
            'out': out, 'a_after': proj(a, lab_a), 'y_after': proj(y, lab_y), 'x_after': proj(x, None)}
