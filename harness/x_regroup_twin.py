"""C11, calls have no memory ACROSS TABLES (Trace_Regroup, op = "twin"): in a FRESH Python process a first table meets a y value /
column label (through pivot, the constructor or setitem), then ANOTHER table is pivoted and unpivoted over y values that are equal
to the first ones by == but of another type (1, 1.0, '1').  Run as a module: reads the cases (JSON) on stdin, prints the
observations; nothing is judged here.
"""
import sys, json


def main():
    from harness.enc import IdMap, untag, table_from
    from props.c11 import obs_pivot, proj
    from pyg_base import dictable
    out = []
    for case in json.load(sys.stdin):
        f = case['first']; ids = IdMap()
        if f['how'] == 'pivot':
            first = obs_pivot(f['t'], ['x'], 'name', 'y', 'z', 'last', 1)
        else:
            key = untag(f['key'], ids)
            if f['how'] == 'ctor':
                d = dictable({'x': [1, 2], key: [3, 4]})
            else:
                d = dictable(x=[1, 2]); d[key] = [3, 4]
            first = {'op': 'label', 'key': f['key'], 'how': f['how'], 'made': proj(d, ids)}
        second = obs_pivot(case['second'], ['x'], 'name', 'y', 'z', 'last', 2)
        out.append({'op': 'twin', 'first': first, 'second': second})
    json.dump(out, sys.stdout)


if __name__ == '__main__':
    main()
