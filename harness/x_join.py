"""Rendering and encoding for property C02 beyond harness.enc (no law in here: TLA+ decides).

1. Operand objects of every kind join / xor accept (spec/JoinSess.tla): a dictable, a plain dict of column lists, a pyg
   Dict, a pandas DataFrame - built from an abstract table, read back as an abstract table, edited in place the way a
   caller would.
2. Witness schemes for ABSTRACT KEY CELLS ["k", [class, slot]] (spec/Join.tla, KeyEqK): TLC enumerates tables over key
   classes and realisation slots; a scheme chooses the concrete Python object of every (class, slot) - ints beyond 2**53 and
   2**63, an int next to the float it rounds to, numpy scalars of every width, Timestamp / numpy.datetime64 / date for a
   datetime, str subclasses - and encodes every cell that comes back by the class of its exact value (numbers:
   fractions.Fraction, which is exact for every Python / numpy int and float; datetimes: the datetime; strings: str).
   Equal exact values = one class is true by construction (the scheme is a dict from exact value to class).
"""
import datetime
from fractions import Fraction
import numpy as np
import pandas as pd
from harness import enc
from harness.enc import untag, tag, table_from, proj_table


# ---- 1. operand objects --------------------------------------------------------------------------------------------------------
def build_obj(kind, abs_t, ids):
    from pyg_base import Dict
    if kind == 'table':
        return table_from(abs_t, ids)
    cols = list(abs_t['cols'])
    data = {c: [untag(r[c], ids) for r in abs_t['rows']] for c in cols}
    if kind == 'dict':
        return data
    if kind == 'Dict':
        return Dict(data)
    if kind == 'df':
        return pd.DataFrame(data, columns=cols)
    raise ValueError(kind)


def read_obj(kind, obj, ids):
    if kind == 'table':
        return proj_table(obj, ids)
    if kind in ('dict', 'Dict'):
        cols = list(dict.keys(obj))
        lists = {c: list(dict.__getitem__(obj, c)) for c in cols}
    else:
        cols = [str(c) for c in obj.columns]
        lists = {c: obj[c].tolist() for c in cols}
    ns = {len(v) for v in lists.values()}
    if len(ns) > 1:
        return {'cols': cols, 'rows': [], 'ragged': sorted(ns)}
    n = ns.pop() if ns else 0
    return {'cols': cols, 'rows': [{c: tag(lists[c][i], ids) for c in cols} for i in range(n)]}


def edit_obj(kind, obj, e, ids):
    """the caller's own action e (spec/JoinSess.tla: cell | setcol | append) on one of his objects, in place"""
    if e['kind'] == 'cell':
        v = untag(e['val'], ids)
        if kind == 'df':
            obj.loc[e['row'] - 1, e['col']] = v
        else:
            dict.__getitem__(obj, e['col'])[e['row'] - 1] = v          # the list the object hands out
    elif e['kind'] == 'setcol':
        obj[e['col']] = [untag(v, ids) for v in e['vals']]              # a new list object under the same name
    elif e['kind'] == 'append':
        row = {c: untag(v, ids) for c, v in e['newrow'].items()}
        if kind == 'df':
            obj.loc[len(obj)] = [row[str(c)] for c in obj.columns]
        else:
            for c in list(dict.keys(obj)):
                dict.__getitem__(obj, c).append(row[c])
    else:
        raise ValueError(e['kind'])


def overwrite_result(res):
    """every cell of a returned table overwritten in place through its column lists, and one cell appended"""
    for c in list(dict.keys(res)):
        lst = dict.__getitem__(res, c)
        if isinstance(lst, list):
            for i in range(len(lst)):
                lst[i] = 'edited'
            lst.append('edited')


# ---- 2. witness schemes for abstract key cells ---------------------------------------------------------------------------------
class S(str):
    """a str subclass"""


def _exact(v):
    """canonical exact value of a key object: what decides its class (rendering of the object, no comparison of outcomes)"""
    if isinstance(v, (bool, np.bool_)):
        return ('bool', bool(v))
    if isinstance(v, (int, np.integer)):
        return ('num', Fraction(int(v)))
    if isinstance(v, (float, np.floating)):
        if v != v or v in (float('inf'), float('-inf')):
            return None
        return ('num', Fraction(*v.as_integer_ratio()))          # exact for every width, numpy.longdouble included
    if isinstance(v, np.datetime64):
        return ('date', v.astype('datetime64[us]').astype(datetime.datetime))
    if isinstance(v, pd.Timestamp):
        return ('date', v.to_pydatetime())
    if isinstance(v, datetime.datetime):
        return ('date', v)
    if isinstance(v, datetime.date):
        return ('date', datetime.datetime(v.year, v.month, v.day))
    if isinstance(v, str):
        return ('str', str(v))
    return None


def _real(v):
    t = type(v)
    return t.__name__ if t.__module__ in ('builtins', 'numpy') else '%s.%s' % (t.__module__.split('.')[0], t.__name__)


class Scheme(object):
    """witnesses[class - 1] = the objects of that key class, slot 'A' first; slots beyond the list wrap around"""
    def __init__(self, name, witnesses, held_back=False):
        self.name, self.w, self.held_back = name, witnesses, held_back
        self.cls = {}
        for c, objs in enumerate(witnesses):
            ex = {_exact(o) for o in objs}
            assert len(ex) == 1 and None not in ex, 'scheme %s: class %d is not one exact value' % (name, c + 1)
            e = ex.pop()
            assert e not in self.cls, 'scheme %s: two classes with one value' % name
            self.cls[e] = c + 1
        order = [_exact(o[0])[1] for o in witnesses]
        assert order == sorted(order), 'scheme %s: classes are numbered in the natural order of the keys' % name

    def codec(self, rot=0):
        return Codec(self, rot)


class Codec(object):
    """untag / tag of cells for one observation: abstract key cells through the scheme, everything else through harness.enc"""
    def __init__(self, scheme, rot=0):
        self.scheme, self.rot = scheme, rot

    def untag(self, t, ids):
        if t[0] == 'k':
            objs = self.scheme.w[t[1][0] - 1]
            return objs[(('AB'.index(t[1][1])) + 2 * (self.rot % 4)) % len(objs)]
        if t[0] in ('t', 'l'):
            seq = [self.untag(x, ids) for x in t[1]]
            return tuple(seq) if t[0] == 't' else seq
        return untag(t, ids)

    def tag(self, v, ids):
        if isinstance(v, tuple):
            return ['t', [self.tag(x, ids) for x in v]]
        if isinstance(v, list):
            return ['l', [self.tag(x, ids) for x in v]]
        e = _exact(v)
        if e is not None and e in self.scheme.cls:
            return ['k', [self.scheme.cls[e], _real(v)]]
        try:
            return tag(v, ids)
        except OverflowError:                   # a number that is none of the witnesses and does not fit TLC: equal to nothing expected
            return ['o', repr(v)]

    def table_from(self, abs_t, ids):
        from pyg_base import dictable
        cols = list(abs_t['cols'])
        if not cols:
            return dictable()
        if not abs_t['rows']:
            return dictable([], cols)
        return dictable({c: [self.untag(r[c], ids) for r in abs_t['rows']] for c in cols})

    def proj_table(self, d, ids):
        cols = list(dict.keys(d))
        lists = {c: list(dict.__getitem__(d, c)) for c in cols}
        ns = {len(v) for v in lists.values()}
        if len(ns) > 1:
            return {'cols': cols, 'rows': [], 'ragged': sorted(ns)}
        n = ns.pop() if ns else 0
        return {'cols': cols, 'rows': [{c: self.tag(lists[c][i], ids) for c in cols} for i in range(n)]}

    def abstract_in(self, abs_t):
        """the input table as the law sees it: slots replaced by the realisation actually chosen (what proj_table will read back)"""
        def cell(t):
            if t[0] == 'k':
                return ['k', [t[1][0], _real(self.untag(t, None))]]
            if t[0] in ('t', 'l'):
                return [t[0], [cell(x) for x in t[1]]]
            return t
        return {'cols': list(abs_t['cols']), 'rows': [{c: cell(v) for c, v in r.items()} for r in abs_t['rows']]}


B53, B63, B64 = 2 ** 53, 2 ** 63, 2 ** 64
D = datetime.datetime
F32 = float(np.float32(0.1))
EPS = 1.0000000000000002
SCHEMES = [
    # class 1, 2, 3 in ascending order; per class the realisations (slot A = first, slot B = second, rotation moves on by two)
    Scheme('small', [[1, 1.0, np.int8(1), np.float32(1), np.int64(1), np.float64(1), np.uint16(1), np.float16(1)],
                     [2, 2.0, np.uint8(2), np.float32(2), np.int32(2), np.float64(2), np.int16(2), np.float16(2)],
                     [3, 3.0, np.uint64(3), np.float32(3), np.uint32(3), np.float64(3), np.int64(3), np.float16(3)]]),
    # large magnitudes, python ints and floats: several ints share one double; an int next to the float it rounds to
    Scheme('p53', [[B53, float(B53)], [B53 + 1, B53 + 1], [B53 + 2, float(B53 + 2)]]),
    Scheme('n53', [[-B53 - 2, float(-B53 - 2)], [-B53 - 1, -B53 - 1], [-B53, float(-B53)]]),
    Scheme('p63', [[B63 - 1, B63 - 1], [B63, float(B63)], [B63 + 1, B63 + 1]]),
    Scheme('p64', [[B64 - 1, B64 - 1], [B64, float(B64)], [B64 + 1, B64 + 1]]),
    Scheme('huge', [[10 ** 30, 10 ** 30], [10 ** 30 + 1, 10 ** 30 + 1], [10 ** 400, 10 ** 400]]),      # 10**400: beyond the doubles
    Scheme('stamp', [[1700000000000000000, np.int64(1700000000000000000)], [1700000000000000001, np.int64(1700000000000000001)],
                     [1700000000000000128, np.int64(1700000000000000128)]]),      # nanosecond epoch stamps (int / numpy.int64): one double for all three
    Scheme('eps', [[1, 1.0], [EPS, EPS], [2, 2.0]]),
    Scheme('f32', [[0.1, 0.1], [F32, F32], [0.5, 0.5]]),
    Scheme('zero', [[-1, -1.0], [0, 0.0, -0.0, 0], [5e-324, 5e-324]]),
    Scheme('dates', [[D(2000, 1, 1), np.datetime64('2000-01-01'), D(2000, 1, 1), datetime.date(2000, 1, 1)],
                     [D(2000, 1, 1, 0, 0, 0, 1), np.datetime64('2000-01-01T00:00:00.000001')],
                     [D(2000, 1, 2), datetime.date(2000, 1, 2), D(2000, 1, 2), np.datetime64('2000-01-02')]]),
    # ---- realisations on which today's code contradicts the statement (reported findings; run with VERIF_C02_HELD_BACK=1) ----
    # numpy scalars whose own == is lossy (numpy compares an int64 with a float / uint64, a float32 with a python float after
    # converting both to ONE numpy type): _listby groups raw keys with ==, the merge compares as_primitive()d keys exactly
    Scheme('np53', [[B53, float(B53), np.int64(B53), np.float64(B53)], [B53 + 1, np.int64(B53 + 1), np.uint64(B53 + 1), B53 + 1],
                    [B53 + 2, float(B53 + 2), np.uint64(B53 + 2), np.float64(B53 + 2)]], held_back=True),
    Scheme('np63', [[B63 - 1, np.int64(B63 - 1), np.uint64(B63 - 1), B63 - 1], [B63, float(B63), np.uint64(B63), np.float64(B63)],
                    [B63 + 1, np.uint64(B63 + 1), B63 + 1, np.uint64(B63 + 1)]], held_back=True),
    Scheme('npeps', [[1, 1.0, np.int64(1), np.float32(1)], [EPS, np.float64(EPS)], [2, 2.0, np.int16(2), np.float64(2)]], held_back=True),
    Scheme('npf32', [[0.1, np.float64(0.1)], [F32, np.float32(0.1), np.float64(F32), np.float32(0.1)], [0.5, np.float32(0.5), np.float16(0.5), 0.5]], held_back=True),
    # realisations that rank as a type of their own in cmp (str(type(x))): equal keys are not matched
    Scheme('timestamp', [[D(2000, 1, 1), pd.Timestamp('2000-01-01')], [D(2000, 1, 1, 12), pd.Timestamp('2000-01-01 12:00')],
                         [D(2000, 1, 2), pd.Timestamp('2000-01-02')]], held_back=True),
    Scheme('strsub', [['a', S('a'), 'a', np.str_('a')], ['b', S('b'), 'b', np.str_('b')], ['c', S('c'), 'c', np.str_('c')]], held_back=True),
    Scheme('longdouble', [[1, np.longdouble(1)], [2.5, np.longdouble(2.5)], [3, np.longdouble(3)]], held_back=True),
]
