"""C11 sessions (spec/RegroupSession.tla, MC_RegroupS.tla): replay of a TLC-generated history on REAL caller-owned objects.

A store of objects (one dictable, lists of column names, a {name: columns} dict) is built from the initial store TLC printed;
every step of the history is a public call on objects of the store (its result joins the store) or an edit the caller makes in
place; after every step EVERY object of the store is projected again.  Nothing is judged here: Trace_Regroup judges the record.
"""
from harness.enc import IdMap, untag, table_from
from pyg_base import dictable, cmp, first, last

AGG = {'list': None, 'len': len, 'first': first, 'last': last}
RESULT_KIND = {'listby': 'listed', 'groupby': 'grouped', 'pivot': 'pivoted'}
TABLE_KINDS = ('table', 'listed', 'grouped', 'pivoted')


def safe_cmp(x, y):
    try:
        c = cmp(x, y)
        return int(c) if c in (-1, 0, 1) else 9
    except Exception:
        return 9


def realise(o, ids):
    if o['kind'] == 'table':
        return table_from(o['val'], ids)
    if o['kind'] == 'names':
        return list(o['val'])
    if o['kind'] == 'ydict':
        return {k: list(v) for k, v in o['val']}
    raise ValueError('cannot realise an object of kind %r' % o['kind'])


def observe(kind, ob, ids, proj):
    if kind in TABLE_KINDS:
        try:
            return {'kind': kind, 'val': proj(ob, ids)}
        except Exception as ex:      # a table that cannot even be read any more (columns of several lengths): observed as that
            return {'kind': kind, 'val': {'cols': [str(c) for c in dict.keys(ob)], 'rows': [], 'unreadable': type(ex).__name__}}
    if kind == 'names':
        return {'kind': kind, 'val': [str(x) for x in ob]}
    return {'kind': kind, 'val': [[k, list(v)] for k, v in ob.items()]}


def spread(names, form):
    """the names handed over one by one, as the caller's list object itself, or as its only element"""
    if form == 'names': return tuple(names)
    if form == 'name': return (names[0],)
    return (names,)


def do_call(cl, objs, by_of, ids, k):
    """one step on the real objects; returns (result or None, colcmp)"""
    op = cl['op']
    d = objs[cl['on'] - 1] if cl['on'] else None
    names = objs[cl['key'] - 1] if cl['key'] else None
    if op == 'edit':
        vals = [untag(v, ids) for v in cl['vals']]
        if cl['how'] == 'setitem': d[cl['col']] = vals
        elif cl['how'] == 'update': d.update({cl['col']: vals})
        else: setattr(d, cl['col'], vals)
        return None, []
    if op == 'respec':
        names[:] = list(cl['names'])
        return None, []
    if op == 'sort':
        return d.sort(*spread(names, cl['form'])), []
    if op == 'listby':
        by_of[cl['res']] = list(names)
        return d.listby(*spread(names, cl['form'])), []
    if op == 'groupby':
        a = spread(names, cl['form'])
        return (d.groupby(*a) if cl['grp'] == 'grp' else d.groupby(*a, grp=cl['grp'])), []
    if op == 'pivot':
        return (d.pivot if k % 2 else d.xyz)(spread(names, cl['form'])[0], cl['y'], cl['z'], AGG[cl['agg']]), []
    if op == 'unlist':
        u = d.unlist()
        by = by_of.get(cl['on'], [])
        cc = []
        if all(c in dict.keys(u) for c in by):
            cc = [[safe_cmp(dict.__getitem__(u, c)[p], dict.__getitem__(u, c)[p + 1]) for c in by] for p in range(len(u) - 1)]
        return u, cc
    if op == 'ungroup':
        return (d.ungroup() if cl['grp'] == 'grp' else d.ungroup(cl['grp']) if k % 2 else d.ungroup(grp=cl['grp'])), []
    if op == 'unpivot':
        y = objs[cl['yk'] - 1] if cl['yk'] else cl['y']
        return d.unpivot(spread(names, cl['form'])[0], y, cl['z']).exc(**{cl['z']: None}), []
    raise ValueError('unknown step %r' % op)


def obs_session(e, proj, idcol='p'):
    """e = {init: store, hist: [call, ...]} as printed by MC_RegroupS; proj = the projection of a dictable"""
    ids = IdMap()
    kinds = [o['kind'] for o in e['init']]
    objs = [realise(o, ids) for o in e['init']]
    snap = lambda: [observe(kd, ob, ids, proj) for kd, ob in zip(kinds, objs)]
    o = {'op': 'session', 'plan': ''.join(e.get('plan', [])), 'idcol': idcol, 'init': snap(), 'steps': []}
    by_of = {}
    for k, cl in enumerate(e['hist']):
        step = {'call': cl, 'raised': '', 'colcmp': []}
        try:
            res, step['colcmp'] = do_call(cl, objs, by_of, ids, k)
            if cl['res']:
                if cl['res'] != len(objs) + 1:
                    raise AssertionError('slot numbering of the history and of the replay differ')
                objs.append(res); kinds.append(RESULT_KIND.get(cl['op'], 'table'))
        except AssertionError:
            raise
        except Exception as ex:
            step['raised'] = type(ex).__name__
        step['post'] = snap()
        o['steps'].append(step)
        if step['raised']:
            break
    return o
