"""Run TLC on a module of /verif/spec and read back what it printed.

All communication spec -> Python is JSON: the specs emit lines with PrintT(ToJson(x)), which TLC
prints as one quoted, escaped string per line; python -> spec is an NDJSON file whose path is
passed through the environment (IOEnv.OBS_FILE).
"""
import json, os, re, shutil, subprocess, tempfile, time

SPEC_DIR = os.path.join(os.path.dirname(os.path.dirname(os.path.abspath(__file__))), 'spec')
JAVA_CP = '/opt/veriftools/tla/tla2tools.jar:/opt/veriftools/tla/CommunityModules-deps.jar'


class TLCError(Exception):
    """TLC could not be run to completion (parse error, evaluation error, timeout): machinery failure."""


class TLCResult(object):
    def __init__(self):
        self.generated = 0      # states generated (= transitions examined incl. initial states)
        self.distinct = 0
        self.emitted = []       # JSON values printed with PrintT(ToJson(..))
        self.violated = None    # name of a violated invariant/property, or None
        self.stdout = ''
        self.cmd = ''
        self.wall = 0.0
        self.coverage = {}      # action name -> (distinct, generated) when -coverage is on


_noise = re.compile(r'^(Parsing file|Semantic processing|Linting of module|Progress\(|Checkpointing|Starting\.\.\.|Finished in|Computing initial|Finished computing|TLC2 Version|Running |Model checking completed|The depth of|  calculated|  based on the actual|Warning: Please run|\(TLC | *$|End of statistics|The coverage|<Init|<Next|Implied-temporal|Checking temporal|Finished checking temporal|Simulation using|The number of states generated|Generated \d+ traces)')


def run(module, cfg=None, **kw):
    """run TLC; an abnormal end of the JVM that is not an error of the specification (rc 255: I/O trouble, a worker
    race, memory pressure while other jobs share the machine) is retried once before it counts as a failure"""
    try:
        return _run(module, cfg, **kw)
    except TLCError as e:
        msg = str(e)
        if 'timed out' in msg or 'Parsing or semantic analysis failed' in msg or 'Parse Error' in msg or 'is violated' in msg:
            raise
        time.sleep(2)
        return _run(module, cfg, **kw)


def _run(module, cfg=None, env=None, workers=16, timeout=3600, simulate=None, depth=None, seed=None,
        coverage=False, extra=(), heap=None, deadlock=False):
    """Run TLC on spec/<module>.tla with spec/<cfg> (default <module>.cfg)."""
    workers = int(os.environ.get('VERIF_TLC_WORKERS', workers))
    meta = tempfile.mkdtemp(prefix='vtlc-')
    cfg = cfg or (module + '.cfg')
    cmd = ['java', '-XX:+UseParallelGC', '-XX:ParallelGCThreads=%d' % max(1, min(8, workers))]      # GC threads follow the worker count (the default is one per core, per JVM)
    cmd.append('-Xmx%s' % (heap or os.environ.get('VERIF_TLC_HEAP', '6g')))
    cmd += ['-Djava.io.tmpdir=' + meta, '-cp', JAVA_CP, 'tlc2.TLC', '-workers', str(workers), '-metadir', meta,
            '-noGenerateSpecTE', '-config', cfg]
    if not deadlock:
        cmd.append('-deadlock')   # -deadlock switches deadlock checking OFF
    if coverage:
        cmd += ['-coverage', '1']
    if simulate:
        cmd += ['-simulate', 'num=%d' % simulate]
        if depth:
            cmd += ['-depth', str(depth)]
    if seed is not None:
        cmd += ['-seed', str(seed)]
    cmd += list(extra) + [module + '.tla']
    e = dict(os.environ)
    e.update({k: str(v) for k, v in (env or {}).items()})
    res = TLCResult()
    res.cmd = ' '.join(cmd)
    t0 = time.time()
    try:
        p = subprocess.run(cmd, cwd=SPEC_DIR, env=e, stdout=subprocess.PIPE, stderr=subprocess.STDOUT,
                           timeout=timeout, text=True, errors='replace')
    except subprocess.TimeoutExpired as ex:
        shutil.rmtree(meta, ignore_errors=True)
        raise TLCError('TLC timed out after %ss: %s' % (timeout, res.cmd))
    finally:
        shutil.rmtree(meta, ignore_errors=True)
    res.wall = time.time() - t0
    out = p.stdout
    res.stdout = out
    other = []
    for line in out.splitlines():
        if line.startswith('"{') or line.startswith('"['):
            try:
                res.emitted.append(json.loads(json.loads(line)))
                continue
            except Exception:
                pass
        m = re.match(r'^(\d+) states generated, (\d+) distinct states found', line)
        if m:
            res.generated, res.distinct = int(m.group(1)), int(m.group(2))
            continue
        m = re.match(r'^<(\w+) line .*>: (\d+):(\d+)', line)
        if m:
            a = res.coverage.get(m.group(1), (0, 0))
            res.coverage[m.group(1)] = (a[0] + int(m.group(2)), a[1] + int(m.group(3)))
            continue
        m = re.match(r'^Error: Invariant (\S+) is violated', line) or re.match(r'^Error: Action property (\S+) is violated', line)
        if m:
            res.violated = m.group(1)
        m = re.match(r'^Error: Temporal property (\S+) was violated', line)
        if m:
            res.violated = m.group(1)
        if 'Temporal properties were violated' in line:
            res.violated = res.violated or 'temporal'
        if not _noise.match(line):
            other.append(line)
    res.other = other
    if simulate and not res.generated:
        m = re.search(r'The number of states generated: (\d+)', out)
        if m:
            res.generated = int(m.group(1)); res.distinct = res.generated
    errs = [l for l in other if l.startswith('Error:') or 'Exception' in l or '*** Errors' in l or 'Parse Error' in l]
    if res.violated is None and (errs or p.returncode not in (0,)):
        idx = [i for i, l in enumerate(other) if l.startswith('Error:') or 'Errors' in l]
        tail = '\n'.join(other[idx[0]:idx[0] + 25] if idx else other[-40:])
        raise TLCError('TLC failed (rc=%s) on %s/%s:\n%s' % (p.returncode, module, cfg, tail))
    return res
