"""Rendering and projection for extension X08 (props/x08.py): abstract JSON values of spec/Text*.tla <-> Python objects.

A string crosses the boundary as the list of its code points; a value is a tagged pair (spec/Text.tla: TStr, TNone, TInt, TStrs,
TInts, TFlt; spec/TextNum.tla: TNum = an exact decimal m * 10^e in normal form).  Nothing here knows what the right answer of a
call is: build() makes the argument, outcome() calls and catches, enc*() write down what came back."""
import decimal


def seq(x):
    """TLC prints an empty sequence as [] and an empty function as {}"""
    return list(x) if x else []


def norm(x):
    """what TLC printed, with every empty function read as the empty sequence"""
    if isinstance(x, dict):
        return {k: norm(v) for k, v in x.items()} if x else []
    if isinstance(x, (list, tuple)):
        return [norm(v) for v in x]
    return x


def S(codes):
    return ''.join(chr(k) for k in seq(codes))


def codes(s):
    return [ord(ch) for ch in s]


def build(t):
    tag, v = t[0], t[1]
    if tag == 's':
        return S(v)
    if tag == 'n':
        return None
    if tag == 'i':
        return int(v)
    if tag == 'f':
        return float(v[0]) / float(v[1])          # the denominator is a power of two: exact
    if tag == 'ls':
        return [S(w) for w in seq(v)]
    if tag == 'li':
        return [int(k) for k in seq(v)]
    raise ValueError('cannot build %r' % (t,))


def enc(v):
    """a returned value as a tagged pair"""
    if v is None:
        return ['n', 0]
    if isinstance(v, bool):
        return ['b', 1 if v else 0]
    if isinstance(v, int):
        return ['i', v]
    if isinstance(v, float):
        n, d = v.as_integer_ratio()
        if abs(n) >= 2 ** 31 or d >= 2 ** 31:
            return ['fbig', repr(v)]
        return ['f', [n, d]]
    if isinstance(v, str):
        return ['s', codes(v)]
    if isinstance(v, (list, tuple)):
        tag = 'l' if isinstance(v, list) else 't'
        if all(isinstance(w, str) for w in v):
            return [tag + 's', [codes(w) for w in v]]
        if all(isinstance(w, int) and not isinstance(w, bool) for w in v):
            return [tag + 'i', list(v)]
        return [tag + 'x', [enc(w) for w in v]]
    return ['other', type(v).__name__]


def enc_num(v):
    """the result of as_float: a float is written as the decimal that Python prints for it (the shortest one that reads back
    as this float), in normal form; one whose digits do not fit TLC's integers is a "numbig" (no expectation is one)"""
    if not isinstance(v, float) or isinstance(v, bool):
        return enc(v)
    if v != v:
        return ['nan', 0]
    if v in (float('inf'), float('-inf')):
        return ['inf', 1 if v > 0 else -1]
    sign, digits, exp = decimal.Decimal(repr(v)).as_tuple()
    digits = list(digits)
    while len(digits) > 1 and digits[-1] == 0:
        digits.pop(); exp += 1
    if digits == [0]:
        return ['num', [0, 0]]
    if len(digits) > 9:
        return ['numbig', [digits, 1 if sign else 0, exp]]
    m = int(''.join(map(str, digits)))
    return ['num', [-m if sign else m, exp]]


def outcome(f, *a, **kw):
    try:
        return 'val', f(*a, **kw)
    except Exception as e:               # the class of the exception is the observation
        return 'exc', type(e).__name__
