"""Rendering and projection for extension X06 (spec/Frames.tla, FramesGap.tla, FramesFold.tla).

build():  abstract object (JSON as printed by TLC / drawn by the driver) -> pandas / numpy / Python object
proj():   what came back from pyg_base -> abstract object
Unlike harness/x_series.py (whose cell encoding is reused) the projection keeps the ORDER of rows and of
columns and every header: concatenation, column access and the removal of duplicated stamps are about them.
Nothing here knows what the right answer is.

  {"k":"s","t":[k1,..],"v":[cell,..]}                         pd.Series on 2000-01-01 + k days, rows in index order
  {"k":"pf","t":[..],"h":[["s",name]|["i",n],..],"v":[col,..]}  pd.DataFrame, columns in their order
  {"k":"a","n":len,"v":[cell,..]}   {"k":"m","rows":n,"v":[col,..]}   1-d / 2-d numpy arrays
  {"k":"c","v":cell}  a number      {"k":"x","id":n}  an opaque leaf (by identity)
  {"k":"l","items":[..]}  {"k":"d","keys":[..],"items":[..]}  list / dict
  {"k":"bycol","h":[header,..],"v":[cell,..]}                   a Series indexed by column names
"""
import numpy as np
import pandas as pd
from harness.x_series import cell, uncell, day, BASE, Registry, outcome     # noqa: F401  (re-exported)


def index_of(ks, base=BASE):
    return pd.DatetimeIndex([base + pd.Timedelta(days=int(k)) for k in ks])


def header(h):
    return h[1]


def enc_header(c):
    if isinstance(c, str):
        return ["s", c]
    if isinstance(c, (int, np.integer)) and not isinstance(c, (bool, np.bool_)):
        return ["i", int(c)]
    return ["o", repr(c)[:40]]


def number(c, ints=False):
    v = uncell(c)
    if ints and isinstance(v, float) and v == v and v == int(v):
        return int(v)
    return v


def build(x, reg, base=BASE, ints=False, dtype=float):
    k = x["k"]
    if k == "s":
        return pd.Series(np.array([uncell(c) for c in x["v"]], dtype=dtype), index=index_of(x["t"], base))
    if k == "pf":
        idx = index_of(x["t"], base)
        names = [header(h) for h in x["h"]]
        if not names:
            return pd.DataFrame(index=idx)
        data = np.array([[uncell(c) for c in col] for col in x["v"]], dtype=dtype).T.reshape(len(idx), len(names))
        return pd.DataFrame(data, index=idx, columns=names)
    if k == "a":
        return np.array([uncell(c) for c in x["v"]], dtype=dtype)
    if k == "m":
        return np.array([[uncell(c) for c in col] for col in x["v"]], dtype=dtype).T.reshape(x["rows"], len(x["v"]))
    if k == "c":
        return number(x["v"], ints)
    if k == "x":
        return reg.obj(x["id"])
    if k == "l":
        return [build(i, reg, base, ints, dtype) for i in x["items"]]
    if k == "d":
        return {key: build(i, reg, base, ints, dtype) for key, i in zip(x["keys"], x["items"])}
    raise ValueError(x)


def times(index, base=BASE):
    if not isinstance(index, pd.DatetimeIndex):
        return None
    ks = []
    for t in index:
        if t is pd.NaT:
            return None
        d = t - base
        if d != pd.Timedelta(days=d.days):
            return None
        ks.append(int(d.days))
    return ks


def proj(o, reg=None, base=BASE):
    if reg is not None:
        n = reg.ident(o)
        if n is not None:
            return {"k": "x", "id": n}
    if isinstance(o, pd.Series):
        if len(o) == 0:
            return {"k": "s", "t": [], "v": []}
        ks = times(o.index, base)
        if ks is None:
            if all(isinstance(c, (str, int, np.integer)) for c in o.index) and not isinstance(o.index, pd.RangeIndex):
                return {"k": "bycol", "h": [enc_header(c) for c in o.index], "v": [cell(v) for v in o.values]}
            return {"k": "o", "ty": "Series[%s]" % type(o.index).__name__}
        return {"k": "s", "t": ks, "v": [cell(v) for v in o.values]}
    if isinstance(o, pd.DataFrame):
        ks = times(o.index, base) if len(o.index) else []
        if ks is None:
            return {"k": "o", "ty": "DataFrame[%s]" % type(o.index).__name__}
        return {"k": "pf", "t": ks, "h": [enc_header(c) for c in o.columns],
                "v": [[cell(v) for v in o.iloc[:, j].values] for j in range(o.shape[1])]}
    if isinstance(o, np.ndarray):
        if o.ndim == 1:
            return {"k": "a", "n": int(o.shape[0]), "v": [cell(v) for v in o]}
        if o.ndim == 2:
            return {"k": "m", "rows": int(o.shape[0]), "v": [[cell(v) for v in o[:, j]] for j in range(o.shape[1])]}
        return {"k": "o", "ty": "ndarray%dd" % o.ndim}
    if isinstance(o, list):
        return {"k": "l", "items": [proj(i, reg, base) for i in o]}
    if isinstance(o, tuple):
        return {"k": "t", "items": [proj(i, reg, base) for i in o]}
    if isinstance(o, dict):
        return {"k": "d", "keys": [str(key) for key in o.keys()], "items": [proj(i, reg, base) for i in o.values()]}
    if isinstance(o, (bool, np.bool_, int, np.integer, float, np.floating)):
        return {"k": "c", "v": cell(o)}
    if o is None:
        return {"k": "none"}
    return {"k": "o", "ty": type(o).__name__}


def proj_names(o):
    """the answer of df_columns: a set of names (their order is no part of the statement), or nothing"""
    if o is None:
        return {"k": "none"}
    if isinstance(o, (pd.Index, list, tuple)):
        names = list(o)
        if all(isinstance(c, str) for c in names):
            return {"k": "cols", "c": sorted(names)}
        return {"k": "o", "ty": "names:%s" % [type(c).__name__ for c in names][:4]}
    if isinstance(o, (int, np.integer)):
        return {"k": "width", "n": int(o)}
    return {"k": "o", "ty": type(o).__name__}


def sort_columns(x):
    """a frame with its columns listed by name (for results whose column order the statement leaves open)"""
    if isinstance(x, dict) and x.get("k") == "pf" and all(h[0] == "s" for h in x["h"]):
        order = sorted(range(len(x["h"])), key=lambda j: x["h"][j][1])
        return {"k": "pf", "t": x["t"], "h": [x["h"][j] for j in order], "v": [x["v"][j] for j in order]}
    return x


def quantised(o):
    """sf's answers are read to the sixth decimal (to the third from 2000 on): binary floating point does not hold the
    decimal fractions the statement speaks of (named reading SfFloatNoise); the reading itself is exact arithmetic"""
    from fractions import Fraction
    if isinstance(o, (bool, np.bool_)) or not isinstance(o, (int, np.integer, float, np.floating)):
        return proj(o)
    v = float(o)
    if v != v:
        return {"k": "c", "v": ["nan", 0]}
    if v in (float('inf'), float('-inf')):
        return {"k": "c", "v": ["inf", 1 if v > 0 else -1]}
    q = 10 ** 6 if abs(v) < 2000 else 10 ** 3 if abs(v) < 2000000 else 1
    fr = Fraction(int(round(v * q)), q)
    if abs(fr.numerator) >= 2 ** 31:
        return {"k": "c", "v": ["big", repr(v)]}
    return {"k": "c", "v": ["f", [fr.numerator, fr.denominator]]}
