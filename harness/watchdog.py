"""CPU-time watchdog for calls the properties require to terminate.  Uses the virtual (process CPU)
timer, so load on the machine cannot cause a false alarm; a call whose correct evaluation takes
milliseconds is given seconds."""
import signal


class Timeout(BaseException):
    pass


def _raise(signum, frame):
    raise Timeout()


def call(f, *args, seconds=10.0, **kwargs):
    """returns ('ok', value) | ('exc', exception) | ('timeout', None)"""
    old = signal.signal(signal.SIGVTALRM, _raise)
    signal.setitimer(signal.ITIMER_VIRTUAL, seconds)
    try:
        try:
            return 'ok', f(*args, **kwargs)
        finally:
            signal.setitimer(signal.ITIMER_VIRTUAL, 0)
    except Timeout:
        return 'timeout', None
    except Exception as e:
        return 'exc', e
    finally:
        signal.setitimer(signal.ITIMER_VIRTUAL, 0)
        signal.signal(signal.SIGVTALRM, old)
