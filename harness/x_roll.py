"""Rendering and projection for extension X03-b/c (spec/Roll.tla): `df_roll_off`.

render a call record of the specification into real objects (a dictable chain, a loader function, a pd.Series /
pd.DataFrame of previously rolled data, datetimes), call df_roll_off, and project what came back.  Nothing here knows
what the right answer is.  Grid position k of a call with clock `now` is the day  today + (k - now)  (df_roll_off reads
the wall clock itself: dt(0)); 0 stands for None; cells are integers, NaN = -1.
"""
import datetime, math, warnings
import numpy as np
import pandas as pd

NAN = -1
TR = 100000
MK = 50000


class Clock(object):
    def __init__(self, now):
        from pyg_base import dt
        self.now = now
        self.today = dt(0)

    def day(self, k):
        return self.today + datetime.timedelta(days=int(k) - self.now)

    def bound(self, k):
        return None if k == 0 else self.day(k)

    def grid(self, ts):
        if ts is None:
            return 0
        try:
            d = pd.Timestamp(ts).to_pydatetime() - self.today
            if d != datetime.timedelta(days=d.days):
                return -9
            k = d.days + self.now
            return k if 0 < k < 2 ** 31 - 1 else -9
        except Exception:
            return -9


def cell(v):
    try:
        v = float(v)
    except Exception:
        return -3
    if math.isnan(v):
        return NAN
    return int(v) if v == int(v) and 0 <= v < 2 ** 31 - 1 else -2


def series(clock, s):
    return pd.Series(np.array([float('nan') if v == NAN else float(v) for v in s['cols'][0]], dtype=float),
                     pd.DatetimeIndex([clock.day(t) for t in s['rows']]))


def frame(clock, f, n):
    """the caller's data on file: a series for curves of size 0 / 1, a frame with columns 0.. otherwise"""
    if len(f['cols']) == 0:
        return None
    if n <= 1 and len(f['cols']) == 1:
        return series(clock, f)
    idx = pd.DatetimeIndex([clock.day(t) for t in f['rows']])
    return pd.DataFrame({j: np.array([float('nan') if v == NAN else float(v) for v in col], dtype=float) for j, col in enumerate(f['cols'])},
                        index=idx, columns=list(range(len(f['cols']))))


def enc_frame(res, clock):
    if res is None:
        return {'rows': [], 'cols': []}
    if isinstance(res, pd.Series):
        return {'rows': [clock.grid(t) for t in res.index], 'cols': [[cell(v) for v in res.values]]}
    if isinstance(res, pd.DataFrame):
        return {'rows': [clock.grid(t) for t in res.index], 'cols': [[cell(v) for v in res.iloc[:, j].values] for j in range(res.shape[1])],
                **({} if list(res.columns) == list(range(res.shape[1])) else {'labels': [str(c) for c in res.columns]})}
    return {'rows': [], 'cols': [], 'type': type(res).__name__}


def observe(call, sp=0):
    """one call of df_roll_off; returns the observation: outcome, loader / live_check logs, the operands afterwards.
    sp (spelling): bit 0: load_on = 'cid' instead of by argument name; bit 1: expiry / cutoff as day offsets instead of
    dates; bit 2: the chain without a roll column when no roll date is given"""
    from pyg_base import df_roll_off, dictable
    clock = Clock(call['now'])
    K = len(call['L'])
    loads, checks = [], []
    made = {}

    def loader(cid):
        loads.append(int(cid))
        s = call['L'][cid - 1]
        if s.get('none'):
            return None
        made[cid] = series(clock, s)
        return made[cid]

    by_first = {}
    def live_check(ts):
        # which contract is this?  the loader's own object is handed over
        for cid, obj in made.items():
            if obj is ts:
                checks.append(cid)
                break
        else:
            checks.append(-1)
        return ts + MK if call.get('mark') else ts

    rolls = [clock.bound(r) for r in call['rolls']]
    cols = {'cid': list(range(1, K + 1))}
    if not (sp & 4 and all(r is None for r in rolls)):
        cols['roll'] = rolls
    chain = dictable(**cols)
    chain_before = [[int(c), clock.grid(r) if 'roll' in cols else 0] for c, r in zip(chain['cid'], chain['roll'] if 'roll' in cols else [None] * K)]
    keys_before = sorted(chain.keys())
    data = frame(clock, call['data'], call['n'])
    data_before = enc_frame(data, clock)
    kw = {'n': call['n']}
    if sp & 1:
        kw['load_on'] = 'cid'
    if sp & 2:
        kw['expiry'] = call['expiry'] - call['now']
        if call['cutoff']:
            kw['cutoff'] = call['cutoff'] - call['now']
    else:
        kw['expiry'] = clock.day(call['expiry'])
        if call['cutoff']:
            kw['cutoff'] = clock.day(call['cutoff'])
    if not call['cutoff']:
        kw['cutoff'] = None
    if data is not None:
        kw['data'] = data
    if call.get('tr'):
        kw['transform'] = lambda ts: ts + TR
    if call.get('check', 1):
        kw['live_check'] = live_check
    if call['ifno'] == 'raise':
        kw['do_if_no_n'] = True
    elif call['ifno'] == 'call':
        kw['do_if_no_n'] = lambda i, n: ('called', i, n)
    res = None
    try:
        with warnings.catch_warnings():
            warnings.simplefilter('ignore')
            res = df_roll_off(chain, loader, **kw)
        if isinstance(res, tuple) and len(res) == 3 and res[0] == 'called':
            out = {'kind': 'called', 'args': [int(res[1]), int(res[2])]}
        else:
            ch = res['chain']
            ids = [int(c) for c in ch['cid']]
            out = {'kind': 'ok', 'data': enc_frame(res['data'], clock),
                   'chain': [[c, clock.grid(r)] for c, r in zip(ids, ch['roll'])],
                   'rolls': [dict(zip(ids, [clock.grid(r) for r in ch['roll']])).get(i, -7) for i in range(1, K + 1)] if sorted(ids) == list(range(1, K + 1)) else [-7] * K}
    except Exception as e:
        out = {'kind': 'exc', 'cls': type(e).__name__, 'msg': str(e)[:120]}
    after = {'data': enc_frame(data, clock),
             'chain': [[int(c), clock.grid(r) if 'roll' in cols else 0] for c, r in zip(chain['cid'], chain['roll'] if 'roll' in chain.keys() else [None] * K)],
             'keys': sorted(chain.keys())}
    call = dict(call)
    call.setdefault('check', 1)
    return {'op': 'roll', 'call': call, 'sp': sp, 'out': out, 'loaded': loads, 'checked': checks,
            'data_before': data_before, 'chain_before': chain_before, 'keys_before': keys_before, 'after': after}, res


def last_on_cutoff(call):
    """a feature of the input (for matching findings): some contract's data ends exactly on the cutoff date"""
    return bool(call['cutoff']) and any(s['rows'] and s['rows'][-1] == call['cutoff'] for s in call['L'])


def later_ends_earlier(call):
    """a feature of the input (for matching findings): going down the chain, some contract with data is rolled off (roll
    date or last row, whichever comes first) before a contract listed earlier"""
    us = []
    for s, r in zip(call['L'], call['rolls']):
        if s['rows']:
            us.append(min(r, s['rows'][-1]) if r else s['rows'][-1])
    return any(a > b for a, b in zip(us, us[1:]))
