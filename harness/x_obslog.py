"""Shared by props/c15.py and props/c16.py: the log of observations that a trace specification judges.

S2C replays compare the encoded outcome with == against what TLC printed; what is not == is handed to the trace
specification, which names the clause (and must reject it - S2C and C2S disagreeing is a machinery failure);
one in 16 of the S2C matches is handed over too (and must be accepted).  C2S observations are all handed over.
The `kind` of a mismatch = (op, form, names of the fields that were not ==) only bounds the log: at most `cap`
observations of one kind are judged, the rest is counted."""
import json
from harness.core import Machinery


class Log(object):
    def __init__(self, ctx, cap):
        self.ctx, self.cap = ctx, cap
        self.obs = []
        self.kind_of = {}           # index into obs -> kind, for S2C mismatches
        self.expect_ok = set()
        self.kinds = {}             # kind -> number of mismatches
        self.n = 0

    def s2c(self, o, fails):
        """fails: True/() = everything was ==, False or a tuple of field names = mismatch"""
        self.ctx.evals += 1
        self.n += 1
        if fails is True:
            fails = ()
        elif fails is False:
            fails = ('outcome',)
        if fails:
            kind = (o['op'], o.get('form', ''), tuple(fails))
            self.kinds[kind] = self.kinds.get(kind, 0) + 1
            if self.kinds[kind] <= self.cap:
                self.kind_of[len(self.obs)] = kind; self.obs.append(o)
        elif self.n % 16 == 0:
            self.expect_ok.add(len(self.obs)); self.obs.append(o)

    def c2s(self, o):
        self.ctx.evals += 1
        self.obs.append(o)


CHUNK = 40000      # observations per TLC start (the whole log is read into memory by ndJsonDeserialize)


def judge(ctx, log, module, case_keys, group_keys=('op', 'form')):
    rejected = {}
    for lo in range(0, len(log.obs), CHUNK):
        for i, clause in ctx.validate(module, log.obs[lo:lo + CHUNK]):
            rejected.setdefault(lo + i - 1, clause)
    for i in log.kind_of:
        if i not in rejected:
            raise Machinery('S2C (==) rejected an observation that %s accepts: %s' % (module, json.dumps(log.obs[i])[:700]))
    for i in log.expect_ok:
        if i in rejected:
            raise Machinery('%s rejects (%s) an observation that S2C (==) accepted: %s' % (module, rejected[i], json.dumps(log.obs[i])[:700]))
    groups, capped = {}, {}
    for i, clause in rejected.items():
        o = log.obs[i]
        if clause in ('bad_input', 'unknown_op'):
            raise Machinery('driver produced an observation outside the domain (%s): %s' % (clause, json.dumps(o)[:700]))
        g = (clause,) + tuple(str(o.get(k, '')) for k in group_keys)
        groups.setdefault(g, []).append(o)
        kind = log.kind_of.get(i)
        if kind is not None and log.kinds[kind] > log.cap:
            capped.setdefault(g, set()).add(kind)
    counts = {}
    for g, os_ in sorted(groups.items()):
        n = len(os_) + sum(log.kinds[k] - log.cap for k in capped.get(g, ()))
        counts['/'.join(g)] = n
        os_.sort(key=lambda o: len(json.dumps(o)))
        for o in os_[:2]:                          # the smallest failing inputs of each kind
            case = {k: o[k] for k in case_keys if k in o}
            detail = {k: v for k, v in o.items() if k not in case_keys}
            detail['count_of_this_kind'] = n
            ctx.violation(g[0], case, detail)
    ctx.extra['rejected_by_kind'] = counts
    return rejected
