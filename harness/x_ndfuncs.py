"""User functions for the named_dict check (extension X04-c, spec/NamedDict.tla).

named_dict takes its casts and checks BY NAME ('module.function'): the generated class imports them.
The specification describes each user function as a finite table (value -> result or exception, plus
what happens for every other value) and prints the tables; install() turns each table into a real
callable living in THIS module under the table's name.  Nothing is decided here: a callable looks its
argument up in the table it was made from.
"""
import json
import sys

from harness.enc import tag, untag

EXC = {'TypeError': TypeError, 'ValueError': ValueError, 'KeyError': KeyError, 'ZeroDivisionError': ZeroDivisionError,
       'AttributeError': AttributeError, 'IndexError': IndexError}
PREFIX = 'harness.x_ndfuncs.'


def _realise(res):
    if res[0] == 'exc':
        raise EXC[res[1]]('table says so')
    return untag(res)


def make(rows, other):
    table = {json.dumps(k): r for k, r in rows}

    def f(x):
        return _realise(table.get(json.dumps(tag(x)), other))
    return f


def install(tables):
    """tables: [{'name': 'harness.x_ndfuncs.<n>', 'rows': [[value, result], ..], 'other': result}, ..]"""
    me = sys.modules[__name__]
    for t in tables:
        assert t['name'].startswith(PREFIX), t['name']
        f = make(t['rows'], t['other'])
        f.__name__ = t['name'][len(PREFIX):]
        setattr(me, f.__name__, f)
