"""Extension X07 (Access*): rendering of the abstract universes of spec/AccessTypes.tla, AccessItems.tla and
AccessSig.tla as real Python objects, and the encoding of what pyg_base returned.  No expectations are computed here."""
import datetime, decimal, enum, functools, inspect, math
import numpy as np
import pandas as pd

# ---------------------------------------------------------------------------------------------------------
# AccessTypes: objects  {"cls", "val", "items", "idx"}
# ---------------------------------------------------------------------------------------------------------
NOVAL = ["n", 0]
NATVAL = ["nat", 0]


class Color(enum.Enum):
    """members are made on demand: an Enum class per distinct member value"""


class Two(enum.IntEnum):
    M0 = 0
    M1 = 1
    M2 = 2
    M3 = 3


def _a_function(x):
    return x


def _num(val):
    k, p = val
    if k in ("i", "b"):
        return p
    if k == "f":
        return p[0] / p[1]
    if k == "nan":
        return float('nan')
    if k == "inf":
        return float('inf') if p > 0 else float('-inf')
    raise ValueError(val)


def _moment(val):
    o, s, u = val[1]
    return datetime.datetime.fromordinal(o) + datetime.timedelta(seconds=s, microseconds=u)


class Registry(object):
    """objects built for one observation, by identity: what comes back untouched encodes as what went in"""
    def __init__(self):
        self.by_id = {}
        self.keep = []
        self.enums = {}

    def put(self, py, ab):
        self.by_id.setdefault(id(py), ab)
        self.keep.append(py)
        return py


def obj(c, v=NOVAL, items=(), idx=""):
    return {"cls": c, "val": list(v), "items": list(items), "idx": idx}


def build(ab, reg):
    """abstract object -> real object"""
    c, val, items, idx = ab["cls"], ab["val"], ab["items"] or [], ab["idx"]
    if c == "NoneType":
        py = None
    elif c == "bool":
        py = bool(val[1])
    elif c == "np.bool_":
        py = np.bool_(val[1])
    elif c == "int":
        py = int(val[1])
    elif c == "IntEnum":
        py = Two(val[1])
    elif c.startswith("np.int") or c.startswith("np.uint"):
        py = getattr(np, c[3:])(val[1])
    elif c == "float":
        py = float(_num(val))
    elif c in ("np.float16", "np.float32", "np.float64", "np.longdouble"):
        py = getattr(np, c[3:])(_num(val))
    elif c == "complex":
        py = complex(val[1], 1)
    elif c == "Decimal":
        py = decimal.Decimal(val[1])
    elif c == "str":
        py = str(val[1])
    elif c == "np.str_":
        py = np.str_(val[1])
    elif c == "bytes":
        py = val[1].encode()
    elif c == "date":
        py = datetime.date.fromordinal(val[1])
    elif c == "datetime":
        py = _moment(val)
    elif c == "Timestamp":
        py = pd.Timestamp(_moment(val))
    elif c == "NaTType":
        py = pd.NaT
    elif c == "np.datetime64":
        py = np.datetime64('NaT') if val[0] == "nat" else np.datetime64(_moment(val))
    elif c == "np.timedelta64":
        py = np.timedelta64(val[1], 'D')
    elif c == "object":
        py = object()
    elif c == "function":
        py = _a_function
    elif c == "Enum":
        inner = build(items[0], reg)
        key = repr(items[0])
        if key not in reg.enums:
            reg.enums[key] = enum.Enum('Color%d' % len(reg.enums), {'RED': inner})
        py = reg.enums[key].RED
    elif c in ("list", "tuple", "set", "frozenset"):
        py = {"list": list, "tuple": tuple, "set": set, "frozenset": frozenset}[c](build(x, reg) for x in items)
    elif c in ("dict", "dictattr", "Dict"):
        vals = [build(x, reg) for x in items]
        if idx == "str":
            keys = ['k%d' % i for i in range(len(vals))]
        elif idx == "int0":
            keys = list(range(len(vals)))
        else:
            keys = [5 + i for i in range(len(vals))]
        d = dict(zip(keys, vals))
        if c != "dict":
            import pyg_base
            d = getattr(pyg_base, c)(d)
        py = d
    elif c == "dict_keys":
        holder = {build(x, reg): i for i, x in enumerate(items)}
        reg.keep.append(holder)
        py = holder.keys()
    elif c == "dict_values":
        holder = {i: build(x, reg) for i, x in enumerate(items)}
        reg.keep.append(holder)
        py = holder.values()
    elif c == "range":
        py = range(items[0]["val"][1], items[-1]["val"][1] + 1) if items else range(0)
    elif c == "iterator":
        py = iter([build(x, reg) for x in items])
    elif c == "ndarray0":
        py = np.array(build(items[0], reg), dtype=object) if idx == "object" else np.array(build(items[0], reg))
    elif c == "ndarray":
        vals = [build(x, reg) for x in items]
        if idx == "native":
            py = np.array(vals)
        else:
            py = np.empty(len(vals), dtype=object)
            for i, x in enumerate(vals):
                py[i] = x
    elif c in ("Series", "DataFrame"):
        n = len(items) if c == "Series" else val[1]
        if idx == "range":
            index = pd.RangeIndex(n)
        elif idx == "int5":
            index = pd.Index([5 + i for i in range(n)])
        elif idx == "date":
            index = pd.DatetimeIndex([datetime.datetime(2020, 1, 1) + datetime.timedelta(days=i) for i in range(n)])
        elif idx == "date_desc":
            index = pd.DatetimeIndex([datetime.datetime(2020, 1, 1) - datetime.timedelta(days=i) for i in range(n)])
        else:
            index = pd.Index(['r%d' % i for i in range(n)])
        if c == "Series":
            vals = [build(x, reg) for x in items]
            py = pd.Series(vals, index=index, dtype=object if (not vals or any(isinstance(x, str) for x in vals)) else None)
        else:
            py = pd.DataFrame({'a': [0] * n}, index=index)
    else:
        raise ValueError('unknown class %r' % c)
    return reg.put(py, ab)


def _val_of_number(x):
    x = float(x)
    if math.isnan(x):
        return ["nan", 0]
    if math.isinf(x):
        return ["inf", 1 if x > 0 else -1]
    p, q = x.as_integer_ratio()
    if abs(p) > 2 ** 31 - 1 or q > 2 ** 31 - 1:
        return ["big", 0]
    return ["f", [p, q]]


def _val_of_moment(x):
    return ["d", [x.toordinal(), x.hour * 3600 + x.minute * 60 + x.second, x.microsecond]]


def encode(py, reg):
    """real object -> abstract object: what was built for this observation encodes as what it was built from (it is the
    same object), primitives and lists / tuples by type, anything else by its class name"""
    ab = reg.by_id.get(id(py))
    if ab is not None and type(py) not in (list, tuple):
        return ab
    t = type(py)
    if py is None:
        return obj("NoneType")
    if t is bool:
        return obj("bool", ["b", int(py)])
    if t is np.bool_:
        return obj("np.bool_", ["b", int(py)])
    if t is int:
        return obj("int", ["i", py]) if abs(py) < 2 ** 31 else obj("int", ["big", 0])
    if isinstance(py, np.integer) and t.__module__ == 'numpy' and not isinstance(py, np.timedelta64):
        return obj("np." + t.__name__, ["i", int(py)])
    if t is float:
        return obj("float", _val_of_number(py))
    if isinstance(py, np.floating):
        return obj("np." + t.__name__, _val_of_number(py))
    if t is str:
        return obj("str", ["s", py])
    if t is np.str_:
        return obj("np.str_", ["s", str(py)])
    if py is pd.NaT:
        return obj("NaTType", NATVAL)
    if t is pd.Timestamp:
        return obj("Timestamp", _val_of_moment(py))
    if t is datetime.datetime:
        return obj("datetime", _val_of_moment(py))
    if t is datetime.date:
        return obj("date", ["date", py.toordinal()])
    if t is np.datetime64:
        return obj("np.datetime64", NATVAL if np.isnat(py) else _val_of_moment(py.astype('datetime64[us]').astype(datetime.datetime)))
    if t in (list, tuple):
        return obj(t.__name__, NOVAL, [encode(x, reg) for x in py])
    return obj("?" + t.__name__)


def outcome(f, *a, **k):
    """('val', result) or ('exc', class name)"""
    try:
        return 'val', f(*a, **k)
    except Exception as e:
        return 'exc', type(e).__name__


# ---------------------------------------------------------------------------------------------------------
# AccessItems
# ---------------------------------------------------------------------------------------------------------
from harness.enc import IdMap, tag, untag


class Node(object):
    """the recording object of the call chains: it remembers the calls it has received, nothing else"""
    NAMES = ('push', 'need', 'peek')

    def __init__(self, log=()):
        self._log = tuple(log)

    def push(self, *a, **k):
        return Node(self._log + (('push', a, tuple(sorted(k.items()))),))

    def need(self, x):
        return Node(self._log + (('need', (x,), ()),))

    def peek(self):
        return self._log

    def __getitem__(self, name):
        if name in Node.NAMES:
            return getattr(self, name)
        raise KeyError(name)


def enc_log(log):
    return [{'m': m, 'a': [tag(x) for x in a], 'k': [[n, tag(x)] for n, x in k]} for m, a, k in log]


def enc_chain(kind, r):
    if kind == 'exc':
        return ['exc', r]
    if isinstance(r, Node):
        return ['node', enc_log(r._log)]
    if isinstance(r, tuple):
        return ['val', enc_log(r)]
    return ['other', type(r).__name__]


def run_chain(c):
    from pyg_base import callitem, callattr
    f = callitem if c['fn'] == 'callitem' else callattr
    key = c['keys']['k'][0] if c['keys']['sp'] == 'one' else list(c['keys']['k'] or [])
    kw = {}
    a = c['args']
    if a['sp'] == 'tuple':
        kw['args'] = tuple(untag(x) for x in a['a'] or [])
    elif a['sp'] == 'list':
        kw['args'] = [tuple(untag(x) for x in step or []) for step in a['a'] or []]
    k = c['kwargs']
    if k['sp'] == 'dict':
        kw['kwargs'] = {n: untag(x) for n, x in k['k'] or []}
    elif k['sp'] == 'list':
        kw['kwargs'] = [None if e[0] == 'n' else {n: untag(x) for n, x in e[1] or []} for e in k['k'] or []]
    return enc_chain(*outcome(f, Node(), key, **kw))


class Thing(object):
    kind = 'K'


def run_getattrs(c):
    import pyg_base
    from pyg_base._dictattr import getattrs
    ids = IdMap()
    t = Thing()
    for k, x in c['obj'] or []:
        setattr(t, k, untag(x, ids))
    w, b = c['want'], c['base']
    attrs = None if w['sp'] == 'none' else w['a'][0] if w['sp'] == 'one' else list(w['a'] or [])
    classes = {'dict': dict, 'dictattr': pyg_base.dictattr, 'Dict': pyg_base.Dict}
    inst = None
    if b['sp'] == 'none':
        base = None
    elif b['sp'] == 'true':
        base = True
    elif b['sp'] in ('_', '__'):
        base = b['sp']
    elif b['sp'] == 'inst':
        base = inst = classes[b['cls']]({k: untag(x, ids) for k, x in b['items'] or []})
    else:
        base = classes[b['cls']]
    k, r = outcome(getattrs, t, attrs, base, *[untag(x, ids) for x in c['d'] or []])
    if k == 'exc':
        out = ['exc', r]
    elif isinstance(r, dict):
        out = ['ok', {'cls': type(r).__name__, 'items': [[str(n), tag(x, ids)] for n, x in dict.items(r)]}]
    else:
        out = ['other', type(r).__name__]
    return {'out': out, 'obj_after': [[n, tag(x, ids)] for n, x in t.__dict__.items()],
            'base_after': [[n, tag(x, ids)] for n, x in dict.items(inst)] if inst is not None else []}


RELABEL_FNS = {'upper': lambda k: k.upper(), 'dbl': lambda k: k * 2, 'const': lambda k: 'z'}


def relabel_args(form):
    sp = form['sp']
    if sp == 'none':
        return ()
    if sp == 'affix':
        return (form['s'],)
    if sp == 'fn':
        return (RELABEL_FNS[form['s']],)
    if sp == 'dict':
        return ({a: b for a, b in form['items'] or []},)
    if sp == 'names':
        return (list(form['names'] or []),)
    return tuple(form['names'] or [])


def run_relabel(c):
    from pyg_base import relabel
    keys = c['keys'][0] if c['one'] else list(c['keys'])
    k, r = outcome(relabel, keys, *relabel_args(c['form']), **{a: b for a, b in c['kw'] or []})
    if k == 'exc':
        return ['exc', r]
    if not isinstance(r, dict):
        return ['other', type(r).__name__]
    return ['ok', sorted([str(a), str(b)] for a, b in r.items())]


def run_relabel_dict(c):
    import pyg_base
    d = getattr(pyg_base, c['cls'])({k: untag(x) for k, x in c['items'] or []})
    k, r = outcome(d.relabel, *relabel_args(c['form']), **{a: b for a, b in c['kw'] or []})
    if k == 'exc':
        out = ['exc', r]
    elif isinstance(r, dict):
        out = ['ok', {'cls': type(r).__name__, 'items': [[str(n), tag(x)] for n, x in dict.items(r)]}]
    else:
        out = ['other', type(r).__name__]
    return {'out': out, 'after': [[str(n), tag(x)] for n, x in dict.items(d)]}


def run_dict_invert(c):
    from pyg_base import dict_invert
    ids = IdMap()
    d = {k: untag(x, ids) for k, x in c['items'] or []}
    k, r = outcome(dict_invert, d)
    if k == 'exc':
        out, cls = ['exc', r], ''
    else:
        out, cls = ['ok', [[tag(v, ids), [str(n) for n in ks]] for v, ks in dict.items(r)]], type(r).__name__
    return {'out': out, 'cls': cls, 'after': [[n, tag(x, ids)] for n, x in d.items()]}


def build_input(inp, ids, keep):
    sp, xs = inp['sp'], [untag(x, ids) for x in inp['xs'] or []]
    if sp == 'none':
        return None
    if sp in ('scalar', 'str'):
        return xs[0]
    if sp == 'set':
        return set(xs)
    if sp == 'dict':
        return {'k%d' % i: x for i, x in enumerate(xs)}
    if sp == 'gen':
        return (x for x in xs)
    if sp == 'array':
        return np.array(xs)
    if sp == 'list':
        return xs
    if sp == 'tuple':
        return tuple(xs)
    if sp == 'tuple1list':
        return (xs,)
    if sp == 'range':
        return range(xs[0], xs[-1] + 1) if xs else range(0)
    if sp == 'keys':
        h = dict.fromkeys(xs); keep.append(h)
        return h.keys()
    if sp == 'values':
        h = dict(enumerate(xs)); keep.append(h)
        return h.values()
    if sp == 'zip':
        n = len(xs[0]) if xs else 2
        return zip(*[[t[j] for t in xs] for j in range(n)])
    raise ValueError(sp)


def enc_input(py, inp, ids):
    """the caller's object after the call, in the shape it was given in (consumable ones are not looked at)"""
    sp = inp['sp']
    if sp in ('gen', 'zip', 'none', 'scalar', 'str'):
        return inp
    if sp == 'tuple1list':
        xs = py[0] if isinstance(py, tuple) and len(py) == 1 else ['?']
    elif sp == 'dict':
        xs = list(py.values())
    elif sp == 'set':
        return inp if len(py) == len(inp['xs'] or []) else {'sp': sp, 'xs': [tag(x, ids) for x in py]}
    else:
        xs = list(py)
    return {'sp': sp, 'xs': [tag(x, ids) for x in xs]}


def enc_elt(x, py, ids):
    if x is py and py is not None and not isinstance(py, (list, tuple)):
        return ['self', 0]
    return tag(x, ids)


def run_as_list(c):
    from pyg_base import as_list, as_tuple, first, last, passthru
    from pyg_base._as_list import unique
    inp = dict(c['inp']); inp['xs'] = list(inp['xs'] or [])
    ids, keep = IdMap(), []
    o = {}
    flag = {'none': True} if c['none'] else {}
    after = inp
    for name, f, kw in (('lst', as_list, flag), ('tup', as_tuple, flag), ('first', first, {}), ('last', last, {}), ('unique', unique, {}), ('passthru', passthru, {})):
        py = build_input(inp, ids, keep)
        k, r = outcome(f, py, **kw)
        if name in ('lst', 'tup'):
            if k == 'exc' or type(r) is not (list if name == 'lst' else tuple):
                o[name] = {'cls': '!' + (r if k == 'exc' else type(r).__name__), 'items': []}
            else:
                o[name] = {'cls': type(r).__name__, 'items': [enc_elt(x, py, ids) for x in r]}
        elif name == 'passthru':
            o[name] = 'same' if k == 'val' and r is py else 'other'
        else:
            o[name] = ['exc', r] if k == 'exc' else enc_elt(r, py, ids)
        a = enc_input(py, inp, ids)
        if a != inp:
            after = a
    o['after'] = after
    return o


def build_tree(nd):
    import pyg_base
    t = nd['t']
    if t == 's':
        return nd['s']
    if t == 'i':
        return nd['n']
    if t == 'l':
        return [build_tree(k[1]) for k in nd['kids'] or []]
    d = {k[0]: build_tree(k[1]) for k in nd['kids'] or []}
    return d if nd['cls'] == 'dict' else getattr(pyg_base, nd['cls'])(d)


def run_tree_repr(c):
    from pyg_base import tree_repr
    k, r = outcome(tree_repr, build_tree(c['tree']), c['offset'])
    if k == 'exc' or not isinstance(r, str):
        return [{'ind': -1, 'txt': r if k == 'exc' else type(r).__name__}]
    return [{'ind': len(l) - len(l.lstrip(' ')), 'txt': l.lstrip(' ')} for l in r.split('\n')]


def run_getitem(c):
    from pyg_base import getitem
    ids = IdMap()
    cont = untag(c['c'], ids)
    k, r = outcome(getitem, cont, untag(c['k'], ids), *[untag(x, ids) for x in c['d'] or []])
    return {'out': ['exc', r] if k == 'exc' else tag(r, ids), 'after': tag(cont, ids)}


# ---------------------------------------------------------------------------------------------------------
# AccessSig
# ---------------------------------------------------------------------------------------------------------
_FUNCS = {}


def make_function(sig):
    """the function of a signature: it returns its binding (parameters in order, *args as 'args', **kwargs as 'kw')"""
    key = repr(sorted(sig.items()))
    if key in _FUNCS:
        return _FUNCS[key]
    pos, kwonly = list(sig['pos'] or []), list(sig['kwonly'] or [])
    nreq = len(pos) - sig['ndef']
    params = [n if i < nreq else "%s='d%s'" % (n, n) for i, n in enumerate(pos)]
    names = list(pos)
    if sig['varargs']:
        params.append('*args'); names.append('args')
    elif kwonly:
        params.append('*')
    for n, d in zip(kwonly, sig['kwdef'] or []):
        params.append("%s='d%s'" % (n, n) if d else n); names.append(n)
    if sig['varkw']:
        params.append('**kw'); names.append('kw')
    src = 'def f(%s):\n    return [%s]\n' % (', '.join(params), ', '.join('(%r, %s)' % (n, n) for n in names))
    ns = {}
    exec(src, ns)
    _FUNCS[key] = ns['f']
    return ns['f']


def enc_binding(kind, r):
    if kind == 'exc':
        return ['exc', r]
    return ['ok', [[n, tag(x)] for n, x in r]]


def enc_spec(spec):
    return {'args': list(spec.args), 'varargs': spec.varargs or '', 'varkw': spec.varkw or '',
            'defaults': [tag(x) for x in (spec.defaults or ())], 'kwonly': list(spec.kwonlyargs or []),
            'kwdefaults': [[k, tag(v)] for k, v in sorted((spec.kwonlydefaults or {}).items())]}


def _target(c):
    f = make_function(c['sig'])
    pre = c.get('pre')
    if pre and pre['on']:
        f = functools.partial(f, *[untag(x) for x in pre['pos'] or []], **{n: untag(x) for n, x in pre['kw'] or []})
    return f


def run_sig(area, c):
    import pyg_base._inspect as I
    o = {}
    if area in ('defaults', 'defaults_partial'):
        k, r = outcome(I.argspec_defaults, _target(c))
        o['out'] = ['exc', r] if k == 'exc' else ['ok', sorted([str(n), tag(x)] for n, x in r.items())]
    elif area == 'required':
        k, r = outcome(I.argspec_required, _target(c))
        o['out'] = ['exc', r] if k == 'exc' else ['ok', [str(n) for n in r]]
    elif area == 'getargs':
        k, r = outcome(I.getargs, _target(c), c['n'])
        o['out'] = ['exc', r] if k == 'exc' else ['ok', [str(n) for n in r]]
    elif area in ('add', 'update'):
        spec = I.getargspec(_target(c))
        if area == 'add':
            k, r = outcome(I.argspec_add, spec, **{n: untag(x) for n, x in c['upd'] or []})
        else:
            f, x = c['f']
            x = x or []
            val = {'args': lambda: list(x), 'defaults': lambda: tuple(untag(v) for v in x), 'varargs': lambda: x or None,
                   'varkw': lambda: x or None, 'kwonly': lambda: list(x)}[f]()
            k, r = outcome(I.argspec_update, spec, **{'kwonlyargs' if f == 'kwonly' else f: val})
        o['out'] = ['exc', r] if k == 'exc' else ['ok', enc_spec(r)]
        o['cls'] = type(r).__name__ if k == 'val' else ''
        o['after'] = enc_spec(spec)
    elif area == 'k2a':
        args = tuple(untag(x) for x in c['call']['pos'] or [])
        kwargs = {n: untag(x) for n, x in c['call']['kw'] or []}
        k, r = outcome(I.kwargs2args, _target(c), args, kwargs)
        if k == 'exc':
            o['out'] = ['exc', r]
        else:
            a2, k2 = r
            o['out'] = ['ok', {'pos': [tag(x) for x in a2], 'kw': sorted([str(n), tag(x)] for n, x in k2.items())}]
        o['after'] = sorted([n, tag(x)] for n, x in kwargs.items())
    elif area == 'partialize':
        k, r = outcome(I.partialize, _target(c), *[untag(x) for x in c['args'] or []], **{n: untag(x) for n, x in c['kwargs'] or []})
        if k == 'exc':
            o['ispartial'], o['out'] = 'F', ['exc', r]
        else:
            o['ispartial'] = 'T' if isinstance(r, functools.partial) else 'F'
            pr = c['probe']
            o['out'] = enc_binding(*outcome(r, *[untag(x) for x in pr['pos'] or []], **{n: untag(x) for n, x in pr['kw'] or []}))
    else:
        raise ValueError(area)
    return o
