"""Rendering and projection for the timeseries properties C03 / C08 (spec/Series.tla).

build():  abstract object (JSON as printed by TLC / drawn by the drivers) -> pandas / numpy / Python object
proj():   what came back from pyg_base -> abstract object
Nothing here knows what the right answer is: time k <-> 2000-01-01 + k days, a cell is
["nan",0] | ["f",[p,q]] (exact, lowest terms) | ["b",0|1] | ["inf",+-1]; see Series.tla for the kinds.
"""
import math
import numpy as np
import pandas as pd

BASE = pd.Timestamp('2000-01-01')
LIMIT = 2 ** 31 - 1
COLU = ["a", "b", "c", "d", "e", "p", "q", "r"]          # = ColU of Series.tla (ascending)


# ---- cells ------------------------------------------------------------------------------------
def cell(v):
    if isinstance(v, (bool, np.bool_)):
        return ["b", 1 if v else 0]
    if isinstance(v, (int, np.integer)):
        v = int(v)
        if abs(v) > LIMIT:
            return ["big", str(v)]
        return ["f", [v, 1]]
    if isinstance(v, (float, np.floating)):
        v = float(v)
        if math.isnan(v):
            return ["nan", 0]
        if math.isinf(v):
            return ["inf", 1 if v > 0 else -1]
        p, q = v.as_integer_ratio()
        if abs(p) > LIMIT or q > LIMIT:
            return ["big", repr(v)]
        return ["f", [p, q]]
    return ["obj", type(v).__name__]


def uncell(c):
    if c[0] == "nan":
        return float('nan')
    if c[0] == "f":
        return c[1][0] / c[1][1]
    if c[0] == "b":
        return bool(c[1])
    raise ValueError(c)


def day(k):
    return BASE + pd.Timedelta(days=int(k))


def index_of(ks):
    return pd.DatetimeIndex([day(k) for k in ks])


# ---- leaves that are not timeseries: one Python object per identity -------------------------------
def _leaf_objects():
    objs = [None, 'a string', 1000003, 2.5, '', 7000001, float('nan'), 'x y', 0.0, 123457]
    return objs


class Registry(object):
    """identity -> object for the non-timeseries leaves of one observation; the objects are created
    afresh for every observation so that `is` means: this very object came back"""
    def __init__(self):
        base = _leaf_objects()
        self.objs = {0: None}
        for i, o in enumerate(base):
            if i == 0:
                continue
            if isinstance(o, str):
                o = ''.join(list(o))            # a new str object
            elif isinstance(o, int):
                o = int(str(o))
            elif isinstance(o, float):
                o = float(repr(o))
            self.objs[i] = o

    def obj(self, n):
        return self.objs[n]

    def ident(self, o):
        for n, x in self.objs.items():
            if o is x:
                return n
        return None


NLEAVES = len(_leaf_objects())


# ---- abstract -> concrete ---------------------------------------------------------------------------
def build(x, reg, rng=None, ints=False, int_series=False):
    k = x["k"]
    if k == "s":
        vals = [uncell(c) for c in x["v"]]
        if int_series and rng is not None and vals and all(v == v and v == int(v) for v in vals) and rng.random() < 0.5:
            return pd.Series(np.array(vals, dtype='int64'), index=index_of(x["t"]))      # an integer series holds the same values
        return pd.Series(np.array(vals, dtype=float), index=index_of(x["t"]))
    if k == "f":
        cols = list(zip(x["c"], x["v"]))
        if rng is not None:
            cols = rng.sample(cols, len(cols))      # the physical column order is not part of the abstract frame
        idx = index_of(x["t"])
        if not cols:
            return pd.DataFrame(index=idx)
        return pd.DataFrame({c: np.array([uncell(v) for v in col], dtype=float) for c, col in cols}, index=idx)
    if k == "a":
        return np.array([uncell(c) for c in x["v"]], dtype=float)
    if k == "c":
        v = uncell(x["v"])
        if isinstance(v, float) and v == v and v == int(v) and (ints or (rng is not None and rng.random() < 0.5)):
            return int(v)
        return v
    if k == "x":
        return reg.obj(x["id"])
    if k == "l":
        return [build(i, reg, rng, ints, int_series) for i in x["items"]]
    if k == "t":
        return tuple(build(i, reg, rng, ints, int_series) for i in x["items"])
    if k == "d":
        return {key: build(i, reg, rng, ints, int_series) for key, i in zip(x["keys"], x["items"])}
    raise ValueError(x)


# ---- concrete -> abstract ---------------------------------------------------------------------------
def _times(index):
    if not isinstance(index, pd.DatetimeIndex):
        return None
    ks = []
    for t in index:
        d = t - BASE
        if d != pd.Timedelta(days=d.days):
            return None
        ks.append(int(d.days))
    return ks


def proj(o, reg=None):
    if reg is not None:
        n = reg.ident(o)
        if n is not None:
            return {"k": "x", "id": n}
    if isinstance(o, pd.Series):
        if len(o) == 0:
            return {"k": "s", "t": [], "v": []}
        ks = _times(o.index)
        if ks is None:
            if len(o) and all(isinstance(c, str) for c in o.index):   # one value per column name
                order = sorted(range(len(o)), key=lambda j: o.index[j])
                return {"k": "bycol", "c": [o.index[j] for j in order], "v": [cell(o.iloc[j]) for j in order]}
            return {"k": "o", "ty": "Series[%s]" % type(o.index).__name__}
        order = sorted(range(len(ks)), key=lambda i: ks[i])          # rows by time (stable)
        vals = list(o.values)
        return {"k": "s", "t": [ks[i] for i in order], "v": [cell(vals[i]) for i in order]}
    if isinstance(o, pd.DataFrame):
        ks = _times(o.index)
        if ks is None:
            return {"k": "o", "ty": "DataFrame[%s]" % type(o.index).__name__}
        order = sorted(range(len(ks)), key=lambda i: ks[i])
        names = [c if isinstance(c, str) else 'not-a-name:%s' % (c,) for c in o.columns]
        cols = sorted(range(len(names)), key=lambda j: names[j])      # columns by name: their order is no part of the frame
        return {"k": "f", "t": [ks[i] for i in order], "c": [names[j] for j in cols],
                "v": [[cell(o.iloc[i, j]) for i in order] for j in cols]}
    if isinstance(o, np.ndarray):
        if o.ndim == 1:
            return {"k": "a", "v": [cell(v) for v in o]}
        return {"k": "o", "ty": "ndarray%dd" % o.ndim}
    if isinstance(o, list):
        return {"k": "l", "items": [proj(i, reg) for i in o]}
    if isinstance(o, tuple):
        return {"k": "t", "items": [proj(i, reg) for i in o]}
    if isinstance(o, dict):
        return {"k": "d", "keys": [str(key) for key in o.keys()], "items": [proj(i, reg) for i in o.values()]}
    if isinstance(o, (bool, np.bool_, int, np.integer, float, np.floating)):
        c = cell(o)
        if c[0] == "nan" and reg is not None:
            return {"k": "nanleaf"}
        return {"k": "c", "v": c}
    return {"k": "o", "ty": type(o).__name__}


def outcome(f):
    """run f(); the encoded outcome (value or exception class) and the raw result"""
    try:
        return None, f()
    except Exception as e:
        return {"kind": "exc", "cls": type(e).__name__, "msg": str(e)[:120]}, None


# ---- canonical forms applied to BOTH sides of an == comparison ------------------------------------------
def norm(x):
    """dict members by key (a dict's order is not part of it)"""
    if isinstance(x, dict) and x.get("k") == "d":
        pairs = sorted(zip(x["keys"], x["items"]), key=lambda kv: kv[0])
        return {"k": "d", "keys": [k for k, _ in pairs], "items": [norm(i) for _, i in pairs]}
    if isinstance(x, dict) and x.get("k") in ("l", "t"):
        return {"k": x["k"], "items": [norm(i) for i in x["items"]]}
    return x


def collapse(x):
    """one-column frame -> series (PseudoSeries of Series.tla); containers recursively"""
    if isinstance(x, dict) and x.get("k") in ("l", "t", "d"):
        y = dict(x)
        y["items"] = [collapse(i) for i in x["items"]]
        return y
    if isinstance(x, dict) and x.get("k") == "f" and len(x["c"]) == 1:
        return {"k": "s", "t": x["t"], "v": x["v"][0]}
    return x


def leaves(x):
    if x.get("k") in ("l", "t", "d"):
        out = []
        for i in x["items"]:
            out += leaves(i)
        return out
    return [x]


def nested_multi(x, top=True):
    """some container below the top level holds two or more members (a stable, matchable feature of a case)"""
    if x.get("k") in ("l", "t", "d"):
        if not top and len(x["items"]) >= 2:
            return True
        return any(nested_multi(i, False) for i in x["items"])
    return False


# ---- C03: dict containers with a class and an observable key order; frames with a chosen physical column order ----
# (added for C03; nothing above is changed.  build_c / proj_c are build / proj for trees whose dict nodes are
#  {"k": "d", "cls": "dict" | "odict" | "Dict" | "dictattr", "keys": [in insertion order], "items": [..]}.)
def _dict_classes():
    from collections import OrderedDict
    import pyg_base as pg
    return {"dict": dict, "odict": OrderedDict, "Dict": pg.Dict, "dictattr": pg.dictattr}


def build_c(x, reg, rng=None, int_series=False, colorder=0):
    """as build(); dicts are built key by key in the listed order into a container of the listed class; without an rng
    the physical column order of a frame is the listed one (colorder even) or its reverse (colorder odd)"""
    k = x["k"]
    if k == "d":
        d = _dict_classes()[x.get("cls", "dict")]()
        for j, (key, i) in enumerate(zip(x["keys"], x["items"])):
            d[key] = build_c(i, reg, rng, int_series, colorder + 2 * j)
        return d
    if k == "l":        # (colorder + 2 j: the members of one collection get different array dtypes)
        return [build_c(i, reg, rng, int_series, colorder + 2 * j) for j, i in enumerate(x["items"])]
    if k == "t":
        return tuple(build_c(i, reg, rng, int_series, colorder + 2 * j) for j, i in enumerate(x["items"]))
    if k == "a":
        return build_array(x, colorder)
    if k == "f" and rng is None and colorder % 2 == 1 and len(x["c"]) > 1:
        cols = list(zip(x["c"], x["v"]))[::-1]
        return pd.DataFrame({c: np.array([uncell(v) for v in col], dtype=float) for c, col in cols}, index=index_of(x["t"]))
    return build(x, reg, rng, int_series=int_series)


def array_dtypes(x):
    """the numpy dtypes in which the abstract array x can be rendered without changing a value: a boolean array if its
    cells are booleans; float64 / float32 always (the cells are small integers and halves); integer dtypes when every
    cell is a finite integer"""
    cells = x["v"]
    if cells and all(c[0] == "b" for c in cells):
        return ['bool']
    out = ['float64', 'float32']
    if all(c[0] == "f" and c[1][1] == 1 for c in cells):
        out += ['int64', 'int32']
    return out


def build_array(x, pick=0):
    """the dtype is a matter of rendering (no part of the abstract array): the pick-th admissible one"""
    ds = array_dtypes(x)
    return np.array([uncell(c) for c in x["v"]], dtype=ds[(pick // 2) % len(ds)])


def dict_class(o):
    """the name of the class of a dict container (exact type, not isinstance: a subclass is another class)"""
    for name, cls in _dict_classes().items():
        if type(o) is cls:
            return name
    return 'other:%s' % type(o).__name__


def proj_c(o, reg=None):
    """as proj(); a dict is projected with its class and its keys in the order of iteration"""
    if reg is not None and reg.ident(o) is not None:
        return proj(o, reg)
    if isinstance(o, dict):
        return {"k": "d", "cls": dict_class(o), "keys": [str(key) for key in o.keys()], "items": [proj_c(i, reg) for i in o.values()]}
    if isinstance(o, list):
        return {"k": "l", "items": [proj_c(i, reg) for i in o]}
    if isinstance(o, tuple):
        return {"k": "t", "items": [proj_c(i, reg) for i in o]}
    return proj(o, reg)
