#!/venv/bin/python
"""Prints the markdown table of seeded changes (DESIGN.md section 0.5) from seeded/*/meta.json and seeded/HISTORY.json."""
import json, glob, os, re
hist = json.load(open('/verif/seeded/HISTORY.json'))
rows = []
for d in sorted(glob.glob('/verif/seeded/C*-*'), key=lambda p: (p.split('/')[-1].split('-')[0], int(p.split('-')[-1]))):
    m = json.load(open(os.path.join(d, 'meta.json')))
    note = re.sub(r'[#*`|\n]+', ' ', m.get('needs_to_manifest', '')).strip()
    note = re.sub(r'\s+', ' ', note)[:170]
    cr = m.get('check_result', {})
    clauses = sorted({re.sub(r'.*clause=(\S+).*', r'\1', s) for s in cr.get('summary', []) if 'clause=' in s})
    first = 'caught' if hist.get(m['id'], '').startswith('caught') else 'missed, then strengthened'
    rows.append('| %s | %s | %s | exit %s %s |' % (m['id'], note, first, cr.get('exit'), ', '.join(clauses)[:90]))
print('| id | change (from the seeding agent\'s notes) | first run | now |\n|---|---|---|---|')
print('\n'.join(rows))
