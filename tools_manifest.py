#!/venv/bin/python
"""Regenerates MANIFEST.json from the table below (kept valid at all times)."""
import json, os
ROOT = os.path.dirname(os.path.abspath(__file__))
TITLES = {json.loads(l)['id']: json.loads(l)['title'] for l in open(os.path.join(ROOT, 'properties.jsonl'))}

CLAIMED = {
    # id: (design section, technique, level text, level note)
    'C06': ('4 C06', 'TLC model checking of spec/Table.tla (MC_Inc) + replay of every TLC-enumerated (table, condition) into dictable.inc/exc/find_ (S2C) + TLC validation of recorded calls against Trace_Inc (C2S)',
            'Exhaustive within small scope on the specification (mechanism = law, partition, idempotence), every enumerated case replayed into the real code with plain equality, random larger tables validated by TLC against the same operators.',
            'Trusted: TLC, the tag/untag abstraction in harness/enc.py, regexes specified extensionally on a fixed string universe.'),
    'C07': ('4 C07', 'TLC model checking of the documented comparison mechanism against the preorder axioms (MC_Order) + TLC-enumerated lists/tables replayed into sort / dictable.sort + the full cmp matrix and random sorts recorded from the code, validated by the TLA+ trace specification Trace_Order (axioms over all pairs and triples of the observed matrix)',
            'Axioms (total, antisymmetric, transitive, pinned entries) checked by TLC on every pair/triple of a ~95-value concrete universe as observed from the real cmp; sorting results judged by TLC against the real cmp (permutation, non-decreasing, lexicographic by key columns, stable, idempotent, explicit value orders recomputed exactly).',
            'Trusted: TLC, harness/enc.py. The order of strings is given extensionally on a fixed universe; cross-type ranking is deliberately not pinned.'),
    'C02': ('4 C02', 'TLC model checking of the sort-merge mechanism (MergeJoin: refinement of the law-level join/anti-join and termination under fairness) and of the law level (MC_Join) + TLC-enumerated key tables decorated and replayed through join, *, xor, / under a CPU-time watchdog, every call validated by the TLA+ trace specification Trace_Join (bag equality with the relational join)',
            'The two-cursor merge is proved (within 2 rows a side over 8 key values incl. two NaN identities) to terminate and to pair exactly the key-equal rows; every real call (thousands of enumerated and random operand pairs x spellings x modes) is judged by TLC against the law-level definition as a multiset, operands compared before/after, non-termination detected by watchdog.',
            'Trusted: TLC, harness/enc.py, the 3 s CPU watchdog as a termination oracle. xor without key columns returns x (named deviation XorNoKey).'),
    'C11': ('4 C11', 'TLC model checking that the constructive regrouping (stable sort by keys + runs) satisfies the relational verdicts (MC_Regroup) + TLC-enumerated tables x key choices replayed through listby/unlist, groupby/ungroup, pivot/unpivot + random tables, every call chain validated by the TLA+ trace specification Trace_Regroup',
            'One row per key class with the class values in row order, sizes adding up, unlist = stable sort under the real cmp (sorted, stable, contiguous, same multiset of rows), ungroup = same multiset, pivot cells = aggregate of the matching z values / None, unpivot restoring the unique (x, y, z) rows: all judged by TLC on every observation.',
            'Trusted: TLC, harness/enc.py. Key cells compared with the key equality of C02 (a class shows one representative).'),
    'C01': ('4 C01', 'TLC model checking of the session state machine spec/Dictable.tla (heap of tables, registers, one action per public call; invariants and action properties) + replay of every TLC behaviour (exhaustive to depth 2, simulated to depth 6/10) into real dictables with the abstract state compared after the history',
            'Every call sequence TLC explores is executed on real dictable objects; all live tables are projected through column lists, len, shape, iteration, d[i][c] and d[c][i] and must equal the state of the specification, including which registers alias one object; operands of allocating calls and rejected assignments are thereby checked to be unchanged.',
            'Trusted: TLC, harness/enc.py, the replay adapter in props/c01.py (one public call per action, spellings rotate). Column order is not modelled.'),
    'C14': ('4 C14', 'TLC model checking that the law-level EqSpec is a type-strict equivalence (MC_Eq: all pairs as states, third value quantified) and of two mechanism models of eq (MC_EqMech) + every TLC-enumerated pair and in_ case realised in Python (S2C) + the full observed eq matrix over ~460 concrete values and their structural copies judged cell by cell by the TLA+ trace specification Trace_Eq (boolean, copies, symmetry, transitivity against every third value, pinned answers)',
            "Equivalence axioms are checked by TLC on every pair/triple of the observed matrix of the real eq; the answers the statement pins (copies equal, container/shape/cell mismatch unequal, agreement with == on plain values) are decided by the specification's Pin; in_ is membership over the observed matrix.",
            'Trusted: TLC, harness/x_eqval.py (realise/project of descriptors). np.datetime64 vs datetime/Timestamp of one instant and equal-cells-other-dtype carriers are left unpinned (named deviations).'),
    'C20': ('4 C20', 'TLC model checking of the keyed-join laws and of the evaluation state machine Start/Keep/Call/Finish (MC_Perdictable, 15 invariants, mechanism = law) + every TLC-enumerated configuration replayed through perdictable(...) and join(...) with a counting function (S2C, outcome and bag of calls compared with ==) + random larger configurations and chained calls validated by the TLA+ trace specification Trace_Perdictable',
            'Key set of the join (inner, outer for defaults, union when all default), row values, sort by key, values kept for cached-and-past rows, exactly one call per other row: checked exhaustively on small configurations in TLC and on every replayed / recorded real call.',
            'Trusted: TLC, the rendering of abstract configurations into dictables in props/c20.py; f is observed by handing the library a recording function. Named deviations EmptyJoin, KeyColumnOrder, ScalarJoin.'),
    'C04': ('4 C04', 'TLC model checking of the calendar arithmetic (MC_Civil, all 146 097 days) and of the spelling laws Denote/Spell, dialect rule, ymd and overflow (MC_Dates) + TLC-printed spelling classes with expected instants replayed into dt/ymd in every rendering (S2C) + recorded dt/ymd/dt2str outcomes for thousands of days x 45 spelling classes x renderings and the overflow grid validated day by day by the TLA+ trace specification Trace_Dt',
            'What every spelling form denotes is defined in TLA+ on top of an independently model-checked civil calendar; every recorded call of the real dt is judged against it, including cross-dialect rejection and month/day overflow.',
            'Trusted: TLC, the rendering of forms into concrete arguments in props/c04.py, run-length packing of identical outcomes. Times of day are sampled. Relative spellings, time zones and 2-digit years are excluded.'),
    'C18': ('4 C18', 'TLC model checking of argument binding, the wrapper heap (Wrap/Call/CallCached session machine with a pointer-heap mechanism model refining the law) and the memo machine (MC_Decorators) + every TLC-printed binding case, wrap history and memo call sequence replayed on real decorators with == (S2C) + random binding observations, mixed wrap/call histories and memo sequences folded by the TLA+ trace specification Trace_Decorators (C2S)',
            "Python's binding rules, the normal form of wrapper chains, 'existing objects never change' (action property OnlyNewObject), fallback-iff-raises, exactly-undeclared keywords dropped and once-per-key evaluation are stated in TLA+; older objects are called again after newer ones were built, in every history TLC explores (<= 4-5 wraps of 7 kinds).",
            'Trusted: TLC, exec-generated base functions returning their bindings, the projection of wrapper chains in props/c18.py. Two recorded known findings (memo carried as a wrapper parameter; list = tuple cache keys). try_nan/true/false/list, keyword-only parameters excluded.'),
    'C09': ('4 C09', 'TLC model checking of the business-day closed form against unit steps and counting, fixed units, month arithmetic and tenor folding (MC_Bump, 22 invariants) + every TLC-printed (day, n, unit/int/timedelta, intraday) case and 179 compound tenors replayed through dt_bump in several spellings (S2C) + the real dt_bump on every midnight of the scanned years (thorough: the whole 400-year cycle) x n in -60..60 x 9 unit letters, grouped by the abstraction the specification factors through and validated group by group with a concrete witness by the TLA+ trace specification Trace_Bump (C2S)',
            "What dt_bump denotes is defined on instants <<ordinal, second, microsecond>> over the model-checked civil calendar; the code's closed formula is a mechanism checked against unit stepping in TLC; all laws of the statement are invariants; every real call is judged against the law.",
            'Trusted: TLC, the grouping function of bulk observations (stated in evidence; MC proves the specification factors through it), rendering of tenors. Month units at midnight only; dt(bump) relative to today excluded.'),
    'C10': ('4 C10', 'TLC model checking of the drange state machine (Single/RejectBump/Step/Finish, one Step per element; 14 invariants and termination as liveness under weak fairness, no state constraint) (MC_Drange) + every TLC-printed case replayed through drange and Calendar.drange under a CPU-time watchdog (S2C) + random long-span calls validated by the TLA+ trace specification Trace_Drange (C2S)',
            "drange is specified as a machine that iterates the bump of Bump.tla; strictly monotone, starts at t0, within bounds, int = timedelta = 'nd', 'kb' = every k-th weekday, away => ValueError, t0 = t1 => [t0] are invariants; real calls must produce an outcome the machine accepts and must terminate.",
            'Trusted: TLC, the CPU-time watchdog (40 s, correct calls take milliseconds) and a 3 GB address-space cap as the termination oracle. Zero bumps and month bumps with a time of day excluded.'),
    'C12': ('4 C12', 'TLC model checking of the fill laws over every NaN mask of small vectors/frames x method lists x limits (MC_Fill, 15 invariants incl. mechanism = law) + every TLC-printed case replayed on ndarray 1-d/2-d, Series and DataFrame with == (S2C) + random frames and multi-outcome cases validated by the TLA+ trace specification Trace_Fill, which also enforces array result = pandas values and argument unchanged (C2S)',
            'Per method the set of admitted results is defined in TLA+ on position-coded cells, so provenance of every filled value is visible; composition of method lists, limits, nona/fnna/ffill_na/ffill_0 are judged on every carrier.',
            'Trusted: TLC, encoding of frames as integer cells (NaN = -1). Named deviations ConstLimit, NoValidObservation, ArrayIgnoresEdge. Interpolation methods, axis=1, nona(value=...) excluded.'),
    'C13': ('4 C13', 'TLC model checking of Slice (bracket pairs, unbounded sides, time-of-day bounds with the wrap rule), Stitch and Unstitch (MC_Slice, 15 invariants incl. partition and round trip) + every TLC-printed case replayed on Series and 2-column frames in three call spellings, with df_unslice and re-stitch (S2C) + random daily/intraday slices and 1-6-series stitches validated by the TLA+ trace specification Trace_Slice (C2S)',
            'Time is an integer grid (bounds twice as fine as index points); which rows survive, which series supplies which column of which timestamp, and that stitching the recovered series reproduces the frame are decided by TLC for every replayed and recorded call.',
            'Trusted: TLC, mapping of the integer grid to datetimes / datetime.time. Unsorted or duplicated indexes, symbol stitching, lb-list forms excluded.'),
    'C17': ('4 C17', 'TLC model checking of the bitemporal store state machine (ghost publication history pubs, store as bi_merge keeps it, actions Merge/MergeAgain/Read; invariants Refines, RefinesFirst, NoLeak and action properties NoLookAhead, AgainNoop) (MC_Bitemporal) + every TLC behaviour replayed on real Bi/bi_merge/bi_read with all read times compared (S2C) + random publication histories (20-60 dates, shared stamps, > 16 rows per stamp, re-merges) validated by Trace_Bitemporal, one TLC behaviour per recorded history stepping the same actions (C2S)',
            'The law AsOf is written over the ghost history alone; the mechanism (concat, stable sort, drop repeats) is proved to refine it within small bounds; no information stamped after T reaches an as-of-T read (action property); every real read is judged by the law.',
            'Trusted: TLC, mapping of small integers to datetimes and cells. Named deviation FirstPerStamp for what=0 under tied first stamps. Multi-column frames, bi_asof, existing_data excluded.'),
}
PENDING_REASON = 'check not built yet in this round (planned, see DESIGN.md section 4); not claimed until its specification and conformance harness exist'

checks = []
for pid in sorted(CLAIMED):
    sec, tech, text, note = CLAIMED[pid]
    checks.append({
        'property_id': pid,
        'quick_cmd': './check %s --tier quick' % pid,
        'thorough_cmd': './check %s --tier thorough' % pid,
        'evidence_file': 'evidence/%s.json' % pid,
        'replay_cmd_template': './check %s --replay {path}' % pid,
        'engine': 'tlc-mbt',
        'level_claimed': {'category': 'model_checking', 'text': text, 'design_ref': 'DESIGN.md ' + sec},
        'level_note': note,
        'technique': tech,
    })
man = {
    'version': 1,
    'setup_cmd': './setup.sh',
    'hooks': {'guard': 'PYG_BASE_VERIF', 'enable': 'PYG_BASE_VERIF=1 in the environment of ./check (no hook commits exist: the library is sequential and exposes its abstract state through the public API)',
              'baseline_off_cmd': 'cd /repo && env -u PYG_BASE_VERIF /venv/bin/python -m pytest -ra -q -p no:cacheprovider --timeout=900 --continue-on-collection-errors',
              'source_commits': [], 'add_only': True},
    'engines': [{'name': 'tlc-mbt', 'path': 'harness/core.py', 'serves_properties': sorted(CLAIMED),
                 'kind_free_text': 'explicit TLA+ specifications in spec/ checked by TLC; TLC-generated behaviours replayed into pyg-base (S2C); observations of pyg-base validated by TLC trace specifications (C2S)'}],
    'checks': checks,
    'not_applicable': [{'property_id': pid, 'reason': PENDING_REASON} for pid in sorted(TITLES) if pid not in CLAIMED],
    'notes': 'Exit codes of ./check: 0 held, 1 violation (VIOLATION line), 2 machinery failure. Known findings in known_findings.json.',
}
json.dump(man, open(os.path.join(ROOT, 'MANIFEST.json'), 'w'), indent=1)
print('claimed', sorted(CLAIMED))
