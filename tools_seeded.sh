#!/bin/sh
# tools_seeded.sh <seeded-dir> [tier]  - run the owning check against a seeded change.
# The patch is applied to a scratch copy of /repo's working tree (never to /repo itself), the check is
# pointed at it with VERIF_REPO_SRC, and the copy is removed.  Prints the check's summary and exit code.
set -e
d="$1"; tier="${2:-quick}"
prop=$(/venv/bin/python -c "import json,sys; print(json.load(open('$d/meta.json'))['property'])")
tmp=$(mktemp -d /tmp/seedrun.XXXXXX)
trap 'rm -rf "$tmp"' EXIT
mkdir -p "$tmp/repo"; (cd /repo && git ls-files -z | xargs -0 cp --parents -t "$tmp/repo")
(cd "$tmp/repo" && git init -q . && git apply --whitespace=nowarn "$OLDPWD/$d/patch.diff" 2>/dev/null || (cd "$tmp/repo" && patch -p1 -s < "$OLDPWD/$d/patch.diff"))
cd /verif
set +e
VERIF_REPO_SRC="$tmp/repo/src" ./check "$prop" --tier "$tier" > "$tmp/out.txt" 2>&1
rc=$?
grep -e " x clause" -e "^$prop " -e "MACHINERY" "$tmp/out.txt" | head -12
echo "seeded=$d property=$prop exit=$rc"
